#!/venv/bin/python
"""tools/try_seed.py <dir with patch.diff and demo.py> <PROP> [<PROP> ...] [--tier quick|thorough] [--no-tests]

Confirms a seeded breaking change in a scratch worktree of /repo (never in /repo itself):
  demo passes on the unchanged tree, fails with the change; the repository's tests still pass with the change;
  then runs the given checks against the changed tree (VERIF_REPO) and reports which of them raise a VIOLATION.
Prints one JSON object; exit 0 if at least one check caught the change."""
import json, os, shutil, subprocess, sys, tempfile

args = [a for a in sys.argv[1:] if not a.startswith('--')]
tier = 'quick'
if '--tier' in sys.argv:
    tier = sys.argv[sys.argv.index('--tier') + 1]
    args.remove(tier)
seed_dir, props = os.path.abspath(args[0]), args[1:]
wt = tempfile.mkdtemp(prefix='try-seed-', dir='/tmp')
os.rmdir(wt)
res = {'seed': seed_dir, 'tier': tier}
try:
    subprocess.run(['git', '-C', '/repo', 'worktree', 'add', '-q', wt, 'HEAD'], check=True)
    shutil.copy(os.path.join(seed_dir, 'demo.py'), os.path.join(wt, 'seed_demo.py'))
    def demo():
        p = subprocess.run(['/venv/bin/python', 'seed_demo.py'], cwd=wt, stdout=subprocess.PIPE, stderr=subprocess.STDOUT, text=True, timeout=600)
        return p.returncode, p.stdout[-300:]
    res['demo_original'] = demo()[0]
    ap = subprocess.run(['git', '-C', wt, 'apply', os.path.join(seed_dir, 'patch.diff')], stdout=subprocess.PIPE, stderr=subprocess.STDOUT, text=True)
    res['applies'] = ap.returncode == 0
    if not res['applies']:
        res['apply_error'] = ap.stdout[-300:]
    else:
        rc, out = demo()
        res['demo_changed'] = rc
        if '--no-tests' not in sys.argv:
            t = subprocess.run(['/venv/bin/python', '-m', 'pytest', '-q', '-p', 'no:cacheprovider', '--timeout=900'], cwd=wt,
                               stdout=subprocess.PIPE, stderr=subprocess.STDOUT, text=True)
            res['tests'] = t.stdout.strip().splitlines()[-1]
        res['checks'] = {}
        for prop in props:
            env = dict(os.environ, VERIF_REPO=wt, VERIF_TRIAL_DIR=wt + '-trial')
            c = subprocess.run(['./check', prop, '--tier', tier], cwd='/verif', env=env, stdout=subprocess.PIPE, stderr=subprocess.STDOUT, text=True)
            viol = [l for l in c.stdout.splitlines() if l.startswith('VIOLATION') or l.startswith('  signature')]
            res['checks'][prop] = {'exit': c.returncode, 'first': viol[:2]}
finally:
    subprocess.run(['git', '-C', '/repo', 'worktree', 'remove', '--force', wt])
    shutil.rmtree(wt + '-trial', ignore_errors=True)
    # restore evidence files overwritten by runs against the changed tree is the caller's business (git checkout evidence/)
print(json.dumps(res, indent=1))
sys.exit(0 if any(v['exit'] == 1 for v in res.get('checks', {}).values()) else 3)
