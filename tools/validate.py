#!/usr/bin/env python3-vt
"""Validate MANIFEST.json and evidence/*.json against the schemas in /root/.vp."""
import glob, json, os, sys
import jsonschema
ROOT = os.path.dirname(os.path.dirname(os.path.abspath(__file__)))
ok = True
m = json.load(open(os.path.join(ROOT, 'MANIFEST.json')))
jsonschema.validate(m, json.load(open('/root/.vp/MANIFEST.schema.json')))
es = json.load(open('/root/.vp/EVIDENCE.schema.json'))
levels = {c['property_id']: c['level_claimed']['category'] for c in m['checks']}
for c in m['checks']:
    p = os.path.join(ROOT, c['evidence_file'])
    if not os.path.exists(p):
        print('missing evidence', p); ok = False; continue
    e = json.load(open(p))
    try:
        jsonschema.validate(e, es)
    except jsonschema.ValidationError as ex:
        print('INVALID', p, ex.message); ok = False
    if e['level'] != levels[c['property_id']]:
        print('LEVEL MISMATCH', p, e['level'], levels[c['property_id']]); ok = False
print('validated %d checks: %s' % (len(m['checks']), 'ok' if ok else 'PROBLEMS'))
sys.exit(0 if ok else 1)
