#!/usr/bin/env python3-vt
"""Regenerate /verif/MANIFEST.json from harness/registry.py."""
import json, os, sys
ROOT = os.path.dirname(os.path.dirname(os.path.abspath(__file__)))
sys.path.insert(0, ROOT)
from harness import registry

checks = []
for pid in registry.ALL_IDS:
    c = registry.CHECKS.get(pid)
    if not c:
        continue
    checks.append({
        'property_id': pid,
        'quick_cmd': './check %s --tier quick' % pid,
        'thorough_cmd': './check %s --tier thorough' % pid,
        'evidence_file': 'evidence/%s.json' % pid,
        'replay_cmd_template': './check %s --replay {path}' % pid,
        'engine': c.get('engine', 'tlc'),
        'level_claimed': {'category': c['category'], 'text': c['text'], 'design_ref': c['design_ref']},
        'level_note': c['note'],
        'technique': c['technique'],
    })
na = [{'property_id': pid, 'reason': getattr(registry, 'NOT_APPLICABLE', {}).get(pid, registry.NOT_YET)}
      for pid in registry.ALL_IDS if pid not in registry.CHECKS]
manifest = {
    'version': 1,
    'setup_cmd': 'true',
    'hooks': {
        'guard': 'PONYORM_PONY_VERIF',
        'enable': 'checks import /repo\'s working tree directly (pure Python, nothing to build); ./check exports PONYORM_PONY_VERIF=1; '
                  'all observation points are reached from outside the source tree (sqlite3 factory=, provider.transaction_lock wrapper, '
                  'cache dictionaries), so no source hook commits exist',
        'baseline_off_cmd': 'cd /repo && env -u PONYORM_PONY_VERIF /venv/bin/python -m pytest -ra -q -p no:cacheprovider --timeout=900 --continue-on-collection-errors',
        'source_commits': [],
        'add_only': True,
    },
    'engines': [
        {'name': 'tlc', 'path': 'harness/tlc.py', 'serves_properties': sorted(registry.CHECKS),
         'kind_free_text': 'TLC 1.8 on the TLA+ specification suite in spec/: exhaustive model checking, constant-level evaluation of '
                           'semantics modules (case tables / judges), -simulate and -dump behaviour export; bound to the code by replay, '
                           'trace validation and case tables (DESIGN.md section 2)'},
    ],
    'checks': checks,
    'notes': 'All checks: cwd=/verif, ./check <ID> --tier quick|thorough; exit 0 ok, 1 + VIOLATION line, 2 machinery failure. '
             'Known findings: known_findings.json. Seeded breaking changes: seeded/<id>/.',
    'not_applicable': na,
}
with open(os.path.join(ROOT, 'MANIFEST.json'), 'w') as f:
    json.dump(manifest, f, indent=1)
    f.write('\n')
import jsonschema
jsonschema.validate(manifest, json.load(open('/root/.vp/MANIFEST.schema.json')))
print('MANIFEST.json: %d checks, %d not claimed' % (len(checks), len(na)))
