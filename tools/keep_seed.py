#!/venv/bin/python
"""tools/keep_seed.py <seed dir> <PROP> <name> <trial.json> ["needs text"]
Stores a confirmed seeded change under /verif/seeded/<PROP>/<name>/ (patch.diff, demo.py, notes.md, meta.json)."""
import json, os, shutil, sys
seed, prop, name, trial = sys.argv[1:5]
needs = sys.argv[5] if len(sys.argv) > 5 else ''
dst = os.path.join('/verif/seeded', prop, name)
os.makedirs(dst, exist_ok=True)
for f in ('patch.diff', 'demo.py', 'notes.md'):
    if os.path.exists(os.path.join(seed, f)):
        shutil.copy(os.path.join(seed, f), os.path.join(dst, f))
t = json.load(open(trial))
notes = open(os.path.join(seed, 'notes.md')).read() if os.path.exists(os.path.join(seed, 'notes.md')) else ''
meta = {
    'property': prop,
    'what': notes.strip().split('\n')[0][:300],
    'needs_to_manifest': needs or notes,
    'confirmed': {'demo_on_unchanged_tree_exit': t.get('demo_original'), 'demo_with_change_exit': t.get('demo_changed'),
                  'repository_tests_with_change': t.get('tests', 'confirmed by the seeding run: 3874 passed (2 failed + 1 error pre-existing)'),
                  'how': 'tools/try_seed.py: scratch worktree of /repo HEAD, git apply patch.diff, demo.py, then ./check with VERIF_REPO'},
    'checks_run': {p: {'exit': v['exit'], 'caught': v['exit'] == 1, 'signature': (v['first'][1:2] or [''])[0].strip()} for p, v in t.get('checks', {}).items()},
    'tier': t.get('tier', 'quick'),
}
prev = os.path.join(dst, 'meta.json')
if os.path.exists(prev):
    old = json.load(open(prev))
    old.setdefault('history', []).append({'tier': old.get('tier'), 'checks_run': old.get('checks_run')})
    meta['history'] = old['history']
json.dump(meta, open(prev, 'w'), indent=1)
print('kept', dst, {p: v['caught'] for p, v in meta['checks_run'].items()})
