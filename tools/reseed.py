#!/venv/bin/python
"""tools/reseed.py <seeded/PROP/seedN> ... : re-run the stored seeded changes against the current machinery (quick tier, without
repeating the repository's test suite) and record the outcome in each meta.json (previous outcomes go to 'history').
The checks run per seed: the property's own check plus every check that is recorded as having caught it."""
import json, os, subprocess, sys, tempfile
for d in sys.argv[1:]:
    d = d.rstrip('/')
    meta_path = os.path.join(d, 'meta.json')
    meta = json.load(open(meta_path))
    if str(meta.get('status', '')).startswith('superseded'):
        print(d, 'superseded: skipped')
        continue
    prop = meta['property']
    checks = [prop] + [p for p, v in meta.get('checks_run', {}).items() if v.get('caught') and p != prop]
    out = tempfile.NamedTemporaryFile(suffix='.json', delete=False).name
    with open(out, 'w') as f:
        subprocess.call(['/verif/tools/try_seed.py', d] + checks + ['--no-tests'], stdout=f, stderr=subprocess.STDOUT, cwd='/verif')
    try:
        t = json.load(open(out))
    except Exception as e:
        print(d, 'trial output unreadable:', e)
        continue
    if not t.get('applies'):
        print(d, 'PATCH DOES NOT APPLY')
        continue
    meta.setdefault('history', []).append({'tier': meta.get('tier'), 'checks_run': meta.get('checks_run')})
    meta['checks_run'] = {p: {'exit': v['exit'], 'caught': v['exit'] == 1, 'signature': (v['first'][1:2] or [''])[0].strip()}
                          for p, v in t.get('checks', {}).items()}
    meta['confirmed']['demo_on_unchanged_tree_exit'] = t.get('demo_original')
    meta['confirmed']['demo_with_change_exit'] = t.get('demo_changed')
    json.dump(meta, open(meta_path, 'w'), indent=1)
    os.unlink(out)
    print(d, {p: v['caught'] for p, v in meta['checks_run'].items()}, 'demo', t.get('demo_original'), t.get('demo_changed'), flush=True)
