#!/venv/bin/python
"""Development aid: run the session replay for one property's categories on chosen shapes.
usage: tools/one_shape.py C15 o2o_opt_childcasc [quick|thorough]   (evidence and out/ go to a trial directory)"""
import os, sys, tempfile, collections
sys.path.insert(0, os.path.dirname(os.path.dirname(os.path.abspath(__file__))))
trial = tempfile.mkdtemp(prefix='one-shape-')
os.environ['VERIF_TRIAL_DIR'] = trial
os.environ.setdefault('PYTHONHASHSEED', '0')
from harness import core, session_check
prop, shapes = sys.argv[1], sys.argv[2].split(',')
tier = sys.argv[3] if len(sys.argv) > 3 else 'quick'
ctx = core.Ctx(prop, tier, int(os.environ.get('SEED', '1')), 'model_checking')
session_check.run(ctx, prop, shapes=shapes)
print('violations', len(ctx.violations), 'known', dict(ctx.known_hit), 'trial', trial)
for r in (ctx.coverage.get('per_shape') or []):
    print(r)
