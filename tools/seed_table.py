#!/venv/bin/python
"""Regenerate the table of seeded changes in DESIGN.md from seeded/*/*/meta.json."""
import glob, json, os, re
rows = []
for m in sorted(glob.glob('/verif/seeded/*/*/meta.json')):
    d = json.load(open(m))
    prop, name = m.split('/')[-3], m.split('/')[-2]
    runs = list(d.get('history', [])) + [{'tier': d.get('tier'), 'checks_run': d.get('checks_run')}]
    caught = sorted({'%s (%s)' % (p, r['tier']) for r in runs for p, v in (r.get('checks_run') or {}).items() if v.get('caught')})
    missed = sorted({'%s (%s)' % (p, r['tier']) for r in runs for p, v in (r.get('checks_run') or {}).items() if not v.get('caught')} - set(caught))
    what = d.get('what', '').replace('|', '/').replace('\n', ' ')
    what = re.sub(r'^#+\s*', '', what)[:150]
    if str(d.get('status', '')).startswith('superseded'):
        what += ' *(superseded by a later repair of pony: see meta.json)*'
    rows.append('| %s/%s | %s | %s | %s |' % (prop, name, what, ', '.join(caught) or '—', ', '.join(missed) or '—'))
table = '| seed | change | caught by | run without catching |\n|---|---|---|---|\n' + '\n'.join(rows)
p = '/verif/DESIGN.md'
s = open(p).read()
s = re.sub(r'<!-- SEED_TABLE_BEGIN -->.*?<!-- SEED_TABLE_END -->', '<!-- SEED_TABLE_BEGIN -->\n' + table + '\n<!-- SEED_TABLE_END -->', s, flags=re.S)
open(p, 'w').write(s)
print(len(rows), 'seeds')
