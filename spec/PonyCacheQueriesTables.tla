---------------------- MODULE PonyCacheQueriesTables ----------------------
(* Hands the structure of the query chains of PonyCacheQueries to the harness (harness/cachemodel_c22.py builds the
   real pony calls of a chain from it: one Python code object per `code`, applied in the order of `steps`). *)
EXTENDS PonyCacheQueries, Json, IOUtils, SequencesExt

StepOut(q) == [query |-> q, code |-> Code(q), kind |-> IF q \in ChainQueries THEN StepTable[q].kind ELSE "select",
               param |-> StepParam(q), bakes |-> StepBakes(q)]
ChainOut(q) == [query |-> q, steps |-> [i \in DOMAIN Prefixes(q) |-> StepOut(Prefixes(q)[i])], ordered |-> Ordered(q),
                baked |-> Baked(q)]

ASSUME JsonSerialize(IOEnv.OUT, [chains |-> SetToSeq({ChainOut(q) : q \in ChainQueries}), bases |-> SetToSeq(BaseQueries)])
=============================================================================
