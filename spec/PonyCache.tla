----------------------------- MODULE PonyCache -----------------------------
(***************************************************************************************************************)
(* The process-wide caches of pony under threads and under histories (properties C22 and C05).                 *)
(*                                                                                                             *)
(* What is modelled (pony/orm/core.py unless stated):                                                          *)
(*   memo.ast / memo.s2a   decompiling.ast_cache / core.string2ast_cache  (source tree per code object/string) *)
(*   memo.ext              asttranslation.extractors_cache                (tree + extractors per code key)     *)
(*   tcache                database._translator_cache : query key -> translator.  The key is built in          *)
(*                         Query.__init__ from the code key and the *types* of the parameters; the translator  *)
(*                         records in `fixed` the parameter *values* it baked into the translation             *)
(*                         (translator.fixed_param_values: string slice bounds, getattr names).                *)
(*   sqlcache              database._constructed_sql_cache : sql_key (query key + translator.vartypes +        *)
(*                         fixed_param_values) -> SQL text/adapter  (Query._construct_sql_and_arguments)       *)
(*   adaptcache            core.adapted_sql_cache : (raw statement, paramstyle) -> adapted SQL (adapt_sql)     *)
(*   results[t]            SessionCache.query_results of the session of thread t (Query._actual_fetch,         *)
(*                         Query._aggregate; cleared by SessionCache.flush / commit)                           *)
(*   view/pending/committed  the data the session must see: committed modifications followed by the session's  *)
(*                         own (possibly unflushed) modifications                                              *)
(*                                                                                                             *)
(* A query may be a *chain*: a base query followed by lambda steps (.filter / .where / .order_by, see          *)
(* PonyCacheQueries).  An execution then passes SrcGet .. TcSet once per step (variable stp): Query.__init__   *)
(* for the base, Query._process_lambda for every chained step - each decompiles its code object, looks its     *)
(* extractors up, and calls Query._get_translator with the key of the chain *up to that step*; a chained       *)
(* translator that is not cached is made from the translator in hand (the one of the previous step) by         *)
(* apply_lambda, a deep copy that keeps what the previous steps baked in.  Only the last step's translator     *)
(* reaches ScGet.  The prefixes of a chain are queries of their own and share their cache entries with it.     *)
(*                                                                                                             *)
(* One action per access of a shared dictionary (that is where the real code can be pre-empted and where the   *)
(* harness parks the real threads): Query._get_translator is SrcGet/SrcSet, ExtGet/ExtSet (the caches consulted*)
(* before it), TcGet (lookup + comparison of fixed_param_values), TcDel (`del cache[key]`), TcSet (translation *)
(* + insertion); Query._construct_sql_and_arguments is ScGet/ScSet; adapt_sql is AdGet/AdSet.                  *)
(* Deliberate deviations: thread-local computations (comparison, translation, execution on the thread's own    *)
(* connection and per-session result cache) are merged into the shared access that precedes/follows them      *)
(* (they commute with the steps of other threads); a single parameter per query; the database is only          *)
(* modified in single-thread configurations (C05 histories), threads (C22) only read.                          *)
(*                                                                                                             *)
(* The *required* behaviour is the invariants: NoSpuriousError, RightTranslator, Transparent,                  *)
(* ForeignUseRaises.  The switches DelPop / AggrFlushFirst / AdaptKeyOriginal select between what the code     *)
(* does today ("asis": FALSE) and the repaired behaviour ("fixed": TRUE).  TLC refutes the invariants on the   *)
(* asis model (the counterexamples are the known findings) and proves them on the fixed model.  KeyHasTypes,   *)
(* CompareFixed, CompareEarlier, SqlKeyHasFixed, FlushClearsResults are TRUE in both; setting one to FALSE is  *)
(* a seeded design error that TLC must refute (sanity of the invariants).                                      *)
(* `Answer` is uninterpreted: an answer is the term [tr, arg, data] - which translation produced the SQL, with *)
(* which argument, on which data.  A translation is a function of (query id, parameter type, the parameter     *)
(* value iff the query - one of the steps of the chain - bakes it in): Tr(q, p).                               *)
(***************************************************************************************************************)
EXTENDS PonyCacheQueries, Json

CONSTANTS
    NThreads,           \* threads 1 .. NThreads, each with its own db_session
    Fams,               \* names of the alphabets of executions <<query id, parameter>> (see ExecsOf below); a program
                        \* draws its executions from one of them
    SessOps,            \* subset of {"ModIns", "ModUpd", "ModM2M", "Flush", "Commit", "NewSession", "Rollback"} (see SessOpsOf)
    XUses,              \* kinds of cross-thread object use (strings), {} in history configurations
    WarmSet,            \* what the caches may have been warmed with before the threads start (subset of Execs + NoExec)
    MinLen, MaxLen,     \* length of each thread's program
    MaxExec, MaxMod,    \* at most so many executions / modifications per program
    MemoSteps,          \* TRUE: the source-tree and extractor caches are modelled as steps
    ParamStyles,        \* paramstyles of the provider to consider: subset of {"qmark", "format", "pyformat", "named"}
    DelPop,             \* FALSE (as is): del cache[key] -> KeyError when absent;  TRUE (fixed): cache.pop(key, None)
    AggrFlushFirst,     \* FALSE (as is): Query._aggregate consults query_results before flushing;  TRUE (fixed)
    AdaptKeyOriginal,   \* FALSE (as is): adapt_sql stores under the %-doubled text;  TRUE (fixed): under the original
    KeyHasTypes, CompareFixed, SqlKeyHasFixed, FlushClearsResults,   \* TRUE in the code; FALSE = seeded design error
    CompareEarlier,     \* TRUE in the code: the values a cached translator inherited from earlier steps of the chain are
                        \* compared as well;  FALSE = seeded design error: only the values its own step baked in
    Export              \* TRUE: terminal states are printed as JSON (behaviours for the harness to replay)

VARIABLES
    prog,               \* [Threads -> Seq(Op)] the program of every thread (a history when NThreads = 1)
    warm,               \* the execution the caches were warmed with (NoExec: cold start)
    style,              \* paramstyle of the database provider (constant along a behaviour)
    memo, tcache, sqlcache, adaptcache,     \* process-wide caches (partial functions)
    committed,          \* database: sequence of committed modifications
    view, pending, results,                 \* per thread: the session's data view, unflushed changes?, query_results
    pc, ip, src, tr, err,                   \* per thread: next step, index into prog, tree in use, translator in use, spurious error
    stp,                \* per thread: the step of the chain being prepared (1: the base query)
    obs,                \* per thread: sequence of [op, req, got] - required and modelled outcome of every finished operation
    sched               \* global order of the shared accesses: sequence of [t, c, o]

vars == <<prog, warm, style, memo, tcache, sqlcache, adaptcache, committed, view, pending, results, pc, ip, src, tr, err, stp, obs, sched>>
\* the invariants do not depend on the order recorded in sched: hidden in the checking runs, part of the state in export runs
CheckView == <<prog, warm, style, memo, tcache, sqlcache, adaptcache, committed, view, pending, results, pc, ip, src, tr, err, stp, obs>>

Threads == 1 .. NThreads

-----------------------------------------------------------------------------
(* Values, queries, alphabets *)
Int(v) == [t |-> "int", v |-> v]
Str(v) == [t |-> "str", v |-> v]
NoneV  == [t |-> "none", v |-> "None"]

\* query identifiers, chains, Baked, Aggregate, SrcCache: see PonyCacheQueries
Doubled(s)   == IF s = "raw_pct" THEN "raw_pct2" ELSE IF s = "raw_pct2" THEN "raw_pct4" ELSE s

NoExec == <<"none", NoneV>>

FamSlice2 == {<<"slice", Int("1")>>, <<"slice", Int("2")>>}
FamSlice3 == FamSlice2 \cup {<<"slice", Int("3")>>}
FamBaked  == FamSlice2 \cup {<<"slice", NoneV>>, <<"getattr", Str("name")>>, <<"getattr", Str("tag")>>}
FamTypes  == {<<"cmp", Int("1")>>, <<"cmp", NoneV>>, <<"cmp", Str("1")>>, <<"gt", Int("1")>>, <<"gt", Str("1")>>}
FamAggr   == {<<"count", Int("0")>>, <<"count", Int("1")>>, <<"gt", Int("0")>>, <<"gt", Int("1")>>, <<"maxdate", Int("0")>>,
              <<"sumdec", Int("0")>>}
FamM2M    == {<<"m2m", Int("1")>>, <<"m2m", Int("2")>>, <<"mcount", Int("1")>>, <<"maxdate", Int("0")>>}
FamDyn    == {<<"dyn", Int("0")>>, <<"dyn", Int("1")>>, <<"dyn", Int("2")>>}
FamStr    == {<<"strq", Int("0")>>, <<"strq", Int("1")>>, <<"raw_where", Int("0")>>, <<"raw_where", Int("1")>>, <<"raw_where", Str("1")>>}
FamRaw    == {<<"raw_pct", Int("1")>>, <<"raw_pct2", Int("1")>>, <<"raw_pct", Str("1")>>, <<"raw_where", Int("1")>>, <<"raw_where", NoneV>>}
FamMixT   == FamSlice2 \cup {<<"getattr", Str("name")>>, <<"getattr", Str("tag")>>, <<"strq", Int("0")>>, <<"raw_where", Int("0")>>}
\* the smaller alphabets of the quick tier
FamQB == {<<"slice", Int("1")>>, <<"slice", Int("2")>>, <<"getattr", Str("tag")>>}
FamQT == {<<"cmp", Int("1")>>, <<"cmp", NoneV>>, <<"cmp", Str("1")>>}
FamQA == {<<"count", Int("0")>>, <<"sumdec", Int("0")>>, <<"gt", Int("0")>>}
FamQM == {<<"m2m", Int("1")>>, <<"mcount", Int("1")>>, <<"maxdate", Int("0")>>}
FamQD == {<<"dyn", Int("0")>>, <<"dyn", Int("1")>>}
FamQS == {<<"strq", Int("0")>>, <<"strq", Int("1")>>, <<"raw_where", Int("1")>>}
\* chains (quick tier: three small alphabets; thorough: FamChain as well)
FamQC == {<<"slice.f", Int("1")>>, <<"slice.f", Int("2")>>, <<"slice", Int("2")>>, <<"getattr.o", Str("name")>>, <<"getattr.o", Str("tag")>>}
FamQK == {<<"idx.w", Int("0")>>, <<"idx.w", Int("1")>>, <<"gt.fs.o", Int("0")>>, <<"gt.fs.o", Int("1")>>, <<"gt.fs", Int("1")>>}
FamQW == {<<"slice.f.o", Int("1")>>, <<"slice.f.o", Int("2")>>, <<"slice.wp", Int("1")>>, <<"slice.wp", Int("2")>>, <<"slice.f", Int("2")>>}
FamChain == FamQC \cup FamQK \cup FamQW \cup {<<"slice.f", NoneV>>, <<"gt", Int("1")>>, <<"idx", Int("1")>>}
FamQR == {<<"raw_pct", Int("1")>>, <<"raw_pct2", Int("1")>>, <<"raw_where", Int("1")>>, <<"raw_where", NoneV>>}

ExecsOf(f) == CASE f = "QM" -> FamQM [] f = "QD" -> FamQD [] f = "M2M" -> FamM2M [] f = "Dyn" -> FamDyn [] f = "QB" -> FamQB [] f = "QT" -> FamQT [] f = "QA" -> FamQA [] f = "QS" -> FamQS [] f = "QR" -> FamQR
                []  f = "Slice2" -> FamSlice2 [] f = "Slice3" -> FamSlice3 [] f = "Baked" -> FamBaked [] f = "Types" -> FamTypes
                [] f = "Aggr" -> FamAggr [] f = "Str" -> FamStr [] f = "Raw" -> FamRaw [] f = "MixT" -> FamMixT
                [] f = "QC" -> FamQC [] f = "QK" -> FamQK [] f = "QW" -> FamQW [] f = "Chain" -> FamChain
Execs == UNION {ExecsOf(f) : f \in Fams}

WarmCold   == {NoExec}
WarmSlice9 == {NoExec, <<"slice", Int("9")>>}          \* a translator for a value no thread asks for
WarmOnly9  == {<<"slice", Int("9")>>}
WarmAny    == {NoExec} \cup {e \in Execs : e[1] \in OrmQueries}

Op(o, q, p) == [op |-> o, q |-> q, p |-> p]
OpAlphabet(A, S) == {Op("exec", e[1], e[2]) : e \in A} \cup {Op("sess", k, NoneV) : k \in S}
                    \cup {Op("xuse", k, NoneV) : k \in XUses}

Count(s, P(_)) == Cardinality({i \in DOMAIN s : P(s[i])})
IsExec(o) == o.op = "exec"
Mods == {"ModIns", "ModUpd", "ModM2M"}      \* ModM2M changes nothing but a many-to-many collection (no object to save)
IsMod(o)  == o.op = "sess" /\ o.q \in Mods
\* kinds of cross-thread use made from a db_session that has not touched the database yet (no session cache exists)
FreshUses == {"load_set_fresh", "iter_set_fresh", "load_attr_fresh", "lazy_attr_fresh", "delete_fresh"}
FreshProg(s) == s[1].op = "xuse" /\ s[1].q \in FreshUses
IsXUse(o) == o.op = "xuse"

(* A program: ends with an observable operation (a trailing session operation has no observable effect), uses an
   object of another thread only as its last operation (the error ends the thread's db_session). *)
ProgramsOver(A, S) ==
            { s \in UNION {[1 .. n -> OpAlphabet(A, S)] : n \in MinLen .. MaxLen} :
                /\ s[Len(s)].op \in {"exec", "xuse"}
                /\ \A i \in 1 .. Len(s) - 1 : ~IsXUse(s[i])
                /\ (s[Len(s)].op = "xuse" /\ s[Len(s)].q \in FreshUses) => Len(s) = 1
                /\ Count(s, IsExec) <= MaxExec
                /\ Count(s, IsMod) <= MaxMod }
\* the raw-statement families are replayed at the level of adapt_sql on providers without a database: no session operations
\* the many-to-many families modify only a many-to-many collection; the others only objects
SessOpsOf(f) == IF f \in {"Raw", "QR"} THEN {}
                ELSE IF f \in {"QM", "M2M"} THEN (SessOps \ {"ModIns", "ModUpd"}) \cup {"ModM2M"}
                ELSE SessOps \ {"ModM2M"}
Programs == UNION {ProgramsOver(ExecsOf(f), SessOpsOf(f)) : f \in Fams}
\* programs of raw statements only can be run on every provider (paramstyle); everything else runs on SQLite (qmark)
MockProg(s) == \A i \in DOMAIN s : s[i].op = "exec" /\ s[i].q \in RawQueries

-----------------------------------------------------------------------------
(* Translations, keys, answers *)
NoTr == [q |-> "none", types |-> "-", fixed |-> "-"]
FixedOf(q, p) == IF Baked(q) THEN p.v ELSE "-"
TypesOf(q, p) == IF TakesParam(q) THEN p.t ELSE "-"
Tr(q, p) == [q |-> q, types |-> TypesOf(q, p), fixed |-> FixedOf(q, p)]    \* what translating q for parameter p yields
(* What the step of query s yields when made from the tree c (of the code object in hand) and the translator `prev` of
   the previous step: a base query is translated from its generator; a chained step copies `prev` (with whatever value
   it carries) and applies the lambda, which may bake the parameter in itself. *)
TrStep(s, c, prev, p) ==
    IF c # Code(s) THEN [q |-> c, types |-> TypesOf(s, p), fixed |-> "-"]              \* the tree of another code object
    ELSE [q |-> s, types |-> TypesOf(s, p),
          fixed |-> IF StepBakes(s) THEN p.v ELSE IF Parent(s) = "none" THEN "-" ELSE prev.fixed]
Adapted(s) == [q |-> s, types |-> "-", fixed |-> "-"]                   \* what adapting raw statement s yields

TKey(q, p)   == <<q, IF KeyHasTypes THEN TypesOf(q, p) ELSE "*">>       \* Query._key: code keys of the steps + vartypes
SqlKey(k, x) == <<k, x.types, IF SqlKeyHasFixed THEN x.fixed ELSE "*">> \* sql_key
AdKey(s)     == <<s, style>>
AdStoreKey(s) == IF AdaptKeyOriginal \/ style \notin {"format", "pyformat"} THEN AdKey(s) ELSE AdKey(Doubled(s))

Ans(e, p, d) == [k |-> "ans", tr |-> e, arg |-> p, data |-> d, err |-> "-"]
ErrR(name)   == [k |-> "err", tr |-> NoTr, arg |-> NoneV, data |-> <<>>, err |-> name]

(* The answer on empty caches: the query's own translation, its own argument, all modifications of the session. *)
Cold(q, p, d) == Ans(IF q \in RawQueries THEN Adapted(q) ELSE Tr(q, p), p, d)

Empty == <<>>
Put(f, k, v) == (k :> v) @@ f
Drop(f, k) == [x \in (DOMAIN f) \ {k} |-> f[x]]

-----------------------------------------------------------------------------
Cur(t) == prog[t][ip[t]]
StartPc(o) == IF o.op = "sess" THEN "sess"
              ELSE IF o.op = "xuse" THEN "xuse"
              ELSE IF o.q \in RawQueries THEN "adget"
              ELSE IF MemoSteps THEN "srcget" ELSE "tcget"
PcAt(t, i) == IF i > Len(prog[t]) THEN "done" ELSE StartPc(prog[t][i])
StepQ(t) == Prefixes(Cur(t).q)[stp[t]]        \* the query (prefix of the chain) whose translator is being obtained
StepStart == IF MemoSteps THEN "srcget" ELSE "tcget"
Src(t) == IF MemoSteps THEN src[t] ELSE Code(StepQ(t))
(* the step's translator is in hand: on to the next step of the chain, or to the SQL of the whole chain *)
NextStep(t) == IF stp[t] < Steps(Cur(t).q)
               THEN stp' = [stp EXCEPT ![t] = @ + 1] /\ pc' = [pc EXCEPT ![t] = StepStart]
               ELSE UNCHANGED stp /\ pc' = [pc EXCEPT ![t] = "scget"]

(* caches after one solo execution of e (warm-ups are single-step queries) *)
WarmT(e) == IF e = NoExec \/ e[1] \in RawQueries THEN Empty ELSE (TKey(e[1], e[2]) :> Tr(e[1], e[2]))
WarmS(e) == IF e = NoExec \/ e[1] \in RawQueries THEN Empty
            ELSE (SqlKey(TKey(e[1], e[2]), Tr(e[1], e[2])) :> Tr(e[1], e[2]))
WarmM(e) == [c \in {"ast", "s2a", "ext"} |->
               IF e = NoExec \/ e[1] \in RawQueries \/ (c # "ext" /\ c # SrcCache(e[1])) THEN Empty ELSE (e[1] :> e[1])]

ASSUME \A e \in WarmSet : e = NoExec \/ e[1] \notin ChainQueries

Init ==
    /\ prog \in [Threads -> Programs]
    /\ warm \in WarmSet
    /\ style \in IF \A t \in Threads : MockProg(prog[t]) THEN ParamStyles ELSE {"qmark"}
    /\ memo = WarmM(warm) /\ tcache = WarmT(warm) /\ sqlcache = WarmS(warm) /\ adaptcache = Empty
    /\ committed = <<>>
    /\ view = [t \in Threads |-> <<>>]
    /\ pending = [t \in Threads |-> FALSE]
    /\ results = [t \in Threads |-> Empty]
    /\ ip = [t \in Threads |-> 1]
    /\ pc = [t \in Threads |-> PcAt(t, 1)]
    /\ src = [t \in Threads |-> "none"]
    /\ tr = [t \in Threads |-> NoTr]
    /\ err = [t \in Threads |-> "none"]
    /\ stp = [t \in Threads |-> 1]
    /\ obs = [t \in Threads |-> <<>>]
    /\ sched = <<>>

Mark(t, c, o) == sched' = Append(sched, [t |-> t, c |-> c, o |-> o])
Goto(t, l) == pc' = [pc EXCEPT ![t] = l]

(* operation of thread t finished with modelled outcome `got`; `req` is what the property requires *)
Done(t, req, got) ==
    /\ obs' = [obs EXCEPT ![t] = Append(@, [op |-> Cur(t), req |-> req, got |-> got])]
    /\ ip' = [ip EXCEPT ![t] = @ + 1]
    /\ pc' = [pc EXCEPT ![t] = PcAt(t, ip[t] + 1)]
    /\ stp' = [stp EXCEPT ![t] = 1]

(* an exception ends the thread's program *)
Dies(t, req, got) ==
    /\ obs' = [obs EXCEPT ![t] = Append(@, [op |-> Cur(t), req |-> req, got |-> got])]
    /\ ip' = [ip EXCEPT ![t] = Len(prog[t]) + 1]
    /\ pc' = [pc EXCEPT ![t] = "done"]
    /\ stp' = [stp EXCEPT ![t] = 1]

Flushed(r, pend) == IF pend /\ FlushClearsResults THEN Empty ELSE r

(* Execution of the constructed SQL `e` in the session of t: Query._actual_fetch prepares the connection (flushes
   pending modifications, which clears query_results) and then consults query_results; Query._aggregate consults
   query_results first (as is) and only a miss reaches _exec_sql, which flushes. *)
ExecOrm(t, sk, e) ==
    LET o == Cur(t)
        rkey == <<sk, o.p>>
        flushFirst == ~Aggregate(o.q) \/ AggrFlushFirst
        resA == IF flushFirst THEN Flushed(results[t], pending[t]) ELSE results[t]
        hit == rkey \in DOMAIN resA
        fresh == Ans(e, o.p, view[t])
        got == IF hit THEN resA[rkey] ELSE fresh
    IN  /\ results' = [results EXCEPT ![t] = IF hit THEN resA ELSE Put(Flushed(resA, pending[t]), rkey, fresh)]
        /\ pending' = [pending EXCEPT ![t] = IF hit /\ ~flushFirst THEN @ ELSE FALSE]
        /\ Done(t, Cold(o.q, o.p, view[t]), got)

(* db.select / db.execute: adapt, flush, execute; no result cache *)
ExecRaw(t, a) ==
    LET o == Cur(t) IN
    /\ results' = [results EXCEPT ![t] = Flushed(@, pending[t])]
    /\ pending' = [pending EXCEPT ![t] = FALSE]
    /\ Done(t, Cold(o.q, o.p, view[t]), Ans(a, o.p, view[t]))

-----------------------------------------------------------------------------
(* decompile / string2ast: ast_cache.get(key) resp. string2ast_cache.get(s), for the code object of the step
   (select(): the generator; .filter/.where/.order_by: the lambda) *)
SrcGet(t) ==
    /\ pc[t] = "srcget"
    /\ LET q == Code(StepQ(t))  c == SrcCache(q) IN
       /\ Mark(t, c, "get")
       /\ IF q \in DOMAIN memo[c]
          THEN src' = [src EXCEPT ![t] = memo[c][q]] /\ Goto(t, "extget")
          ELSE UNCHANGED src /\ Goto(t, "srcset")
    /\ UNCHANGED <<prog, warm, style, memo, tcache, sqlcache, adaptcache, committed, view, pending, results, ip, tr, err, stp, obs>>

SrcSet(t) ==
    /\ pc[t] = "srcset"
    /\ LET q == Code(StepQ(t))  c == SrcCache(q) IN
       /\ Mark(t, c, "set")
       /\ memo' = [memo EXCEPT ![c] = Put(@, q, q)]
       /\ src' = [src EXCEPT ![t] = q]
    /\ Goto(t, "extget")
    /\ UNCHANGED <<prog, warm, style, tcache, sqlcache, adaptcache, committed, view, pending, results, ip, tr, err, stp, obs>>

(* create_extractors: extractors_cache.get(code_key); a hit replaces the tree by the cached one *)
ExtGet(t) ==
    /\ pc[t] = "extget"
    /\ Mark(t, "ext", "get")
    /\ LET q == Code(StepQ(t)) IN
       IF q \in DOMAIN memo["ext"]
       THEN src' = [src EXCEPT ![t] = memo["ext"][q]] /\ Goto(t, "tcget")
       ELSE UNCHANGED src /\ Goto(t, "extset")
    /\ UNCHANGED <<prog, warm, style, memo, tcache, sqlcache, adaptcache, committed, view, pending, results, ip, tr, err, stp, obs>>

ExtSet(t) ==
    /\ pc[t] = "extset"
    /\ Mark(t, "ext", "set")
    /\ memo' = [memo EXCEPT !["ext"] = Put(@, Code(StepQ(t)), src[t])]
    /\ Goto(t, "tcget")
    /\ UNCHANGED <<prog, warm, style, tcache, sqlcache, adaptcache, committed, view, pending, results, ip, src, tr, err, stp, obs>>

(* Query._get_translator, called with the key of the chain up to the current step: translator = cache.get(key);
   compare translator.fixed_param_values - the values baked in by its own step and those it inherited from the earlier
   steps of the chain - with the current values *)
Rejected(x, p) == /\ CompareFixed
                  /\ x.fixed # FixedOf(x.q, p)
                  /\ CompareEarlier \/ StepBakes(x.q)
TcGet(t) ==
    /\ pc[t] = "tcget"
    /\ Mark(t, "tc", "get")
    /\ LET o == Cur(t)  k == TKey(StepQ(t), o.p) IN
       IF k \notin DOMAIN tcache
       THEN UNCHANGED <<tr, stp>> /\ Goto(t, "tcset")
       ELSE LET x == tcache[k] IN
            IF Rejected(x, o.p)
            THEN UNCHANGED <<tr, stp>> /\ Goto(t, "tcdel")
            ELSE tr' = [tr EXCEPT ![t] = x] /\ NextStep(t)
    /\ UNCHANGED <<prog, warm, style, memo, tcache, sqlcache, adaptcache, committed, view, pending, results, ip, src, err, obs>>

(* del database._translator_cache[query_key]  -- the key may be gone by now *)
TcDel(t) ==
    /\ pc[t] = "tcdel"
    /\ Mark(t, "tc", "del")
    /\ LET o == Cur(t)  k == TKey(StepQ(t), o.p) IN
       IF k \in DOMAIN tcache \/ DelPop
       THEN /\ tcache' = Drop(tcache, k)
            /\ Goto(t, "tcset")
            /\ UNCHANGED <<err, obs, ip, stp>>
       ELSE /\ UNCHANGED tcache
            /\ err' = [err EXCEPT ![t] = "KeyError"]
            /\ Dies(t, Cold(o.q, o.p, view[t]), ErrR("KeyError"))
    /\ UNCHANGED <<prog, warm, style, memo, sqlcache, adaptcache, committed, view, pending, results, src, tr>>

(* translate (thread-local: the generator, or the lambda on a copy of the translator in hand), then
   database._translator_cache[key] = translator *)
TcSet(t) ==
    /\ pc[t] = "tcset"
    /\ Mark(t, "tc", "set")
    /\ LET o == Cur(t)  x == TrStep(StepQ(t), Src(t), tr[t], o.p) IN
       /\ tcache' = Put(tcache, TKey(StepQ(t), o.p), x)
       /\ tr' = [tr EXCEPT ![t] = x]
    /\ NextStep(t)
    /\ UNCHANGED <<prog, warm, style, memo, sqlcache, adaptcache, committed, view, pending, results, ip, src, err, obs>>

(* Query._construct_sql_and_arguments: cache_entry = database._constructed_sql_cache.get(sql_key) *)
ScGet(t) ==
    /\ pc[t] = "scget"
    /\ Mark(t, "sc", "get")
    /\ LET o == Cur(t)  sk == SqlKey(TKey(o.q, o.p), tr[t]) IN
       IF sk \in DOMAIN sqlcache
       THEN ExecOrm(t, sk, sqlcache[sk])
       ELSE Goto(t, "scset") /\ UNCHANGED <<results, pending, obs, ip, stp>>
    /\ UNCHANGED <<prog, warm, style, memo, tcache, sqlcache, adaptcache, committed, view, src, tr, err>>

ScSet(t) ==
    /\ pc[t] = "scset"
    /\ Mark(t, "sc", "set")
    /\ LET o == Cur(t)  sk == SqlKey(TKey(o.q, o.p), tr[t]) IN
       /\ sqlcache' = Put(sqlcache, sk, tr[t])
       /\ ExecOrm(t, sk, tr[t])
    /\ UNCHANGED <<prog, warm, style, memo, tcache, adaptcache, committed, view, src, tr, err>>

(* adapt_sql: adapted_sql_cache.get((sql, paramstyle)) ... adapted_sql_cache[(sql', paramstyle)] = result *)
AdGet(t) ==
    /\ pc[t] = "adget"
    /\ Mark(t, "ad", "get")
    /\ LET s == Cur(t).q IN
       IF AdKey(s) \in DOMAIN adaptcache
       THEN ExecRaw(t, adaptcache[AdKey(s)])
       ELSE Goto(t, "adset") /\ UNCHANGED <<results, pending, obs, ip, stp>>
    /\ UNCHANGED <<prog, warm, style, memo, tcache, sqlcache, adaptcache, committed, view, src, tr, err>>

AdSet(t) ==
    /\ pc[t] = "adset"
    /\ Mark(t, "ad", "set")
    /\ LET s == Cur(t).q IN
       /\ adaptcache' = Put(adaptcache, AdStoreKey(s), Adapted(s))
       /\ ExecRaw(t, Adapted(s))
    /\ UNCHANGED <<prog, warm, style, memo, tcache, sqlcache, committed, view, src, tr, err>>

(* operations on the session (single-thread configurations): an ORM write, flush(), commit(), leaving and
   re-entering db_session (commits), rollback() *)
Sess(t) ==
    /\ pc[t] = "sess"
    /\ NThreads = 1
    /\ Mark(t, "sess", Cur(t).q)
    /\ LET k == Cur(t).q IN
       /\ view' = [view EXCEPT ![t] = IF k \in Mods THEN Append(@, k)
                                       ELSE IF k = "Rollback" THEN committed ELSE @]
       /\ pending' = [pending EXCEPT ![t] = IF k \in Mods THEN TRUE ELSE FALSE]
       /\ results' = [results EXCEPT ![t] = IF k \in Mods THEN @
                                             ELSE IF k = "Flush" THEN Flushed(@, pending[t]) ELSE Empty]
       /\ committed' = IF k \in {"Commit", "NewSession"} THEN view[t] ELSE committed
    /\ Done(t, ErrR("-"), ErrR("-"))
    /\ UNCHANGED <<prog, warm, style, memo, tcache, sqlcache, adaptcache, src, tr, err>>

(* Thread t uses an object that belongs to the (still open) session of another thread u.  Sessions are
   thread-local (local.db2cache): the session t finds for itself is never the one the object belongs to, so the
   checks in Attribute.validate / Set.load / Entity._load_ must raise TransactionError.  When no other session is
   open any more the operation is skipped. *)
\* a thread whose session is open and has loaded objects (a fresh session owns nothing another thread could use)
Open(u) == pc[u] # "done" /\ ~FreshProg(prog[u])
XUse(t) ==
    /\ pc[t] = "xuse"
    /\ Mark(t, "xuse", Cur(t).q)
    /\ IF \E u \in Threads \ {t} : Open(u)
       THEN LET u == CHOOSE v \in Threads \ {t} : Open(v) /\ \A w \in Threads \ {t} : Open(w) => v <= w
                \* database._get_cache() yields the thread's own session cache, creating it when there is none yet
                sessionOfT == IF Cur(t).q \in FreshUses THEN <<"created by the check", t>> ELSE <<"live", t>>
                sessionOfObject == <<"live", u>>
            IN Dies(t, ErrR("TransactionError"), IF sessionOfT # sessionOfObject THEN ErrR("TransactionError") ELSE ErrR("none"))
       ELSE Dies(t, ErrR("skipped"), ErrR("skipped"))
    /\ UNCHANGED <<prog, warm, style, memo, tcache, sqlcache, adaptcache, committed, view, pending, results, src, tr, err>>

Step(t) == SrcGet(t) \/ SrcSet(t) \/ ExtGet(t) \/ ExtSet(t) \/ TcGet(t) \/ TcDel(t) \/ TcSet(t) \/ ScGet(t) \/ ScSet(t)
           \/ AdGet(t) \/ AdSet(t) \/ Sess(t) \/ XUse(t)
Next == \E t \in Threads : Step(t)
Spec == Init /\ [][Next]_vars

AllDone == \A t \in Threads : pc[t] = "done"

-----------------------------------------------------------------------------
(* Required behaviour *)
NoSpuriousError == \A t \in Threads : err[t] = "none"

(* the translator in hand carries the current values: the one of the whole query when its SQL is constructed, the one of
   the previous step while the next step of a chain is prepared (it will be copied) *)
RightTranslator == \A t \in Threads :
    /\ pc[t] \in {"scget", "scset"} => tr[t].fixed = FixedOf(Cur(t).q, Cur(t).p)
    /\ (pc[t] \in {"srcget", "srcset", "extget", "extset", "tcget", "tcdel", "tcset"} /\ stp[t] > 1)
          => tr[t] = Tr(Prefixes(Cur(t).q)[stp[t] - 1], Cur(t).p)

Transparent == \A t \in Threads : \A i \in DOMAIN obs[t] :
                  (obs[t][i].op.op = "exec" /\ obs[t][i].got.k = "ans") => obs[t][i].got = obs[t][i].req

ForeignUseRaises == \A t \in Threads : \A i \in DOMAIN obs[t] : obs[t][i].op.op = "xuse" => obs[t][i].got = obs[t][i].req

TypeOK == /\ \A t \in Threads : pc[t] \in {"srcget", "srcset", "extget", "extset", "tcget", "tcdel", "tcset", "scget", "scset",
                                            "adget", "adset", "sess", "xuse", "done"}
          /\ \A t \in Threads : ip[t] \in 1 .. Len(prog[t]) + 1
          /\ \A t \in Threads : (pc[t] = "done") = (ip[t] = Len(prog[t]) + 1)
          /\ \A t \in Threads : stp[t] \in 1 .. (IF pc[t] \in {"done", "sess", "xuse", "adget", "adset"} THEN 1 ELSE Steps(Cur(t).q))
          /\ \A k \in DOMAIN tcache : tcache[k].q \in OrmQueries
          /\ \A k \in DOMAIN sqlcache : sqlcache[k].q \in OrmQueries

(* Export of the complete behaviours: evaluated as an "invariant" that is always TRUE; on a terminal state it prints
   the programs, the warm-up, the interleaving and the per-operation required / modelled outcomes as one JSON line. *)
ExportDone == (Export /\ AllDone) =>
                 PrintT(<<"PCX", ToJson([prog |-> prog, warm |-> [q |-> warm[1], p |-> warm[2]], style |-> style, sched |-> sched, obs |-> obs])>>)
=============================================================================
