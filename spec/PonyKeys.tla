------------------------------ MODULE PonyKeys ------------------------------
(***************************************************************************)
(* C14 (composite keys) with the save order of a flush (C16's other half:  *)
(* what a flush does when nothing references anything).                    *)
(*                                                                         *)
(* Entity  K(id PK int, p Optional int, q Optional int, composite_key(p,q))*)
(* A key with a NULL part conflicts with nothing (SQL and Pony agree).     *)
(*                                                                         *)
(* Unlike PonySession this module is deterministic: it follows exactly     *)
(* which rows the session has in its identity map (`idxd`), because that   *)
(* decides whether a conflicting key is refused at once (CacheIndexError:  *)
(* the holder is indexed) or accepted and found by the database at flush   *)
(* time (TransactionIntegrityError: nothing is committed), and it follows  *)
(* the save queue (`queue`: SessionCache.objects_to_save), because a flush *)
(* sends one statement per queued object in queue order and the database   *)
(* checks its unique index after every statement:                          *)
(*   - a created object is appended when it is created,                    *)
(*   - a loaded object is appended when it is first modified,              *)
(*   - a deleted persistent object leaves its slot and is appended at the  *)
(*     end; a deleted created object just leaves (cancelled),              *)
(*   - any statement the session sends (loading a row it does not hold,    *)
(*     a lookup by key that the index cannot answer) flushes first.        *)
(***************************************************************************)
EXTENDS Integers, Sequences, FiniteSets, TLC

CONSTANTS KIds, PVals, QVals, MaxLevel,
          QNull      \* {0}: q may be NULL too; {}: only p is nullable (smaller alphabet for the exported graph)

NoRow == [ex |-> FALSE, p |-> 0, q |-> 0]
Rows == [ex : BOOLEAN, p : PVals \cup {0}, q : QVals \cup {0}]
QDom == QVals \cup QNull

VARIABLES db, tx, cur,   \* committed rows / what the connection sees / the session's view: [KIds -> Rows]
          sess,          \* "none" | "open" | "aborted"
          idxd,          \* ids the identity map holds (their keys are in the cache indexes)
          pendNew,       \* created, not inserted yet
          pendDel,       \* persistent, marked_to_delete, not deleted yet (keep their primary-key index entry)
          queue,         \* save order: sequence of ids
          unl,           \* inserted objects whose NULL attributes were dropped from memory after the INSERT (a database
                         \* default may have replaced them): reading such an object sends a SELECT, i.e. flushes first
          ev

vars == <<db, tx, cur, sess, idxd, pendNew, pendDel, queue, unl, ev>>

Ev(op, k, p, q, out, ret) == [op |-> op, k |-> k, p |-> p, q |-> q, out |-> out, ret |-> ret]

Key(r) == IF r.ex /\ r.p # 0 /\ r.q # 0 THEN <<r.p, r.q>> ELSE <<>>
KeysOk(s) == \A k1, k2 \in KIds : k1 # k2 /\ Key(s[k1]) # <<>> => Key(s[k1]) # Key(s[k2])

SeedDbs == {d \in [KIds -> Rows] : /\ KeysOk(d)
                                   /\ \A k \in KIds : ~d[k].ex => d[k] = NoRow
                                   /\ \A k \in KIds : d[k].ex => d[k].q \in QDom
                                   /\ d[1].ex /\ d[1].p = 1 /\ d[1].q = 1}

Init == /\ db \in SeedDbs /\ tx = db /\ cur = db
        /\ sess \in {"none", "open"} /\ idxd = {} /\ pendNew = {} /\ pendDel = {} /\ queue = <<>> /\ unl = {}
        /\ ev = Ev("Init", 0, 0, 0, "ok", {})

---------------------------------------------------------------------------
Remove(seq, k) == SelectSeq(seq, LAMBDA x : x # k)
InQueue(k) == \E i \in 1 .. Len(queue) : queue[i] = k

(* one statement of a flush against the connection's rows t: <<ok, rows after>> *)
Statement(t, k) ==
    IF k \in pendDel THEN <<TRUE, [t EXCEPT ![k] = NoRow]>>
    ELSE LET after == [t EXCEPT ![k] = cur[k]]
         IN IF k \in pendNew /\ t[k].ex THEN <<FALSE, t>>          \* duplicate primary key
            ELSE IF ~KeysOk(after) THEN <<FALSE, t>>               \* duplicate composite key
            ELSE <<TRUE, after>>

RECURSIVE Run(_, _)
Run(t, seq) == IF seq = <<>> THEN <<TRUE, t>>
               ELSE LET r == Statement(t, Head(seq))
                    IN IF r[1] THEN Run(r[2], Tail(seq)) ELSE r

FlushOk == Run(tx, queue)[1]
Pending == queue # <<>>

(* the session's state after a successful flush *)
NullsDropped == {k \in pendNew : cur[k].p = 0 \/ cur[k].q = 0}
Flushed == /\ tx' = cur /\ pendNew' = {} /\ pendDel' = {} /\ queue' = <<>>
           /\ idxd' = {k \in idxd : cur[k].ex}
           /\ unl' = unl \cup NullsDropped

FlushFails(op, k, p, q) ==
    /\ sess' = "aborted"
    /\ ev' = Ev(op, k, p, q, "Integrity", {})
    /\ UNCHANGED <<db, tx, cur, idxd, pendNew, pendDel, queue, unl>>

(* who holds key <<p, q>> in the identity map, other than k *)
Holders(p, q, k) == IF p = 0 \/ q = 0 THEN {}
                    ELSE {j \in idxd \ {k} : cur[j].ex /\ cur[j].p = p /\ cur[j].q = q}

Fail(op, k, p, q, out) ==
    /\ ev' = Ev(op, k, p, q, out, {})
    /\ UNCHANGED <<db, tx, cur, sess, idxd, pendNew, pendDel, queue, unl>>

---------------------------------------------------------------------------
Begin == /\ sess = "none"
         /\ sess' = "open" /\ cur' = db /\ tx' = db
         /\ idxd' = {} /\ pendNew' = {} /\ pendDel' = {} /\ queue' = <<>> /\ unl' = {}
         /\ ev' = Ev("Begin", 0, 0, 0, "ok", {})
         /\ UNCHANGED db

(* K(id=k, p=p, q=q): no statement is sent *)
Create(k, p, q) ==
    /\ sess = "open"
    /\ IF (k \in idxd /\ cur[k].ex) \/ k \in pendDel \/ Holders(p, q, k) # {}
       THEN Fail("Create", k, p, q, "CacheIndexError")
       ELSE /\ cur' = [cur EXCEPT ![k] = [ex |-> TRUE, p |-> p, q |-> q]]
            /\ pendNew' = pendNew \cup {k}
            /\ idxd' = idxd \cup {k}
            /\ queue' = Append(queue, k)
            /\ ev' = Ev("Create", k, p, q, "ok", {})
            /\ UNCHANGED <<db, tx, sess, pendDel, unl>>

(* obj = K[k] where the session does not hold the row: the SELECT flushes first *)
NeedsLoad(k) == k \notin idxd
LoadFails(k) == NeedsLoad(k) /\ Pending /\ ~FlushOk

(* the part of the state that a load of row k changes (the flush before it included) *)
AfterLoad(k, curNow, queueNow) ==
    IF NeedsLoad(k)
    THEN [tx |-> cur, pendNew |-> {}, pendDel |-> {}, queue |-> <<>>, idxd |-> {j \in idxd : cur[j].ex} \cup {k},
          unl |-> unl \cup NullsDropped]
    ELSE [tx |-> tx, pendNew |-> pendNew, pendDel |-> pendDel, queue |-> queue, idxd |-> idxd, unl |-> unl]

(* K[k].set(p=p, q=q) / K[k].p = p / K[k].q = q   (the object must exist in the session's view) *)
SetPQ(k, p, q) ==
    /\ sess = "open" /\ cur[k].ex /\ <<p, q>> # <<cur[k].p, cur[k].q>>
    /\ IF LoadFails(k) THEN FlushFails("SetPQ", k, p, q)
       ELSE LET L == AfterLoad(k, cur, queue)
                holders == IF p = 0 \/ q = 0 THEN {} ELSE {j \in L.idxd \ {k} : cur[j].ex /\ cur[j].p = p /\ cur[j].q = q}
            IN IF holders # {}
               THEN /\ ev' = Ev("SetPQ", k, p, q, "CacheIndexError", {})
                    /\ tx' = L.tx /\ pendNew' = L.pendNew /\ pendDel' = L.pendDel /\ queue' = L.queue /\ idxd' = L.idxd
                    /\ unl' = L.unl
                    /\ UNCHANGED <<db, cur, sess>>
               ELSE /\ cur' = [cur EXCEPT ![k].p = p, ![k].q = q]
                    /\ tx' = L.tx /\ pendNew' = L.pendNew /\ pendDel' = L.pendDel /\ idxd' = L.idxd
                    /\ queue' = IF \E i \in 1 .. Len(L.queue) : L.queue[i] = k THEN L.queue ELSE Append(L.queue, k)
                    /\ unl' = L.unl \ {k}            \* both attributes are assigned: both are in memory again
                    /\ ev' = Ev("SetPQ", k, p, q, "ok", {})
                    /\ UNCHANGED <<db, sess>>

(* K[k].delete() *)
Delete(k) ==
    /\ sess = "open" /\ cur[k].ex
    /\ IF LoadFails(k) THEN FlushFails("Delete", k, 0, 0)
       ELSE LET L == AfterLoad(k, cur, queue)
            IN /\ cur' = [cur EXCEPT ![k] = IF k \in L.pendNew THEN L.tx[k] ELSE NoRow]   \* a cancelled object may have shadowed a row
               /\ tx' = L.tx /\ unl' = L.unl \ {k}
               /\ IF k \in L.pendNew
                  THEN /\ pendNew' = L.pendNew \ {k} /\ pendDel' = L.pendDel       \* cancelled
                       /\ queue' = Remove(L.queue, k)
                       /\ idxd' = L.idxd \ {k}
                  ELSE /\ pendNew' = L.pendNew /\ pendDel' = L.pendDel \cup {k}
                       /\ queue' = Append(Remove(L.queue, k), k)
                       /\ idxd' = L.idxd
               /\ ev' = Ev("Delete", k, 0, 0, "ok", {})
               /\ UNCHANGED <<db, sess>>

(* K.get(id=k) and reading p, q: answered from the identity map when it holds the row with its values (a
   marked_to_delete object: None), otherwise flush + SELECT *)
Get(k) ==
    /\ sess = "open"
    /\ LET need == NeedsLoad(k) \/ k \in unl
       IN IF need /\ Pending /\ ~FlushOk THEN FlushFails("Get", k, 0, 0)
          ELSE LET found == cur[k].ex
               IN /\ IF need
                     THEN /\ tx' = cur /\ pendNew' = {} /\ pendDel' = {} /\ queue' = <<>>
                          /\ idxd' = {j \in idxd : cur[j].ex} \cup (IF found THEN {k} ELSE {})
                          /\ unl' = (unl \cup NullsDropped) \ {k}
                     ELSE UNCHANGED <<tx, pendNew, pendDel, queue, idxd, unl>>
                  /\ ev' = Ev("Get", k, 0, 0, "ok", IF found THEN {<<cur[k].p, cur[k].q>>} ELSE {})
                  /\ UNCHANGED <<db, cur, sess>>

(* K.get(p=p, q=q): the composite index answers when it has the key; otherwise flush + SELECT, the row found is loaded *)
Find(p, q) ==
    /\ sess = "open" /\ p # 0 /\ q # 0
    /\ LET hit == Holders(p, q, 0)
       IN IF hit # {}
          THEN /\ ev' = Ev("Find", 0, p, q, "ok", hit)
               /\ UNCHANGED <<db, tx, cur, sess, idxd, pendNew, pendDel, queue, unl>>
          ELSE IF Pending /\ ~FlushOk THEN FlushFails("Find", 0, p, q)
          ELSE LET rows == {k \in KIds : cur[k].ex /\ cur[k].p = p /\ cur[k].q = q}
               IN /\ tx' = cur /\ pendNew' = {} /\ pendDel' = {} /\ queue' = <<>>
                  /\ idxd' = {j \in idxd : cur[j].ex} \cup rows
                  /\ unl' = unl \cup NullsDropped
                  /\ ev' = Ev("Find", 0, p, q, "ok", rows)
                  /\ UNCHANGED <<db, cur, sess>>

(* obj.flush() on an object the session holds: only this object's statement is sent (it leaves the queue, the others
   keep their places); the database checks it like any other *)
FlushObj(k) ==
    /\ sess = "open" /\ k \in idxd /\ cur[k].ex
    /\ IF ~InQueue(k)
       THEN /\ ev' = Ev("FlushObj", k, 0, 0, "ok", {})
            /\ UNCHANGED <<db, tx, cur, sess, idxd, pendNew, pendDel, queue, unl>>
       ELSE LET r == Statement(tx, k)
            IN IF r[1]
               THEN /\ tx' = r[2] /\ queue' = Remove(queue, k) /\ pendNew' = pendNew \ {k}
                    /\ unl' = unl \cup ({k} \cap NullsDropped)
                    /\ ev' = Ev("FlushObj", k, 0, 0, "ok", {})
                    /\ UNCHANGED <<db, cur, sess, idxd, pendDel>>
               ELSE \* the statement is refused and rolled back on its own, the object keeps its place in the queue and the
                    \* session goes on: whether anything is committed is decided by the flush that ends the session
                    /\ ev' = Ev("FlushObj", k, 0, 0, "Integrity", {})
                    /\ UNCHANGED <<db, tx, cur, sess, idxd, pendNew, pendDel, queue, unl>>

Flush ==
    /\ sess = "open"
    /\ IF FlushOk
       THEN /\ Flushed /\ ev' = Ev("Flush", 0, 0, 0, "ok", {}) /\ UNCHANGED <<db, cur, sess>>
       ELSE FlushFails("Flush", 0, 0, 0)

Commit ==
    /\ sess = "open"
    /\ IF FlushOk
       THEN /\ Flushed /\ db' = cur /\ ev' = Ev("Commit", 0, 0, 0, "ok", {}) /\ UNCHANGED <<cur, sess>>
       ELSE FlushFails("Commit", 0, 0, 0)

Reset == /\ idxd' = {} /\ pendNew' = {} /\ pendDel' = {} /\ queue' = <<>> /\ unl' = {}

Rollback ==
    /\ sess \in {"open", "aborted"}
    /\ sess' = "open" /\ cur' = db /\ tx' = db /\ Reset
    /\ ev' = Ev("Rollback", 0, 0, 0, "ok", {})
    /\ UNCHANGED db

End ==
    \/ /\ sess = "open" /\ FlushOk
       /\ db' = cur /\ tx' = cur /\ sess' = "none" /\ Reset
       /\ ev' = Ev("End", 0, 0, 0, "ok", {})
       /\ UNCHANGED cur
    \/ /\ (sess = "aborted" \/ (sess = "open" /\ ~FlushOk))
       /\ sess' = "none" /\ cur' = db /\ tx' = db /\ Reset
       /\ \E out \in (IF sess = "aborted" THEN {"ok", "Integrity", "Internal"} ELSE {"Integrity"}) :
              ev' = Ev("End", 0, 0, 0, out, {})
       /\ UNCHANGED db

EndExc ==
    /\ sess \in {"open", "aborted"}
    /\ sess' = "none" /\ cur' = db /\ tx' = db /\ Reset
    /\ ev' = Ev("EndExc", 0, 0, 0, "ok", {})
    /\ UNCHANGED db

Next == \/ Begin \/ Flush \/ Commit \/ Rollback \/ End \/ EndExc
        \/ \E k \in KIds, p \in PVals \cup {0}, q \in QDom : Create(k, p, q) \/ SetPQ(k, p, q)
        \/ \E k \in KIds : Delete(k) \/ Get(k) \/ FlushObj(k)
        \/ \E p \in PVals, q \in QVals : Find(p, q)

Spec == Init /\ [][Next]_vars
Bounded == TLCGet("level") <= MaxLevel
DesignView == <<db, tx, cur, sess, idxd, pendNew, pendDel, queue, unl>>

---------------------------------------------------------------------------
TypeOK == /\ sess \in {"none", "open", "aborted"}
          /\ idxd \subseteq KIds /\ pendNew \subseteq KIds /\ pendDel \subseteq KIds

(* C14: committed rows never share a composite key; what the connection sees never does either *)
CommittedKeysDistinct == KeysOk(db) /\ KeysOk(tx)

(* the identity map never holds two live objects with one key *)
IndexedKeysDistinct == sess = "open" =>
    \A k1, k2 \in idxd : k1 # k2 /\ Key(cur[k1]) # <<>> => Key(cur[k1]) # Key(cur[k2])

QueueExact == sess = "open" =>
    /\ \A k \in KIds : (k \in pendNew \/ k \in pendDel \/ (cur[k].ex /\ cur[k] # tx[k])) => InQueue(k)
    /\ \A i, j \in 1 .. Len(queue) : i # j => queue[i] # queue[j]

StepProps ==
    /\ Assert(db' # db => (ev'.op \in {"Commit", "End"} /\ ev'.out = "ok" /\ db' = cur), "CommitEqualsSession violated")
    /\ Assert(ev'.out = "Integrity" => db' = db, "FlushConflictAborts violated")
    /\ Assert(ev'.out = "CacheIndexError" => (cur' = cur /\ db' = db), "FailureIsNoOp violated")
=============================================================================
