------------------------- MODULE PonyCacheQueries -------------------------
(***************************************************************************************************************)
(* The queries of spec/PonyCache.tla (properties C22 and C05): identifiers, and the structure of query chains. *)
(* Constant level (no state): EXTENDed by PonyCache; exported to the harness by PonyCacheQueriesTables.        *)
(*                                                                                                             *)
(* A *chain* is a base query (a generator) followed by lambda steps: q.filter(lambda) / q.where(lambda) /      *)
(* q.order_by(lambda) (pony/orm/core.py: Query._process_lambda).  Every prefix of a chain is a query of its    *)
(* own - with its own entry in database._translator_cache: the key of the prefix is the key of its parent      *)
(* extended by (kind, id of the lambda's code object, types of the lambda's parameters) - and can be executed  *)
(* by itself.  A query is therefore identified by the query it extends (Parent) and the code object of its     *)
(* last step (Code): a generator for a base query, a lambda for a chained step.  Code objects are shared:      *)
(* chains with the same base share the generator (and the cache entry of the base), different chains may apply *)
(* the same lambda (decompiling.ast_cache / asttranslation.extractors_cache are keyed by the code object).     *)
(* The translator of a chained step is a deep copy of the translator of its parent with the lambda applied     *)
(* (SQLTranslator.apply_lambda): it inherits the parameter values the parent baked in.                         *)
(***************************************************************************************************************)
EXTENDS Naturals, Sequences, FiniteSets, TLC

BaseQueries == {"slice", "getattr", "idx", "cmp", "gt", "count", "strq", "m2m", "mcount", "maxdate", "sumdec", "dyn"}
RawQueries  == {"raw_where", "raw_pct", "raw_pct2"}
(*  slice     select(x.name[:n] for x in T)               n baked into the translation
    getattr   select(getattr(x, a) for x in T)            a baked into the translation
    idx       select(x.name[n] for x in T)                n baked into the translation
    cmp       select(x.name for x in T if x.n == p)       p: int | None  (= ? versus IS NULL: depends on the type only)
    gt        select(x.name for x in T if x.n > p)
    count     select(x for x in T if x.n > p).count()     aggregate: answered through Query._aggregate
    strq      select("x.name for x in T if x.n > p")      query given as a string
    m2m       select(x.name for x in T for g in x.groups if g.id >= p)          depends on a many-to-many link table
    mcount    select(x for x in T for g in x.groups if g.id >= p).count()       aggregate over the link table
    maxdate   select(x.d for x in T if x.n >= p).max()    aggregate whose value is converted (date)
    sumdec    select(x.amount for x in T if x.n >= p).sum()                     aggregate whose value is converted (Decimal)
    dyn       T.select(<lambda compiled at run time from a text that contains the value p>)   a new, short-lived code
              object per execution: the value is part of the code, i.e. baked in
    raw_where db.select("name from T where n > $p")
    raw_pct   db.execute("select 7 % 4, $p")              raw_pct2: "select 7 %% 4, $p"  (= raw_pct with % doubled)   *)

(* The lambdas of the chained steps (one code object each; v: the value the parent query yields, x: the loop
   variable of the generator, p: the parameter of the execution - every step of a chain that takes a parameter takes
   the parameter of the execution):
       f    .filter(lambda v: v != 'zzz')
       w    .where(lambda x: x.n is not None)
       o    .order_by(lambda v: desc(v))
       wp   .where(lambda x: x.id != p)                   p an ordinary parameter of the step
       fs   .filter(lambda v: v[p:] != 'hijkl')           p baked in by the step itself
   kind: the method; param: the lambda takes p; bakes: the translation of the lambda bakes the value of p in. *)
ChainStep(parent, code, kind, param, bakes) == [parent |-> parent, code |-> code, kind |-> kind, param |-> param, bakes |-> bakes]
StepTable ==
       "slice.f"   :> ChainStep("slice",   "f",  "filter",   FALSE, FALSE)      \* inherits the slice bound
    @@ "slice.f.o" :> ChainStep("slice.f", "o",  "order_by", FALSE, FALSE)      \* ... over two steps
    @@ "slice.wp"  :> ChainStep("slice",   "wp", "where",    TRUE,  FALSE)      \* inherited baked value + own ordinary parameter
    @@ "getattr.o" :> ChainStep("getattr", "o",  "order_by", FALSE, FALSE)      \* inherits the attribute name
    @@ "idx.w"     :> ChainStep("idx",     "w",  "where",    FALSE, FALSE)      \* inherits the string index
    @@ "gt.fs"     :> ChainStep("gt",      "fs", "filter",   TRUE,  TRUE)       \* the chained step itself bakes a value in
    @@ "gt.fs.o"   :> ChainStep("gt.fs",   "o",  "order_by", FALSE, FALSE)      \* ... and the next step inherits it

ChainQueries == DOMAIN StepTable
OrmQueries   == BaseQueries \cup ChainQueries
StepCodes    == {StepTable[q].code : q \in ChainQueries}

Parent(q)    == IF q \in ChainQueries THEN StepTable[q].parent ELSE "none"
Code(q)      == IF q \in ChainQueries THEN StepTable[q].code ELSE q           \* the generator of a base query is named after it
StepBakes(q) == IF q \in ChainQueries THEN StepTable[q].bakes ELSE q \in {"slice", "getattr", "idx", "dyn"}
StepParam(q) == IF q \in ChainQueries THEN StepTable[q].param ELSE TRUE

RECURSIVE PrefixesRec(_)
PrefixesRec(q) == IF q \in ChainQueries THEN Append(PrefixesRec(StepTable[q].parent), q) ELSE <<q>>
PrefixTab == [q \in OrmQueries |-> PrefixesRec(q)]
(* the queries a chain goes through, base first, q itself last *)
Prefixes(q) == IF q \in OrmQueries THEN PrefixTab[q] ELSE <<q>>
Steps(q) == Len(Prefixes(q))
(* the answer of q is a sequence (some step orders it), not a bag *)
Ordered(q) == \E i \in DOMAIN Prefixes(q) : Prefixes(q)[i] \in ChainQueries /\ StepTable[Prefixes(q)[i]].kind = "order_by"

(* some step of q bakes the value of the parameter into the translation / takes the parameter *)
Baked(q)      == q \in OrmQueries /\ \E i \in DOMAIN Prefixes(q) : StepBakes(Prefixes(q)[i])
TakesParam(q) == q \notin OrmQueries \/ \E i \in DOMAIN Prefixes(q) : StepParam(Prefixes(q)[i])
Aggregate(q)  == q \in {"count", "mcount", "maxdate", "sumdec"}
SrcCache(q)   == IF q = "strq" THEN "s2a" ELSE "ast"

(* well-formedness of the table *)
ASSUME \A q \in ChainQueries : StepTable[q].parent \in OrmQueries \ {"strq", "dyn"} /\ ~Aggregate(StepTable[q].parent)
ASSUME \A q \in ChainQueries : StepTable[q].kind \in {"filter", "where", "order_by"}
ASSUME StepCodes \cap (OrmQueries \cup RawQueries) = {}
\* one code object = one lambda: the same method, the same use of the parameter wherever it is applied
ASSUME \A q, r \in ChainQueries : StepTable[q].code = StepTable[r].code =>
            /\ StepTable[q].kind = StepTable[r].kind /\ StepTable[q].param = StepTable[r].param /\ StepTable[q].bakes = StepTable[r].bakes
\* a query is determined by its parent and its code object
ASSUME \A q, r \in ChainQueries : (StepTable[q].code = StepTable[r].code /\ StepTable[q].parent = StepTable[r].parent) => q = r
\* a single parameter per execution: at most one step of a chain bakes it in (`fixed` of a translator is one value)
ASSUME \A q \in OrmQueries : Cardinality({i \in DOMAIN Prefixes(q) : StepBakes(Prefixes(q)[i])}) <= 1
\* a baking step takes the parameter
ASSUME \A q \in OrmQueries : StepBakes(q) => StepParam(q)
=============================================================================
