--------------------------- MODULE SerializeJudge ---------------------------
(* C31, E2: the outputs of the real Bag._reduce_composite_pk on the key space SerializeTables exported are
   judged here: keys of the same arity must have pairwise distinct encodings ("distinct composite keys are
   encoded distinctly").  Whether the spec's decoder recovers the key from the real output is reported as
   well; it ties the transcription Serialize.Reduce to the code but is not the verdict. *)
EXTENDS Serialize, Json, IOUtils

In == JsonDeserialize(IOEnv.IN)
Cases == In.cases            \* sequence of [pk |-> <<strings>>, out |-> string], strings as character sequences

Arities == {Len(Cases[j].pk) : j \in DOMAIN Cases}
OfArity(n) == {j \in DOMAIN Cases : Len(Cases[j].pk) = n}

Report(n) == [arity |-> n, keys |-> Cardinality({Cases[j].pk : j \in OfArity(n)}),
              encodings |-> Cardinality({Cases[j].out : j \in OfArity(n)})]

Undecodable == {j \in DOMAIN Cases : Decode(Cases[j].out) # Cases[j].pk}

ASSUME JsonSerialize(IOEnv.OUT, [arities |-> {Report(n) : n \in Arities}, undecodable |-> Cardinality(Undecodable),
                                 first_undecodable |-> IF Undecodable = {} THEN 0 ELSE CHOOSE j \in Undecodable : \A k \in Undecodable : j <= k])
=============================================================================
