--------------------------- MODULE ValidateTables ---------------------------
(* C08, binding E1: exports for every declaration of the tier's declaration space the expected outcome of
   defining it and, for every candidate value, whether it is accepted, which declared constraints it breaks
   and the value the attribute must hold afterwards.  Before exporting, TLC checks the laws the
   specification states about itself (Validate.tla, last section) on exactly the exported space.
   Input: {"tier": "quick" | "thorough"}. *)
EXTENDS Validate, Json, IOUtils

In == JsonDeserialize(IOEnv.IN)
D  == DeclsOf(In.tier)
C(d) == CandsOf(In.tier, d)

Case(d, v) == [v |-> v, acc |-> Accepts(d, v), why |-> Violated(d, v), norm |-> Normalised(d, v),
               \* decided by a declared option: the option-free declaration answers differently, or the value changes
               nontrivial |-> (Accepts(d, v) # PlainAccepts(d, v)) \/ (Accepts(d, v) /\ Normalised(d, v) # v) \/
                              (Accepts(d, v) # Accepts(WithSupplied(d, "absent"), v))]

Row(d) == [decl |-> d, def |-> IF DefRejected(d) THEN "reject" ELSE "ok",
           cases |-> IF DefRejected(d) THEN {} ELSE { Case(d, v) : v \in C(d) }]

(* numbers that occur, for the order law and for the comparison with CPython integers in the harness *)
Nums == UNION { { v \in WideCands(d) : v.t = "int" } \cup {Lowest(d), Highest(d)} : d \in IntDecls }
NumPairs == { [a |-> a, b |-> b, lt |-> NumLt(a, b)] : a \in Nums, b \in Nums }
StripTable == { [s |-> v.s, out |-> Strip(v.s)] : v \in StrCands }

ASSUME NormalisedIsFixpoint(D, C)
ASSUME Monotone(D, C)
ASSUME BoundsWithinSize(D)
ASSUME NumOrderLaw(Nums)

ASSUME JsonSerialize(IOEnv.OUT, [rows |-> { Row(d) : d \in D }, numpairs |-> NumPairs, strip |-> StripTable,
                                 laws |-> <<"NormalisedIsFixpoint", "Monotone", "BoundsWithinSize", "NumOrderLaw">>])
=============================================================================
