----------------------------- MODULE RawSqlTables -----------------------------
(* C30: the input spaces of the E2 run, defined here and exported to the harness.
   Statements: every sequence of length 1..maxlen over RawSql!Alphabet; thorough additionally every
   statement `$` w with w of length exprfirst over the alphabet (an expression first, long enough for
   `$(a%a)` and `$('%')`).  The harness enumerates the same products from (alphabet, maxlen, exprfirst)
   and checks the count; Extra is a handful of longer statements.  Core: the statements whose ordered pairs are adapted one after the other
   (history dependence through the process-wide cache): every sequence of length <= 4 over a small alphabet
   that contains `$`, `%` and a name.  IN = [tier |-> "quick" | "thorough"]. *)
EXTENDS RawSql, Json, IOUtils

In == JsonDeserialize(IOEnv.IN)
Quick == In.tier = "quick"

MaxLen == IF Quick THEN 4 ELSE 5
ExprFirst == IF Quick THEN 0 ELSE 5
RECURSIVE Pow(_, _)
Pow(b, n) == IF n = 0 THEN 1 ELSE b * Pow(b, n - 1)
RECURSIVE SumPow(_, _)
SumPow(b, n) == IF n = 0 THEN 0 ELSE Pow(b, n) + SumPow(b, n - 1)
Count == SumPow(Len(Alphabet), MaxLen) + (IF ExprFirst = 0 THEN 0 ELSE Pow(Len(Alphabet), ExprFirst))

(* a few longer statements with a % inside the expression (both tiers) *)
Extra == { <<"$", "(", "a", "%", "a", ")">>, <<"$", "(", "'", "%", "'", ")">>, <<"$", "a", "(", "'", "%", "'", ")", ";", "%">>,
           <<"%", "$", "a", "[", "a", "%", "a", "]">> }

CoreAlphabet == IF Quick THEN {"$", "%", "a"} ELSE {"$", "%", "a", ";", "("}
CoreLen == IF Quick THEN 4 ELSE 4
Core == UpTo(CoreAlphabet, CoreLen)

ASSUME JsonSerialize(IOEnv.OUT, [alphabet |-> Alphabet, styles |-> Styles, maxlen |-> MaxLen, exprfirst |-> ExprFirst,
                                 count |-> Count, core |-> Core, extra |-> Extra])
=============================================================================
