------------------------------ MODULE PonyOrder ------------------------------
(***************************************************************************)
(* C16 - a flush orders its statements so that immediately enforced        *)
(* foreign keys accept them.                                               *)
(*                                                                         *)
(* Entities  P(id, cs = Set(C))  and  C(id, p = reference to P), in three   *)
(* declarations (constant Mode):                                           *)
(*   "refuse"  C.p Required, cascade_delete=False: a parent can only be    *)
(*             deleted when no child refers to it in the session's view;   *)
(*   "cascade" C.p Required, cascade_delete=True: its children go with it; *)
(*   "unlink"  C.p Optional: its children stay without a parent (NULL is   *)
(*             written as -1 here), and a child may be unlinked directly.  *)
(* A child refers to at most one parent: the references of every           *)
(* set of pending creations, updates and deletions form a forest, so they  *)
(* can always be ordered (parents inserted before their children, children *)
(* re-pointed or deleted before their old parents are deleted) and the     *)
(* commit of the session MUST succeed and store exactly the session's view.*)
(* All objects are loaded when the session starts and nothing is flushed   *)
(* before the final commit, so every behaviour is one flush of everything  *)
(* the calls left pending; TLC enumerates every sequence of calls up to    *)
(* the bound and each one is executed on the real ORM.                     *)
(***************************************************************************)
EXTENDS Integers, FiniteSets, TLC

CONSTANTS PIds, CIds, MaxLevel, Mode
ASSUME Mode \in {"refuse", "cascade", "unlink"}

VARIABLES db, cur,    \* [P |-> SUBSET PIds, C |-> [CIds -> PIds \cup {0, -1}]]   (0: the child does not exist, -1: no parent)
          dead,       \* keys deleted in this session are not used again before the flush
          done, ev

vars == <<db, cur, dead, done, ev>>
Ev(op, x, y, out) == [op |-> op, x |-> x, y |-> y, out |-> out]

WellFormed(s) == \A c \in CIds : s.C[c] \notin {0, -1} => s.C[c] \in s.P
NoParent == IF Mode = "unlink" THEN {-1} ELSE {}

Seeds == {s \in [P : SUBSET PIds, C : [CIds -> PIds \cup {0} \cup NoParent]] : WellFormed(s) /\ 1 \in s.P}

Init == db \in Seeds /\ cur = db /\ dead = {} /\ done = FALSE /\ ev = Ev("Init", 0, 0, "ok")

Kids(s, p) == {c \in CIds : s.C[c] = p}

CreateP(p) == /\ ~done /\ p \notin cur.P /\ <<"P", p>> \notin dead
              /\ cur' = [cur EXCEPT !.P = @ \cup {p}] /\ ev' = Ev("CreateP", p, 0, "ok") /\ UNCHANGED <<db, dead, done>>
DeleteP(p) == /\ ~done /\ p \in cur.P /\ (Mode = "refuse" => Kids(cur, p) = {})
              /\ cur' = [cur EXCEPT !.P = @ \ {p},
                                    !.C = [c \in CIds |-> IF cur.C[c] # p THEN cur.C[c] ELSE IF Mode = "cascade" THEN 0 ELSE -1]]
              /\ dead' = dead \cup {<<"P", p>>} \cup (IF Mode = "cascade" THEN {<<"C", c>> : c \in Kids(cur, p)} ELSE {})
              /\ ev' = Ev("DeleteP", p, 0, "ok") /\ UNCHANGED <<db, done>>
CreateC(c, p) == /\ ~done /\ cur.C[c] = 0 /\ <<"C", c>> \notin dead /\ p \in cur.P
                 /\ cur' = [cur EXCEPT !.C[c] = p] /\ ev' = Ev("CreateC", c, p, "ok") /\ UNCHANGED <<db, dead, done>>
Move(c, p) == /\ ~done /\ cur.C[c] # 0 /\ p \in cur.P \cup NoParent /\ p # cur.C[c]
              /\ cur' = [cur EXCEPT !.C[c] = p] /\ ev' = Ev("Move", c, p, "ok") /\ UNCHANGED <<db, dead, done>>
DeleteC(c) == /\ ~done /\ cur.C[c] # 0
              /\ cur' = [cur EXCEPT !.C[c] = 0] /\ dead' = dead \cup {<<"C", c>>}
              /\ ev' = Ev("DeleteC", c, 0, "ok") /\ UNCHANGED <<db, done>>

(* the flush that ends the session: always possible, stores the view *)
Commit == /\ ~done /\ done' = TRUE /\ db' = cur /\ ev' = Ev("Commit", 0, 0, "ok") /\ UNCHANGED <<cur, dead>>

Next == \/ Commit
        \/ \E p \in PIds : CreateP(p) \/ DeleteP(p)
        \/ \E c \in CIds : DeleteC(c) \/ \E p \in PIds \cup {-1} : CreateC(c, p) \/ Move(c, p)

Bounded == TLCGet("level") <= MaxLevel
ViewWellFormed == WellFormed(cur) /\ WellFormed(db)
(* the property itself, as a statement about the specification: whatever the calls were, the references can be ordered
   (no reference cycle is possible: children refer to parents only), so Commit is enabled in every open state *)
CommitAlwaysPossible == ~done => ENABLED Commit
=============================================================================
