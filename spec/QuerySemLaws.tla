---------------------------- MODULE QuerySemLaws ----------------------------
(* C01: the laws that make QuerySem!RefEval a sound stand-in for "evaluate the expression in Python",
   checked by TLC as ASSUMEs (a failure stops TLC: machinery error) and exported for the evidence.
   1. Kleene's connectives: De Morgan, double negation, commutativity, agreement with classical logic on
      definite values, regularity (making an unknown operand definite never flips a definite result).
   2. On every None-free row of the data sets, for every condition / value expression of the enumerated
      space, RefEval's three-valued evaluation EvalV agrees with plain Python evaluation PyEval (`and`/`or`
      returning operands, truthiness of values), and never yields unknown.
   3. On None-free data the two admissible readings of a missing collection element coincide. *)
EXTENDS QuerySem, Json, IOUtils

TV == <<VB(TRUE), VB(FALSE), VNull>>
I3 == 1 .. 3
Definite(i) == i \in {1, 2}

Kleene ==
    /\ \A i \in I3, j \in I3 : SameV(KNot(KAnd(TV[i], TV[j])), KOr(KNot(TV[i]), KNot(TV[j])))
    /\ \A i \in I3, j \in I3 : SameV(KNot(KOr(TV[i], TV[j])), KAnd(KNot(TV[i]), KNot(TV[j])))
    /\ \A i \in I3 : SameV(KNot(KNot(TV[i])), TV[i])
    /\ \A i \in I3, j \in I3 : SameV(KAnd(TV[i], TV[j]), KAnd(TV[j], TV[i])) /\ SameV(KOr(TV[i], TV[j]), KOr(TV[j], TV[i]))
    /\ \A i \in {1, 2}, j \in {1, 2} : /\ KAnd(TV[i], TV[j]) = VB(TV[i].v /\ TV[j].v)
                                       /\ KOr(TV[i], TV[j]) = VB(TV[i].v \/ TV[j].v)
                                       /\ KNot(TV[i]) = VB(~TV[i].v)
    \* regularity: if the result with an unknown operand is definite, it is the result for either definite value
    /\ \A j \in I3 : \A d \in {1, 2} :
          /\ (~IsNone(KAnd(VNull, TV[j])) => SameV(KAnd(TV[d], TV[j]), KAnd(VNull, TV[j])))
          /\ (~IsNone(KOr(VNull, TV[j])) => SameV(KOr(TV[d], TV[j]), KOr(VNull, TV[j])))
    \* a truth test is two-valued and None is false
    /\ TruthOf(VNull) = VB(FALSE) /\ TruthOf(VI(0)) = VB(FALSE) /\ TruthOf(VS(<<>>)) = VB(FALSE) /\ TruthOf(VI(-1)) = VB(TRUE)

Points == {<<k, i>> : k \in NoneFree, i \in 1 .. 3}
EnvAt(p) == ("x" :> DataSets[p[1]].T[p[2]])
CxAt(p) == Cx(DataSets[p[1]], "unknown", {})

PyConds == \A c \in LawConds : \A p \in Points :
              LET v == EvalV(c, EnvAt(p), CxAt(p))
                  w == PyEval(c, EnvAt(p), DataSets[p[1]])
              IN v.t = "bool" /\ w.t # "err" /\ (v.v = PyTruthy(w))

PyExprs == \A e \in LawExprs : \A p \in Points :
              SameV(EvalV(e, EnvAt(p), CxAt(p)), PyEval(e, EnvAt(p), DataSets[p[1]]))

Readings == \A q \in Queries(2) : HasMember(q.cond) =>
               \A k \in NoneFree : SameResult(RefEval(q, DataSets[k]), RefEvalAlt(q, DataSets[k]))

ASSUME Kleene
ASSUME PyConds
ASSUME PyExprs
ASSUME Readings
ASSUME JsonSerialize(IOEnv.OUT, [kleene |-> Kleene, pyeval_conds |-> PyConds, pyeval_exprs |-> PyExprs, readings |-> Readings,
                                 conds |-> Cardinality(LawConds), exprs |-> Cardinality(LawExprs), points |-> Cardinality(Points)])
=============================================================================
