------------------------------- MODULE RawSql -------------------------------
(***************************************************************************)
(* C30 - parameter substitution in raw SQL.                                *)
(*                                                                         *)
(* A statement is a sequence of one-character strings.  Pony's raw SQL     *)
(* entry points (Database.select / get / exists / execute,                 *)
(* Entity.select_by_sql / get_by_sql -> core.adapt_sql;  raw_sql() ->      *)
(* ormtypes.parse_raw_sql) look for `$`:                                   *)
(*     $$          a literal $                                             *)
(*     $expr       a Python expression evaluated in the caller's scope and *)
(*                 bound to a placeholder of the driver's parameter style  *)
(* where expr is what utils.parse_expr accepts: an identifier or a         *)
(* parenthesised expression, followed by any number of `.name`, `(...)`,   *)
(* `[...]` (white space allowed before each), optionally closed by `;`     *)
(* which is consumed.  Everything else is passed through.                  *)
(*                                                                         *)
(* Tokens(s)    transcription of the scanner (adapt_sql / parse_raw_sql    *)
(*              loop + parse_expr with its three regular expressions).     *)
(* Intended(s)  what the statement means: its text with `$$` -> `$` and    *)
(*              the k-th expression replaced by the marker "#k", plus the  *)
(*              expression sources in order.                               *)
(* Adapt(s, st) reference rendering for the five DB-API paramstyles.       *)
(* DriverLex    what a DB-API driver of that style makes of a statement    *)
(*              text: which placeholders it sees, in which order, which    *)
(*              argument each refers to, and the literal text (format and  *)
(*              pyformat drivers apply %-formatting - `%%` is `%` - but    *)
(*              only when arguments are passed).                           *)
(* Faithful     the judge: a (text, has-arguments) result is faithful iff  *)
(*              the driver's reading of it equals Intended(s).  Real       *)
(*              outputs are judged by this, not by equality with Adapt, so *)
(*              a different but equivalent rendering is never flagged.     *)
(* TLC checks inside this module (ASSUME) that Adapt is faithful for every *)
(* statement of length <= 3 over the alphabet and every style.             *)
(*                                                                         *)
(* History: adapt_sql keeps a process-wide cache.  The specification of an *)
(* adaptation after any history of earlier adaptations is AdaptAfter(hist, *)
(* s, st) = Adapt(s, st): the history is irrelevant.  AsBuiltAfter models  *)
(* the one known way the implementation depends on it (the cache entry is  *)
(* stored under the %-doubled text) and is used only to attribute a        *)
(* mismatch to that recorded defect.                                       *)
(*                                                                         *)
(* Deliberate limits: no backslash and no double quote in the alphabet     *)
(* (string literals inside brackets are '...'); statements are shorter     *)
(* than 8 characters inside brackets-with-triple-quotes, i.e. the          *)
(* triple-quoted alternatives of expr3_re can never match.                 *)
(***************************************************************************)
EXTENDS Integers, Sequences, FiniteSets, TLC

Alphabet == <<"$", "%", ";", "(", ")", ".", "[", "]", "'", "a", " ">>
Styles == <<"qmark", "format", "numeric", "named", "pyformat">>
FormatStyles == {"format", "pyformat"}

Digits == <<"0", "1", "2", "3", "4", "5", "6", "7", "8", "9">>
DigitSet == {Digits[k] : k \in 1 .. 10}
LowerCase == {"a", "b", "c", "d", "e", "f", "g", "h", "i", "j", "k", "l", "m", "n", "o", "p", "q", "r", "s", "t", "u", "v", "w", "x", "y", "z"}
UpperCase == {"A", "B", "C", "D", "E", "F", "G", "H", "I", "J", "K", "L", "M", "N", "O", "P", "Q", "R", "S", "T", "U", "V", "W", "X", "Y", "Z"}
IdentStart == LowerCase \cup UpperCase \cup {"_"}        \* [A-Za-z_]
IdentChars == IdentStart \cup DigitSet                    \* \w (ASCII part)
Spaces == {" ", "\t", "\n"}                               \* \s (the part that can be passed)

RECURSIVE SkipSet(_, _, _)
SkipSet(s, p, set) == IF p <= Len(s) /\ s[p] \in set THEN SkipSet(s, p + 1, set) ELSE p

RECURSIVE Find(_, _, _)
Find(s, p, c) == IF p > Len(s) THEN 0 ELSE IF s[p] = c THEN p ELSE Find(s, p + 1, c)      \* 0: not found

CloseOf(c) == IF c = "(" THEN ")" ELSE "]"

(* expr3_re.search loop of parse_expr: from p, count `open`/`close` (only the kind that was opened),
   skip '...' literals that are closed, ignore everything else; position after the matching close, 0 if none *)
RECURSIVE ScanBr(_, _, _, _)
ScanBr(s, p, open, cnt) ==
    IF p > Len(s) THEN 0
    ELSE IF s[p] = open THEN ScanBr(s, p + 1, open, cnt + 1)
    ELSE IF s[p] = CloseOf(open) THEN (IF cnt = 1 THEN p + 1 ELSE ScanBr(s, p + 1, open, cnt - 1))
    ELSE IF s[p] = "'" /\ Find(s, p + 1, "'") # 0 THEN ScanBr(s, Find(s, p + 1, "'") + 1, open, cnt)
    ELSE ScanBr(s, p + 1, open, cnt)

(* parse_expr(s, st): [ok, end (position after the expression text, including a closing `;`), semi] *)
PFail == [ok |-> FALSE, end |-> 0, semi |-> FALSE]
RECURSIVE Expr2(_, _)
Expr2(s, p) ==                   \* p: position after what has been accepted so far
    LET q == SkipSet(s, p, Spaces)
    IN IF q > Len(s) THEN [ok |-> TRUE, end |-> p, semi |-> FALSE]
       ELSE IF s[q] = ";" THEN [ok |-> TRUE, end |-> q + 1, semi |-> TRUE]
       ELSE IF s[q] = "." THEN
            LET r == SkipSet(s, q + 1, Spaces)
            IN IF r <= Len(s) /\ s[r] \in IdentStart THEN Expr2(s, SkipSet(s, r + 1, IdentChars))
               ELSE [ok |-> TRUE, end |-> p, semi |-> FALSE]
       ELSE IF s[q] \in {"(", "["} THEN
            LET e == ScanBr(s, q + 1, s[q], 1)
            IN IF e = 0 THEN PFail ELSE Expr2(s, e)
       ELSE [ok |-> TRUE, end |-> p, semi |-> FALSE]

ParseExpr(s, st) ==
    IF st > Len(s) THEN PFail
    ELSE IF s[st] \in IdentStart THEN Expr2(s, SkipSet(s, st + 1, IdentChars))
    ELSE IF s[st] = "(" THEN Expr2(s, st)
    ELSE PFail

(* tokens: [k |-> "text" | "dollar" | "expr", v |-> characters] *)
Tok(k, v) == [k |-> k, v |-> v]
TFail == [ok |-> FALSE, toks |-> <<>>]
RECURSIVE Scan(_, _)
Scan(s, pos) ==
    LET i == Find(s, pos, "$")
    IN IF i = 0 THEN [ok |-> TRUE, toks |-> <<Tok("text", SubSeq(s, pos, Len(s)))>>]
       ELSE IF i = Len(s) THEN TFail                                   \* `$` at the very end
       ELSE IF s[i + 1] = "$" THEN
            LET rest == Scan(s, i + 2)
            IN IF rest.ok THEN [ok |-> TRUE, toks |-> <<Tok("text", SubSeq(s, pos, i - 1)), Tok("dollar", <<"$">>)>> \o rest.toks] ELSE TFail
       ELSE LET e == ParseExpr(s, i + 1)
            IN IF ~e.ok THEN TFail
               ELSE LET src  == SubSeq(s, i + 1, IF e.semi THEN e.end - 2 ELSE e.end - 1)
                        rest == Scan(s, e.end)
                    IN IF rest.ok THEN [ok |-> TRUE, toks |-> <<Tok("text", SubSeq(s, pos, i - 1)), Tok("expr", src)>> \o rest.toks] ELSE TFail

Tokens(s) == Scan(s, 1)

---------------------------------------------------------------------------
Marker(k) == "#" \o ToString(k)

RECURSIVE MText(_, _)
MText(toks, k) ==            \* k: number of the next expression
    IF toks = <<>> THEN <<>>
    ELSE IF Head(toks).k = "expr" THEN <<Marker(k)>> \o MText(Tail(toks), k + 1)
    ELSE Head(toks).v \o MText(Tail(toks), k)

ExprsOf(toks) == LET es == SelectSeq(toks, LAMBDA t : t.k = "expr") IN [k \in 1 .. Len(es) |-> es[k].v]

Intended(s) ==
    LET t == Tokens(s)
    IN [ok |-> t.ok, mtext |-> MText(t.toks, 1), exprs |-> ExprsOf(t.toks)]

---------------------------------------------------------------------------
(* reference rendering *)
RECURSIVE DoublePct(_)
DoublePct(cs) == IF cs = <<>> THEN <<>> ELSE (IF Head(cs) = "%" THEN <<"%", "%">> ELSE <<Head(cs)>>) \o DoublePct(Tail(cs))

RECURSIVE DigitsOf(_)
DigitsOf(n) == IF n < 10 THEN <<Digits[n + 1]>> ELSE DigitsOf(n \div 10) \o <<Digits[(n % 10) + 1]>>

Placeholder(st, k) ==
    CASE st = "qmark"    -> <<"?">>
      [] st = "format"   -> <<"%", "s">>
      [] st = "numeric"  -> <<":">> \o DigitsOf(k)
      [] st = "named"    -> <<":", "p">> \o DigitsOf(k)
      [] st = "pyformat" -> <<"%", "(", "p">> \o DigitsOf(k) \o <<")", "s">>

RECURSIVE Render(_, _, _, _)
Render(toks, st, k, hasargs) ==
    IF toks = <<>> THEN <<>>
    ELSE LET t == Head(toks)
         IN (CASE t.k = "expr" -> Placeholder(st, k)
               [] t.k = "dollar" -> <<"$">>
               [] OTHER -> IF hasargs /\ st \in FormatStyles THEN DoublePct(t.v) ELSE t.v)
            \o Render(Tail(toks), st, IF t.k = "expr" THEN k + 1 ELSE k, hasargs)

(* [ok, text, hasargs]: arguments are passed to the driver only if there is at least one expression *)
Adapt(s, st) ==
    LET t == Tokens(s)
        h == ExprsOf(t.toks) # <<>>
    IN [ok |-> t.ok, text |-> Render(t.toks, st, 1, h), hasargs |-> h]

(* Substituting the placeholder for the expression cannot be faithful when the style's placeholder ends in a
   name or number and the statement goes on with a character that continues it: `$a;b` -> `:p1b` (named),
   `$a;1` -> `:11` (numeric).  Adapt (like adapt_sql) substitutes all the same; the judge reports such a result as
   unfaithful, and Mergeable lets a mismatch be attributed to exactly this. *)
RECURSIVE MergeIn(_, _)
MergeIn(toks, cont) ==
    /\ Len(toks) >= 2
    /\ \/ Head(toks).k = "expr" /\ toks[2].k = "text" /\ toks[2].v # <<>> /\ toks[2].v[1] \in cont
       \/ MergeIn(Tail(toks), cont)
Mergeable(s, st) ==
    CASE st = "named"   -> MergeIn(Tokens(s).toks, IdentChars)
      [] st = "numeric" -> MergeIn(Tokens(s).toks, DigitSet)
      [] OTHER -> FALSE

(* history of earlier adaptations: irrelevant *)
AdaptAfter(hist, s, st) == Adapt(s, st)

(* as built: the result is cached under the %-doubled statement text for format / pyformat *)
AsBuiltAfter(hist, s, st) ==
    IF st \in FormatStyles /\ \E k \in 1 .. Len(hist) : hist[k] # s /\ DoublePct(hist[k]) = s /\ Tokens(hist[k]).ok
    THEN Adapt(hist[CHOOSE k \in 1 .. Len(hist) : hist[k] # s /\ DoublePct(hist[k]) = s /\ Tokens(hist[k]).ok], st)
    ELSE Adapt(s, st)

---------------------------------------------------------------------------
(* what a DB-API driver reads: [ok, mtext (j-th placeholder -> "#j"), refs (what the j-th placeholder refers to)] *)
LexQmark(t, p, j) ==           \* every `?` is the next positional argument (not recursive: whole translated queries pass here)
    LET qs == { k \in 1 .. Len(t) : t[k] = "?" }
        nth(k) == Cardinality({ i \in qs : i <= k })
    IN [ok |-> TRUE, mtext |-> [k \in 1 .. Len(t) |-> IF t[k] = "?" THEN Marker(nth(k)) ELSE t[k]],
        refs |-> [n \in 1 .. Cardinality(qs) |-> DigitsOf(n)]]

LFail == [ok |-> FALSE, mtext |-> <<>>, refs |-> <<>>]
RECURSIVE LexFormat(_, _, _)
LexFormat(t, p, j) ==          \* `%s` next positional argument, `%%` a percent sign, anything else: the driver raises
    IF p > Len(t) THEN [ok |-> TRUE, mtext |-> <<>>, refs |-> <<>>]
    ELSE IF t[p] # "%" THEN LET r == LexFormat(t, p + 1, j) IN [ok |-> r.ok, mtext |-> <<t[p]>> \o r.mtext, refs |-> r.refs]
    ELSE IF p = Len(t) THEN LFail
    ELSE IF t[p + 1] = "%" THEN LET r == LexFormat(t, p + 2, j) IN [ok |-> r.ok, mtext |-> <<"%">> \o r.mtext, refs |-> r.refs]
    ELSE IF t[p + 1] = "s" THEN LET r == LexFormat(t, p + 2, j + 1)
                                IN [ok |-> r.ok, mtext |-> <<Marker(j)>> \o r.mtext, refs |-> <<DigitsOf(j)>> \o r.refs]
    ELSE LFail

RECURSIVE LexColon(_, _, _, _)
LexColon(t, p, j, named) ==    \* numeric `:12`, named `:name`; a colon followed by nothing of the kind is text
    IF p > Len(t) THEN [ok |-> TRUE, mtext |-> <<>>, refs |-> <<>>]
    ELSE LET q == IF t[p] # ":" THEN p
                  ELSE IF named THEN (IF p < Len(t) /\ t[p + 1] \in IdentStart THEN SkipSet(t, p + 2, IdentChars) ELSE p)
                  ELSE SkipSet(t, p + 1, DigitSet) - (IF SkipSet(t, p + 1, DigitSet) = p + 1 THEN 1 ELSE 0)
         IN IF q = p THEN LET r == LexColon(t, p + 1, j, named) IN [ok |-> r.ok, mtext |-> <<t[p]>> \o r.mtext, refs |-> r.refs]
            ELSE LET r == LexColon(t, q, j + 1, named)
                 IN [ok |-> r.ok, mtext |-> <<Marker(j)>> \o r.mtext, refs |-> <<SubSeq(t, p + 1, q - 1)>> \o r.refs]

RECURSIVE LexPyformat(_, _, _)
LexPyformat(t, p, j) ==        \* `%(key)s`, `%%`
    IF p > Len(t) THEN [ok |-> TRUE, mtext |-> <<>>, refs |-> <<>>]
    ELSE IF t[p] # "%" THEN LET r == LexPyformat(t, p + 1, j) IN [ok |-> r.ok, mtext |-> <<t[p]>> \o r.mtext, refs |-> r.refs]
    ELSE IF p = Len(t) THEN LFail
    ELSE IF t[p + 1] = "%" THEN LET r == LexPyformat(t, p + 2, j) IN [ok |-> r.ok, mtext |-> <<"%">> \o r.mtext, refs |-> r.refs]
    ELSE IF t[p + 1] = "(" THEN
         LET c == Find(t, p + 2, ")")
         IN IF c = 0 \/ c = Len(t) \/ t[c + 1] # "s" THEN LFail
            ELSE LET r == LexPyformat(t, c + 2, j + 1)
                 IN [ok |-> r.ok, mtext |-> <<Marker(j)>> \o r.mtext, refs |-> <<SubSeq(t, p + 2, c - 1)>> \o r.refs]
    ELSE LFail

DriverLex(st, t, hasargs) ==
    IF ~hasargs THEN [ok |-> TRUE, mtext |-> t, refs |-> <<>>]        \* no arguments: the text is executed as it is
    ELSE CASE st = "qmark"    -> LexQmark(t, 1, 1)
           [] st = "format"   -> LexFormat(t, 1, 1)
           [] st = "numeric"  -> LexColon(t, 1, 1, FALSE)
           [] st = "named"    -> LexColon(t, 1, 1, TRUE)
           [] st = "pyformat" -> LexPyformat(t, 1, 1)
           [] st = "items"    -> [ok |-> TRUE, mtext |-> t, refs |-> <<>>]   \* parse_raw_sql: the harness writes "#k" for the k-th code item

(* the judge *)
FaithfulTo(i, st, text, hasargs) ==       \* i = Intended(s)
    LET d == DriverLex(st, text, hasargs)
    IN i.ok /\ d.ok /\ d.mtext = i.mtext /\ (hasargs <=> i.exprs # <<>>)
Faithful(s, st, text, hasargs) == FaithfulTo(Intended(s), st, text, hasargs)

(* a raw_sql() fragment inside a translated query: the driver's reading of the whole statement must contain the
   fragment's intended text (the harness uses queries without other parameters, so the markers are numbered alike) *)
Contains(big, small) == \E off \in 0 .. Len(big) - Len(small) : SubSeq(big, off + 1, off + Len(small)) = small
EmbeddedFaithful(s, text, hasargs) ==
    LET i == Intended(s)
        d == DriverLex("qmark", text, hasargs)
    IN i.ok /\ d.ok /\ Contains(d.mtext, i.mtext) /\ Len(d.refs) = Len(i.exprs)

---------------------------------------------------------------------------
RECURSIVE Strings(_, _)
Strings(alpha, n) ==          \* all sequences of length exactly n over the set alpha
    IF n = 0 THEN {<<>>} ELSE { Append(w, c) : w \in Strings(alpha, n - 1), c \in alpha }
UpTo(alpha, n) == UNION { Strings(alpha, k) : k \in 1 .. n }
AlphabetSet == {Alphabet[k] : k \in 1 .. Len(Alphabet)}

(* law checked by TLC: the reference rendering is faithful under the driver model, for every style *)
ASSUME AdaptIsFaithful ==
    \A s \in UpTo(AlphabetSet, 3) : \A k \in 1 .. Len(Styles) :
        LET a == Adapt(s, Styles[k]) IN a.ok /\ ~Mergeable(s, Styles[k]) => Faithful(s, Styles[k], a.text, a.hasargs)

=============================================================================
