--------------------------- MODULE JsonDocJudge ---------------------------
(* C29, E2: judges texts produced by the real PGSQLBuilder.eval_json_path (a PostgreSQL text[] literal used as the
   right operand of #> / #>>) with the array-literal lexer of JsonDoc: the literal must carry exactly the keys.
   IOEnv.IN: {"cases": [{"keys": [I(n) | C(chars)], "text": [chars]}]}. *)
EXTENDS Integers, Sequences, FiniteSets, TLC, Json, IOUtils

INSTANCE JsonDoc WITH Scalars <- {}, ArgConts <- {}, Keys <- {}, SliceB <- {}, MaxLen <- 0, MaxSeq <- 0, InitDocs <- {},
                      MaxBurst <- 0, MaxCommits <- 0, Ops <- {}, SrcDocs <- {}, MoveFrom <- {},
                      doc <- 0, committed <- 0, dirty <- FALSE, alias <- 0, budget <- 0, ncommit <- 0, ev <- 0, src <- 0

In == JsonDeserialize(IOEnv.IN)
Judge(c) == LET r == PgLex(c.text) IN
            [ok |-> PgCarries(c.text, c.keys), lexed |-> r.ok, items |-> r.items]
ASSUME JsonSerialize(IOEnv.OUT, [n \in 1 .. Len(In.cases) |-> Judge(In.cases[n])])
=============================================================================
