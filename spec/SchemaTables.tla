---------------------------- MODULE SchemaTables ----------------------------
(* C26: the bounded space of entity diagrams and, for every diagram and every backend configuration
   [dialect, maxlen] given by the harness, what Schema.tla expects: the abstract schema (in full for the
   configurations the harness marks `full`, i.e. the ones it executes on a real database) or "rejected",
   and whether the names of the documented generation scheme are usable on that backend (names_ok).
   The families are unions of small products, so that every attribute kind and every option that affects
   DDL occurs in combination with the others it interacts with. *)
EXTENDS Schema, Json, IOUtils

In == JsonDeserialize(IOEnv.IN)
Thorough == In.tier = "thorough"

N1(a) == <<a>>
(* fixed names *)
nA == <<"A">>       nB == <<"B">>       nC == <<"C">>       nT == <<"T">>       nS == <<"S">>
nAb == <<"A","b">>  nAB == <<"A","B">>  nA_B == <<"A","_","B">>   nA_B_2 == <<"A","_","B","_","2">>
na == <<"a">>  nb == <<"b">>  nc == <<"c">>  nk == <<"k">>  np == <<"p">>  nq == <<"q">>  nx == <<"x">>  ny == <<"y">>
nz == <<"z">>  nn == <<"n">>  nw == <<"w">>  nf == <<"f">>
na_b == <<"a","_","b">>   nUA == <<"A">>
ncx == <<"c","x">>  ncy == <<"c","y">>  ncz == <<"c","z">>  ntt == <<"t","t">>  nTT == <<"T","T">>  nuu == <<"u","u">>
nix == <<"i","x">>  nIX == <<"I","X">>  niy == <<"i","y">>
npid == <<"p","i","d">>

Attr(name, kind, type) == [name |-> name, kind |-> kind, type |-> type, unique |-> FALSE, nullable |-> "none",
                           index |-> NoIdx, column |-> <<>>]
Ent(name, attrs) == [name |-> name, table |-> <<>>, base |-> 0, attrs |-> attrs, pk |-> <<>>, ckeys |-> <<>>, cidx |-> <<>>]
EndOf(ent, name, kind) == [ent |-> ent, name |-> name, kind |-> kind, columns |-> <<>>, nullable |-> "none", index |-> NoIdx,
                           cascade |-> "none", table |-> <<>>, rcolumns |-> <<>>]
Rel(a, b) == [a |-> a, b |-> b, sym |-> FALSE]
Sym(a) == [a |-> a, b |-> a, sym |-> TRUE]
Diagram(fam, ents, rels) == [fam |-> fam, ents |-> ents, rels |-> rels]

IdxOpts == {NoIdx, [k |-> "true", n |-> <<>>], [k |-> "false", n |-> <<>>], [k |-> "name", n |-> nix]}
IdxOptsFk == {NoIdx, [k |-> "false", n |-> <<>>], [k |-> "name", n |-> nix]}
Nullables == {"none", "true", "false"}

(* primary key declarations of an entity: attributes and the PrimaryKey(..) argument list *)
PkModes == {"implicit", "auto", "str", "composite", "column"}
PkAttrs(pm) == CASE pm = "implicit" -> <<>>
                 [] pm = "auto" -> <<Attr(nk, "PrimaryKey", "int")>>
                 [] pm = "str" -> <<Attr(nk, "PrimaryKey", "str")>>
                 [] pm = "column" -> <<[Attr(nk, "PrimaryKey", "int") EXCEPT !.column = npid]>>
                 [] pm = "composite" -> <<Attr(np, "Required", "int"), Attr(nq, "Required", "str")>>
PkDecl(pm) == IF pm = "composite" THEN <<np, nq>> ELSE <<>>
WithPk(e, pm) == [e EXCEPT !.attrs = PkAttrs(pm) \o @, !.pk = PkDecl(pm)]

---------------------------------------------------------------------------
(* F1: one entity, one attribute with every option *)
F1 ==
    {Diagram("scalar", <<WithPk(Ent(nT, <<[Attr(nx, kd, ty) EXCEPT !.unique = u, !.nullable = nl, !.index = ix, !.column = col]>>), pm)>>, <<>>) :
        pm \in (IF Thorough THEN PkModes ELSE {"implicit"}),
        kd \in {"Required", "Optional"}, ty \in {"int", "str"}, u \in BOOLEAN, nl \in Nullables, ix \in IdxOpts,
        col \in {<<>>, ncx}}

(* F2: composite keys and indexes, explicit table name, attribute named like a joined column list *)
F2 ==
    {Diagram("composite",
             <<[Ent(nT, <<[Attr(na, "Required", "int") EXCEPT !.index = ia],
                          [Attr(nb, kb, tb) EXCEPT !.nullable = nb2],
                          [Attr(na_b, "Optional", "str") EXCEPT !.index = ic]>>)
                EXCEPT !.table = tn, !.ckeys = ck, !.cidx = ci]>>, <<>>) :
        ia \in {NoIdx, [k |-> "true", n |-> <<>>]}, kb \in {"Required", "Optional"},
        tb \in (IF Thorough THEN {"int", "str"} ELSE {"str"}), nb2 \in {"none", "false"},
        ic \in {NoIdx, [k |-> "true", n |-> <<>>]}, tn \in (IF Thorough THEN {<<>>, ntt} ELSE {<<>>}),
        ck \in {<<>>, <<<<na, nb>>>>}, ci \in {<<>>, <<<<na, nb>>>>, <<<<nb, na>>>>}}
    \cup
    {Diagram("composite",
             <<[WithPk(Ent(nT, <<Attr(na, "Required", "int"), Attr(nb, "Optional", "str")>>), pm)
                EXCEPT !.table = tn, !.ckeys = ck, !.cidx = ci]>>, <<>>) :
        pm \in {"composite"}, tn \in {<<>>, ntt},
        ck \in {<<>>, <<<<na, nb>>>>, <<<<np, nq>>>>, <<<<na, nb>>, <<nb, na>>>>},
        ci \in {<<>>, <<<<nb, na>>>>, <<<<na, nb>>, <<na, nb>>>>}}

(* F3: one-to-many and one-to-one; A.x holds (or not) the reference to B *)
RelKinds == {<<"Required", "Set">>, <<"Optional", "Set">>, <<"Required", "Optional">>, <<"Optional", "Optional">>,
             <<"Optional", "Required">>, <<"Required", "Required">>}
ColChoices == {<<>>, <<ncx>>, <<ncx, ncy>>}
F3 ==
    {Diagram("relation",
             <<Ent(nA, <<Attr(nn, "Required", "int")>>), WithPk(Ent(nB, <<>>), pm)>>,
             <<Rel([EndOf(1, nx, kk[1]) EXCEPT !.columns = cols, !.nullable = nl, !.index = ix],
                   [EndOf(2, ny, kk[2]) EXCEPT !.cascade = cd])>>) :
        pm \in {"implicit", "composite", "column"}, kk \in RelKinds, cols \in ColChoices,
        nl \in (IF Thorough THEN Nullables ELSE {"none"}), ix \in IdxOptsFk,
        cd \in (IF Thorough THEN {"none", "true", "false"} ELSE {"none"})}
    \cup
    {Diagram("relation",
             <<Ent(nA, <<>>), WithPk(Ent(nB, <<>>), pm)>>,
             <<Rel([EndOf(1, nx, kk[1]) EXCEPT !.nullable = nl, !.cascade = cd1],
                   [EndOf(2, ny, kk[2]) EXCEPT !.cascade = cd, !.columns = cols2, !.table = tb])>>) :
        pm \in (IF Thorough THEN {"implicit", "composite"} ELSE {"implicit"}), kk \in RelKinds,
        nl \in (IF Thorough THEN Nullables ELSE {"none", "false"}), cd \in {"none", "true", "false"},
        cd1 \in {"none", "true"}, cols2 \in {<<>>, <<ncz>>}, tb \in (IF Thorough THEN {<<>>, ntt} ELSE {<<>>})}
    \cup
    {Diagram("relation",
             <<Ent(nA, <<>>), Ent(nB, <<>>)>>,
             <<Rel(EndOf(1, nx, kk[1]), [EndOf(2, ny, kk[2]) EXCEPT !.table = ntt])>>) : kk \in RelKinds}
    \cup
    \* a relationship attribute inside a primary key and inside composite keys; a reference to such an entity
    {Diagram("relation-in-key",
             <<WithPk(Ent(nB, <<>>), pm),
               [Ent(nC, <<Attr(nn, "Required", "int")>>) EXCEPT !.pk = pkc, !.ckeys = ck],
               Ent(nA, <<>>)>>,
             <<Rel(EndOf(2, nx, "Required"), EndOf(1, ny, "Set")),
               Rel([EndOf(3, nz, k3) EXCEPT !.columns = cols], EndOf(2, nw, "Set"))>>) :
        pm \in {"implicit", "composite"}, pkc \in {<<>>, <<nx, nn>>, <<nn, nx>>}, ck \in {<<>>, <<<<nx, nn>>>>},
        k3 \in {"Required", "Optional"}, cols \in {<<>>, <<ncx, ncy>>, <<ncx, ncy, ncz>>}}

(* F4: many-to-many *)
TablePairs == {<<<<>>, <<>>>>, <<ntt, <<>>>>, <<<<>>, ntt>>, <<ntt, ntt>>, <<ntt, nuu>>, <<nB, <<>>>>, <<nTT, <<>>>>}
F4 ==
    {Diagram("m2m",
             <<WithPk(Ent(nA, <<>>), pm), Ent(nB, <<>>)>>,
             <<Rel([EndOf(1, nx, "Set") EXCEPT !.table = tp[1], !.columns = ca, !.index = ix],
                   [EndOf(2, ny, "Set") EXCEPT !.table = tp[2], !.columns = cb, !.cascade = cd])>>) :
        pm \in {"implicit", "composite"}, tp \in TablePairs, ca \in {<<>>, <<ncx>>}, cb \in ColChoices,
        ix \in IdxOptsFk, cd \in (IF Thorough THEN {"none", "false"} ELSE {"none"})}
    \cup
    \* self-references: one symmetric attribute, two attributes of one entity
    {Diagram("m2m-self",
             <<WithPk(Ent(nA, <<>>), pm)>>,
             <<Sym([EndOf(1, nf, "Set") EXCEPT !.columns = ca, !.rcolumns = cr, !.table = tn])>>) :
        pm \in {"implicit", "composite"}, ca \in {<<>>, <<ncx>>, <<ncx, ncy>>}, cr \in {<<>>, <<ncz>>, <<ncz, ncx>>, <<ncx, ncy>>},
        tn \in {<<>>, ntt}}
    \cup
    {Diagram("m2m-self",
             <<WithPk(Ent(nA, <<>>), pm)>>,
             <<Rel([EndOf(1, nn2[1], "Set") EXCEPT !.columns = ca, !.index = ix], [EndOf(1, nn2[2], "Set") EXCEPT !.columns = cb])>>) :
        pm \in {"implicit", "composite"}, nn2 \in {<<np, nq>>, <<nq, np>>}, ca \in {<<>>, <<ncx>>}, cb \in {<<>>, <<ncy>>, <<ncx>>},
        ix \in IdxOptsFk}
    \cup
    \* two link tables with the same default name, and entities whose table has that name (before / after)
    {Diagram("m2m-names",
             (IF pos = "before" THEN <<Ent(third, <<>>)>> ELSE <<>>) \o <<Ent(nA, <<>>), Ent(nB, <<>>)>>
             \o (IF pos = "after" THEN <<Ent(third, <<>>)>> ELSE <<>>),
             LET o == IF pos = "before" THEN 1 ELSE 0 IN
             <<Rel(EndOf(1 + o, nx, "Set"), EndOf(2 + o, ny, "Set"))>>
             \o (IF two THEN <<Rel(EndOf(1 + o, nz, "Set"), EndOf(2 + o, nw, "Set"))>> ELSE <<>>)) :
        pos \in {"none", "before", "after"}, third \in {nA_B, nA_B_2, nC}, two \in BOOLEAN}

(* F5: single-table inheritance *)
F5 ==
    {Diagram("inheritance",
             <<Ent(nB, (IF dm = "explicit" THEN <<Attr(nk, "Discriminator", "int")>> ELSE <<>>) \o <<Attr(nx, "Required", "int")>>),
               [Ent(nS, <<[Attr(ny, kd, ty) EXCEPT !.nullable = nl, !.unique = u, !.index = ix, !.column = col]>>) EXCEPT !.base = 1]>>,
             <<>>) :
        dm \in {"default", "explicit"}, kd \in {"Required", "Optional"}, ty \in {"int", "str"}, nl \in Nullables,
        u \in BOOLEAN, ix \in {NoIdx, [k |-> "true", n |-> <<>>]}, col \in {<<>>, ClassType}}
    \cup
    {Diagram("inheritance",
             <<Ent(nB, <<Attr(nx, "Required", "int")>>),
               [Ent(nS, <<Attr(ny, "Required", "int"), Attr(nw, "Required", "str")>>) EXCEPT !.base = 1, !.table = tn, !.pk = pks, !.ckeys = ck],
               [Ent(nT, <<Attr(nz, "Optional", "str")>>) EXCEPT !.base = b3]>>,
             <<>>) :
        tn \in {<<>>, ntt}, pks \in {<<>>, <<ny, nw>>}, ck \in {<<>>, <<<<ny, nw>>>>}, b3 \in {0, 1, 2}}
    \cup
    \* a subclass declares a composite key / index over an attribute of its base (composite_key(B.x, y))
    {Diagram("inheritance-key",
             <<Ent(nB, <<[Attr(nx, kd, ty) EXCEPT !.unique = u, !.index = ix]>>),
               [Ent(nS, <<Attr(ny, "Optional", "str")>>) EXCEPT !.base = 1, !.ckeys = ck, !.cidx = ci]>>,
             <<>>) :
        kd \in {"Required", "Optional"}, ty \in {"int", "str"}, u \in BOOLEAN, ix \in {NoIdx, [k |-> "true", n |-> <<>>]},
        ck \in {<<>>, <<<<nx, ny>>>>}, ci \in {<<>>, <<<<nx, ny>>>>, <<<<ny, nx>>>>}}
    \cup
    \* relationships from and to a subclass
    {Diagram("inheritance-rel",
             <<WithPk(Ent(nB, <<>>), pm), [Ent(nS, <<>>) EXCEPT !.base = 1], Ent(nC, <<>>)>>,
             <<Rel([EndOf(2, nx, k1) EXCEPT !.nullable = nl], EndOf(3, ny, "Set")),
               Rel(EndOf(3, nz, k2), EndOf(2, nw, k3))>>) :
        pm \in {"implicit", "composite"}, k1 \in {"Required", "Optional"}, nl \in {"none", "false"},
        k2 \in {"Required", "Optional", "Set"}, k3 \in {"Set", "Optional"}}

(* F6: names - letter case, exact duplicates, and lengths around the limits of the backends *)
Long(first, n, last) == <<first>> \o Rep("o", n - 2) \o <<last>>       \* n >= 2
Lens == IF Thorough THEN {2, 3, 4, 5, 8, 9, 27, 30, 31, 58, 63, 64, 65} ELSE {2, 9, 31, 65}
F6 ==
    {Diagram("names-case",
             <<[Ent(e1, <<[Attr(na, "Required", "int") EXCEPT !.index = i1], [Attr(n2, "Required", "int") EXCEPT !.column = col, !.index = i2]>>)
                EXCEPT !.table = t1],
               [Ent(e2, <<>>) EXCEPT !.table = t2]>>, <<>>) :
        e1 \in {nAb}, e2 \in {nAB, nB}, t1 \in (IF Thorough THEN {<<>>, ntt} ELSE {ntt}), t2 \in {<<>>, nTT, ntt},
        n2 \in {nb, nUA}, col \in {<<>>, nUA, na},
        i1 \in (IF Thorough THEN {NoIdx, [k |-> "name", n |-> nix]} ELSE {[k |-> "name", n |-> nix]}), i2 \in {NoIdx, [k |-> "name", n |-> nIX], [k |-> "name", n |-> nix]}}
    \cup
    \* two unrelated entities on one table: never mappable, also when their columns (and primary keys) are disjoint
    {Diagram("shared-table",
             <<[Ent(nA, PkAttrs(pm1) \o <<Attr(na, "Required", "int")>>) EXCEPT !.table = tp[1]],
               [Ent(nB, (IF pm2 = "other" THEN <<Attr(np, "PrimaryKey", "int")>> ELSE PkAttrs(pm2)) \o <<Attr(nb, "Required", "str")>>)
                EXCEPT !.table = tp[2]]>>, <<>>) :
        pm1 \in {"implicit", "auto"}, pm2 \in {"implicit", "auto", "other"},
        tp \in {<<ntt, ntt>>, <<<<>>, nA>>, <<nB, <<>>>>, <<ntt, nuu>>, <<<<>>, <<>>>>}}
    \cup
    {Diagram("names-long",
             <<Ent(Long("P", n, "a"), <<[Attr(Long("v", m, "a"), "Required", "int") EXCEPT !.index = ix, !.unique = u],
                                       Attr(Long("v", m, "b"), "Optional", "str")>>),
               Ent(Long("P", n, "b"), <<>>)>>,
             IF rk = "none" THEN <<>>
             ELSE IF rk = "fk" THEN <<Rel(EndOf(1, Long("r", m, "a"), "Required"), EndOf(2, nx, "Set"))>>
             ELSE <<Rel(EndOf(1, Long("r", m, "a"), "Set"), EndOf(2, nx, "Set"))>>) :
        n \in Lens, m \in Lens, ix \in {NoIdx, [k |-> "true", n |-> <<>>]}, u \in BOOLEAN, rk \in {"none", "fk", "m2m"}}
    \cup
    {Diagram("names-long-m2m",
             <<Ent(Long("P", n, "a"), <<>>), Ent(Long("Q", m, "b"), <<>>)>>,
             <<Rel(EndOf(1, nx, "Set"), EndOf(2, ny, "Set")), Rel(EndOf(1, nz, "Set"), EndOf(2, nw, "Set"))>>) :
        n \in Lens, m \in Lens}
    \cup
    {Diagram("names-long-m2m",
             <<Ent(Long("P", n, "a"), <<>>)>>,
             IF s THEN <<Sym(EndOf(1, Long("f", m, "a"), "Set"))>>
             ELSE <<Rel(EndOf(1, Long("f", m, "a"), "Set"), EndOf(1, Long("f", m, "b"), "Set"))>>) :
        n \in Lens, m \in Lens, s \in BOOLEAN}

(* F7: the primary key is, or contains, a reference.  B.x = PrimaryKey(A) (the passport of a person: one column
   - or one column group when A's key is composite - that is primary key and foreign key at once; A.y is the
   reverse side, Optional with or without cascade_delete, or a collection), PrimaryKey(x, n) / PrimaryKey(n, x)
   with x = Required(A), and entities that refer to such an entity in turn (their foreign key columns are
   named after, and point to, key columns that are themselves foreign keys). *)
RevKinds == {"Optional", "Set", "Required", "PrimaryKey"}
Cascades == {"none", "true", "false"}
IdxTrue == [k |-> "true", n |-> <<>>]
IdxFalse == [k |-> "false", n |-> <<>>]
F7 ==
    \* x = PrimaryKey(A): every option of the attribute and of the reverse side
    {Diagram("pk-reference",
             <<WithPk(Ent(nA, <<>>), pm), Ent(nB, <<Attr(nn, "Required", "int")>>)>>,
             <<Rel([EndOf(2, nx, "PrimaryKey") EXCEPT !.columns = cols, !.index = ix, !.nullable = nl, !.cascade = cd1],
                   [EndOf(1, ny, k2) EXCEPT !.cascade = cd2])>>) :
        pm \in (IF Thorough THEN {"implicit", "composite", "column", "str"} ELSE {"implicit", "composite"}),
        k2 \in (IF Thorough THEN RevKinds ELSE {"Optional", "Set"}), cols \in ColChoices,
        ix \in (IF Thorough THEN IdxOpts ELSE {NoIdx, IdxTrue, [k |-> "name", n |-> nix]}),
        nl \in (IF Thorough THEN {"none", "true"} ELSE {"none"}), cd1 \in (IF Thorough THEN {"none", "true"} ELSE {"none"}),
        cd2 \in Cascades}
    \cup
    \* declarations Pony must refuse (a second primary key, both sides required), options without effect on a
    \* key (nullable=True), cascade_delete on the key's side, columns named on the reverse side
    {Diagram("pk-reference",
             <<Ent(nA, <<>>), WithPk(Ent(nB, <<>>), pmb)>>,
             <<Rel([EndOf(2, nx, "PrimaryKey") EXCEPT !.nullable = nl, !.cascade = cd1, !.index = ix],
                   [EndOf(1, ny, k2) EXCEPT !.columns = cols2])>>) :
        pmb \in {"implicit", "auto", "composite"}, k2 \in RevKinds, nl \in {"none", "true"}, cd1 \in {"none", "true"},
        ix \in (IF Thorough THEN {NoIdx, IdxFalse} ELSE {IdxFalse}), cols2 \in {<<>>, <<ncz>>}}
    \cup
    \* PrimaryKey(x, n) / PrimaryKey(n, x) with x = Required(A): the reverse side a one-to-one Optional
    \* (cascading or not) or a collection; the columns of x are, or are not, a prefix of the key
    {Diagram("pk-reference-composite",
             <<WithPk(Ent(nA, <<>>), pm), [Ent(nC, <<Attr(nn, "Required", "int")>>) EXCEPT !.pk = pkc]>>,
             <<Rel([EndOf(2, nx, "Required") EXCEPT !.columns = cols, !.index = ix, !.nullable = nl], [EndOf(1, ny, k2) EXCEPT !.cascade = cd2])>>) :
        pm \in {"implicit", "composite"}, pkc \in {<<nx, nn>>, <<nn, nx>>},
        cols \in (IF Thorough THEN ColChoices ELSE {<<>>}), ix \in (IF Thorough THEN IdxOpts ELSE {NoIdx, IdxFalse}),
        nl \in (IF Thorough THEN Nullables ELSE {"none"}), k2 \in {"Optional", "Set"}, cd2 \in Cascades}
    \cup
    \* PrimaryKey(x, w): two references make up the key
    {Diagram("pk-reference-composite",
             <<WithPk(Ent(nA, <<>>), pm), [Ent(nC, <<>>) EXCEPT !.pk = <<nx, nw>>], Ent(nT, <<>>)>>,
             <<Rel([EndOf(2, nx, "Required") EXCEPT !.index = ix], [EndOf(1, ny, k2) EXCEPT !.cascade = cd2]),
               Rel(EndOf(2, nw, "Required"), [EndOf(3, nz, k3) EXCEPT !.cascade = cd3])>>) :
        pm \in {"implicit", "composite"}, ix \in (IF Thorough THEN IdxOpts ELSE {NoIdx}), k2 \in {"Optional", "Set"},
        cd2 \in (IF Thorough THEN Cascades ELSE {"none", "true"}), k3 \in {"Optional", "Set"}, cd3 \in {"none", "true"}}
    \cup
    \* references to an entity whose key is a reference: C.z -> B.x -> A (C.z Required, Optional or C's own key);
    \* C a subclass of B
    {Diagram("pk-reference-chain",
             <<WithPk(Ent(nA, <<>>), pm), Ent(nB, <<>>), [Ent(nC, <<>>) EXCEPT !.base = bc]>>,
             <<Rel([EndOf(2, nx, "PrimaryKey") EXCEPT !.columns = cols], [EndOf(1, ny, "Optional") EXCEPT !.cascade = cd2]),
               Rel([EndOf(3, nz, k3) EXCEPT !.columns = cols3, !.index = ix], [EndOf(2, nw, k4) EXCEPT !.cascade = cd4])>>) :
        pm \in {"implicit", "composite"}, bc \in {0, 2}, cols \in (IF Thorough THEN {<<>>, <<ncx, ncy>>} ELSE {<<>>}),
        cd2 \in (IF Thorough THEN {"none", "true"} ELSE {"none"}),
        k3 \in {"Required", "Optional", "PrimaryKey"}, cols3 \in {<<>>, <<ncz>>},
        ix \in (IF Thorough THEN {NoIdx, IdxFalse} ELSE {NoIdx}), k4 \in {"Optional", "Set"},
        cd4 \in (IF Thorough THEN Cascades ELSE {"none", "true"})}
    \cup
    \* a key made from itself: no schema
    {Diagram("pk-reference-cycle", <<Ent(nT, <<>>)>>,
             <<Rel([EndOf(1, nx, "PrimaryKey") EXCEPT !.columns = cols], EndOf(1, ny, "Optional"))>>) : cols \in {<<>>, <<ncx>>}}
    \cup
    {Diagram("pk-reference-cycle", <<[Ent(nT, <<Attr(nn, "Required", "int")>>) EXCEPT !.pk = <<nx, nn>>]>>,
             <<Rel(EndOf(1, nx, "Required"), EndOf(1, ny, k2))>>) : k2 \in {"Set", "Optional"}}
    \cup
    {Diagram("pk-reference-cycle", <<Ent(nA, <<>>), Ent(nB, <<>>)>>,
             <<Rel(EndOf(1, nx, "PrimaryKey"), EndOf(2, ny, "Optional")), Rel(EndOf(2, nz, "PrimaryKey"), EndOf(1, nw, "Optional"))>>)}

(* the harness evaluates the families in a few parallel TLC runs: In.fams selects the families of this run *)
Diagrams == {d \in F1 \cup F2 \cup F3 \cup F4 \cup F5 \cup F6 \cup F7 : \E j \in DOMAIN In.fams : In.fams[j] = d.fam}

Cfgs == In.cfgs        \* sequence of [dialect, maxlen, full]

Brief(e) == IF e.status = "rejected" THEN e ELSE [status |-> "mapped", names_ok |-> e.names_ok, problems |-> e.problems, notes |-> e.notes]
ExpectedFor(cf, d) == LET e == Expected(cf, d) IN IF cf.full THEN e ELSE Brief(e)

ASSUME JsonSerialize(IOEnv.OUT, [cases |-> {[d |-> d, exp |-> [j \in 1 .. Len(Cfgs) |-> ExpectedFor(Cfgs[j], d)]] : d \in Diagrams}])
=============================================================================
