---------------------------- MODULE QueryMethods ----------------------------
(***************************************************************************)
(* C24 - list semantics of Pony's query methods.                           *)
(*                                                                         *)
(* A query denotes a list R (its full result).  This module defines R for  *)
(* a base query over a small table followed by a chain of query-to-query   *)
(* methods (filter / where / keyword filters / order_by / order_by(None) / *)
(* distinct / without_distinct / "iterate over a limited query":           *)
(* select(x for x in q.limit(l, o))), and the meaning of every terminal    *)
(* method as the corresponding Python operation on R:                      *)
(*   q[:] list(q) len(q) q[i:j] q.limit(l,o) q.page(n,size) first get      *)
(*   exists count(distinct) sum/avg(distinct) min max group_concat         *)
(*   random(n) delete(bulk) and membership in a limited query.             *)
(*                                                                         *)
(* Corresponds to pony/orm/core.py: Query.__getitem__, limit, page, first, *)
(* get, exists, _aggregate, distinct, without_distinct, _order_by,         *)
(* _process_lambda, _apply_kwargs, delete, random; and to                  *)
(* pony/orm/sqltranslation.py: combine_limit_and_offset, construct_sql_ast,*)
(* process_query_qual, construct_delete_sql_ast.                           *)
(*                                                                         *)
(* Documented rules of Pony that are part of the meaning (not deviations): *)
(*  - a query that returns attribute values / expressions (not entities,   *)
(*    no primary key among the columns) is DISTINCT unless                 *)
(*    without_distinct() is used ("automatic DISTINCT"); distinct() and    *)
(*    without_distinct() override;                                         *)
(*  - the automatic DISTINCT is not applied by sum / avg / group_concat    *)
(*    (they have their own `distinct` argument);                           *)
(*  - aggregates skip None; sum of nothing is 0, the others give None;     *)
(*  - comparisons with None in a filter are not true;                      *)
(*  - chained order_by calls: the later call is the more significant key   *)
(*    (= successive stable sorts of a Python list);                        *)
(*  - first() on an unordered query orders by all result columns.          *)
(* Environment (SQLite) facts used: NULL sorts before every value.         *)
(*                                                                         *)
(* Where the order of R is not determined by the query (no order_by, or    *)
(* ties between different items) the expected outcome is stated up to that *)
(* freedom (a bag, or "a sub-bag of R of the right size").                 *)
(*                                                                         *)
(* Named deviations (DESIGN 2.1): `devs` is a set of names of known ways   *)
(* in which the implementation departs from the list semantics.  The       *)
(* expected outcome is always Sem(..., {}); Sem(..., D) for non-empty D is *)
(* exported only so that a mismatch can be attributed to exactly the       *)
(* recorded defect (and to nothing else):                                  *)
(*   "nodist"     an ordered query loses the automatic DISTINCT            *)
(*   "merged"     methods applied to select(x for x in q.limit(..)) act    *)
(*                on q before its limit                                    *)
(*   "countsql"   count() of a non-entity query is COUNT([DISTINCT] first  *)
(*                column)                                                  *)
(*   "aggexpl"    sum/avg/group_concat ignore an explicit distinct()       *)
(*   "delnolimit" bulk delete of a query over a limited query ignores the  *)
(*                limit                                                    *)
(*                                                                         *)
(* Values: a value is an integer: NullV = -1 is None, table integers are   *)
(* >= 0 and < 1000, the string Letters[k] is 1000 + k, the Decimal with c  *)
(* hundredths is 100000 + c, the date d days after 2020-01-01 is           *)
(* 200000 + d.  So `<` on values is the SQLite order (NULL first) within a *)
(* column.  The Decimal and date columns exist because their values are    *)
(* converted on the way back from the database: a method must return the   *)
(* Python value (value and type), every time it is called.                 *)
(***************************************************************************)
EXTENDS Integers, Sequences, FiniteSets, TLC

None == -1             \* an absent bound (limit / offset / slice start / stop / page)
NullV == -1            \* the value None
Letters == <<"a", "b", "c">>
StrV(k) == 1000 + k
DecV(c) == 100000 + c          \* Decimal(c) / 100
DateV(d) == 200000 + d         \* date(2020, 1, 1) + d days

Min2(a, b) == IF a <= b THEN a ELSE b
Max2(a, b) == IF a >= b THEN a ELSE b

Ident(n) == [k \in 1 .. n |-> k]
Range(f) == {f[k] : k \in DOMAIN f}

---------------------------------------------------------------------------
(* Python list slicing R[i:j] for absent or non-negative bounds (Pony rejects negative ones) *)
PySl(R, i, j) ==
    LET n  == Len(R)
        lo == IF i = None THEN 0 ELSE Min2(i, n)
        hi == IF j = None THEN n ELSE Min2(j, n)
    IN IF hi <= lo THEN <<>> ELSE SubSeq(R, lo + 1, hi)

(* what a (limit, offset) pair means: R[offset or 0:][:limit] *)
ApplyLO(R, l, o) == PySl(PySl(R, IF o = None THEN 0 ELSE o, None), 0, l)

(* page(pagenum, pagesize), pagenum >= 1 *)
PageOf(R, n, size) == PySl(R, (n - 1) * size, n * size)

(* transcription of sqltranslation.combine_limit_and_offset(limit, offset, limit2, offset2) *)
CombineLO(l, o, l2, o2) ==
    LET la == IF o2 # None /\ l # None THEN Max2(0, l - o2) ELSE l
        oa == IF o2 # None THEN (IF o = None THEN 0 ELSE o) + o2 ELSE o
        lb == IF l2 # None THEN (IF la # None THEN Min2(la, l2) ELSE l2) ELSE la
        ob == IF lb = 0 THEN None ELSE oa
    IN <<lb, ob>>

(* transcription of Query.__getitem__: slice(start, stop) -> (limit, offset) *)
SliceLO(i, j) ==
    LET start == IF i = None THEN 0 ELSE i
    IN IF j = None THEN (IF start = 0 THEN <<None, None>> ELSE <<None, start>>)
       ELSE IF start >= j THEN <<0, None>>
       ELSE <<j - start, start>>

Bnd == {None} \cup (0 .. 5)

(* The laws TLC checks inside this module: limits compose like slices, for all bounds 0..5 / None.
   Lists up to length 17 > 5 + 5 + 5 exercise every clipping case. *)
CombineLaw(l, o, l2, o2, n) ==
    LET c == CombineLO(l, o, l2, o2)
    IN ApplyLO(Ident(n), c[1], c[2]) = ApplyLO(ApplyLO(Ident(n), l, o), l2, o2)

ASSUME CombineIsSliceComposition ==
    \A l \in Bnd, o \in Bnd, l2 \in Bnd, o2 \in Bnd : \A n \in 0 .. 17 : CombineLaw(l, o, l2, o2, n)

ASSUME GetitemIsSlice ==
    \A i \in Bnd, j \in Bnd : \A n \in 0 .. 7 :
        LET c == SliceLO(i, j) IN ApplyLO(Ident(n), c[1], c[2]) = PySl(Ident(n), i, j)

---------------------------------------------------------------------------
(* The table (entity A: id primary key, v Optional(int), s Optional(str), p Optional(Decimal, 10, 2),
   day Optional(date)); duplicates and None in every column; the Decimals are multiples of 0.25 (exact as floats) *)
Table == << [id |-> 1, v |-> 1,     s |-> StrV(1), p |-> DecV(1025), day |-> DateV(14)],
            [id |-> 2, v |-> 2,     s |-> StrV(2), p |-> DecV(2050), day |-> DateV(517)],
            [id |-> 3, v |-> 9,     s |-> NullV,   p |-> DecV(575),  day |-> NullV],
            [id |-> 4, v |-> 7,     s |-> StrV(1), p |-> DecV(1025), day |-> DateV(14)],
            [id |-> 5, v |-> 7,     s |-> StrV(2), p |-> NullV,      day |-> DateV(0)],
            [id |-> 6, v |-> NullV, s |-> StrV(3), p |-> DecV(50),   day |-> DateV(517)],
            [id |-> 7, v |-> 2,     s |-> StrV(1), p |-> DecV(2050), day |-> DateV(366)] >>

(* base queries: what is selected from each row.  "ent": select(a for a in A) - an item is <<id>> *)
Projs == {"ent", "v", "s", "vs", "idv", "p", "day"}
ItemOf(proj, row) ==
    CASE proj = "ent" -> <<row.id>>
      [] proj = "v"   -> <<row.v>>
      [] proj = "s"   -> <<row.s>>
      [] proj = "p"   -> <<row.p>>
      [] proj = "day" -> <<row.day>>
      [] proj = "vs"  -> <<row.v, row.s>>
      [] proj = "idv" -> <<row.id, row.v>>
AutoDistinct(proj) == proj \in {"v", "s", "vs", "p", "day"}       \* documented automatic DISTINCT
Width(proj) == IF proj \in {"vs", "idv"} THEN 2 ELSE 1

(* an element of a result: the item plus the row it came from (for ordering entities by attributes) *)
Elems(proj) == [k \in 1 .. Len(Table) |-> [item |-> ItemOf(proj, Table[k]), row |-> Table[k]]]

(* filter predicates (SQL three-valued: a comparison with None is not true) *)
Holds(p, row) ==
    CASE p = "gt1"   -> row.v # NullV /\ row.v > 1
      [] p = "lt9"   -> row.v # NullV /\ row.v < 9
      [] p = "sa"    -> row.s = StrV(1)
      [] p = "v7"    -> row.v = 7
      [] p = "v9"    -> row.v = 9
      [] p = "v100"  -> row.v = 100
      [] p = "vnone" -> row.v = NullV

(* order keys: c is "id"/"v"/"s" (attribute of the entity) or "c1"/"c2" (result column) *)
K(c, desc) == [c |-> c, desc |-> desc]
OrderKeys(p) ==
    CASE p = "n1"      -> <<K("c1", FALSE)>>                     \* order_by(1)
      [] p = "n-1"     -> <<K("c1", TRUE)>>                      \* order_by(-1)
      [] p = "n12"     -> <<K("c1", FALSE), K("c2", FALSE)>>     \* order_by(1, 2)
      [] p = "n-2-1"   -> <<K("c2", TRUE), K("c1", TRUE)>>       \* order_by(-2, -1)
      [] p = "a_v_id"  -> <<K("v", FALSE), K("id", FALSE)>>      \* order_by(A.v, A.id)
      [] p = "a_dv_id" -> <<K("v", TRUE), K("id", FALSE)>>       \* order_by(desc(A.v), A.id)
      [] p = "a_did"   -> <<K("id", TRUE)>>                      \* order_by(desc(A.id))
      [] p = "l_v"     -> <<K("v", FALSE)>>                      \* order_by(lambda a: a.v)   (not total)
      [] p = "l_s_did" -> <<K("s", FALSE), K("id", TRUE)>>       \* order_by(lambda a: (a.s, desc(a.id)))

KeyVal(k, e) ==
    CASE k.c = "id" -> e.row.id
      [] k.c = "v"  -> e.row.v
      [] k.c = "s"  -> e.row.s
      [] k.c = "c1" -> e.item[1]
      [] k.c = "c2" -> e.item[2]

RECURSIVE KLess(_, _, _)
KLess(keys, a, b) ==      \* a strictly before b under the lexicographic keys (NULL first; last when descending)
    IF keys = <<>> THEN FALSE
    ELSE LET x == KeyVal(Head(keys), a)
             y == KeyVal(Head(keys), b)
         IN IF x = y THEN KLess(Tail(keys), a, b)
            ELSE IF Head(keys).desc THEN y < x ELSE x < y

RECURSIVE Insert(_, _, _)
Insert(keys, sorted, e) ==     \* after every element that is not greater: the sort is stable
    IF sorted = <<>> THEN <<e>>
    ELSE IF KLess(keys, e, Head(sorted)) THEN <<e>> \o sorted
    ELSE <<Head(sorted)>> \o Insert(keys, Tail(sorted), e)

RECURSIVE SortN(_, _, _)
SortN(keys, seq, n) == IF n = 0 THEN <<>> ELSE Insert(keys, SortN(keys, seq, n - 1), seq[n])
StableSort(keys, seq) == IF keys = <<>> THEN seq ELSE SortN(keys, seq, Len(seq))

RECURSIVE DedupeN(_, _)
DedupeN(seq, n) ==
    IF n = 0 THEN <<>>
    ELSE LET d == DedupeN(seq, n - 1)
         IN IF \E k \in 1 .. Len(d) : d[k].item = seq[n].item THEN d ELSE Append(d, seq[n])
Dedupe(seq) == DedupeN(seq, Len(seq))

(* neighbours in a sorted list that are different items are strictly ordered: the list is determined *)
AdjStrict(keys, seq) ==
    \A k \in 1 .. Len(seq) - 1 : seq[k].item # seq[k + 1].item => KLess(keys, seq[k], seq[k + 1])

---------------------------------------------------------------------------
(* A query: projection, filters, order keys (most significant first), explicit distinct setting
   ("none" / "yes" / "no"), and - for select(x for x in inner.limit(l, o)) - the limited inner query. *)
BaseQuery(proj) == [proj |-> proj, preds |-> <<>>, order |-> <<>>, expl |-> "none", sub |-> <<>>]

AllPreds(ps, e) == \A k \in 1 .. Len(ps) : Holds(ps[k], e.row)

RECURSIVE HasOrder(_)
HasOrder(q) == q.order # <<>> \/ (q.sub # <<>> /\ HasOrder(q.sub[1].q))

(* Is the result made DISTINCT?  Deviation "nodist": construct_sql_ast infers DISTINCT only
   `if not translator.order`, so an ordered query loses the automatic DISTINCT. *)
UseDistinct(q, devs) ==
    \/ q.expl = "yes"
    \/ q.expl = "none" /\ AutoDistinct(q.proj) /\ ~("nodist" \in devs /\ HasOrder(q))

(* Deviation "merged": process_query_qual extends the translator of the limited inner query, so the
   outer query's filters and order keys are applied BEFORE the inner limit. *)
RECURSIVE Flat(_)
Flat(q) ==
    IF q.sub = <<>> THEN [preds |-> q.preds, order |-> q.order, lims |-> <<>>]
    ELSE LET f == Flat(q.sub[1].q)
         IN [preds |-> f.preds \o q.preds, order |-> q.order \o f.order,
             lims |-> Append(f.lims, <<q.sub[1].l, q.sub[1].o>>)]

RECURSIVE ApplyLims(_, _)
ApplyLims(R, lims) == IF lims = <<>> THEN R ELSE ApplyLims(ApplyLO(R, Head(lims)[1], Head(lims)[2]), Tail(lims))

FlatFull(q, devs) ==         \* the merged query before its (composed) limits
    LET fl == Flat(q)
        f  == SelectSeq(Elems(q.proj), LAMBDA e : AllPreds(fl.preds, e))
        d  == IF UseDistinct(q, devs) THEN Dedupe(f) ELSE f
    IN StableSort(fl.order, d)

FlatRes(q, devs) ==
    LET fl == Flat(q)
        s  == FlatFull(q, devs)
    IN [e |-> ApplyLims(s, fl.lims), det |-> (fl.order # <<>> /\ AdjStrict(fl.order, s)) \/ Len(s) <= 1]

(* The full result R of q as [e |-> list of elements, det |-> the list is determined by the query] *)
RECURSIVE Res(_, _)
Res(q, devs) ==
    IF q.sub # <<>> /\ "merged" \in devs THEN FlatRes(q, devs)
    ELSE LET inner == IF q.sub = <<>> THEN [e |-> Elems(q.proj), det |-> FALSE] ELSE Res(q.sub[1].q, devs)
             src == IF q.sub = <<>> THEN inner.e ELSE ApplyLO(inner.e, q.sub[1].l, q.sub[1].o)
             f   == SelectSeq(src, LAMBDA e : AllPreds(q.preds, e))
             d   == IF UseDistinct(q, devs) THEN Dedupe(f) ELSE f
             s   == StableSort(q.order, d)
         IN [e |-> s,
             det |-> \/ Len(s) <= 1
                     \/ /\ q.sub # <<>> => inner.det
                        /\ IF q.order = <<>> THEN q.sub # <<>> ELSE AdjStrict(q.order, s)]

Items(es) == [k \in 1 .. Len(es) |-> es[k].item]

---------------------------------------------------------------------------
(* Steps of a chain: [op, p, l, o] *)
Step(op, p, l, o) == [op |-> op, p |-> p, l |-> l, o |-> o]

ApplyStep(q, st) ==
    CASE st.op \in {"filter", "where", "wherestr", "kw"} -> [q EXCEPT !.preds = Append(@, st.p)]
      [] st.op = "order"      -> [q EXCEPT !.order = OrderKeys(st.p) \o @]
      [] st.op = "noorder"    -> [q EXCEPT !.order = <<>>]
      [] st.op = "distinct"   -> [q EXCEPT !.expl = "yes"]
      [] st.op = "nodistinct" -> [q EXCEPT !.expl = "no"]
      [] st.op = "sub"        -> [BaseQuery(q.proj) EXCEPT !.sub = <<[q |-> q, l |-> st.l, o |-> st.o]>>]

RECURSIVE SubDepth(_)
SubDepth(q) == IF q.sub = <<>> THEN 0 ELSE 1 + SubDepth(q.sub[1].q)

(* Which steps the harness can express (and this module gives a meaning to) in state q *)
Applicable(q, st) ==
    LET ent == q.proj = "ent"
        nosub == q.sub = <<>>
    IN CASE st.op = "filter"   -> st.p = "gt1" /\ q.proj \notin {"s", "p", "day"} /\ (nosub \/ q.proj \in {"ent", "v"})
         [] st.op = "where"    -> st.p \in {"sa", "v9", "v100"} /\ (nosub \/ ent)
         [] st.op = "wherestr" -> st.p = "lt9" /\ (nosub \/ ent)
         [] st.op = "kw"       -> st.p \in {"v7", "vnone"} /\ (nosub \/ ent)
         [] st.op = "order"    -> \/ st.p \in {"n1", "n-1"}
                                  \/ st.p \in {"n12", "n-2-1"} /\ Width(q.proj) = 2
                                  \/ st.p \in {"a_v_id", "a_dv_id", "a_did", "l_v", "l_s_did"} /\ ent
         [] st.op = "noorder"  -> nosub
         [] st.op \in {"distinct", "nodistinct"} -> TRUE
         [] st.op = "sub"      -> /\ q.proj \in {"ent", "v", "s"} /\ q.expl = "none" /\ SubDepth(q) < 2
                                  /\ HasOrder(q) /\ Res(q, {}).det /\ Res(q, {"nodist"}).det

RECURSIVE ApplySteps(_, _)
ApplySteps(q, steps) == IF steps = <<>> THEN q ELSE ApplySteps(ApplyStep(q, Head(steps)), Tail(steps))

(* all chains of at most n applicable steps drawn from the set `alphabet`, starting from query q0 *)
RECURSIVE Chains(_, _, _)
Chains(q0, alphabet, n) ==
    IF n = 0 THEN {<<>>}
    ELSE LET prev == Chains(q0, alphabet, n - 1)
         IN prev \cup { Append(x[1], x[2]) : x \in
                          { y \in prev \X alphabet : Len(y[1]) = n - 1 /\ Applicable(ApplySteps(q0, y[1]), y[2]) } }

---------------------------------------------------------------------------
(* Terminal methods: [op, a, b, d]; d \in {"none", "yes", "no"} is the `distinct` argument *)
Term(op, a, b, d) == [op |-> op, a |-> a, b |-> b, d |-> d]

(* Outcomes: uniform records [k, v, n, m, e] *)
Out(k, v, n, m, e) == [k |-> k, v |-> v, n |-> n, m |-> m, e |-> e]
OList(items)      == Out("list", items, 0, 0, "")
OBag(items)       == Out("bag", items, 0, 0, "")
OSubBag(items, n) == Out("subbag", items, n, 0, "")      \* any n of these items
OItem(item)       == Out("item", <<item>>, 0, 0, "")
OOneOf(items)     == Out("oneof", items, 0, 0, "")
ONone             == Out("none", <<>>, 0, 0, "")
OInt(n)           == Out("int", <<>>, n, 0, "")
OBool(b)          == Out("bool", <<>>, IF b THEN 1 ELSE 0, 0, "")
OFrac(n, m)       == Out("frac", <<>>, n, m, "")          \* the rational n / m
OPieces(items, sep) == Out("pieces", items, sep, 0, "")   \* join of str(item[1]) in any order
OErr(e)           == Out("err", <<>>, 0, 0, e)
OUnsupported      == Out("unsupported", <<>>, 0, 0, "")   \* Pony documents a TypeError here
ODelete(n, rest)  == Out("delete", rest, n, 0, "")        \* n rows deleted, items (ids) that remain

SetExpl(q, d) == IF d = "none" THEN q ELSE [q EXCEPT !.expl = d]

SeqOrFree(r, part) == IF r.det THEN OList(Items(part)) ELSE OSubBag(Items(r.e), Len(part))

RECURSIVE SumSeq(_)
SumSeq(s) == IF s = <<>> THEN 0 ELSE Head(s) + SumSeq(Tail(s))

AllColsKeys(proj) == IF Width(proj) = 2 THEN <<K("c1", FALSE), K("c2", FALSE)>> ELSE <<K("c1", FALSE)>>

(* values an aggregate works on: first column, None skipped.  The query's automatic DISTINCT does not
   apply; an explicit distinct() does - deviation "aggexpl": _aggregate ignores query._distinct. *)
AggVals(q, d, devs) ==
    LET e  == IF d # "none" THEN d
              ELSE IF q.expl = "yes" /\ "aggexpl" \notin devs THEN "yes" ELSE "no"
        es == Res([q EXCEPT !.expl = e], devs).e
        c1 == [k \in 1 .. Len(es) |-> es[k].item[1]]
    IN SelectSeq(c1, LAMBDA x : x # NullV)

(* deviation "countsql": for a query that does not return entities count() is built as SQL
   COUNT([DISTINCT] first column): None is not counted, DISTINCT is the default whatever
   without_distinct()/ordering say, and of a tuple only the first column is looked at. *)
CountSql(q, d, devs) ==
    LET f  == SelectSeq(Elems(q.proj), LAMBDA e : AllPreds(q.preds, e))
        c1 == SelectSeq([k \in 1 .. Len(f) |-> f[k].item[1]], LAMBDA x : x # NullV)
    IN IF Width(q.proj) = 2 /\ ~UseDistinct(q, devs) /\ d # "yes" THEN Len(f)
       ELSE IF d = "no" THEN Len(c1) ELSE Cardinality(Range(c1))

MinimalElems(keys, es) == SelectSeq(es, LAMBDA x : ~\E j \in 1 .. Len(es) : KLess(keys, es[j], x))

(* deviations that can change the outcome of a terminal (only subsets of these are exported) *)
TermDevs(q, t) ==
    LET rd == (IF AutoDistinct(q.proj) THEN {"nodist"} ELSE {}) \cup (IF q.sub # <<>> THEN {"merged"} ELSE {})
    IN CASE t.op = "count" -> rd \cup (IF q.proj # "ent" /\ q.sub = <<>> THEN {"countsql"} ELSE {})
         [] t.op \in {"sum", "avg", "gconcat"} -> (IF q.sub # <<>> THEN {"merged"} ELSE {}) \cup (IF q.expl = "yes" THEN {"aggexpl"} ELSE {})
         [] t.op = "delete" /\ t.a = 1 -> IF q.sub # <<>> THEN {"delnolimit"} ELSE {}
         [] OTHER -> rd

(* The meaning of terminal t on query q *)
Sem(q, t, devs) ==
    LET r  == Res(q, devs)
        es == r.e
        it == Items(es)
    IN CASE t.op \in {"fetch", "iter"} -> IF r.det THEN OList(it) ELSE OBag(it)
         [] t.op = "len"    -> OInt(Len(es))
         [] t.op = "slice"  -> SeqOrFree(r, PySl(es, t.a, t.b))
         [] t.op = "limit"  -> SeqOrFree(r, ApplyLO(es, t.a, t.b))
         [] t.op = "page"   -> SeqOrFree(r, PageOf(es, t.a, t.b))
         [] t.op = "exists" -> OBool(es # <<>>)
         [] t.op = "get"    -> IF es = <<>> THEN ONone
                               ELSE IF Len(es) = 1 THEN OItem(it[1]) ELSE OErr("MultipleObjectsFoundError")
         [] t.op = "first"  ->      \* R[0].  first() is query.without_distinct()[:1] (after ordering an unordered query by
                                    \* all columns) - harmless for a list, but under "merged" it undoes an explicit distinct()
                                    \* of the outer query before the inner limit
                LET rf == IF "merged" \in devs /\ q.sub # <<>> THEN Res(SetExpl(q, "no"), devs) ELSE r
                    ef == rf.e
                IN IF ef = <<>> THEN ONone
                   ELSE IF ~HasOrder(q) /\ q.sub = <<>>
                        THEN OItem(StableSort(AllColsKeys(q.proj), ef)[1].item)     \* first() orders by all columns
                   ELSE IF rf.det THEN OItem(ef[1].item)
                   ELSE IF q.sub = <<>> THEN OOneOf(Items(MinimalElems(q.order, ef)))
                   ELSE OOneOf(Items(ef))
         [] t.op = "random" ->      \* random(n) is order_by('random()')[:n]: under "nodist" that ordering drops the
                                    \* DISTINCT, under "merged" the shuffle happens before the inner limits
                IF "merged" \in devs /\ q.sub # <<>>
                THEN OSubBag(Items(FlatFull(q, devs)), Min2(t.a, Len(es)))
                ELSE LET rr == IF "nodist" \in devs /\ q.expl = "none" THEN Items(Res(SetExpl(q, "no"), devs).e) ELSE it
                     IN OSubBag(rr, Min2(t.a, Len(rr)))
         [] t.op = "count"  ->
                IF "countsql" \in devs /\ q.proj # "ent" /\ q.sub = <<>> THEN OInt(CountSql(q, t.d, devs))
                ELSE OInt(Len(Res(SetExpl(q, t.d), devs).e))
         [] t.op = "sum"    -> IF q.proj = "v" THEN OInt(SumSeq(AggVals(q, t.d, devs)))
                               ELSE IF q.proj = "p"        \* a Decimal, also for the sum of nothing
                               THEN LET vs == AggVals(q, t.d, devs) IN OItem(<<DecV(SumSeq(vs) - Len(vs) * DecV(0))>>)
                               ELSE OUnsupported
         [] t.op = "avg"    -> IF q.proj \notin {"v", "p"} THEN OUnsupported      \* avg is a float, also of Decimals
                               ELSE LET vs == AggVals(q, t.d, devs)
                                    IN IF vs = <<>> THEN ONone
                                       ELSE IF q.proj = "v" THEN OFrac(SumSeq(vs), Len(vs))
                                       ELSE OFrac(SumSeq(vs) - Len(vs) * DecV(0), 100 * Len(vs))
         [] t.op \in {"min", "max"} ->
                IF q.proj \notin {"v", "s", "p", "day"} THEN OUnsupported
                ELSE LET vs == Range(AggVals(q, "no", devs))
                     IN IF vs = {} THEN ONone
                        ELSE OItem(<<CHOOSE x \in vs : \A y \in vs : IF t.op = "min" THEN x <= y ELSE x >= y>>)
         [] t.op = "gconcat" ->
                IF Width(q.proj) = 2 THEN OUnsupported
                ELSE LET vs == AggVals(q, t.d, devs)
                     IN IF vs = <<>> THEN ONone ELSE OPieces([k \in 1 .. Len(vs) |-> <<vs[k]>>], t.a)
         [] t.op = "delete" ->       \* t.a = 1: bulk.  Entities only.
                IF q.proj # "ent" THEN OUnsupported
                ELSE LET gone == IF t.a = 1 /\ "delnolimit" \in devs
                                 THEN { e.row.id : e \in Range(SelectSeq(Elems("ent"), LAMBDA e : AllPreds(Flat(q).preds, e))) }
                                 ELSE { e.row.id : e \in Range(es) }
                     IN ODelete(Cardinality(gone),
                                SelectSeq([k \in 1 .. Len(Table) |-> <<Table[k].id>>], LAMBDA x : x[1] \notin gone))
         [] t.op = "insub"  ->       \* select(z for z in A if z in q.limit(a, b)): entities, as a bag
                LET ids == { e.row.id : e \in Range(ApplyLO(es, t.a, t.b)) }
                IN OBag(SelectSeq([k \in 1 .. Len(Table) |-> <<Table[k].id>>], LAMBDA x : x[1] \in ids))

TermApplicable(q, t) ==
    CASE t.op = "insub"  -> q.proj = "ent" /\ q.sub = <<>> /\ Res(q, {}).det
      [] t.op = "delete" -> q.proj = "ent"
      [] t.op = "random" -> /\ ~AutoDistinct(q.proj) \/ t.a \in {0, 1} \/ t.a >= Len(Table)   \* keeps the verdict (also the attribution
                            /\ q.sub = <<>> \/ t.a = 0                                      \* to a named deviation) independent of the draw
      [] t.op = "gconcat" -> ~(t.a = 1 /\ t.d = "yes")       \* SQLite: a DISTINCT aggregate takes one argument
      [] OTHER -> TRUE

(* exported per (query, terminal): the expected outcome and, where a named deviation changes it, the deviating outcomes *)
Case(q, t) ==
    LET exp == Sem(q, t, {})
    IN [t |-> t, exp |-> exp,
        vars |-> { v \in { [devs |-> D, out |-> Sem(q, t, D)] : D \in (SUBSET TermDevs(q, t)) \ {{}} } : v.out # exp }]

=============================================================================
