------------------------- MODULE QueryMethodsTables -------------------------
(* C24, E1: the case tables TLC exports for the harness.  A group fixes a base query, a prefix of
   steps, an alphabet of further steps, the maximal number of further steps and the terminal methods;
   for every applicable chain and terminal the expected outcome (QueryMethods!Sem) is exported.
   IN = [tier |-> "quick" | "thorough", groups |-> sequence of names of the groups to export]. *)
EXTENDS QueryMethods, Json, IOUtils

In == JsonDeserialize(IOEnv.IN)
Quick == In.tier = "quick"

St(op, p) == Step(op, p, 0, 0)
Sub(l, o) == Step("sub", "", l, o)
T0(op) == Term(op, 0, 0, "none")

(* bounds used for slices / limits / pages *)
AllB  == {None} \cup (0 .. 5)
FewB  == {None, 0, 2, 5}
FewB2 == {None, 0, 1, 3}

Filters == {St("filter", "gt1"), St("where", "sa"), St("where", "v9"), St("where", "v100"),
            St("wherestr", "lt9"), St("kw", "v7"), St("kw", "vnone")}
Orders  == {St("order", p) : p \in {"n1", "n-1", "n12", "n-2-1", "a_v_id", "a_dv_id", "a_did", "l_v", "l_s_did"}}
Others  == {St("noorder", ""), St("distinct", ""), St("nodistinct", "")}
Subs    == {Sub(2, 1), Sub(None, 2), Sub(3, None), Sub(5, 0)}

ChainAlphabet ==
    IF Quick THEN (Filters \ {St("where", "v100"), St("wherestr", "lt9")})
                  \cup {St("order", p) : p \in {"n1", "n-1", "n12", "a_v_id", "a_dv_id", "l_v"}}
                  \cup Others \cup {Sub(2, 1), Sub(None, 2)}
    ELSE Filters \cup Orders \cup Others \cup Subs

Dist == {"none", "yes", "no"}
Aggregates == {Term("count", 0, 0, d) : d \in Dist} \cup {Term("sum", 0, 0, d) : d \in Dist}
              \cup {Term("avg", 0, 0, d) : d \in Dist}
              \cup {T0("min"), T0("max")}
              \cup {Term("gconcat", sep, 0, d) : sep \in {0, 1}, d \in Dist}
Plain == {T0("fetch"), T0("iter"), T0("len"), T0("first"), T0("get"), T0("exists")}
Slices(B1, B2) == {Term("slice", i, j, "none") : i \in B1, j \in B2}
Limits(B1, B2) == {Term("limit", l, o, "none") : l \in B1, o \in B2}
Pages == {Term("page", 1, 2, "none"), Term("page", 2, 2, "none"), Term("page", 3, 3, "none"),
          Term("page", 1, 0, "none"), Term("page", 2, 5, "none"), Term("page", 4, 2, "none")}
Randoms == {Term("random", n, 0, "none") : n \in {0, 1, 3, 7, 9}}
Deletes == {Term("delete", 0, 0, "none"), Term("delete", 1, 0, "none")}
InSubs  == {Term("insub", 2, 1, "none"), Term("insub", None, 3, "none"), Term("insub", 0, 0, "none")}

ChainTerms ==
    Plain \cup Aggregates \cup Pages \cup Randoms \cup Deletes \cup InSubs
    \cup (IF Quick THEN Slices(FewB2, FewB) \cup Limits({None, 0, 2}, {None, 1, 3}) ELSE Slices(AllB, AllB) \cup Limits(AllB, AllB))

(* nesting: select(x for x in q.limit(l1, o1))[i:j] and one level more, q totally ordered *)
NestStart == { <<"ent", <<St("order", "a_v_id")>> >>, <<"v", <<St("order", "n1")>> >>, <<"s", <<St("order", "n-1")>> >> }
NestB  == IF Quick THEN {None, 0, 2, 3} ELSE AllB
Nest2B == IF Quick THEN {None, 1, 3} ELSE {None, 0, 1, 2, 4}

SubChainAlphabet == {St("filter", "gt1"), St("where", "sa"), St("kw", "v7"), St("order", "n-1"), St("order", "a_did"),
                     St("order", "l_v"), St("distinct", ""), St("nodistinct", ""), Sub(2, 1)}
SubChainTerms == Plain \cup Deletes \cup Randoms \cup {Term("count", 0, 0, "none"), Term("sum", 0, 0, "none"), Term("page", 2, 1, "none")}
                 \cup Slices({None, 1}, {None, 2}) \cup Limits({None, 2}, {None, 1})

DeepAlphabet == {St("filter", "gt1"), St("where", "sa"), St("kw", "v7"), St("order", "n1"), St("order", "n-1"),
                 St("order", "a_dv_id"), St("order", "l_v"), St("noorder", ""), St("distinct", ""), St("nodistinct", ""), Sub(2, 1)}
DeepTerms == Plain \cup Deletes \cup {Term("count", 0, 0, "none"), Term("sum", 0, 0, "none"), Term("avg", 0, 0, "yes"),
                                      Term("page", 2, 2, "none"), Term("random", 9, 0, "none"), Term("insub", 2, 1, "none")}
             \cup Slices({None, 1}, {None, 3}) \cup Limits({None, 2}, {None, 1})

ConvAlphabet == {St("where", "sa"), St("where", "v100"), St("kw", "v7"), St("order", "n1"), St("order", "n-1"),
                 St("distinct", ""), St("nodistinct", "")}
ConvTerms == Plain \cup Aggregates \cup Slices({None, 1}, {None, 2}) \cup Limits({None, 2}, {None, 1})

Group(name) ==
    CASE name \in Projs \ {"p", "day"} ->
            { [proj |-> name, prefix |-> <<>>, alphabet |-> ChainAlphabet, maxlen |-> 2, terms |-> ChainTerms] }
      [] name \in {"p", "day"} ->      \* converted column types: fewer slices, every aggregate
            { [proj |-> name, prefix |-> <<>>, alphabet |-> ConvAlphabet, maxlen |-> 2, terms |-> ConvTerms] }
      [] name \in {"deep-ent", "deep-v", "deep-vs"} ->     \* thorough only: three query-to-query methods, then the terminal
            { [proj |-> CASE name = "deep-ent" -> "ent" [] name = "deep-v" -> "v" [] OTHER -> "vs", prefix |-> <<>>,
               alphabet |-> DeepAlphabet, maxlen |-> 3, terms |-> DeepTerms] }
      [] name = "subchain" ->    \* further methods applied to a query that iterates over a limited, ordered query
            { [proj |-> s[1], prefix |-> s[2] \o <<sb>>, alphabet |-> SubChainAlphabet, maxlen |-> IF Quick THEN 1 ELSE 2,
               terms |-> SubChainTerms] : s \in NestStart, sb \in IF Quick THEN {Sub(3, 1)} ELSE {Sub(3, 1), Sub(None, 2), Sub(4, None)} }
      [] name = "nest1" ->
            { [proj |-> s[1], prefix |-> s[2], alphabet |-> {Sub(l, o) : l \in NestB, o \in NestB}, maxlen |-> 1,
               terms |-> Slices(NestB, NestB) \cup Limits(NestB, NestB) \cup {T0("fetch"), T0("len"), T0("first"), T0("get"), T0("exists")}] : s \in NestStart }
      [] name = "nest2" ->
            { [proj |-> s[1], prefix |-> s[2], alphabet |-> {Sub(l, o) : l \in Nest2B, o \in Nest2B}, maxlen |-> 2,
               terms |-> Limits(Nest2B, Nest2B) \cup {T0("fetch")}] : s \in NestStart }

QueriesOf(g) ==
    LET q0 == ApplySteps(BaseQuery(g.proj), g.prefix)
    IN { [proj |-> g.proj, steps |-> g.prefix \o c, rlen |-> Len(Res(ApplySteps(q0, c), {}).e),
          cases |-> LET q == ApplySteps(q0, c) IN { Case(q, t) : t \in { u \in g.terms : TermApplicable(q, u) } }]
         : c \in Chains(q0, g.alphabet, g.maxlen) }

ASSUME JsonSerialize(IOEnv.OUT, [table |-> Table, letters |-> Letters,
                                 queries |-> UNION { QueriesOf(g) : g \in UNION { Group(In.groups[k]) : k \in 1 .. Len(In.groups) } }])
=============================================================================
