----------------------------- MODULE RawSqlJudge -----------------------------
(* C30, E2: the outputs of the real core.adapt_sql (five paramstyles) and ormtypes.parse_raw_sql ("items") are
   judged by RawSql!Faithful.
   IN.cases: sequence of [s |-> statement characters, hist |-> statements adapted before in the same process
                          (cache cleared before them), same |-> 0/1,
                          outs |-> sequence of [st |-> style, ok |-> 1 returned / 0 raised, h |-> 1 arguments
                                                are passed / 0 None, t |-> characters of the adapted text]].
   same = 1 abbreviates "for every style the call returned the statement unchanged and no arguments" (outs = <<>>).
   For parse_raw_sql (st = "items") t is the item sequence: characters of the text items and "#k" for the k-th
   (expression, code) item.
   OUT: counts, and one record for every case that is rejected by the specification, contains an expression,
   or has a verdict other than "ok":
     [i, rej, exprs, dexprs, outs: [st, v, refs, asb, merge]]
     v = "ok"      the text is faithful (refs: what the j-th placeholder refers to - the harness compares the
                   value bound there with the value of the j-th expression in the caller's scope)
         "raised"  the call raised although the scanner accepts the statement: right iff one of exprs is not a
                   Python expression (decided by CPython in the harness)
         "bad"     unfaithful text, or a statement that must be rejected was accepted
     asb = TRUE    the output is exactly what the as-built cache model (RawSql!AsBuiltAfter) predicts and differs
                   from the specified one
     merge = TRUE  the statement continues with a name / digit character right after an expression and the output is
                   the plain substitution (RawSql!Mergeable): the named / numeric placeholder runs into the text
     dexprs        the expressions with % doubled (what adapt_sql scans for format / pyformat), when different. *)
EXTENDS RawSql, Json, IOUtils

In == JsonDeserialize(IOEnv.IN)
AllStyles == Styles \o <<"items">>

OutsOf(c) == IF c.same = 1 THEN [k \in 1 .. Len(AllStyles) |-> [st |-> AllStyles[k], ok |-> 1, h |-> 0, t |-> c.s]] ELSE c.outs

ContainsPct(e) == \E k \in 1 .. Len(e) : e[k] = "%"

JudgeOut(c, i, o) ==
    LET hasargs == o.h = 1
        asb == /\ c.hist # <<>> /\ o.st \notin {"items", "embedded"} /\ o.ok = 1
               /\ LET ab == AsBuiltAfter(c.hist, c.s, o.st)
                  IN ab # AdaptAfter(c.hist, c.s, o.st) /\ ab.ok /\ o.t = ab.text /\ hasargs = ab.hasargs
    IN IF ~i.ok THEN [st |-> o.st, v |-> IF o.ok = 0 THEN "ok" ELSE "bad", refs |-> <<>>, asb |-> asb, merge |-> FALSE]
       ELSE IF o.ok = 0 THEN [st |-> o.st, v |-> "raised", refs |-> <<>>, asb |-> FALSE, merge |-> FALSE]
       ELSE IF o.st = "embedded"      \* E1: t is the whole statement a qmark driver received for a query containing raw_sql(s)
            THEN [st |-> o.st, v |-> IF EmbeddedFaithful(c.s, o.t, hasargs) THEN "ok" ELSE "bad",
                  refs |-> DriverLex("qmark", o.t, hasargs).refs, asb |-> FALSE, merge |-> FALSE]
       ELSE IF o.st = "items"
            THEN [st |-> o.st, v |-> IF o.t = i.mtext /\ (hasargs <=> i.exprs # <<>>) THEN "ok" ELSE "bad", refs |-> <<>>, asb |-> FALSE, merge |-> FALSE]
       ELSE [st |-> o.st, v |-> IF FaithfulTo(i, o.st, o.t, hasargs) THEN "ok" ELSE "bad",
             refs |-> DriverLex(o.st, o.t, hasargs).refs,
             asb |-> IF asb THEN TRUE ELSE FALSE,
             merge |-> Mergeable(c.s, o.st) /\ o.t = Adapt(c.s, o.st).text]

Verdict(k) ==
    LET c == In.cases[k]
        i == Intended(c.s)
        outs == OutsOf(c)
    IN [i |-> k, rej |-> ~i.ok, exprs |-> i.exprs,
        dexprs |-> IF \E j \in 1 .. Len(i.exprs) : ContainsPct(i.exprs[j]) THEN [j \in 1 .. Len(i.exprs) |-> DoublePct(i.exprs[j])] ELSE <<>>,
        outs |-> [j \in 1 .. Len(outs) |-> JudgeOut(c, i, outs[j])]]

N == Len(In.cases)
V == [k \in 1 .. N |-> Verdict(k)]
Interesting(v) == v.rej \/ v.exprs # <<>> \/ \E j \in 1 .. Len(v.outs) : v.outs[j].v # "ok"

ASSUME JsonSerialize(IOEnv.OUT, [n |-> N, judged |-> N,
                                 plain |-> Cardinality({k \in 1 .. N : ~Interesting(V[k])}),
                                 recs |-> { V[k] : k \in { j \in 1 .. N : Interesting(V[j]) } }])
=============================================================================
