---------------------------- MODULE PonySession ----------------------------
(***************************************************************************)
(* Reference state machine of a Pony db_session and its database.          *)
(*                                                                         *)
(* Two entities: A(id PK, v Optional int) and B(id PK, u Optional unique   *)
(* int, + a relationship with A).  Rel selects the relationship:           *)
(*   "o2m"  B.a = Required/Optional(A) (BReq), A.bs = Set(B, cascade=Casc) *)
(*   "o2o"  B.a = Required/Optional(A) (BReq), A.b = Optional(B,           *)
(*          cascade_delete=Casc)                                           *)
(*   "m2m"  A.bs = Set(B), B.as_ = Set(A)                                  *)
(*   "mix"  both: A.ls = Set(B) <-> B.as_ = Set(A) (declared first) and    *)
(*          the one-to-many A.bs <-> B.a as in "o2m": deleting A first     *)
(*          clears the many-to-many collection and may then be refused by  *)
(*          the one-to-many rule - the cleared collection must come back   *)
(* Objects are identified by their explicit integer primary keys.  0 is    *)
(* None for v, u and the reference a.                                      *)
(*                                                                         *)
(* db  - committed database;  tx - what the session's connection sees      *)
(* (db + flushed writes);  cur - the session's logical view (tx + pending  *)
(* changes): every read of the session is answered from cur (C10), commit  *)
(* makes db = cur (C09), rollback/failed flush restore db.                 *)
(*                                                                         *)
(* One action per public API call.  Every mutating action has a success    *)
(* branch and one failure branch per error family; a failure branch leaves *)
(* db, tx, cur and the pending sets unchanged (C13).                       *)
(*                                                                         *)
(* Error *timing* of key conflicts is deliberately left free where Pony's  *)
(* answer depends on what happens to be cached (C14 allows "when the       *)
(* change is made or when it is flushed"): known / loadedB are LOWER       *)
(* bounds of what the identity map holds; a conflict with an object that   *)
(* is definitely indexed must be reported at once, a conflict with an      *)
(* object that exists only in the database may be reported at once or      *)
(* makes the session Doomed (its flush/commit must fail and commit         *)
(* nothing).  Likewise implicit flushes before queries are not modelled    *)
(* as steps: their only observable effect is on error timing.              *)
(***************************************************************************)
EXTENDS Integers, FiniteSets, Sequences, TLC

CONSTANTS AIds, BIds, Vals, Rel, BReq, Casc, MaxLevel,
          ChildCasc,     \* one-to-one only: cascade_delete declared on the side that holds the column (deleting B deletes its A)
          WithReads      \* FALSE: read actions are left out of Next (the replay asks reads through `view` in every state anyway)

ASSUME Rel \in {"o2m", "o2o", "m2m", "mix"}
ASSUME BReq \in BOOLEAN /\ Casc \in BOOLEAN /\ ChildCasc \in BOOLEAN
ASSUME ChildCasc => Rel = "o2o" /\ ~BReq /\ ~Casc

VARIABLES db, tx, cur,       \* database states
          sess,              \* "none" | "open" | "aborted" (a flush failed) | "stuck" (a call reported a hidden conflict)
          pendNew, pendDel,  \* objects created / deleted by the session and not flushed yet: sets of <<e, k>>
          known, loadedB,    \* lower bounds of the identity map: <<e,k>> indexed by pk; B objects with u indexed
          ev,                \* observation record of the last call
          view               \* what every read must return in this state: a function of cur (no extra states)

vars == <<db, tx, cur, sess, pendNew, pendDel, known, loadedB, ev, view>>
data == <<db, tx, cur, sess, pendNew, pendDel>>

NoA == [ex |-> FALSE, v |-> 0]
NoB == [ex |-> FALSE, u |-> 0, a |-> 0]
EmptyDb == [A |-> [k \in AIds |-> NoA], B |-> [k \in BIds |-> NoB], L |-> {}]

Ids(e) == IF e = "A" THEN AIds ELSE BIds
Ex(s, e, k) == IF e = "A" THEN s.A[k].ex ELSE s.B[k].ex
LiveA(s) == {k \in AIds : s.A[k].ex}
LiveB(s) == {k \in BIds : s.B[k].ex}

(* the B objects related to a / the A objects related to b, derived from the single stored relation (C12) *)
Kids(s, a) == IF Rel = "m2m" THEN {b \in BIds : <<a, b>> \in s.L}
              ELSE {b \in BIds : s.B[b].ex /\ s.B[b].a = a}
Parents(s, b) == IF Rel = "m2m" THEN {a \in AIds : <<a, b>> \in s.L}
                 ELSE IF s.B[b].a = 0 THEN {} ELSE {s.B[b].a}

HasLinks == Rel \in {"m2m", "mix"}
(* a many-to-many link can be changed from either end (1: a.bs.add(b), 2: b.as_.add(a)); which end is used decides which
   side's pending sets record the change, so it is part of the call *)
LinkSides == IF Rel = "m2m" THEN {1, 2} ELSE {0}
IsO2M == Rel \in {"o2m", "mix"}
Links(s, a) == {b \in BIds : <<a, b>> \in s.L}
LinksB(s, b) == {a \in AIds : <<a, b>> \in s.L}

Ev(op, e, k, x, y, out, ret) == [op |-> op, e |-> e, k |-> k, x |-> x, y |-> y, out |-> out, ret |-> ret]

---------------------------------------------------------------------------
(* well-formedness of a database state: C14 (keys unique), C15 (no dangling reference) *)
UDup(s) == \E b1, b2 \in BIds : b1 # b2 /\ s.B[b1].ex /\ s.B[b2].ex /\ s.B[b1].u # 0 /\ s.B[b1].u = s.B[b2].u
NoDangling(s) == /\ \A b \in BIds : s.B[b].ex /\ s.B[b].a # 0 => s.A[s.B[b].a].ex
                 /\ \A l \in s.L : s.A[l[1]].ex /\ s.B[l[2]].ex
O2OOk(s) == Rel = "o2o" => \A b1, b2 \in BIds : b1 # b2 /\ s.B[b1].ex /\ s.B[b2].ex /\ s.B[b1].a # 0 => s.B[b1].a # s.B[b2].a
ReqOk(s) == (Rel # "m2m" /\ BReq) => \A b \in BIds : s.B[b].ex => s.B[b].a # 0
WellFormed(s) == ~UDup(s) /\ NoDangling(s) /\ O2OOk(s) /\ ReqOk(s)

(* the session has accepted a change that conflicts with a row it does not know: its flush must fail *)
Doomed == \/ \E o \in pendNew : Ex(tx, o[1], o[2])
          \/ UDup(cur)

(* a unique value moved between rows inside the transaction: whether flushing succeeds depends on the order
   of the UPDATE statements and on implicit flushes, which the properties leave open *)
Transient == \E b, b2 \in BIds : b # b2 /\ cur.B[b].ex /\ cur.B[b].u # 0
                 /\ ( (db.B[b2].ex /\ db.B[b2].u = cur.B[b].u /\ ~(db.B[b].ex /\ db.B[b].u = cur.B[b].u))
                   \/ (tx.B[b2].ex /\ tx.B[b2].u = cur.B[b].u /\ ~(tx.B[b].ex /\ tx.B[b].u = cur.B[b].u)) )

Open == sess = "open" /\ ~Doomed

---------------------------------------------------------------------------
(* deletion in the session's view, following Entity._delete_ *)
RemoveB(s, bs) == [s EXCEPT !.B = [k \in BIds |-> IF k \in bs THEN NoB ELSE s.B[k]],
                            !.L = {l \in s.L : l[2] \notin bs}]
UnlinkB(s, bs) == [s EXCEPT !.B = [k \in BIds |-> IF k \in bs THEN [s.B[k] EXCEPT !.a = 0] ELSE s.B[k]]]
RemoveA(s, a)  == [s EXCEPT !.A[a] = NoA, !.L = {l \in s.L : l[1] # a}]

(* result of deleting A[a]: <<ok, new state, set of B objects deleted with it>> *)
DelA(s, a) ==
    LET kids == Kids(s, a) IN
    IF Rel = "m2m" \/ kids = {} THEN <<TRUE, RemoveA(s, a), {}>>
    ELSE IF Casc THEN <<TRUE, RemoveA(RemoveB(s, kids), a), kids>>
    ELSE IF ~BReq THEN <<TRUE, RemoveA(UnlinkB(s, kids), a), {}>>
    ELSE <<FALSE, s, {}>>

---------------------------------------------------------------------------
(* the answers of all reads in a state, derived from the session's view (C10, C12): the replay may ask any of
   them at any point of an open, conflict-free session without leaving the state *)
ViewOf(s) == [kids   |-> [a \in AIds |-> IF s.A[a].ex THEN Kids(s, a) ELSE {}],
              links  |-> [a \in AIds |-> Links(s, a)],
              linksB |-> [b \in BIds |-> LinksB(s, b)],
              v      |-> [a \in AIds |-> s.A[a].v],
              u      |-> [b \in BIds |-> s.B[b].u],
              ref    |-> [b \in BIds |-> s.B[b].a],
              liveA  |-> LiveA(s), liveB |-> LiveB(s),
              byU    |-> [y \in Vals |-> {b \in BIds : s.B[b].ex /\ s.B[b].u = y}],
              quiet  |-> FALSE]     \* set by Next: the session is open and no read can fail (not Doomed, not Transient)

(* seeded initial databases (the harness writes them into the file with plain SQL), so that short behaviours
   already meet existing rows, unique values and links *)
ARowOf(v) == [ex |-> TRUE, v |-> v]
BRowOf(u, a) == [ex |-> TRUE, u |-> u, a |-> IF Rel = "m2m" THEN 0 ELSE a]
Seed1 == [A |-> [k \in AIds |-> IF k = 1 THEN ARowOf(1) ELSE NoA],
          B |-> [k \in BIds |-> IF k = 1 THEN BRowOf(1, 1) ELSE NoB],
          L |-> IF HasLinks THEN {<<1, 1>>} ELSE {}]
Seed2 == [A |-> [k \in AIds |-> IF k = 1 THEN ARowOf(1) ELSE IF k = 2 THEN ARowOf(0) ELSE NoA],
          B |-> [k \in BIds |-> IF k = 1 THEN BRowOf(1, 1) ELSE IF k = 2 THEN BRowOf(2, IF Rel = "o2o" THEN 2 ELSE 1) ELSE NoB],
          L |-> IF HasLinks THEN {<<1, 1>>, <<1, 2>>, <<2, 2>>} ELSE {}]
Seed3 == [A |-> [k \in AIds |-> IF k = 1 THEN ARowOf(2) ELSE NoA],
          B |-> [k \in BIds |-> NoB], L |-> {}]
SeedDbs == {EmptyDb, Seed1, Seed2, Seed3}

(* a behaviour may start inside a freshly opened session (the harness opens it): one more level for the calls *)
InitSeeded == /\ db \in SeedDbs /\ tx = db /\ cur = db
              /\ sess \in {"none", "open"} /\ pendNew = {} /\ pendDel = {} /\ known = {} /\ loadedB = {}
              /\ ev = Ev("Init", "-", 0, 0, 0, "ok", {})
              /\ view = [ViewOf(cur) EXCEPT !.quiet = (sess = "open")]

Init == /\ db = EmptyDb /\ tx = EmptyDb /\ cur = EmptyDb
        /\ sess = "none" /\ pendNew = {} /\ pendDel = {} /\ known = {} /\ loadedB = {}
        /\ ev = Ev("Init", "-", 0, 0, 0, "ok", {})
        /\ view = [ViewOf(cur) EXCEPT !.quiet = (sess = "open")]

Begin == /\ sess = "none"
         /\ sess' = "open" /\ cur' = db /\ tx' = db
         /\ pendNew' = {} /\ pendDel' = {} /\ known' = {} /\ loadedB' = {}
         /\ ev' = Ev("Begin", "-", 0, 0, 0, "ok", {})
         /\ UNCHANGED db

(* failure of a call: nothing observable changes (C13); the identity map may have learnt objects *)
Fail(op, e, k, x, y, out, learnt) ==
    /\ ev' = Ev(op, e, k, x, y, out, {})
    /\ known' = known \cup learnt
    /\ UNCHANGED <<data, loadedB>>

---------------------------------------------------------------------------
(* any call may first flush implicitly (Tau); if that flush hits a transient unique conflict the call raises *)
TFail(op, e, k, x, y) ==
    /\ Transient
    /\ ev' = Ev(op, e, k, x, y, "Integrity", {})
    /\ sess' = "aborted"
    /\ UNCHANGED <<db, tx, cur, pendNew, pendDel, known, loadedB>>

(* a conflict with a row the session had not indexed may also surface as TransactionIntegrityError while the
   call loads that row (e.g. the one-to-one partner lookup). This is a conflict reported "when the change is made"
   (C14): the call has no effect (C13); the specification does not follow the session further ("stuck") except for
   its end: a successful exit commits the view as it was before the call, a failing one commits nothing *)
HFail(op, e, k, x, y) ==
    /\ ev' = Ev(op, e, k, x, y, "Integrity", {})
    /\ sess' = "stuck"
    /\ UNCHANGED <<db, tx, cur, pendNew, pendDel, known, loadedB>>

(* Create A(id=k, v=x).
   live and indexed                      -> CacheIndexError at once
   live but not known to the session     -> either (error timing is free, C14)
   deleted by this session, not flushed  -> CacheIndexError (marked_to_delete objects keep their pk index entry;
                                            after an implicit flush - Tau - the entry is gone) *)
CreateA(k, x) ==
    /\ Open
    /\ LET live    == cur.A[k].ex
           indexed == live /\ <<"A", k>> \in known
           pdel    == <<"A", k>> \in pendDel /\ ~live
       IN \/ /\ (live \/ pdel)
             /\ Fail("Create", "A", k, x, 0, "CacheIndexError", {})
          \/ TFail("Create", "A", k, x, 0)
          \/ (live /\ ~indexed /\ HFail("Create", "A", k, x, 0))
          \/ /\ ~indexed /\ ~pdel
             /\ cur' = [cur EXCEPT !.A[k] = [ex |-> TRUE, v |-> x]]
             /\ pendNew' = pendNew \cup {<<"A", k>>}
             /\ known' = known \cup {<<"A", k>>}
             /\ ev' = Ev("Create", "A", k, x, 0, "ok", {})
             /\ UNCHANGED <<db, tx, sess, pendDel, loadedB>>

(* who holds unique value y (other than b) in the session's view *)
UHolders(y, b) == {b2 \in BIds : b2 # b /\ cur.B[b2].ex /\ cur.B[b2].u = y}

(* the o2o partner that would have to be unlinked when b takes reference z *)
Rival(b, z) == IF Rel = "o2o" /\ z # 0 THEN {b0 \in BIds : b0 # b /\ cur.B[b0].ex /\ cur.B[b0].a = z} ELSE {}

(* Create B(id=k, u=y, a=z)  (m2m: z = 0, links are made with CollAdd) *)
CreateB(k, y, z) ==
    /\ Open
    /\ (Rel = "m2m" => z = 0)
    /\ (Rel # "m2m" /\ BReq => z # 0)          \* a missing required reference is a validation error (C08)
    /\ (z # 0 => cur.A[z].ex)
    /\ LET live     == cur.B[k].ex
           indexed  == live /\ <<"B", k>> \in known
           pdel     == <<"B", k>> \in pendDel /\ ~live
           uholders == IF y = 0 THEN {} ELSE UHolders(y, k)
           uindexed == uholders \cap loadedB # {}
           rival    == Rival(k, z)
           blocked  == rival # {} /\ BReq
           learnt   == (IF z = 0 THEN {} ELSE {<<"A", z>>})
       IN \/ /\ (live \/ pdel \/ uholders # {})
             /\ Fail("Create", "B", k, y, z, "CacheIndexError", learnt)
          \/ TFail("Create", "B", k, y, z)
          \/ (((live /\ ~indexed) \/ (uholders # {} /\ ~uindexed)) /\ HFail("Create", "B", k, y, z))
          \/ /\ blocked
             /\ Fail("Create", "B", k, y, z, "ConstraintError", learnt \cup {<<"B", b0>> : b0 \in rival})
          \/ /\ ~indexed /\ ~pdel /\ ~uindexed /\ ~blocked
             /\ cur' = [cur EXCEPT !.B = [j \in BIds |-> IF j = k THEN [ex |-> TRUE, u |-> y, a |-> z]
                                                      ELSE IF j \in rival THEN [cur.B[j] EXCEPT !.a = 0]
                                                      ELSE cur.B[j]],
                                   !.L = {l \in cur.L : l[2] # k}]
             /\ pendNew' = pendNew \cup {<<"B", k>>}
             /\ known' = known \cup {<<"B", k>>} \cup learnt \cup {<<"B", b0>> : b0 \in rival}
             /\ loadedB' = loadedB \cup {k}
             /\ ev' = Ev("Create", "B", k, y, z, "ok", {})
             /\ UNCHANGED <<db, tx, sess, pendDel>>

(* a.v = x *)
SetV(k, x) ==
    /\ Open /\ cur.A[k].ex
    /\ \/ /\ cur' = [cur EXCEPT !.A[k].v = x]
          /\ known' = known \cup {<<"A", k>>}
          /\ ev' = Ev("SetV", "A", k, x, 0, "ok", {})
          /\ UNCHANGED <<db, tx, sess, pendNew, pendDel, loadedB>>
       \/ TFail("SetV", "A", k, x, 0)

(* b.u = y *)
SetU(k, y) ==
    /\ Open /\ cur.B[k].ex /\ cur.B[k].u # y
    /\ LET uholders == IF y = 0 THEN {} ELSE UHolders(y, k)
           uindexed == uholders \cap loadedB # {}
       IN \/ /\ uholders # {}
             /\ Fail("SetU", "B", k, y, 0, "CacheIndexError", {<<"B", k>>})
          \/ TFail("SetU", "B", k, y, 0)
          \/ (uholders # {} /\ ~uindexed /\ HFail("SetU", "B", k, y, 0))
          \/ /\ ~uindexed
             /\ cur' = [cur EXCEPT !.B[k].u = y]
             /\ known' = known \cup {<<"B", k>>}
             /\ loadedB' = loadedB \cup {k}
             /\ ev' = Ev("SetU", "B", k, y, 0, "ok", {})
             /\ UNCHANGED <<db, tx, sess, pendNew, pendDel>>

(* deleting objects in the session's view: bookkeeping of pending sets *)
AfterDelete(objs) ==
    /\ pendNew' = pendNew \ objs                        \* created and deleted: cancelled
    /\ pendDel' = pendDel \cup (objs \ pendNew)         \* persistent: marked_to_delete until flushed

(* cascade_delete declared on B.a (ChildCasc): assigning another value to b.a deletes the object it referred to
   (what the code does in Attribute.update_reverse: the old parent would otherwise be left without its child) *)
OrphanOf(k) == IF ChildCasc /\ cur.B[k].a # 0 THEN {<<"A", cur.B[k].a>>} ELSE {}
Orphaned(s, k) == IF ChildCasc /\ cur.B[k].a # 0 THEN RemoveA(s, cur.B[k].a) ELSE s

(* b.a = z   (o2m, o2o).  side 0: assigned on B (the side that holds the column); side 2 (one-to-one with an optional
   reference only): the same link made or broken from A's end - A[z].b = B[k], or A[old].b = None for z = 0 - which
   runs through the reverse-call path of Attribute.__set__ and never deletes an orphan (ChildCasc) *)
RefSides == IF Rel = "o2o" /\ ~BReq THEN {0, 2} ELSE {0}
SetRef(k, z, side) ==
    /\ side \in RefSides
    /\ Open /\ Rel # "m2m" /\ cur.B[k].ex /\ cur.B[k].a # z
    /\ (z # 0 => cur.A[z].ex)
    /\ LET rival   == Rival(k, z)
           learnt  == {<<"B", k>>} \cup (IF z = 0 THEN {} ELSE {<<"A", z>>})
                                   \cup (IF side = 2 /\ cur.B[k].a # 0 THEN {<<"A", cur.B[k].a>>} ELSE {})
           orphan  == IF side = 0 THEN OrphanOf(k) ELSE {}
           linked  == [cur EXCEPT !.B = [j \in BIds |-> IF j = k THEN [cur.B[j] EXCEPT !.a = z]
                                                        ELSE IF j \in rival THEN [cur.B[j] EXCEPT !.a = 0]
                                                        ELSE cur.B[j]]]
       IN \/ /\ z = 0 /\ BReq
             /\ Fail("SetRef", "B", k, z, side, "ValueError", {<<"B", k>>})
          \/ TFail("SetRef", "B", k, z, side)
          \/ /\ rival # {} /\ BReq
             /\ Fail("SetRef", "B", k, z, side, "ConstraintError", learnt \cup {<<"B", b0>> : b0 \in rival})
          \/ /\ ~(z = 0 /\ BReq) /\ ~(rival # {} /\ BReq)
             /\ cur' = IF side = 0 THEN Orphaned(linked, k) ELSE linked
             /\ AfterDelete(orphan)
             /\ known' = known \cup learnt \cup {<<"B", b0>> : b0 \in rival} \cup orphan
             /\ ev' = Ev("SetRef", "B", k, z, side, "ok", {})
             /\ UNCHANGED <<db, tx, sess, loadedB>>

(* b.set(u=y, a=z): both attributes change, all or nothing *)
SetMany(k, y, z) ==
    /\ Open /\ Rel # "m2m" /\ cur.B[k].ex /\ cur.B[k].u # y /\ cur.B[k].a # z
    /\ (z # 0 => cur.A[z].ex)
    /\ LET uholders == IF y = 0 THEN {} ELSE UHolders(y, k)
           uindexed == uholders \cap loadedB # {}
           rival    == Rival(k, z)
           learnt   == {<<"B", k>>} \cup (IF z = 0 THEN {} ELSE {<<"A", z>>})
           refBad   == z = 0 /\ BReq
           rivalBad == rival # {} /\ BReq
       IN \/ /\ uholders # {}
             /\ Fail("SetMany", "B", k, y, z, "CacheIndexError", learnt)
          \/ /\ refBad
             /\ Fail("SetMany", "B", k, y, z, "ValueError", learnt)
          \/ /\ rivalBad
             /\ Fail("SetMany", "B", k, y, z, "ConstraintError", learnt \cup {<<"B", b0>> : b0 \in rival})
          \/ TFail("SetMany", "B", k, y, z)
          \/ (uholders # {} /\ ~uindexed /\ HFail("SetMany", "B", k, y, z))
          \/ /\ ~uindexed /\ ~refBad /\ ~rivalBad
             /\ cur' = Orphaned([cur EXCEPT !.B = [j \in BIds |-> IF j = k THEN [cur.B[j] EXCEPT !.u = y, !.a = z]
                                                               ELSE IF j \in rival THEN [cur.B[j] EXCEPT !.a = 0]
                                                               ELSE cur.B[j]]], k)
             /\ AfterDelete(OrphanOf(k))
             /\ known' = known \cup learnt \cup {<<"B", b0>> : b0 \in rival} \cup OrphanOf(k)
             /\ loadedB' = loadedB \cup {k}
             /\ ev' = Ev("SetMany", "B", k, y, z, "ok", {})
             /\ UNCHANGED <<db, tx, sess>>

(* a.bs.add(b) *)
CollAdd(a, b, y) ==
    /\ y \in LinkSides
    /\ Open /\ Rel # "o2o" /\ cur.A[a].ex /\ cur.B[b].ex /\ b \notin Kids(cur, a)
    /\ \/ /\ cur' = IF Rel = "m2m" THEN [cur EXCEPT !.L = @ \cup {<<a, b>>}] ELSE [cur EXCEPT !.B[b].a = a]
          /\ known' = known \cup {<<"A", a>>, <<"B", b>>}
          /\ ev' = Ev("CollAdd", "A", a, b, y, "ok", {})
          /\ UNCHANGED <<db, tx, sess, pendNew, pendDel, loadedB>>
       \/ TFail("CollAdd", "A", a, b, y)

(* a.bs.remove(b) *)
CollRemove(a, b, y) ==
    /\ y \in LinkSides
    /\ Open /\ Rel # "o2o" /\ cur.A[a].ex /\ b \in Kids(cur, a)
    /\ \/ /\ Rel = "m2m"
          /\ cur' = [cur EXCEPT !.L = @ \ {<<a, b>>}]
          /\ UNCHANGED <<pendNew, pendDel>>
          /\ known' = known \cup {<<"A", a>>, <<"B", b>>}
          /\ ev' = Ev("CollRemove", "A", a, b, y, "ok", {})
          /\ UNCHANGED <<db, tx, sess, loadedB>>
       \/ /\ IsO2M /\ Casc
          /\ cur' = RemoveB(cur, {b})
          /\ AfterDelete({<<"B", b>>})
          /\ known' = known \cup {<<"A", a>>, <<"B", b>>}
          /\ ev' = Ev("CollRemove", "A", a, b, y, "ok", {})
          /\ UNCHANGED <<db, tx, sess, loadedB>>
       \/ /\ IsO2M /\ ~Casc /\ ~BReq
          /\ cur' = UnlinkB(cur, {b})
          /\ UNCHANGED <<pendNew, pendDel>>
          /\ known' = known \cup {<<"A", a>>, <<"B", b>>}
          /\ ev' = Ev("CollRemove", "A", a, b, y, "ok", {})
          /\ UNCHANGED <<db, tx, sess, loadedB>>
       \/ /\ IsO2M /\ ~Casc /\ BReq
          /\ Fail("CollRemove", "A", a, b, y, "ValueError", {<<"A", a>>, <<"B", b>>})
       \/ TFail("CollRemove", "A", a, b, y)

(* a.bs = S  (assignment of a whole collection: items that leave it are removed as by remove(), new ones are added;
   all or nothing). S is passed in the event as a bit mask over BIds. *)
Mask(S) == (IF 1 \in S THEN 1 ELSE 0) + (IF 2 \in S THEN 2 ELSE 0)
CollSet(a, S) ==
    /\ Open /\ Rel # "o2o" /\ cur.A[a].ex /\ S # {} /\ S # Kids(cur, a) /\ \A b \in S : cur.B[b].ex
    /\ LET kids == Kids(cur, a)
           out == kids \ S
           inn == S \ kids
           learnt == {<<"A", a>>} \cup {<<"B", b>> : b \in kids \cup S}
       IN \/ /\ Rel = "m2m"
             /\ cur' = [cur EXCEPT !.L = {l \in @ : l[1] # a} \cup {<<a, b>> : b \in S}]
             /\ UNCHANGED <<pendNew, pendDel>>
             /\ known' = known \cup learnt
             /\ ev' = Ev("CollSet", "A", a, Mask(S), 0, "ok", {})
             /\ UNCHANGED <<db, tx, sess, loadedB>>
          \/ /\ IsO2M /\ out # {} /\ ~Casc /\ BReq
             /\ Fail("CollSet", "A", a, Mask(S), 0, "ValueError", learnt)
          \/ /\ IsO2M /\ ~(out # {} /\ ~Casc /\ BReq)
             /\ LET s1 == IF Casc THEN RemoveB(cur, out) ELSE UnlinkB(cur, out)
                IN cur' = [s1 EXCEPT !.B = [k \in BIds |-> IF k \in inn THEN [s1.B[k] EXCEPT !.a = a] ELSE s1.B[k]]]
             /\ IF Casc THEN AfterDelete({<<"B", b>> : b \in out}) ELSE UNCHANGED <<pendNew, pendDel>>
             /\ known' = known \cup learnt
             /\ ev' = Ev("CollSet", "A", a, Mask(S), 0, "ok", {})
             /\ UNCHANGED <<db, tx, sess, loadedB>>
          \/ TFail("CollSet", "A", a, Mask(S), 0)

(* b.as_ = T : the many-to-many collection assigned from B's end (T may be empty: b.as_.clear()) *)
MaskA(T) == (IF 1 \in T THEN 1 ELSE 0) + (IF 2 \in T THEN 2 ELSE 0)
CollSetB(b, T) ==
    /\ Open /\ HasLinks /\ cur.B[b].ex /\ T # LinksB(cur, b) /\ \A a \in T : cur.A[a].ex
    /\ \/ /\ cur' = [cur EXCEPT !.L = {l \in @ : l[2] # b} \cup {<<a, b>> : a \in T}]
          /\ known' = known \cup {<<"B", b>>} \cup {<<"A", a>> : a \in T \cup LinksB(cur, b)}
          /\ ev' = Ev("CollSetB", "B", b, MaskA(T), 0, "ok", {})
          /\ UNCHANGED <<db, tx, sess, pendNew, pendDel, loadedB>>
       \/ TFail("CollSetB", "B", b, MaskA(T), 0)

(* a.bs.clear() *)
CollClear(a) ==
    /\ Open /\ Rel # "o2o" /\ cur.A[a].ex /\ Kids(cur, a) # {}
    /\ LET kids == Kids(cur, a)
           learnt == {<<"A", a>>} \cup {<<"B", b>> : b \in kids}
       IN \/ /\ Rel = "m2m"
             /\ cur' = [cur EXCEPT !.L = {l \in @ : l[1] # a}]
             /\ UNCHANGED <<pendNew, pendDel>>
             /\ known' = known \cup learnt
             /\ ev' = Ev("CollClear", "A", a, 0, 0, "ok", {})
             /\ UNCHANGED <<db, tx, sess, loadedB>>
          \/ /\ IsO2M /\ Casc
             /\ cur' = RemoveB(cur, kids)
             /\ AfterDelete({<<"B", b>> : b \in kids})
             /\ known' = known \cup learnt
             /\ ev' = Ev("CollClear", "A", a, 0, 0, "ok", {})
             /\ UNCHANGED <<db, tx, sess, loadedB>>
          \/ /\ IsO2M /\ ~Casc /\ ~BReq
             /\ cur' = UnlinkB(cur, kids)
             /\ UNCHANGED <<pendNew, pendDel>>
             /\ known' = known \cup learnt
             /\ ev' = Ev("CollClear", "A", a, 0, 0, "ok", {})
             /\ UNCHANGED <<db, tx, sess, loadedB>>
          \/ /\ IsO2M /\ ~Casc /\ BReq
             /\ Fail("CollClear", "A", a, 0, 0, "ValueError", learnt)
          \/ TFail("CollClear", "A", a, 0, 0)

(* "mix" only: the many-to-many collection a.ls / b.as_ next to the one-to-many a.bs *)
LAdd(a, b, y) ==
    /\ y \in {1, 2}
    /\ Open /\ Rel = "mix" /\ cur.A[a].ex /\ cur.B[b].ex /\ <<a, b>> \notin cur.L
    /\ \/ /\ cur' = [cur EXCEPT !.L = @ \cup {<<a, b>>}]
          /\ known' = known \cup {<<"A", a>>, <<"B", b>>}
          /\ ev' = Ev("LAdd", "A", a, b, y, "ok", {})
          /\ UNCHANGED <<db, tx, sess, pendNew, pendDel, loadedB>>
       \/ TFail("LAdd", "A", a, b, y)

LRemove(a, b, y) ==
    /\ y \in {1, 2}
    /\ Open /\ Rel = "mix" /\ cur.A[a].ex /\ <<a, b>> \in cur.L
    /\ \/ /\ cur' = [cur EXCEPT !.L = @ \ {<<a, b>>}]
          /\ known' = known \cup {<<"A", a>>, <<"B", b>>}
          /\ ev' = Ev("LRemove", "A", a, b, y, "ok", {})
          /\ UNCHANGED <<db, tx, sess, pendNew, pendDel, loadedB>>
       \/ TFail("LRemove", "A", a, b, y)

(* a.delete() *)
DeleteA(a) ==
    /\ Open /\ cur.A[a].ex
    /\ LET r == DelA(cur, a)
           learnt == {<<"A", a>>} \cup (IF Rel = "m2m" THEN {} ELSE {<<"B", b>> : b \in Kids(cur, a)})
       IN \/ /\ r[1]
             /\ cur' = r[2]
             /\ AfterDelete({<<"A", a>>} \cup {<<"B", b>> : b \in r[3]})
             /\ known' = known \cup learnt
             /\ ev' = Ev("Delete", "A", a, 0, 0, "ok", {})
             /\ UNCHANGED <<db, tx, sess, loadedB>>
          \/ /\ ~r[1]        \* a refusal needs to see one dependent only: nothing is learnt about the others
             /\ Fail("Delete", "A", a, 0, 0, "ConstraintError", {<<"A", a>>})
          \/ TFail("Delete", "A", a, 0, 0)

(* b.delete() *)
DeleteB(b) ==
    /\ Open /\ cur.B[b].ex
    /\ \/ /\ LET p == cur.B[b].a
                 up == ChildCasc /\ p # 0       \* the declared cascade runs from the child to its parent
                 gone == {<<"B", b>>} \cup (IF up THEN {<<"A", p>>} ELSE {})
             IN /\ cur' = IF up THEN RemoveA(RemoveB(cur, {b}), p) ELSE RemoveB(cur, {b})
                /\ AfterDelete(gone)
                /\ known' = known \cup gone
          /\ ev' = Ev("Delete", "B", b, 0, 0, "ok", {})
          /\ UNCHANGED <<db, tx, sess, loadedB>>
       \/ TFail("Delete", "B", b, 0, 0)

(* delete(x for x in A if x.id == a) with bulk=True: one DELETE statement, executed by the database's own ON DELETE
   rules (CASCADE when the collection cascades, SET NULL for optional references, otherwise the statement is
   refused); it bypasses the session's objects, so it is only modelled in a session that holds no object and no
   pending change (C15: no dangling reference after a bulk delete either) *)
BulkDeleteA(a) ==
    /\ Open /\ cur.A[a].ex /\ known = {} /\ pendNew = {} /\ pendDel = {} /\ cur = tx
    /\ LET kids == Kids(cur, a)
           refused == Rel \in {"o2m", "o2o", "mix"} /\ kids # {} /\ ~Casc /\ BReq
           after == IF Rel = "m2m" \/ kids = {} THEN RemoveA(cur, a)
                    ELSE IF Casc THEN RemoveA(RemoveB(cur, kids), a)
                    ELSE RemoveA(UnlinkB(cur, kids), a)
       IN \/ /\ ~refused
             /\ cur' = after /\ tx' = after
             /\ ev' = Ev("BulkDelete", "A", a, 0, 0, "ok", {})
             /\ UNCHANGED <<db, sess, pendNew, pendDel, known, loadedB>>
          \/ /\ refused         \* the statement is refused, nothing else happens: a failed call, not a failed flush
             /\ sess' = "stuck"
             /\ ev' = Ev("BulkDelete", "A", a, 0, 0, "Integrity", {})
             /\ UNCHANGED <<db, tx, cur, pendNew, pendDel, known, loadedB>>

---------------------------------------------------------------------------
(* reads: answered from cur whether or not the changes were flushed (C10) *)
ReadFails(op, e, k, x) ==          \* an implicit flush inside a query may hit a transient unique conflict
    /\ Transient
    /\ ev' = Ev(op, e, k, x, 0, "Integrity", {})
    /\ sess' = "aborted"
    /\ UNCHANGED <<db, tx, cur, pendNew, pendDel, known, loadedB>>

Read(op, e, k, x, ret, learnt, learntB) ==
    \/ /\ ev' = Ev(op, e, k, x, 0, "ok", ret)
       /\ known' = known \cup learnt
       /\ loadedB' = loadedB \cup learntB
       /\ UNCHANGED data
    \/ ReadFails(op, e, k, x)

GetV(k)   == Open /\ cur.A[k].ex /\ Read("GetV", "A", k, 0, {cur.A[k].v}, {<<"A", k>>}, {})
GetU(k)   == Open /\ cur.B[k].ex /\ Read("GetU", "B", k, 0, {cur.B[k].u}, {<<"B", k>>}, {k})
GetRef(k) == Open /\ Rel # "m2m" /\ cur.B[k].ex
             /\ Read("GetRef", "B", k, 0, {cur.B[k].a}, {<<"B", k>>} \cup (IF cur.B[k].a = 0 THEN {} ELSE {<<"A", cur.B[k].a>>}), {})
(* a.bs (o2m, m2m) resp. a.b (o2o) *)
Coll(a)   == Open /\ cur.A[a].ex
             /\ Read("Coll", "A", a, 0, Kids(cur, a), {<<"A", a>>} \cup {<<"B", b>> : b \in Kids(cur, a)},
                     IF IsO2M THEN Kids(cur, a) ELSE {})
(* a.ls (mix) *)
LColl(a)  == Open /\ Rel = "mix" /\ cur.A[a].ex
             /\ Read("LColl", "A", a, 0, Links(cur, a), {<<"A", a>>} \cup {<<"B", b>> : b \in Links(cur, a)}, {})
(* b.as_ (m2m) *)
CollB(b)  == Open /\ HasLinks /\ cur.B[b].ex
             /\ Read("CollB", "B", b, 0, LinksB(cur, b), {<<"B", b>>} \cup {<<"A", a>> : a \in LinksB(cur, b)}, {})
(* E.get(id=k): found or None *)
Find(e, k) == Open /\ Read("Find", e, k, 0, IF Ex(cur, e, k) THEN {1} ELSE {0},
                           IF Ex(cur, e, k) THEN {<<e, k>>} ELSE {}, {})
(* B.get(u=y) *)
FindU(y)  == Open /\ y # 0
             /\ Read("FindU", "B", 0, y, {b \in BIds : cur.B[b].ex /\ cur.B[b].u = y},
                     {<<"B", b>> : b \in {b \in BIds : cur.B[b].ex /\ cur.B[b].u = y}},
                     {b \in BIds : cur.B[b].ex /\ cur.B[b].u = y})
(* select(x for x in E) *)
SelAll(e) == Open /\ Read("SelAll", e, 0, 0, IF e = "A" THEN LiveA(cur) ELSE LiveB(cur),
                          {<<e, k>> : k \in (IF e = "A" THEN LiveA(cur) ELSE LiveB(cur))},
                          IF e = "B" THEN LiveB(cur) ELSE {})

---------------------------------------------------------------------------
CloseSession == pendNew' = {} /\ pendDel' = {} /\ known' = {} /\ loadedB' = {}

FlushOk == ~Doomed /\ WellFormed(cur)
FlushMustFail == Doomed

(* Implicit flush: Pony flushes pending changes before any statement it sends to the database (queries,
   lookups that miss the cache, lazy loads).  Which calls do so depends on what is cached, so it is an
   internal step the replay cannot observe; the replay tracks the set of specification states that are
   consistent with what it has observed (closure under Tau). *)
Tau ==
    /\ sess = "open" /\ ~Doomed
    /\ (cur # tx \/ pendNew # {} \/ pendDel # {})
    /\ tx' = cur /\ pendNew' = {} /\ pendDel' = {}
    /\ known' = {o \in known : Ex(cur, o[1], o[2])}
    /\ loadedB' = {b \in loadedB : cur.B[b].ex}
    /\ ev' = Ev("tau", "-", 0, 0, 0, "ok", {})
    /\ UNCHANGED <<db, cur, sess>>

(* flush() *)
Flush ==
    /\ sess = "open"
    /\ \/ /\ ~Doomed
          /\ tx' = cur
          /\ pendNew' = {} /\ pendDel' = {}
          /\ known' = {o \in known : Ex(cur, o[1], o[2])}
          /\ loadedB' = {b \in loadedB : cur.B[b].ex}
          /\ ev' = Ev("Flush", "-", 0, 0, 0, "ok", {})
          /\ UNCHANGED <<db, cur, sess>>
       \/ /\ (Doomed \/ Transient)
          /\ sess' = "aborted"
          /\ ev' = Ev("Flush", "-", 0, 0, 0, "Integrity", {})
          /\ UNCHANGED <<db, tx, cur, pendNew, pendDel, known, loadedB>>

(* commit(): flush + commit; the cache stays alive *)
Commit ==
    /\ sess = "open"
    /\ \/ /\ ~Doomed
          /\ db' = cur /\ tx' = cur
          /\ pendNew' = {} /\ pendDel' = {}
          /\ known' = {o \in known : Ex(cur, o[1], o[2])}
          /\ loadedB' = {b \in loadedB : cur.B[b].ex}
          /\ ev' = Ev("Commit", "-", 0, 0, 0, "ok", {})
          /\ UNCHANGED <<cur, sess>>
       \/ /\ (Doomed \/ Transient)
          /\ sess' = "aborted"
          /\ ev' = Ev("Commit", "-", 0, 0, 0, "Integrity", {})
          /\ UNCHANGED <<db, tx, cur, pendNew, pendDel, known, loadedB>>

(* rollback(): every cache is closed, objects become detached; the db_session goes on with a new cache *)
Rollback ==
    /\ sess \in {"open", "aborted", "stuck"}
    /\ sess' = "open" /\ cur' = db /\ tx' = db /\ CloseSession
    /\ ev' = Ev("Rollback", "-", 0, 0, 0, "ok", {})
    /\ UNCHANGED db

(* leaving the db_session normally: commit, then release *)
EndOk ==
    /\ sess = "open"
    /\ \/ /\ ~Doomed
          /\ db' = cur /\ tx' = cur /\ sess' = "none" /\ CloseSession
          /\ ev' = Ev("End", "-", 0, 0, 0, "ok", {})
          /\ UNCHANGED cur
       \/ /\ (Doomed \/ Transient)
          /\ sess' = "none" /\ cur' = db /\ tx' = db /\ CloseSession
          /\ ev' = Ev("End", "-", 0, 0, 0, "Integrity", {})
          /\ UNCHANGED db

(* leaving the db_session normally after a flush of this session has failed (the program caught the error):
   whatever is reported, nothing of the session may be committed (C14) *)
EndAfterFailure ==
    /\ sess = "aborted"
    /\ sess' = "none" /\ cur' = db /\ tx' = db /\ CloseSession
    /\ \E out \in {"Integrity", "ok", "Internal"} : ev' = Ev("End", "-", 0, 0, 0, out, {})
    /\ UNCHANGED db

(* leaving the db_session normally after a call reported a hidden conflict (HFail) and the program caught the error *)
EndAfterCallFailure ==
    /\ sess = "stuck"
    /\ sess' = "none" /\ CloseSession
    /\ \/ /\ db' = cur /\ tx' = cur /\ UNCHANGED cur
          /\ ev' = Ev("End", "-", 0, 0, 0, "ok", {})
       \/ /\ cur' = db /\ tx' = db /\ UNCHANGED db
          /\ \E out \in {"Integrity", "Internal"} : ev' = Ev("End", "-", 0, 0, 0, out, {})

(* leaving the db_session with an exception: rollback *)
EndExc ==
    /\ sess \in {"open", "aborted", "stuck"}
    /\ sess' = "none" /\ cur' = db /\ tx' = db /\ CloseSession
    /\ ev' = Ev("EndExc", "-", 0, 0, 0, "ok", {})
    /\ UNCHANGED db

---------------------------------------------------------------------------
ValsN == Vals \cup {0}

Modify == \/ \E k \in AIds, x \in ValsN : CreateA(k, x) \/ SetV(k, x)
          \/ \E k \in BIds, y \in ValsN, z \in AIds \cup {0} : CreateB(k, y, z)
          \/ \E k \in BIds, y \in ValsN : SetU(k, y)
          \/ \E k \in BIds, z \in AIds \cup {0}, side \in {0, 2} : SetRef(k, z, side)
          \/ \E k \in BIds, y \in ValsN, z \in AIds \cup {0} : SetMany(k, y, z)
          \/ \E a \in AIds, b \in BIds, y \in 0 .. 2 : CollAdd(a, b, y) \/ CollRemove(a, b, y) \/ LAdd(a, b, y) \/ LRemove(a, b, y)
          \/ \E a \in AIds, S \in SUBSET BIds : CollSet(a, S)
          \/ \E b \in BIds, T \in SUBSET AIds : CollSetB(b, T)
          \/ \E a \in AIds : CollClear(a) \/ DeleteA(a) \/ BulkDeleteA(a)
          \/ \E b \in BIds : DeleteB(b)

Reads  == \/ \E k \in AIds : GetV(k) \/ Coll(k) \/ LColl(k)
          \/ \E k \in BIds : GetU(k) \/ GetRef(k) \/ CollB(k)
          \/ \E e \in {"A", "B"} : SelAll(e) \/ \E k \in Ids(e) : Find(e, k)
          \/ \E y \in Vals : FindU(y)

Control == Begin \/ Tau \/ Flush \/ Commit \/ Rollback \/ EndOk \/ EndAfterFailure \/ EndAfterCallFailure \/ EndExc

Next == /\ (Modify \/ (WithReads /\ Reads) \/ Control)
        /\ view' = [ViewOf(cur') EXCEPT !.quiet = (sess' = "open" /\ ~Doomed' /\ ~Transient')]

Spec == Init /\ [][Next]_vars
SpecSeeded == InitSeeded /\ [][Next]_vars

Bounded == TLCGet("level") <= MaxLevel
NoEvView == <<db, tx, cur, sess, pendNew, pendDel, known, loadedB>>
DataView == <<db, tx, cur, sess, pendNew, pendDel>>

---------------------------------------------------------------------------
(* Properties checked by TLC *)

TypeOK == /\ sess \in {"none", "open", "aborted", "stuck"}
          /\ pendNew \subseteq ({"A"} \X AIds) \cup ({"B"} \X BIds)
          /\ pendDel \subseteq ({"A"} \X AIds) \cup ({"B"} \X BIds)

(* C14 / C15: the committed database is always well formed *)
CommittedWellFormed == WellFormed(db)

(* outside a doomed session the logical view is well formed as well (C12: one stored relation) *)
ViewWellFormed == (sess = "open" /\ ~Doomed) => NoDangling(cur) /\ O2OOk(cur) /\ ReqOk(cur)

(* C09: db changes only by a successful commit / normal end, and then becomes exactly the session's view *)
CommitEqualsSession == [][db' # db => (ev'.op \in {"Commit", "End"} /\ ev'.out = "ok" /\ db' = cur)]_vars

(* C13: a call that raises changes nothing the program can observe *)
FailureIsNoOp == [][(ev'.out \notin {"ok", "Integrity"} /\ ev'.op # "End") => (db' = db /\ tx' = tx /\ cur' = cur /\ pendNew' = pendNew /\ pendDel' = pendDel /\ sess' = sess)]_vars

(* C14: a conflict found at flush time commits nothing *)
FlushConflictAborts == [][(ev'.out = "Integrity") => db' = db]_vars

(* C10: reads never change data *)
ReadsArePure == [][(ev'.op \in {"GetV", "GetU", "GetRef", "Coll", "CollB", "LColl", "Find", "FindU", "SelAll"} /\ ev'.out = "ok")
                     => (db' = db /\ tx' = tx /\ cur' = cur)]_vars

(* The four action properties above as one ACTION_CONSTRAINT with assertions: evaluated on every transition during
   the breadth-first search (no behaviour graph needed), a failing assertion stops TLC with an error. *)
StepProps ==
    /\ Assert(db' # db => (ev'.op \in {"Commit", "End"} /\ ev'.out = "ok" /\ db' = cur), "CommitEqualsSession violated")
    /\ Assert((ev'.out \notin {"ok", "Integrity"} /\ ev'.op # "End") => (db' = db /\ tx' = tx /\ cur' = cur /\ pendNew' = pendNew /\ pendDel' = pendDel /\ sess' = sess),
              "FailureIsNoOp violated")
    /\ Assert((ev'.out = "Integrity") => db' = db, "FlushConflictAborts violated")
    /\ Assert((ev'.op \in {"GetV", "GetU", "GetRef", "Coll", "CollB", "LColl", "Find", "FindU", "SelAll"} /\ ev'.out = "ok")
                 => (db' = db /\ tx' = tx /\ cur' = cur), "ReadsArePure violated")

(* pending bookkeeping is consistent with the view *)
PendingConsistent == sess = "open" =>
    /\ \A o \in pendNew : Ex(cur, o[1], o[2])
    /\ \A o \in pendDel : ~Ex(cur, o[1], o[2]) \/ o \in pendNew
=============================================================================
