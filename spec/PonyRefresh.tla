---------------------------- MODULE PonyRefresh ----------------------------
(***************************************************************************)
(* C11 C12 (and the repeatable-read side of C21) - a session whose cached  *)
(* objects are refreshed by rows that another transaction has changed.     *)
(*                                                                         *)
(* Entities  A(id)  and  B(id, u Optional unique int, a Optional(A)),      *)
(* A.bs = Set(B).  Both A rows always exist.  One session only reads;      *)
(* between its calls another transaction commits changes of B rows (Ext),  *)
(* deletes a B row (ExtDelete) or inserts one (ExtInsert).  Every row the  *)
(* session receives from the database is                                   *)
(* merged into the identity map (Entity._db_set_): an attribute that the   *)
(* program has read may not change under it (UnrepeatableReadError), any   *)
(* other attribute is refreshed, and with it                               *)
(*   - the unique index  value -> object  (SessionCache.indexes, C11),     *)
(*   - the collections on the other side of the relationship (C12).        *)
(* One action per call of the public API; the merge is the operator Merge  *)
(* (attribute order u, a as in _db_set_: read bits and reverse sides       *)
(* first, unique index second).                                            *)
(***************************************************************************)
EXTENDS Integers, FiniteSets, TLC

CONSTANTS MaxLevel,   \* bound on the length of behaviours
          MaxExt      \* bound on the number of external changes

AIds == {1, 2}
BIds == {1, 2}
UVals == {1, 2}

VARIABLES db,       \* committed rows: [BIds -> [ex : BOOLEAN, u : 0..2, a : 0..2]]   (0 is NULL; ex: the row exists)
          loaded,   \* [BIds -> BOOLEAN]   the row of B[b] has been merged into the identity map
          cu, ca,   \* [BIds -> 0..2]      the session's values
          ru, ra,   \* [BIds -> BOOLEAN]   the program has read the value (read bits)
          coll,     \* [AIds -> [items : SUBSET BIds, full : BOOLEAN]]   cached collections A[a].bs
          idx,      \* [UVals -> BIds \cup {0}]   unique index of B.u
          sess,     \* "open" | "failed" | "over"
          nExt,
          hot,      \* history, used only by the test purpose SimNext: [bs, us, as] touched by external changes so far
          ev

vars == <<db, loaded, cu, ca, ru, ra, coll, idx, sess, nExt, hot, ev>>

Ev(op, k, x, y, out, ret) == [op |-> op, k |-> k, x |-> x, y |-> y, out |-> out, ret |-> ret]

NoRow == [ex |-> FALSE, u |-> 0, a |-> 0]
UniqueOk(d) == \A b1, b2 \in BIds : b1 # b2 /\ d[b1].ex /\ d[b2].ex /\ d[b1].u # 0 => d[b1].u # d[b2].u

InitDbs == {d \in [BIds -> [ex : BOOLEAN, u : 0 .. 2, a : 0 .. 2]] :
               /\ UniqueOk(d) /\ d[1].ex /\ d[1].u # 0 /\ d[1].a = 1 /\ (~d[2].ex => d[2] = NoRow)}

Init == /\ db \in InitDbs
        /\ loaded = [b \in BIds |-> FALSE]
        /\ cu = [b \in BIds |-> 0] /\ ca = [b \in BIds |-> 0]
        /\ ru = [b \in BIds |-> FALSE] /\ ra = [b \in BIds |-> FALSE]
        /\ coll = [a \in AIds |-> [items |-> {}, full |-> FALSE]]
        /\ idx = [y \in UVals |-> 0]
        /\ sess = "open" /\ nExt = 0
        /\ hot = [bs |-> {}, us |-> {}, as |-> {}]
        /\ ev = Ev("Init", 0, 0, 0, "ok", {})

---------------------------------------------------------------------------
(* the session's cache as one record, so that several rows can be merged one after the other *)
Cache == [loaded |-> loaded, cu |-> cu, ca |-> ca, ru |-> ru, ra |-> ra, coll |-> coll, idx |-> idx]

AddTo(c, a, b)   == IF a = 0 THEN c ELSE [c EXCEPT ![a].items = @ \cup {b}]
DropFrom(c, a, b) == IF a = 0 THEN c ELSE [c EXCEPT ![a].items = @ \ {b}]

(* Entity._db_set_ for the row <<u, a>> of B[b]: <<outcome, cache after>> *)
Merge(S, b, row) ==
    IF ~S.loaded[b] THEN
        IF row.a # 0 /\ S.coll[row.a].full THEN <<"Unrepeatable", S>>            \* phantom appeared in a loaded collection
        ELSE IF row.u # 0 /\ S.idx[row.u] \notin {0, b} THEN <<"Integrity", S>>   \* another cached object holds the key
        ELSE <<"ok", [S EXCEPT !.loaded[b] = TRUE, !.cu[b] = row.u, !.ca[b] = row.a,
                               !.coll = AddTo(@, row.a, b),
                               !.idx = [y \in UVals |-> IF y = row.u THEN b ELSE @[y]]]>>
    ELSE
        LET chU == row.u # S.cu[b]
            chA == row.a # S.ca[b]
            old == S.ca[b]
        IN  IF chU /\ S.ru[b] THEN <<"Unrepeatable", S>>
            ELSE IF chA /\ S.ra[b] THEN <<"Unrepeatable", S>>
            ELSE IF chA /\ old # 0 /\ S.coll[old].full THEN <<"Unrepeatable", S>>       \* disappeared from a loaded collection
            ELSE IF chA /\ row.a # 0 /\ S.coll[row.a].full THEN <<"Unrepeatable", S>>   \* appeared in a loaded collection
            ELSE IF chU /\ row.u # 0 /\ S.idx[row.u] \notin {0, b} THEN <<"Integrity", S>>
            ELSE <<"ok", [S EXCEPT !.cu[b] = row.u, !.ca[b] = row.a,
                                   !.coll = IF chA THEN AddTo(DropFrom(@, old, b), row.a, b) ELSE @,
                                   !.idx = IF chU THEN [y \in UVals |-> IF y = row.u THEN b
                                                                        ELSE IF y = S.cu[b] THEN 0 ELSE @[y]]
                                           ELSE @]>>

(* rows merged in primary-key order (only rows that exist are delivered); the first failure ends the call *)
MergeSet(S, bs) ==
    LET r1 == IF 1 \in bs /\ db[1].ex THEN Merge(S, 1, db[1]) ELSE <<"ok", S>>
    IN  IF r1[1] # "ok" THEN r1
        ELSE IF 2 \in bs /\ db[2].ex THEN Merge(r1[2], 2, db[2]) ELSE r1
Existing(bs) == {b \in bs : db[b].ex}

Install(S) == /\ loaded' = S.loaded /\ cu' = S.cu /\ ca' = S.ca /\ ru' = S.ru /\ ra' = S.ra
              /\ coll' = S.coll /\ idx' = S.idx

FailWith(op, k, x, out) ==
    /\ sess' = "failed"
    /\ ev' = Ev(op, k, x, 0, out, {})
    /\ UNCHANGED <<db, loaded, cu, ca, ru, ra, coll, idx, nExt, hot>>

---------------------------------------------------------------------------
(* another transaction commits a change of one row *)
Ext(b, u, a) ==
    /\ sess = "open" /\ nExt < MaxExt /\ db[b].ex
    /\ <<u, a>> # <<db[b].u, db[b].a>>
    /\ LET d == [db EXCEPT ![b] = [ex |-> TRUE, u |-> u, a |-> a]] IN UniqueOk(d) /\ db' = d
    /\ nExt' = nExt + 1
    /\ hot' = [bs |-> hot.bs \cup {b}, us |-> (hot.us \cup {u, db[b].u}) \ {0}, as |-> (hot.as \cup {a, db[b].a}) \ {0}]
    /\ ev' = Ev("Ext", b, u, a, "ok", {})
    /\ UNCHANGED <<loaded, cu, ca, ru, ra, coll, idx, sess>>    \* (db, nExt, hot, ev change)

(* another transaction deletes a row / inserts a row that did not exist: the session is not told; a deleted row is
   simply not delivered any more (what the session holds stays a snapshot), a new row is merged like any other when a
   query delivers it - into a fully loaded collection it is a phantom *)
ExtDelete(b) ==
    /\ sess = "open" /\ nExt < MaxExt /\ db[b].ex
    /\ db' = [db EXCEPT ![b] = NoRow]
    /\ nExt' = nExt + 1
    /\ hot' = [bs |-> hot.bs \cup {b}, us |-> (hot.us \cup {db[b].u}) \ {0}, as |-> (hot.as \cup {db[b].a}) \ {0}]
    /\ ev' = Ev("ExtDelete", b, 0, 0, "ok", {})
    /\ UNCHANGED <<loaded, cu, ca, ru, ra, coll, idx, sess>>

ExtInsert(b, u, a) ==
    /\ sess = "open" /\ nExt < MaxExt /\ ~db[b].ex /\ ~loaded[b]      \* (a key the session has seen is not reused)
    /\ LET d == [db EXCEPT ![b] = [ex |-> TRUE, u |-> u, a |-> a]] IN UniqueOk(d) /\ db' = d
    /\ nExt' = nExt + 1
    /\ hot' = [bs |-> hot.bs \cup {b}, us |-> (hot.us \cup {u}) \ {0}, as |-> (hot.as \cup {a}) \ {0}]
    /\ ev' = Ev("ExtInsert", b, u, a, "ok", {})
    /\ UNCHANGED <<loaded, cu, ca, ru, ra, coll, idx, sess>>

(* a query that delivers the rows bs again (no attribute is marked as read: the condition is on the primary key) *)
Fetch(bs) ==
    /\ sess = "open" /\ bs # {}
    /\ LET r == MergeSet(Cache, bs)
       IN \/ /\ r[1] = "ok" /\ Install(r[2])
             /\ ev' = Ev("Fetch", IF bs = BIds THEN 0 ELSE CHOOSE b \in bs : TRUE, 0, 0, "ok", Existing(bs))
             /\ UNCHANGED <<db, sess, nExt, hot>>
          \/ /\ r[1] # "ok"
             /\ FailWith("Fetch", IF bs = BIds THEN 0 ELSE CHOOSE b \in bs : TRUE, 0, r[1])

(* b.u / b.a of an object the session holds: answered from memory, the value is now "read" *)
ReadU(b) ==
    /\ sess = "open" /\ loaded[b]
    /\ ru' = [ru EXCEPT ![b] = TRUE]
    /\ ev' = Ev("ReadU", b, 0, 0, "ok", {cu[b]})
    /\ UNCHANGED <<db, loaded, cu, ca, ra, coll, idx, sess, nExt, hot>>

ReadA(b) ==
    /\ sess = "open" /\ loaded[b]
    /\ ra' = [ra EXCEPT ![b] = TRUE]
    /\ ev' = Ev("ReadA", b, 0, 0, "ok", {ca[b]})
    /\ UNCHANGED <<db, loaded, cu, ca, ru, coll, idx, sess, nExt, hot>>

(* set(A[a].bs): a fully loaded collection is answered from memory; otherwise the rows that refer to A[a] now are
   fetched and merged, the collection becomes fully loaded, and b.a of every item counts as read *)
ReadColl(a) ==
    /\ sess = "open"
    /\ IF coll[a].full
       THEN /\ ra' = [b \in BIds |-> ra[b] \/ b \in coll[a].items]
            /\ ev' = Ev("ReadColl", a, 0, 0, "ok", coll[a].items)
            /\ UNCHANGED <<db, loaded, cu, ca, ru, coll, idx, sess, nExt, hot>>
       ELSE LET rows == {b \in BIds : db[b].ex /\ db[b].a = a}
                r == MergeSet(Cache, rows)
            IN \/ /\ r[1] = "ok"
                  /\ LET S == r[2]
                         items == S.coll[a].items
                     IN /\ Install([S EXCEPT !.coll[a].full = TRUE, !.ra = [b \in BIds |-> S.ra[b] \/ b \in items]])
                        /\ ev' = Ev("ReadColl", a, 0, 0, "ok", items)
                  /\ UNCHANGED <<db, sess, nExt, hot>>
               \/ /\ r[1] # "ok"
                  /\ FailWith("ReadColl", a, 0, r[1])

(* B.get(u=y): the unique index answers without the database; otherwise the database is asked and the row merged;
   u of the object found counts as read *)
GetByU(y) ==
    /\ sess = "open"
    /\ IF idx[y] # 0
       THEN /\ ru' = [ru EXCEPT ![idx[y]] = TRUE]
            /\ ev' = Ev("GetByU", 0, y, 0, "ok", {idx[y]})
            /\ UNCHANGED <<db, loaded, cu, ca, ra, coll, idx, sess, nExt, hot>>
       ELSE LET rows == {b \in BIds : db[b].ex /\ db[b].u = y}
                r == MergeSet(Cache, rows)
            IN \/ /\ r[1] = "ok"
                  /\ Install([r[2] EXCEPT !.ru = [b \in BIds |-> @[b] \/ b \in rows]])
                  /\ ev' = Ev("GetByU", 0, y, 0, "ok", rows)
                  /\ UNCHANGED <<db, sess, nExt, hot>>
               \/ /\ r[1] # "ok"
                  /\ FailWith("GetByU", 0, y, r[1])

(* leaving the session (after a failure: with the exception) *)
End ==
    /\ sess \in {"open", "failed"}
    /\ sess' = "over"
    /\ ev' = Ev("End", 0, 0, 0, "ok", {})
    /\ UNCHANGED <<db, loaded, cu, ca, ru, ra, coll, idx, nExt, hot>>

Next == \/ \E b \in BIds, u \in 0 .. 2, a \in 0 .. 2 : Ext(b, u, a) \/ ExtInsert(b, u, a)
        \/ \E b \in BIds : ExtDelete(b)
        \/ \E bs \in SUBSET BIds : Fetch(bs)
        \/ \E b \in BIds : ReadU(b) \/ ReadA(b)
        \/ \E a \in AIds : ReadColl(a)
        \/ \E y \in UVals : GetByU(y)
        \/ End

Spec == Init /\ [][Next]_vars

(* Test purpose for `tlc -simulate` (not part of the design): uniform choice among all successors almost never
   produces "load, change outside, deliver the changed row again, look at the keys it touched". SimNext prefers, most of
   the time, the calls that concern what the external changes touched. *)
Follow == \/ \E b \in hot.bs : Fetch({b})
          \/ Fetch(BIds)
          \/ \E y \in hot.us : GetByU(y)
          \/ \E a \in hot.as : ReadColl(a)
Load == \/ \E bs \in SUBSET BIds : Fetch(bs)
        \/ \E a \in AIds : ReadColl(a)
        \/ \E y \in UVals : GetByU(y)
        \/ \E b \in BIds : ReadU(b) \/ ReadA(b)
Change == \/ \E b \in BIds, u \in 0 .. 2, a \in 0 .. 2 : (Ext(b, u, a) /\ (u = db[b].u \/ a = db[b].a)) \/ ExtInsert(b, u, a)
          \/ \E b \in BIds : ExtDelete(b)
SimNext == LET r == RandomElement(1 .. 10)
           IN IF nExt = 0 THEN IF r <= 5 THEN Load ELSE Change
              ELSE IF r <= 6 THEN Follow ELSE IF r <= 8 THEN Change ELSE Next

Bounded == TLCGet("level") <= MaxLevel
(* the exhaustive check looks at the design only: the observation record and the test purpose's history are left out *)
DesignView == <<db, loaded, cu, ca, ru, ra, coll, idx, sess, nExt>>

---------------------------------------------------------------------------
TypeOK == /\ db \in [BIds -> [ex : BOOLEAN, u : 0 .. 2, a : 0 .. 2]] /\ UniqueOk(db)
          /\ sess \in {"open", "failed", "over"}
          /\ coll \in [AIds -> [items : SUBSET BIds, full : BOOLEAN]]
          /\ idx \in [UVals -> BIds \cup {0}]

(* C11: while the session is usable, a key of the unique index maps to the object that holds that key in the session,
   and every held key is indexed *)
IndexRight == sess = "open" =>
    /\ \A y \in UVals : idx[y] # 0 => loaded[idx[y]] /\ cu[idx[y]] = y
    /\ \A b \in BIds : loaded[b] /\ cu[b] # 0 => idx[cu[b]] = b

(* C12: both ends of the relationship agree in the session's view *)
EndsAgree == sess = "open" =>
    \A a \in AIds, b \in BIds :
        /\ b \in coll[a].items => loaded[b] /\ ca[b] = a
        /\ loaded[b] /\ ca[b] = a => b \in coll[a].items

(* a fully loaded collection is exactly what the program was told *)
(* C21 side: a value the program has read never changes silently *)
ReadValuesStable == [][\A b \in BIds : /\ ru[b] /\ sess' = "open" => cu'[b] = cu[b]
                                       /\ ra[b] /\ sess' = "open" => ca'[b] = ca[b]]_vars
FullCollectionsStable == [][\A a \in AIds : coll[a].full /\ sess' = "open" => coll'[a] = coll[a]]_vars

StepProps ==
    /\ Assert(\A b \in BIds : (ru[b] /\ sess' = "open" => cu'[b] = cu[b]) /\ (ra[b] /\ sess' = "open" => ca'[b] = ca[b]),
              "ReadValuesStable violated")
    /\ Assert(\A a \in AIds : coll[a].full /\ sess' = "open" => coll'[a] = coll[a], "FullCollectionsStable violated")
=============================================================================
