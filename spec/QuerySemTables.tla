--------------------------- MODULE QuerySemTables ---------------------------
(* C01, binding E1: exports, for every query of the bounded space (or for the well-typed trees handed in
   as JSON by the thorough tier) and every data set, the result RefEval prescribes.  `alt` holds the result
   under the other admissible reading of a missing collection element when it differs (see QuerySem). *)
EXTENDS QuerySem, Json, IOUtils

In == JsonDeserialize(IOEnv.IN)

ND == Len(DataSets)
CaseD(q, D, both) == LET r == RefEval(q, D) IN
                     IF ~both THEN [r |-> r, a |-> <<>>]
                     ELSE LET a == RefEvalAlt(q, D) IN [r |-> r, a |-> IF SameResult(r, a) THEN <<>> ELSE <<a>>]
Case(q) == LET both == HasMember(q.cond) IN [q |-> q, out |-> [k \in 1 .. ND |-> CaseD(q, DataSets[k], both)]]

Given(q) == IF WellTyped(q) THEN Case(q) ELSE [q |-> q, out |-> <<>>]

Space == Queries(In.depth) \cup (IF In.div THEN DivQueries ELSE {})

Out == IF In.mode = "enum"
       THEN [datasets |-> DataSets, nonefree |-> NoneFree, cases |-> {Case(q) : q \in Space}]
       ELSE [datasets |-> DataSets, nonefree |-> NoneFree, cases |-> [i \in 1 .. Len(In.queries) |-> Given(In.queries[i])]]

ASSUME JsonSerialize(IOEnv.OUT, Out)
=============================================================================
