--------------------------- MODULE QuerySemTables ---------------------------
(* C01, binding E1: exports, for every query of the bounded space (or for the well-typed trees handed in
   as JSON by the thorough tier) and every data set, the result RefEval prescribes (field r; field a is kept
   empty: there is a single reading). *)
EXTENDS QuerySem, Json, IOUtils

In == JsonDeserialize(IOEnv.IN)

ND == Len(DataSets)
CaseD(q, D) == [r |-> RefEval(q, D), a |-> <<>>]
Case(q) == [q |-> q, out |-> [k \in 1 .. ND |-> CaseD(q, DataSets[k])]]

Given(q) == IF WellTyped(q) THEN Case(q) ELSE [q |-> q, out |-> <<>>]

Space == Queries(In.depth) \cup (IF In.div THEN DivQueries ELSE {})

Out == IF In.mode = "enum"
       THEN [datasets |-> DataSets, nonefree |-> NoneFree, cases |-> {Case(q) : q \in Space}]
       ELSE [datasets |-> DataSets, nonefree |-> NoneFree, cases |-> [i \in 1 .. Len(In.queries) |-> Given(In.queries[i])]]

ASSUME JsonSerialize(IOEnv.OUT, Out)
=============================================================================
