------------------------------ MODULE PyExpr ------------------------------
(***************************************************************************)
(* Python expressions and their meaning (C03, C04).                        *)
(*                                                                         *)
(* 1. VALUES.  Tagged records, so that TLC never compares values of        *)
(*    different kinds:                                                     *)
(*      [t |-> "none"]                      None                           *)
(*      [t |-> "bool", v |-> TRUE]          True / False                   *)
(*      [t |-> "int",  v |-> n]             int, |n| <= Cap                *)
(*      [t |-> "str",  v |-> <<"a","b">>]   str as a sequence of 1-char    *)
(*                                          strings, length <= StrCap      *)
(*      [t |-> "tup",  v |-> <<x, y>>]      tuple of values                *)
(*      [t |-> "obj",  v |-> "R1"]          record-like object; its        *)
(*                                          attributes are in ObjAttrs     *)
(*      [t |-> "fn", ...]                   closure of a lambda            *)
(*      [t |-> "builtin", v |-> "len"]      len / mk (see Apply)           *)
(*      [t |-> "meth", self |-> s, v |-> "startswith"]  bound str method   *)
(*      [t |-> "err",  v |-> "TypeError"]   evaluation raises this class   *)
(*      [t |-> "undef"]                     outside the modelled fragment  *)
(*                                          (floats, huge ints, identity   *)
(*                                          of strings ...): such points   *)
(*                                          are skipped by every check     *)
(*                                                                         *)
(* 2. TREES.  A node is a sequence whose head names the node kind; this is *)
(*    the renderer-independent encoding the harness turns into fully       *)
(*    parenthesised source text or into `ast` objects                      *)
(*    (harness/pyexpr_c03.py):                                             *)
(*      <<"Const", value>>          <<"Name", "a">>                        *)
(*      <<"Tuple", <<e1, ...>>>>                                           *)
(*      <<"Un", op, e>>             op in Not USub UAdd Invert             *)
(*      <<"Bin", op, l, r>>         op in Add Sub Mult FloorDiv Mod Pow    *)
(*                                        LShift RShift BitOr BitXor BitAnd*)
(*      <<"Bool", op, <<e1, e2, ...>>>>   op in And Or (returns operands)  *)
(*      <<"Cmp", left, <<op1, ...>>, <<e1, ...>>>>  comparison chain,      *)
(*                        op in Eq NotEq Lt LtE Gt GtE Is IsNot In NotIn   *)
(*      <<"IfExp", test, body, orelse>>                                    *)
(*      <<"Attr", e, "name">>       <<"Sub", e, index>>                    *)
(*      <<"Slice", e, lo, hi>>      lo, hi an expression or <<"Omit">>     *)
(*      <<"Call", f, <<args>>, <<<<kwname, e>>, ...>>>>                    *)
(*      <<"Lambda", <<params>>, <<default exprs (for the last params)>>,   *)
(*                  body>>                                                 *)
(*      <<"FStr", <<part, ...>>>>   part = <<"Lit", chars>> or             *)
(*                 <<"Fld", e, conv, <<spec parts>>>>, conv in "" r s a    *)
(*    Generator expressions (C03 shells):                                  *)
(*      <<"Gen", elt, <<clause, ...>>>>, clause = <<target, iter, <<ifs>>>>*)
(*                                                                         *)
(* 3. Eval(e, env): CPython 3.12 semantics of the tree, left-to-right      *)
(*    evaluation, first exception wins.  This is a model of the            *)
(*    *environment* (CPython), not of Pony: the harness compares it with   *)
(*    the real `eval` on every enumerated tree and environment before it   *)
(*    is used as the oracle (MachineryError otherwise).                    *)
(*                                                                         *)
(* 4. Exprs(A, n): all trees with <= n operator nodes over alphabet A      *)
(*    (ExprSeq(A, n) enumerates it; an "operator node" is one application  *)
(*    of an operator kind Mk1/Mk2/Mk3, e.g. "IfExp", "ChainLtLt", "FSpec").*)
(*    The i-th name leaf (left to right) is A.names[((i-1) % m) + 1]:      *)
(*    for the mechanisms under test (bytecode shapes, operator             *)
(*    precedence) only the shape matters, and at most m free names keep    *)
(*    the truth tables finite and small.                                   *)
(*                                                                         *)
(* Pony code this module is the reference for: pony/orm/decompiling.py     *)
(* (the tree Decompiler rebuilds must have the meaning of the tree that    *)
(* was compiled) and pony/orm/asttranslation.py PythonTranslator/ast2src,  *)
(* create_extractors, core.extract_vars (source regenerated from a tree    *)
(* and evaluated in the caller's scope must give Eval of that tree).       *)
(* Deliberate restrictions: no floats (so no `/`, negative powers are      *)
(* undef), no `@`, no dict/set/list displays, slices without step,         *)
(* format specs `[<>^][width]` only.                                       *)
(***************************************************************************)
EXTENDS Integers, Sequences, FiniteSets, TLC

Cap    == 100000      \* ints beyond are "undef"
StrCap == 48          \* longer strings/tuples are "undef"

None   == [t |-> "none"]
B(b)   == [t |-> "bool", v |-> b]
I(n)   == [t |-> "int", v |-> n]
S(s)   == [t |-> "str", v |-> s]
Tup(s) == [t |-> "tup", v |-> s]
Obj(n) == [t |-> "obj", v |-> n]
Builtin(n) == [t |-> "builtin", v |-> n]
Err(k) == [t |-> "err", v |-> k]
Undef  == [t |-> "undef"]
SeqV(s) == [t |-> "seq", v |-> s]       \* internal: an evaluated argument list

TypeError == Err("TypeError")

IsAbort(x) == x.t = "err" \/ x.t = "undef"
IsNum(x)   == x.t = "int" \/ x.t = "bool"
NumVal(x)  == IF x.t = "bool" THEN (IF x.v THEN 1 ELSE 0) ELSE x.v
IntRes(n)  == IF n > Cap \/ n < -Cap THEN Undef ELSE I(n)
SeqRes(kind, s) == IF Len(s) > StrCap THEN Undef ELSE [t |-> kind, v |-> s]

(* attributes of the record-like objects; the harness builds the same objects in Python *)
ObjAttrs == [R1 |-> [p |-> I(7), q |-> Obj("R2")],
             R2 |-> [p |-> S(<<"a", "b">>), q |-> None]]

RECURSIVE Opaque(_)
Opaque(x) == \/ x.t \in {"fn", "builtin", "meth"}
             \/ x.t = "tup" /\ \E i \in 1 .. Len(x.v) : Opaque(x.v[i])

Truthy(x) == CASE x.t = "none" -> FALSE
               [] x.t = "bool" -> x.v
               [] x.t = "int"  -> x.v # 0
               [] x.t \in {"str", "tup"} -> Len(x.v) > 0
               [] OTHER -> TRUE

---------------------------------------------------------------------------
(* characters: printable ASCII in code point order *)
Ascii == <<" ", "!", "\"", "#", "$", "%", "&", "'", "(", ")", "*", "+", ",", "-", ".", "/",
           "0", "1", "2", "3", "4", "5", "6", "7", "8", "9", ":", ";", "<", "=", ">", "?", "@",
           "A", "B", "C", "D", "E", "F", "G", "H", "I", "J", "K", "L", "M", "N", "O", "P", "Q", "R", "S", "T", "U", "V", "W", "X", "Y", "Z",
           "[", "\\", "]", "^", "_", "`",
           "a", "b", "c", "d", "e", "f", "g", "h", "i", "j", "k", "l", "m", "n", "o", "p", "q", "r", "s", "t", "u", "v", "w", "x", "y", "z",
           "{", "|", "}", "~">>
Ord == [c \in {Ascii[i] : i \in 1 .. Len(Ascii)} |-> CHOOSE i \in 1 .. Len(Ascii) : Ascii[i] = c]
Digits == <<"0", "1", "2", "3", "4", "5", "6", "7", "8", "9">>

RECURSIVE NatStr(_)
NatStr(n) == IF n < 10 THEN <<Digits[n + 1]>> ELSE NatStr(n \div 10) \o <<Digits[(n % 10) + 1]>>
IntStr(n) == IF n < 0 THEN <<"-">> \o NatStr(-n) ELSE NatStr(n)

RECURSIVE SeqLt(_, _, _)      \* lexicographic s1 < s2 from position k on (strings)
SeqLt(s1, s2, k) ==
    IF k > Len(s2) THEN FALSE
    ELSE IF k > Len(s1) THEN TRUE
    ELSE IF s1[k] = s2[k] THEN SeqLt(s1, s2, k + 1)
    ELSE Ord[s1[k]] < Ord[s2[k]]

IsSubstring(x, y) == \E i \in 0 .. (Len(y) - Len(x)) : SubSeq(y, i + 1, i + Len(x)) = x   \* x in y
StartsWith(s, pre) == Len(pre) <= Len(s) /\ SubSeq(s, 1, Len(pre)) = pre

RECURSIVE Repeat(_, _)
Repeat(s, n) == IF n <= 0 THEN <<>> ELSE s \o Repeat(s, n - 1)
RepeatRes(kind, s, n) == IF n <= 0 \/ Len(s) = 0 THEN [t |-> kind, v |-> <<>>]
                         ELSE IF n > StrCap \/ n * Len(s) > StrCap THEN Undef
                         ELSE [t |-> kind, v |-> Repeat(s, n)]

---------------------------------------------------------------------------
(* ==, ordering, identity, membership *)
RECURSIVE PyEq(_, _)
PyEq(x, y) ==
    IF IsNum(x) /\ IsNum(y) THEN NumVal(x) = NumVal(y)
    ELSE IF x.t # y.t THEN FALSE
    ELSE CASE x.t = "none" -> TRUE
           [] x.t = "str"  -> x.v = y.v
           [] x.t = "obj"  -> x.v = y.v
           [] x.t = "tup"  -> Len(x.v) = Len(y.v) /\ \A i \in 1 .. Len(x.v) : PyEq(x.v[i], y.v[i])
           [] OTHER -> FALSE

EqOp(x, y) == IF Opaque(x) \/ Opaque(y) THEN Undef ELSE B(PyEq(x, y))

RECURSIVE Order(_, _, _)      \* op in Lt LtE Gt GtE
Order(op, x, y) ==
    IF IsNum(x) /\ IsNum(y) THEN
        LET a == NumVal(x)  b == NumVal(y)
        IN B(CASE op = "Lt" -> a < b [] op = "LtE" -> a <= b [] op = "Gt" -> a > b [] op = "GtE" -> a >= b)
    ELSE IF x.t = "str" /\ y.t = "str" THEN
        LET lt == SeqLt(x.v, y.v, 1)  eq == x.v = y.v
        IN B(CASE op = "Lt" -> lt [] op = "LtE" -> lt \/ eq [] op = "Gt" -> ~lt /\ ~eq [] op = "GtE" -> ~lt)
    ELSE IF x.t = "tup" /\ y.t = "tup" THEN
        IF Opaque(x) \/ Opaque(y) THEN Undef
        ELSE LET diff == {i \in 1 .. Len(x.v) : i <= Len(y.v) /\ ~PyEq(x.v[i], y.v[i])}
             IN IF diff = {} THEN Order(op, I(Len(x.v)), I(Len(y.v)))
                ELSE LET i == CHOOSE j \in diff : \A m \in diff : j <= m IN Order(op, x.v[i], y.v[i])
    ELSE TypeError

SmallInt(x) == x.t = "int" /\ x.v >= -5 /\ x.v <= 256
(* identity: decided by the language for None/True/False/objects; CPython's small-int cache for ints; else undef *)
IsOp(x, y) ==
    IF x.t \in {"none", "bool", "obj"} \/ y.t \in {"none", "bool", "obj"} THEN
        (IF x.t # y.t THEN B(FALSE) ELSE IF x.t = "none" THEN B(TRUE) ELSE B(x.v = y.v))
    ELSE IF SmallInt(x) /\ SmallInt(y) THEN B(x.v = y.v)
    ELSE IF x.t # y.t /\ ~Opaque(x) /\ ~Opaque(y) THEN B(FALSE)
    ELSE Undef

Same(x, y) == (x.t = y.t /\ x.t \in {"none", "bool", "obj", "int"} /\ (x.t = "none" \/ x.v = y.v)) \/ PyEq(x, y)

InOp(x, y) ==
    IF y.t = "tup" THEN (IF Opaque(x) \/ Opaque(y) THEN Undef ELSE B(\E i \in 1 .. Len(y.v) : Same(x, y.v[i])))
    ELSE IF y.t = "str" THEN (IF x.t = "str" THEN B(IsSubstring(x.v, y.v)) ELSE TypeError)
    ELSE TypeError

NotB(r) == IF r.t = "bool" THEN B(~r.v) ELSE r

CmpOp(op, x, y) ==
    CASE op = "Eq"    -> EqOp(x, y)
      [] op = "NotEq" -> NotB(EqOp(x, y))
      [] op = "Is"    -> IsOp(x, y)
      [] op = "IsNot" -> NotB(IsOp(x, y))
      [] op = "In"    -> InOp(x, y)
      [] op = "NotIn" -> NotB(InOp(x, y))
      [] OTHER        -> Order(op, x, y)

---------------------------------------------------------------------------
(* arithmetic *)
FloorDiv(a, b) == IF b > 0 THEN a \div b ELSE (-a) \div (-b)       \* b # 0
PyMod(a, b)    == a - b * FloorDiv(a, b)

RECURSIVE PowN(_, _)        \* |b| >= 2, 0 <= e <= 17; result may exceed Cap (checked by IntRes; < 2^31 not guaranteed, so cap early)
PowN(b, e) == IF e = 0 THEN 1 ELSE LET r == PowN(b, e - 1) IN IF r > Cap \/ r < -Cap THEN r ELSE r * b
PowOp(a, e) ==
    IF e < 0 THEN (IF a = 0 THEN Err("ZeroDivisionError") ELSE Undef)     \* float result
    ELSE IF e = 0 THEN I(1)
    ELSE IF a = 0 \/ a = 1 THEN I(a)
    ELSE IF a = -1 THEN I(IF e % 2 = 0 THEN 1 ELSE -1)
    ELSE IF e > 17 THEN Undef
    ELSE IntRes(PowN(a, e))

RECURSIVE Pow2(_)
Pow2(n) == IF n = 0 THEN 1 ELSE 2 * Pow2(n - 1)       \* n <= 30

RECURSIVE BAnd(_, _), BOr(_, _), BXor(_, _)          \* two's complement with infinitely many sign bits
BAnd(a, b) == IF a = 0 \/ b = 0 THEN 0 ELSE IF a = -1 THEN b ELSE IF b = -1 THEN a
              ELSE (a % 2) * (b % 2) + 2 * BAnd(a \div 2, b \div 2)
BOr(a, b)  == IF a = 0 THEN b ELSE IF b = 0 THEN a ELSE IF a = -1 \/ b = -1 THEN -1
              ELSE (IF a % 2 = 1 \/ b % 2 = 1 THEN 1 ELSE 0) + 2 * BOr(a \div 2, b \div 2)
BXor(a, b) == IF a = 0 THEN b ELSE IF b = 0 THEN a ELSE IF a = -1 THEN -b - 1 ELSE IF b = -1 THEN -a - 1
              ELSE (((a % 2) + (b % 2)) % 2) + 2 * BXor(a \div 2, b \div 2)

NumBin(op, x, y) ==
    LET a == NumVal(x)  b == NumVal(y)  bb == x.t = "bool" /\ y.t = "bool" IN
    CASE op = "Add"      -> IntRes(a + b)
      [] op = "Sub"      -> IntRes(a - b)
      [] op = "Mult"     -> IntRes(a * b)
      [] op = "FloorDiv" -> IF b = 0 THEN Err("ZeroDivisionError") ELSE IntRes(FloorDiv(a, b))
      [] op = "Mod"      -> IF b = 0 THEN Err("ZeroDivisionError") ELSE IntRes(PyMod(a, b))
      [] op = "Pow"      -> PowOp(a, b)
      [] op = "LShift"   -> IF b < 0 THEN Err("ValueError") ELSE IF a = 0 THEN I(0) ELSE IF b > 17 THEN Undef ELSE IntRes(a * Pow2(b))
      [] op = "RShift"   -> IF b < 0 THEN Err("ValueError") ELSE IF b > 30 THEN I(IF a < 0 THEN -1 ELSE 0) ELSE I(a \div Pow2(b))
      [] op = "BitAnd"   -> IF bb THEN B(x.v /\ y.v) ELSE I(BAnd(a, b))
      [] op = "BitOr"    -> IF bb THEN B(x.v \/ y.v) ELSE I(BOr(a, b))
      [] op = "BitXor"   -> IF bb THEN B(x.v # y.v) ELSE I(BXor(a, b))

IsSeqV(x) == x.t = "str" \/ x.t = "tup"

BinOp(op, x, y) ==
    IF IsNum(x) /\ IsNum(y) THEN NumBin(op, x, y)
    ELSE IF op = "Add" /\ IsSeqV(x) /\ x.t = y.t THEN SeqRes(x.t, x.v \o y.v)
    ELSE IF op = "Mult" /\ IsSeqV(x) /\ IsNum(y) THEN RepeatRes(x.t, x.v, NumVal(y))
    ELSE IF op = "Mult" /\ IsNum(x) /\ IsSeqV(y) THEN RepeatRes(y.t, y.v, NumVal(x))
    ELSE IF op = "Mod" /\ x.t = "str" THEN      \* %-formatting of a string without conversion specifiers
        (IF \E i \in 1 .. Len(x.v) : x.v[i] = "%" THEN Undef
         ELSE IF y.t = "tup" /\ Len(y.v) = 0 THEN x ELSE TypeError)
    ELSE TypeError

UnOp(op, x) ==
    CASE op = "Not"    -> B(~Truthy(x))
      [] op = "USub"   -> IF IsNum(x) THEN I(-NumVal(x)) ELSE TypeError
      [] op = "UAdd"   -> IF IsNum(x) THEN I(NumVal(x)) ELSE TypeError
      [] op = "Invert" -> IF IsNum(x) THEN I(-NumVal(x) - 1) ELSE TypeError

---------------------------------------------------------------------------
(* subscripts, slices, attributes, len *)
Index(x, i) ==
    IF ~IsSeqV(x) THEN TypeError
    ELSE IF ~IsNum(i) THEN TypeError
    ELSE LET n == NumVal(i)  L == Len(x.v)  k == IF n < 0 THEN L + n ELSE n
         IN IF k < 0 \/ k >= L THEN Err("IndexError")
            ELSE IF x.t = "str" THEN S(<<x.v[k + 1]>>) ELSE x.v[k + 1]

OkBound(b) == b.t = "none" \/ IsNum(b)
Clip(L, b, dflt) == IF b.t = "none" THEN dflt
                    ELSE LET n == NumVal(b) IN IF n < 0 THEN (IF L + n < 0 THEN 0 ELSE L + n) ELSE (IF n > L THEN L ELSE n)
SliceOp(x, lo, hi) ==
    IF ~IsSeqV(x) THEN TypeError
    ELSE IF ~OkBound(lo) \/ ~OkBound(hi) THEN TypeError
    ELSE LET L == Len(x.v)  a == Clip(L, lo, 0)  b == Clip(L, hi, L)
         IN [t |-> x.t, v |-> IF b <= a THEN <<>> ELSE SubSeq(x.v, a + 1, b)]

AttrOp(x, name) ==
    IF x.t = "obj" THEN (IF name \in DOMAIN ObjAttrs[x.v] THEN ObjAttrs[x.v][name] ELSE Err("AttributeError"))
    ELSE IF IsNum(x) /\ name = "real" THEN I(NumVal(x))
    ELSE IF IsNum(x) /\ name = "imag" THEN I(0)
    ELSE IF x.t = "str" /\ name = "startswith" THEN [t |-> "meth", self |-> x, v |-> name]
    ELSE IF name \in {"p", "q", "real", "imag", "startswith"} /\ x.t \in {"none", "bool", "int", "str", "tup", "obj"} THEN Err("AttributeError")
    ELSE Undef

LenOp(x) == IF IsSeqV(x) THEN I(Len(x.v)) ELSE TypeError

---------------------------------------------------------------------------
(* str(), repr(), format() *)
ObjRepr == [R1 |-> <<"R", "1">>, R2 |-> <<"R", "2">>]       \* __repr__ of the objects

RECURSIVE ReprOk(_)        \* repr()/str() is modelled: no functions inside, no quote or backslash inside strings
ReprOk(x) == CASE x.t \in {"none", "bool", "int", "obj"} -> TRUE
               [] x.t = "str" -> \A i \in 1 .. Len(x.v) : x.v[i] \notin {"'", "\\"}
               [] x.t = "tup" -> \A i \in 1 .. Len(x.v) : ReprOk(x.v[i])
               [] OTHER -> FALSE

RECURSIVE ReprV(_), JoinRepr(_, _)
ReprV(x) ==
    CASE x.t = "none" -> <<"N", "o", "n", "e">>
      [] x.t = "bool" -> IF x.v THEN <<"T", "r", "u", "e">> ELSE <<"F", "a", "l", "s", "e">>
      [] x.t = "int"  -> IntStr(x.v)
      [] x.t = "str"  -> <<"'">> \o x.v \o <<"'">>
      [] x.t = "obj"  -> ObjRepr[x.v]
      [] x.t = "tup"  -> IF Len(x.v) = 1 THEN <<"(">> \o ReprV(x.v[1]) \o <<",", ")">>
                         ELSE <<"(">> \o JoinRepr(x.v, 1) \o <<")">>
JoinRepr(s, k) == IF k > Len(s) THEN <<>>
                  ELSE ReprV(s[k]) \o (IF k < Len(s) THEN <<",", " ">> ELSE <<>>) \o JoinRepr(s, k + 1)
StrV(x) == IF x.t = "str" THEN x.v ELSE ReprV(x)

ConvOp(x, conv) ==          \* !s !r !a of an f-string field
    IF conv = "" THEN x
    ELSE IF conv = "s" /\ x.t = "str" THEN x
    ELSE IF ~ReprOk(x) THEN Undef
    ELSE IF conv = "s" THEN SeqRes("str", StrV(x))
    ELSE SeqRes("str", ReprV(x))                     \* r, a (ASCII only)

IsDigit(c) == c \in {"0", "1", "2", "3", "4", "5", "6", "7", "8", "9"}
DigitVal(c) == CHOOSE d \in 0 .. 9 : Digits[d + 1] = c
RECURSIVE NumOf(_, _)
NumOf(ds, acc) == IF Len(ds) = 0 THEN acc ELSE NumOf(Tail(ds), 10 * acc + DigitVal(ds[1]))
Spaces(n) == [i \in 1 .. n |-> " "]
Pad(txt, al, w) ==
    LET n == w - Len(txt) IN
    IF n <= 0 THEN txt
    ELSE CASE al = "<" -> txt \o Spaces(n)
           [] al = ">" -> Spaces(n) \o txt
           [] al = "^" -> Spaces(n \div 2) \o txt \o Spaces(n - (n \div 2))

(* format(x, spec) for spec = [<>^][width]; the empty spec is str(x) *)
FormatOp(x, spec) ==
    IF Opaque(x) THEN Undef
    ELSE IF Len(spec) = 0 THEN (IF x.t = "str" THEN x ELSE IF ReprOk(x) THEN SeqRes("str", StrV(x)) ELSE Undef)
    ELSE LET hasAlign == spec[1] \in {"<", ">", "^"}
             rest == IF hasAlign THEN Tail(spec) ELSE spec
             okW  == /\ \A i \in 1 .. Len(rest) : IsDigit(rest[i])
                     /\ (Len(rest) = 0 \/ rest[1] # "0")
                     /\ Len(rest) <= 2
         IN IF ~okW THEN Undef
            ELSE IF x.t \notin {"str", "int", "bool"} THEN TypeError
            ELSE LET w   == NumOf(rest, 0)
                     txt == IF x.t = "str" THEN x.v ELSE IntStr(NumVal(x))
                     al  == IF hasAlign THEN spec[1] ELSE IF x.t = "str" THEN "<" ELSE ">"
                 IN SeqRes("str", Pad(txt, al, w))

---------------------------------------------------------------------------
(* evaluation *)
Builtins == [len |-> Builtin("len"), mk |-> Builtin("mk")]
Unbound == [t |-> "unbound"]       \* a local variable (loop target of a generator) that is not assigned yet
Lookup(env, name) == IF name \in DOMAIN env THEN (IF env[name].t = "unbound" THEN Err("UnboundLocalError") ELSE env[name])
                     ELSE IF name \in DOMAIN Builtins THEN Builtins[name]
                     ELSE Err("NameError")

Bind(env, names, vals) == [n \in DOMAIN env \cup {names[i] : i \in 1 .. Len(names)} |->
                              IF \E i \in 1 .. Len(names) : names[i] = n
                              THEN vals[CHOOSE i \in 1 .. Len(names) : names[i] = n /\ \A j \in (i + 1) .. Len(names) : names[j] # n]
                              ELSE env[n]]

RECURSIVE Eval(_, _), EvalArgs(_, _, _, _), EvalKw(_, _, _, _), EvalBool(_, _, _, _), EvalChain(_, _, _, _, _),
          EvalParts(_, _, _, _), Apply(_, _, _)

Eval(e, env) ==
    LET k == e[1] IN
    CASE k = "Name"  -> Lookup(env, e[2])
      [] k = "Const" -> e[2]
      [] k = "Bool"  -> EvalBool(e[2], e[3], 1, env)
      [] k = "Un"    -> LET x == Eval(e[3], env) IN IF IsAbort(x) THEN x ELSE UnOp(e[2], x)
      [] k = "Cmp"   -> LET x == Eval(e[2], env) IN IF IsAbort(x) THEN x ELSE EvalChain(x, e[3], e[4], 1, env)
      [] k = "Bin"   -> LET x == Eval(e[3], env) IN
                        IF IsAbort(x) THEN x
                        ELSE LET y == Eval(e[4], env) IN IF IsAbort(y) THEN y ELSE BinOp(e[2], x, y)
      [] k = "IfExp" -> LET c == Eval(e[2], env) IN
                        IF IsAbort(c) THEN c ELSE IF Truthy(c) THEN Eval(e[3], env) ELSE Eval(e[4], env)
      [] k = "Attr"  -> LET x == Eval(e[2], env) IN IF IsAbort(x) THEN x ELSE AttrOp(x, e[3])
      [] k = "Sub"   -> LET x == Eval(e[2], env) IN
                        IF IsAbort(x) THEN x
                        ELSE LET i == Eval(e[3], env) IN IF IsAbort(i) THEN i ELSE Index(x, i)
      [] k = "Slice" -> LET x == Eval(e[2], env) IN
                        IF IsAbort(x) THEN x
                        ELSE LET lo == IF e[3][1] = "Omit" THEN None ELSE Eval(e[3], env) IN
                             IF IsAbort(lo) THEN lo
                             ELSE LET hi == IF e[4][1] = "Omit" THEN None ELSE Eval(e[4], env) IN
                                  IF IsAbort(hi) THEN hi ELSE SliceOp(x, lo, hi)
      [] k = "Tuple" -> LET xs == EvalArgs(e[2], 1, <<>>, env) IN IF IsAbort(xs) THEN xs ELSE SeqRes("tup", xs.v)
      [] k = "Call"  -> LET f == Eval(e[2], env) IN
                        IF IsAbort(f) THEN f
                        ELSE LET xs == EvalArgs(e[3], 1, <<>>, env) IN
                             IF IsAbort(xs) THEN xs
                             ELSE LET ks == EvalKw(e[4], 1, <<>>, env) IN
                                  IF IsAbort(ks) THEN ks ELSE Apply(f, xs.v, ks.v)
      [] k = "Lambda" -> LET ds == EvalArgs(e[3], 1, <<>>, env) IN      \* defaults are evaluated at definition time
                         IF IsAbort(ds) THEN ds
                         ELSE [t |-> "fn", params |-> e[2], defs |-> ds.v, body |-> e[4], env |-> env]
      [] k = "FStr"  -> LET r == EvalParts(e[2], 1, <<>>, env) IN IF IsAbort(r) THEN r ELSE SeqRes("str", r.v)
      [] OTHER -> Undef

EvalArgs(es, k, acc, env) ==
    IF k > Len(es) THEN SeqV(acc)
    ELSE LET x == Eval(es[k], env) IN IF IsAbort(x) THEN x ELSE EvalArgs(es, k + 1, Append(acc, x), env)

EvalKw(ks, k, acc, env) ==
    IF k > Len(ks) THEN SeqV(acc)
    ELSE LET x == Eval(ks[k][2], env) IN IF IsAbort(x) THEN x ELSE EvalKw(ks, k + 1, Append(acc, <<ks[k][1], x>>), env)

(* `and` / `or` return the operand that decided *)
EvalBool(op, es, k, env) ==
    LET x == Eval(es[k], env) IN
    IF IsAbort(x) \/ k = Len(es) THEN x
    ELSE IF (op = "And") = Truthy(x) THEN EvalBool(op, es, k + 1, env) ELSE x

(* x op1 e1 op2 e2 ...: every operand evaluated at most once, stops at the first false link *)
EvalChain(x, ops, es, k, env) ==
    LET y == Eval(es[k], env) IN
    IF IsAbort(y) THEN y
    ELSE LET r == CmpOp(ops[k], x, y) IN
         IF IsAbort(r) \/ k = Len(ops) THEN r
         ELSE IF Truthy(r) THEN EvalChain(y, ops, es, k + 1, env) ELSE r

EvalParts(ps, k, acc, env) ==
    IF k > Len(ps) THEN SeqV(acc)
    ELSE LET p == ps[k] IN
         IF p[1] = "Lit" THEN EvalParts(ps, k + 1, acc \o p[2], env)
         ELSE LET x == Eval(p[2], env) IN
              IF IsAbort(x) THEN x
              ELSE LET c == ConvOp(x, p[3]) IN
                   IF IsAbort(c) THEN c
                   ELSE LET sp == EvalParts(p[4], 1, <<>>, env) IN
                        IF IsAbort(sp) THEN sp
                        ELSE LET f == FormatOp(c, sp.v) IN
                             IF IsAbort(f) THEN f
                             ELSE IF Len(acc) + Len(f.v) > StrCap THEN Undef
                             ELSE EvalParts(ps, k + 1, acc \o f.v, env)

(* def mk(x, y=0, k=None): return (x, y, k) *)
Apply(f, args, kws) ==
    CASE f.t = "builtin" /\ f.v = "len" ->
            IF Len(kws) # 0 \/ Len(args) # 1 THEN TypeError ELSE LenOp(args[1])
      [] f.t = "builtin" /\ f.v = "mk" ->
            IF Len(args) \notin {1, 2} \/ Len(kws) > 1 \/ (Len(kws) = 1 /\ kws[1][1] # "k") THEN Undef
            ELSE Tup(<<args[1], IF Len(args) = 2 THEN args[2] ELSE I(0), IF Len(kws) = 1 THEN kws[1][2] ELSE None>>)
      [] f.t = "meth" ->      \* str.startswith(prefix)
            IF Len(args) # 1 \/ Len(kws) # 0 THEN Undef
            ELSE IF args[1].t = "str" THEN B(StartsWith(f.self.v, args[1].v))
            ELSE IF args[1].t = "tup" THEN Undef ELSE TypeError
      [] f.t = "fn" ->
            LET np == Len(f.params)  nd == Len(f.defs) IN
            IF Len(kws) # 0 THEN Undef
            ELSE IF Len(args) > np \/ Len(args) < np - nd THEN TypeError
            ELSE Eval(f.body, Bind(f.env, f.params,
                                   [i \in 1 .. np |-> IF i <= Len(args) THEN args[i] ELSE f.defs[i - (np - nd)]]))
      [] OTHER -> TypeError      \* not callable

---------------------------------------------------------------------------
(* generator expressions: <<"Gen", elt, <<clause, ...>>>>, clause = <<target name, iterable, <<ifs>>>> *)

(* the clause's filter: its ifs in order, first falsy or raising one decides *)
RECURSIVE CondVal(_, _, _)
CondVal(ifs, k, env) ==
    IF k > Len(ifs) THEN B(TRUE)
    ELSE LET c == Eval(ifs[k], env) IN
         IF IsAbort(c) THEN c ELSE IF Truthy(c) THEN CondVal(ifs, k + 1, env) ELSE B(FALSE)

(* list(generator) as [out |-> values produced, stop |-> B(TRUE) when exhausted normally, else the abort value,
   env |-> the generator's variables afterwards].  Loop targets are local variables of the generator and keep
   their last value when an inner loop is entered again, so the environment is threaded through. *)
RECURSIVE GenClause(_, _, _, _), GenItems(_, _, _, _, _, _)
GenClause(g, ci, env, acc) ==
    LET it == Eval(g[3][ci][2], env) IN
    IF IsAbort(it) THEN [out |-> acc, stop |-> it, env |-> env]
    ELSE IF ~IsSeqV(it) THEN [out |-> acc, stop |-> TypeError, env |-> env]
    ELSE GenItems(g, ci, env, acc, IF it.t = "str" THEN [i \in 1 .. Len(it.v) |-> S(<<it.v[i]>>)] ELSE it.v, 1)
GenItems(g, ci, env, acc, items, k) ==
    IF k > Len(items) THEN [out |-> acc, stop |-> B(TRUE), env |-> env]
    ELSE LET cl   == g[3][ci]
             env2 == Bind(env, <<cl[1]>>, <<items[k]>>)
             c    == CondVal(cl[3], 1, env2)
         IN IF IsAbort(c) THEN [out |-> acc, stop |-> c, env |-> env2]
            ELSE IF ~c.v THEN GenItems(g, ci, env2, acc, items, k + 1)
            ELSE IF ci < Len(g[3]) THEN
                    LET r == GenClause(g, ci + 1, env2, acc) IN
                    IF IsAbort(r.stop) THEN r ELSE GenItems(g, ci, r.env, r.out, items, k + 1)
            ELSE LET v == Eval(g[2], env2) IN
                 IF IsAbort(v) THEN [out |-> acc, stop |-> v, env |-> env2]
                 ELSE GenItems(g, ci, env2, Append(acc, v), items, k + 1)
(* the loop targets are local variables of the generator: unassigned until their clause is reached *)
EvalGen(g, env) == GenClause(g, 1, Bind(env, [i \in 1 .. Len(g[3]) |-> g[3][i][1]], [i \in 1 .. Len(g[3]) |-> Unbound]), <<>>)

---------------------------------------------------------------------------
(* compact form of a value for the exported tables (JSON): None "N", bools, ints, ["s", chars..],
   ["t", items..], ["o", name], ["e", class], "U" undef, "F" function *)
RECURSIVE Out(_)
Out(x) ==
    CASE x.t = "none" -> "N"
      [] x.t = "bool" -> x.v
      [] x.t = "int"  -> x.v
      [] x.t = "str"  -> <<"s">> \o x.v
      [] x.t = "tup"  -> <<"t">> \o [i \in 1 .. Len(x.v) |-> Out(x.v[i])]
      [] x.t = "obj"  -> <<"o", x.v>>
      [] x.t = "err"  -> <<"e", x.v>>
      [] x.t = "undef" -> "U"
      [] OTHER -> "F"

---------------------------------------------------------------------------
(* THE INPUT SPACE *)

Names4 == <<"a", "b", "c", "d">>
Names3 == <<"a", "b", "c">>
Names2 == <<"a", "b">>
GenNames == <<"x", "a", "y">>     \* in generator shells: x, y are the loop variables

C(v)  == <<"Const", v>>
N(n)  == <<"Name", n>>
Str2(c1, c2) == S(<<c1, c2>>)
Lit(s) == <<"Lit", s>>
Fld(x, conv, spec) == <<"Fld", x, conv, spec>>
Cmp1(op, x, y) == <<"Cmp", x, <<op>>, <<y>>>>
Cmp2(o1, o2, x, y, z) == <<"Cmp", x, <<o1, o2>>, <<y, z>>>>
Call(f, args, kws) == <<"Call", f, args, kws>>

UnOps  == {"Not", "USub", "UAdd", "Invert"}
BinOps == {"Add", "Sub", "Mult", "FloorDiv", "Mod", "Pow", "LShift", "RShift", "BitOr", "BitXor", "BitAnd"}
CmpOps == {"Eq", "NotEq", "Lt", "LtE", "Gt", "GtE", "Is", "IsNot", "In", "NotIn"}

(* operator kinds ("templates") with one, two and three operand slots *)
Mk1(kind, x) ==
    CASE kind \in UnOps      -> <<"Un", kind, x>>
      [] kind = "AttrP"      -> <<"Attr", x, "p">>
      [] kind = "AttrQ"      -> <<"Attr", x, "q">>
      [] kind = "AttrImag"   -> <<"Attr", x, "imag">>
      [] kind = "AttrPP"     -> <<"Attr", <<"Attr", x, "q">>, "p">>                  \* x.q.p
      [] kind = "Len"        -> Call(N("len"), <<x>>, <<>>)
      [] kind = "Idx0"       -> <<"Sub", x, C(I(0))>>                                \* x[0]
      [] kind = "IdxNeg"     -> <<"Sub", x, C(I(-1))>>                               \* x[-1]
      [] kind = "SubOfStr"   -> <<"Sub", C(Str2("a", "b")), x>>                      \* 'ab'[x]
      [] kind = "NegConstPow" -> <<"Bin", "Pow", C(I(-2)), x>>                           \* (-2) ** x
      [] kind = "SliceFrom1" -> <<"Slice", x, C(I(1)), <<"Omit">>>>                  \* x[1:]
      [] kind = "IsNone"     -> Cmp1("Is", x, C(None))
      [] kind = "IsNotNone"  -> Cmp1("IsNot", x, C(None))
      [] kind = "InT12"      -> Cmp1("In", x, C(Tup(<<I(1), I(2)>>)))                \* x in (1, 2)
      [] kind = "Tuple1"     -> <<"Tuple", <<x>>>>
      [] kind = "Mk1"        -> Call(N("mk"), <<x>>, <<>>)
      [] kind = "MkK"        -> Call(N("mk"), <<C(I(1))>>, <<<<"k", x>>>>)           \* mk(1, k=x)
      [] kind = "StartsA"    -> Call(<<"Attr", x, "startswith">>, <<C(S(<<"a">>))>>, <<>>)
      [] kind = "LamBody"    -> Call(<<"Lambda", <<>>, <<>>, x>>, <<>>, <<>>)        \* (lambda: x)()
      [] kind = "LamArg"     -> Call(<<"Lambda", <<"v">>, <<>>, <<"Bin", "Add", N("v"), N("v")>>>>, <<x>>, <<>>)   \* (lambda v: v + v)(x)
      [] kind = "LamDef"     -> Call(<<"Lambda", <<"v">>, <<x>>, N("v")>>, <<>>, <<>>)                                \* (lambda v=x: v)()
      [] kind = "FPlain"     -> <<"FStr", <<Fld(x, "", <<>>)>>>>                                           \* f'{x}'
      [] kind = "FRepr"      -> <<"FStr", <<Lit(<<"a">>), Fld(x, "r", <<>>)>>>>                            \* f'a{x!r}'
      [] kind = "FStrc"      -> <<"FStr", <<Fld(x, "s", <<>>), Lit(<<"b">>)>>>>                            \* f'{x!s}b'
      [] kind = "FSpec"      -> <<"FStr", <<Fld(x, "", <<Lit(<<">", "3">>)>>)>>>>                          \* f'{x:>3}'
      [] kind = "FConvSpec"  -> <<"FStr", <<Fld(x, "r", <<Lit(<<"^", "7">>)>>), Lit(<<"c">>)>>>>           \* f'{x!r:^7}c'
      [] kind = "FBrace"     -> <<"FStr", <<Lit(<<"{">>), Fld(x, "", <<>>), Lit(<<"}">>)>>>>               \* f'{{{x}}}'
      [] kind = "FBraceName" -> <<"FStr", <<Lit(<<"{", "a", "}">>), Fld(x, "", <<>>)>>>>                   \* f'{{a}}{x}'

Mk2(kind, x, y) ==
    CASE kind \in {"And", "Or"} -> <<"Bool", kind, <<x, y>>>>
      [] kind \in CmpOps     -> Cmp1(kind, x, y)
      [] kind \in BinOps     -> <<"Bin", kind, x, y>>
      [] kind = "Subscr"     -> <<"Sub", x, y>>
      [] kind = "SliceTo"    -> <<"Slice", x, <<"Omit">>, y>>                        \* x[:y]
      [] kind = "Tuple2"     -> <<"Tuple", <<x, y>>>>
      [] kind = "CallF"      -> Call(x, <<y>>, <<>>)                                 \* x(y)
      [] kind = "Mk2"        -> Call(N("mk"), <<x, y>>, <<>>)
      [] kind = "MkKw"       -> Call(N("mk"), <<x>>, <<<<"k", y>>>>)                 \* mk(x, k=y)
      [] kind = "StartsW"    -> Call(<<"Attr", x, "startswith">>, <<y>>, <<>>)
      [] kind = "LamLet"     -> Call(<<"Lambda", <<"v">>, <<>>, <<"Tuple", <<N("v"), x>>>>>>, <<y>>, <<>>)   \* (lambda v: (v, x))(y)
      [] kind = "F2"         -> <<"FStr", <<Fld(x, "", <<>>), Lit(<<"-">>), Fld(y, "r", <<>>)>>>>            \* f'{x}-{y!r}'
      [] kind = "FSpecN"     -> <<"FStr", <<Fld(x, "", <<Lit(<<">">>), Fld(y, "", <<>>)>>)>>>>               \* f'{x:>{y}}'

Mk3(kind, x, y, z) ==
    CASE kind = "IfExp"      -> <<"IfExp", y, x, z>>                                 \* x if y else z  (source order)
      [] kind = "And3"       -> <<"Bool", "And", <<x, y, z>>>>
      [] kind = "Or3"        -> <<"Bool", "Or", <<x, y, z>>>>
      [] kind = "ChainLtLt"  -> Cmp2("Lt", "Lt", x, y, z)
      [] kind = "ChainEqEq"  -> Cmp2("Eq", "Eq", x, y, z)
      [] kind = "ChainLtEEq" -> Cmp2("LtE", "Eq", x, y, z)
      [] kind = "ChainNeIn"  -> Cmp2("NotEq", "In", x, y, <<"Tuple", <<z>>>>)        \* x != y in (z,)
      [] kind = "Slice"      -> <<"Slice", x, y, z>>
      [] kind = "Mk3"        -> Call(N("mk"), <<x, y>>, <<<<"k", z>>>>)
      [] kind = "InTup"      -> Cmp1("In", x, <<"Tuple", <<y, z>>>>)                 \* x in (y, z)
      [] kind = "Tuple3"     -> <<"Tuple", <<x, y, z>>>>

UnSeq  == <<"Not", "USub", "UAdd", "Invert">>
BinSeq == <<"Add", "Sub", "Mult", "FloorDiv", "Mod", "Pow", "LShift", "RShift", "BitOr", "BitXor", "BitAnd">>
CmpSeq == <<"Eq", "NotEq", "Lt", "LtE", "Gt", "GtE", "Is", "IsNot", "In", "NotIn">>
Un1All  == UnSeq \o <<"AttrP", "AttrQ", "AttrImag", "AttrPP", "Len", "Idx0", "IdxNeg", "SubOfStr", "NegConstPow", "SliceFrom1", "IsNone", "IsNotNone",
                      "InT12", "Tuple1", "Mk1", "MkK", "StartsA", "LamBody", "LamArg", "LamDef", "FPlain", "FRepr", "FStrc", "FSpec",
                      "FConvSpec", "FBrace", "FBraceName">>
Bin2All == <<"And", "Or">> \o CmpSeq \o BinSeq \o <<"Subscr", "SliceTo", "Tuple2", "CallF", "Mk2", "MkKw", "StartsW", "LamLet", "F2", "FSpecN">>
Ter3All == <<"IfExp", "And3", "Or3", "ChainLtLt", "ChainEqEq", "ChainLtEEq", "ChainNeIn", "Slice", "Mk3", "InTup", "Tuple3">>

(* named alphabets: sequences of un/bin/ter operator kinds and of constant leaves, and the names *)
Alphabets == [
    \* control flow of the decompiler: jumps of and/or/not/conditional expressions/comparison chains
    bool   |-> [un |-> <<"Not">>, bin |-> <<"And", "Or", "Eq">>, ter |-> <<"IfExp", "ChainLtLt">>, consts |-> <<>>, names |-> Names3],
    bool4  |-> [un |-> <<"Not">>, bin |-> <<"And", "Or", "Eq">>, ter |-> <<"IfExp", "ChainLtLt">>, consts |-> <<>>, names |-> Names4],
    boolc  |-> [un |-> <<"Not">>, bin |-> <<"And", "Or", "Eq">>, ter |-> <<"IfExp">>, consts |-> <<C(I(1)), C(None)>>, names |-> Names3],
    \* thorough: boolean/conditional only
    cond   |-> [un |-> <<"Not">>, bin |-> <<"And", "Or">>, ter |-> <<"IfExp">>, consts |-> <<>>, names |-> Names3],
    \* generator shells (x, y: loop variables)
    gen    |-> [un |-> <<"Not">>, bin |-> <<"And", "Or", "Eq">>, ter |-> <<"IfExp">>, consts |-> <<>>, names |-> GenNames],
    gencond |-> [un |-> <<"Not">>, bin |-> <<"And", "Or">>, ter |-> <<"IfExp">>, consts |-> <<>>, names |-> <<"x", "a">>],
    \* one binary operator of every precedence level (** only at depth 2, in `wide`: towers of powers explode), unary operators,
    \* conditional expression (C04 thorough, depth 3)
    prec   |-> [un |-> <<"Not", "USub">>, bin |-> <<"Or", "And", "Lt", "BitOr", "BitXor", "BitAnd", "RShift", "Sub", "Mult">>,
                ter |-> <<"IfExp">>, consts |-> <<>>, names |-> Names3],
    \* every operator kind
    wide   |-> [un |-> Un1All, bin |-> Bin2All, ter |-> Ter3All, consts |-> <<>>, names |-> Names3],
    wide2  |-> [un |-> Un1All, bin |-> Bin2All, ter |-> Ter3All, consts |-> <<>>, names |-> Names2],
    widec  |-> [un |-> Un1All, bin |-> Bin2All, ter |-> Ter3All, consts |-> <<C(I(2)), C(Str2("a", "b")), C(None)>>, names |-> Names3]
]

(* The enumeration is written with sequences and index arithmetic (not with sets) so that TLC never has to sort
   and compare trees: Level(A, prev, n)[k1] is the sequence of all <<tree, k'>> with exactly n operator nodes
   whose name leaves continue the cyclic numbering after k1 - 1 earlier name leaves; k' (0-based, modulo the number
   of names) is the position after the tree.  prev[i + 1] is level i.  For every k1 the sequences list the same
   shapes in the same order, which is what the index arithmetic of Block2/Block3 relies on. *)
RECURSIVE CatRange(_, _, _)
CatRange(F(_), lo, hi) == IF lo > hi THEN <<>> ELSE F(lo) \o CatRange(F, lo + 1, hi)

Leaves(A, k1) == <<<<N(A.names[k1]), k1 % Len(A.names)>>>> \o [i \in 1 .. Len(A.consts) |-> <<A.consts[i], k1 - 1>>]
LeafLevel(A) == TLCEval([k1 \in 1 .. Len(A.names) |-> Leaves(A, k1)])

Block1(un, X) ==
    [p \in 1 .. (Len(un) * Len(X)) |->
        LET q == p - 1  x == X[(q % Len(X)) + 1]
        IN <<Mk1(un[(q \div Len(X)) + 1], x[1]), x[2]>>]
Block2(bin, X, Ys) ==          \* Ys[kk]: the right operand's level for the numbering position kk
    LET ny == Len(Ys[1]) IN
    [p \in 1 .. (Len(bin) * Len(X) * ny) |->
        LET q == p - 1  q1 == q \div ny
            x == X[(q1 % Len(X)) + 1]
            y == Ys[x[2] + 1][(q % ny) + 1]
        IN <<Mk2(bin[(q1 \div Len(X)) + 1], x[1], y[1]), y[2]>>]
Block3(ter, X, Ys, Zs) ==
    LET ny == Len(Ys[1])  nz == Len(Zs[1]) IN
    [p \in 1 .. (Len(ter) * Len(X) * ny * nz) |->
        LET q == p - 1  q1 == q \div nz  q2 == q1 \div ny
            x == X[(q2 % Len(X)) + 1]
            y == Ys[x[2] + 1][(q1 % ny) + 1]
            z == Zs[y[2] + 1][(q % nz) + 1]
        IN <<Mk3(ter[(q2 \div Len(X)) + 1], x[1], y[1], z[1]), z[2]>>]

LevelAt(A, prev, n, k1, un, bin, ter) ==
    LET B2(i) == Block2(bin, prev[i + 1][k1], prev[n - i])
        B3(i) == LET B3j(j) == Block3(ter, prev[i + 1][k1], prev[j + 1], prev[n - i - j]) IN CatRange(B3j, 0, n - 1 - i)
    IN Block1(un, prev[n][k1]) \o CatRange(B2, 0, n - 1) \o CatRange(B3, 0, n - 1)

Level(A, prev, n) == TLCEval([k1 \in 1 .. Len(A.names) |-> LevelAt(A, prev, n, k1, A.un, A.bin, A.ter)])

RECURSIVE Levels(_, _)
Levels(A, n) == IF n = 0 THEN <<LeafLevel(A)>>
                ELSE LET p == Levels(A, n - 1) IN Append(p, Level(A, p, n))

(* the tree of a derivation: <<"L">> a name leaf, <<"C", i>> the i-th constant leaf, <<kind, d1>>, <<kind, d1, d2>>,
   <<kind, d1, d2, d3>> an operator kind applied to derivations; names are numbered as in the enumeration *)
RECURSIVE Build(_, _, _)
Build(A, d, k1) ==
    IF d[1] = "L" THEN Leaves(A, k1)[1]
    ELSE IF d[1] = "C" THEN <<A.consts[d[2]], k1 - 1>>
    ELSE LET x == Build(A, d[2], k1) IN
         IF Len(d) = 2 THEN <<Mk1(d[1], x[1]), x[2]>>
         ELSE LET y == Build(A, d[3], x[2] + 1) IN
              IF Len(d) = 3 THEN <<Mk2(d[1], x[1], y[1]), y[2]>>
              ELSE LET z == Build(A, d[4], y[2] + 1) IN <<Mk3(d[1], x[1], y[1], z[1]), z[2]>>

Trees(level) == [i \in 1 .. Len(level) |-> level[i][1]]

(* the trees with exactly n operator nodes, in enumeration order *)
ExprSeqExact(A, n) == IF n = 0 THEN Trees(LeafLevel(A)[1])
                      ELSE Trees(LevelAt(A, Levels(A, n - 1), n, 1, A.un, A.bin, A.ter))
(* all trees with at most n operator nodes, smaller trees first *)
ExprSeq(A, n) == IF n = 0 THEN ExprSeqExact(A, 0)
                 ELSE LET ls == Levels(A, n - 1)
                          Sm(i) == Trees(ls[i + 1][1])
                      IN CatRange(Sm, 0, n - 1) \o Trees(LevelAt(A, ls, n, 1, A.un, A.bin, A.ter))

(* THE SET of expressions with at most n operator nodes over alphabet A *)
Exprs(A, n) == LET s == ExprSeq(A, n) IN {s[i] : i \in 1 .. Len(s)}

=============================================================================
