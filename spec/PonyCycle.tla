----------------------------- MODULE PonyCycle -----------------------------
(***************************************************************************)
(* C16 - flush emits writes in an order the database accepts; a reference  *)
(* cycle that cannot be ordered raises an error and commits nothing.       *)
(*                                                                         *)
(* Two entities that reference each other through two independent          *)
(* relationships:  X(id, y = Optional(Y))  and  Y(id, x = Optional(X))     *)
(* (reverse sides are collections).  Foreign keys are enforced immediately *)
(* (SQLite), so an INSERT must come after the INSERT of every row it       *)
(* references.  Objects created in the session and not yet flushed are     *)
(* "new"; the references among new objects form a graph:                   *)
(*   - acyclic: whatever the order in which the program created and        *)
(*     re-pointed the objects, flush must succeed and commit the view;     *)
(*   - cyclic (x.y = y and y.x = x, both new): the INSERTs cannot be       *)
(*     ordered; the flush raises (UnresolvableCyclicDependency) and        *)
(*     nothing of the session is committed.  An implementation that        *)
(*     breaks the cycle with INSERT + UPDATE would also satisfy the        *)
(*     property, so success with the full view committed is allowed too.   *)
(***************************************************************************)
EXTENDS Integers, FiniteSets, TLC

CONSTANTS Ids, MaxLevel

VARIABLES db, cur,   \* [X |-> [id -> [ex, r]], Y |-> ...]   r = referenced id of the other entity, 0 = None
          new,       \* set of <<e, k>> created and not flushed
          sess, ev

vars == <<db, cur, new, sess, ev>>
No == [ex |-> FALSE, r |-> 0]
Empty == [X |-> [k \in Ids |-> No], Y |-> [k \in Ids |-> No]]
Other(e) == IF e = "X" THEN "Y" ELSE "X"
Ev(op, e, k, r, out) == [op |-> op, e |-> e, k |-> k, r |-> r, out |-> out]

(* seeded databases, so that stored objects meet new ones within few calls *)
Row(r) == [ex |-> TRUE, r |-> r]
Seeds == {Empty,
          [Empty EXCEPT !.X[1] = Row(0)],
          [Empty EXCEPT !.X[1] = Row(0), !.Y[1] = Row(1)],
          [Empty EXCEPT !.X[1] = Row(1), !.Y[1] = Row(0)]}
Init == db \in Seeds /\ cur = db /\ new = {} /\ sess = "none" /\ ev = Ev("Init", "-", 0, 0, "ok")

Begin == /\ sess = "none" /\ sess' = "open" /\ cur' = db /\ new' = {}
         /\ ev' = Ev("Begin", "-", 0, 0, "ok") /\ UNCHANGED db

(* a new object must be inserted after the new object it references *)
Needs(o) == LET r == cur[o[1]][o[2]].r IN IF r # 0 /\ <<Other(o[1]), r>> \in new THEN {<<Other(o[1]), r>>} ELSE {}
RECURSIVE Reach(_, _)
Reach(S, n) == IF n = 0 THEN S ELSE Reach(S \cup UNION {Needs(o) : o \in S}, n - 1)
Cyclic == \E o \in new : o \in Reach(Needs(o), 2 * Cardinality(Ids))

(* any call may first flush implicitly (a lookup that misses the cache); with an unorderable cycle pending that
   flush raises inside the call and the transaction cannot go on *)
EarlyCyclic(op, e, k, r) == /\ Cyclic
                            /\ sess' = "aborted" /\ ev' = Ev(op, e, k, r, "Cyclic")
                            /\ UNCHANGED <<db, cur, new>>

(* e(id=k, ref=r) *)
Create(e, k, r) == /\ sess = "open" /\ ~cur[e][k].ex
                   /\ (r # 0 => cur[Other(e)][r].ex)
                   /\ \/ /\ cur' = [cur EXCEPT ![e][k] = [ex |-> TRUE, r |-> r]]
                         /\ new' = new \cup {<<e, k>>}
                         /\ ev' = Ev("Create", e, k, r, "ok") /\ UNCHANGED <<db, sess>>
                      \/ EarlyCyclic("Create", e, k, r)

(* obj.ref = r *)
SetRef(e, k, r) == /\ sess = "open" /\ cur[e][k].ex /\ cur[e][k].r # r
                   /\ (r # 0 => cur[Other(e)][r].ex)
                   /\ \/ /\ cur' = [cur EXCEPT ![e][k].r = r]
                         /\ ev' = Ev("SetRef", e, k, r, "ok") /\ UNCHANGED <<db, new, sess>>
                      \/ EarlyCyclic("SetRef", e, k, r)

(* leaving the db_session normally: flush + commit *)
End == \/ /\ sess = "open"
          /\ \/ /\ ~Cyclic /\ db' = cur /\ ev' = Ev("End", "-", 0, 0, "ok")
             \/ /\ Cyclic /\ db' = db /\ ev' = Ev("End", "-", 0, 0, "Cyclic")
             \/ /\ Cyclic /\ db' = cur /\ ev' = Ev("End", "-", 0, 0, "ok")
          /\ sess' = "none" /\ new' = {} /\ UNCHANGED cur
       \/ /\ sess = "aborted"      \* the program caught the error and leaves normally: nothing may be committed
          /\ \E out \in {"ok", "Cyclic", "Integrity"} : ev' = Ev("End", "-", 0, 0, out)
          /\ sess' = "none" /\ new' = {} /\ UNCHANGED <<db, cur>>

Next == \/ Begin \/ End
        \/ \E e \in {"X", "Y"}, k \in Ids, r \in Ids \cup {0} : Create(e, k, r) \/ SetRef(e, k, r)

Bounded == TLCGet("level") <= MaxLevel

(* the committed database never holds a dangling reference, and changes only at a successful End to the full view *)
NoDangling == \A e \in {"X", "Y"}, k \in Ids : db[e][k].ex /\ db[e][k].r # 0 => db[Other(e)][db[e][k].r].ex
StepProps == Assert(db' # db => (ev'.op = "End" /\ ev'.out = "ok" /\ db' = cur), "all-or-nothing violated")
=============================================================================
