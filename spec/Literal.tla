------------------------------ MODULE Literal ------------------------------
(***************************************************************************)
(* C06 - values reach the database unchanged.                              *)
(*                                                                         *)
(* What a database *reads* when it is handed the text Pony generated:      *)
(*   1. the DB-API driver stage: drivers with paramstyle format/pyformat   *)
(*      (pymysql, MySQLdb, psycopg2) apply Python's % operator to the      *)
(*      whole statement text (Fmt): "%%" becomes "%", "%s" / "%(name)s"    *)
(*      is replaced by the bound argument, any other "%" is an error;      *)
(*      drivers with qmark/numeric/named leave the text alone;             *)
(*   2. the server's lexer (Lex): string literals ('' is a quote; under    *)
(*      MySQL's default sql_mode a backslash escapes the next character    *)
(*      and "..." is a string too), quoted identifiers (doubling of the    *)
(*      quote character), and - outside literals - the placeholders of     *)
(*      the qmark (?), numeric (:N) and named (:name) styles.              *)
(* The result is a sequence of tokens                                      *)
(*   [t |-> "str", v |-> chars]  [t |-> "id", v |-> chars]                  *)
(*   [t |-> "param", v |-> bound value]  [t |-> "c", v |-> char]            *)
(*   [t |-> "err"]    (unterminated literal, bad %, unbound placeholder)   *)
(* "A value cannot change the structure of the statement" is: the literal  *)
(* Pony rendered for s lexes to exactly <<[t |-> "str", v |-> s]>>.        *)
(*                                                                         *)
(* Strings are sequences of one-character strings.  The non-ASCII letter   *)
(* e-acute is the atom "E9" (TLC's parser and its Json module are not      *)
(* 8-bit clean; the harness substitutes at the JSON boundary; no lexical   *)
(* rule looks at it).                                                      *)
(*                                                                         *)
(* Pony code this is bound to: sqlbuilding.Value.__str__/quote_str and the *)
(* SQLiteValue/PGValue/MySQLValue subclasses, DBAPIProvider.quote_name,    *)
(* Param.__str__, SQLBuilder.__init__ (parameter numbering, adapters),     *)
(* SQLBuilder.MOD/RAWSQL, sqltranslation.StringMixin._like.                *)
(*                                                                         *)
(* Deliberate limits: comments, PostgreSQL dollar quoting and E'..'        *)
(* strings, Oracle q'..' strings and national-character prefixes are not   *)
(* modelled (Pony never emits them; a value can only reach them by first   *)
(* breaking out of its literal, which the model reports).                  *)
(***************************************************************************)
EXTENDS Integers, Sequences, FiniteSets, SequencesExt, TLC

SQ   == "'"
BSL  == "\\"
PCT  == "%"
USC  == "_"
BANG == "!"
DQ   == "\""
BTK  == "`"
EAC  == "E9"            \* stands for U+00E9

Alphabet   == {SQ, BSL, PCT, USC, BANG, "a", EAC}
IdAlphabet == Alphabet \cup {DQ, BTK}

StringsUpTo(A, n) == UNION {[1 .. k -> A] : k \in 0 .. n}

Digits  == {"0", "1", "2", "3", "4", "5", "6", "7", "8", "9"}
Letters == {"a", "b", "c", "d", "e", "f", "g", "h", "i", "j", "k", "l", "m", "n", "o", "p", "q", "r", "s", "t", "u",
            "v", "w", "x", "y", "z"}
NameChars == Digits \cup Letters \cup {USC}

DigitVal(c) == CASE c = "0" -> 0 [] c = "1" -> 1 [] c = "2" -> 2 [] c = "3" -> 3 [] c = "4" -> 4
                 [] c = "5" -> 5 [] c = "6" -> 6 [] c = "7" -> 7 [] c = "8" -> 8 [] c = "9" -> 9

RECURSIVE DecimalOf(_)
DecimalOf(ds) == IF ds = <<>> THEN 0 ELSE 10 * DecimalOf(SubSeq(ds, 1, Len(ds) - 1)) + DigitVal(ds[Len(ds)])

---------------------------------------------------------------------------
(* bound values: [t |-> "atom", v |-> "v1"], [t |-> "comp", v |-> <<values>>], [t |-> "str", v |-> chars] *)
RECURSIVE SameBound(_, _)
SameBound(a, b) ==
    a.t = b.t /\ IF a.t = "comp"
                 THEN Len(a.v) = Len(b.v) /\ \A k \in 1 .. Len(a.v) : SameBound(a.v[k], b.v[k])
                 ELSE a.v = b.v

StrTok(s)   == [t |-> "str", v |-> s]
IdTok(s)    == [t |-> "id", v |-> s]
ParamTok(x) == [t |-> "param", v |-> x]
CTok(c)     == [t |-> "c", v |-> c]
ErrTok      == [t |-> "err", v |-> <<>>]

SameTok(a, b) == a.t = b.t /\ (a.t = "err" \/ (IF a.t = "param" THEN SameBound(a.v, b.v) ELSE a.v = b.v))
SameToks(x, y) == Len(x) = Len(y) /\ \A k \in 1 .. Len(x) : SameTok(x[k], y[k])

---------------------------------------------------------------------------
(* 1. driver stage.  A stream item is a character, a bound value, or an error. *)
Ch(c) == [k |-> "c", c |-> c]
Bv(x) == [k |-> "b", v |-> x]
Er    == [k |-> "e"]

(* named arguments arrive as a sequence of [name |-> chars, v |-> value] *)
Bound(args, name) == \E k \in 1 .. Len(args) : args[k].name = name
Lookup(args, name) == args[CHOOSE k \in 1 .. Len(args) : args[k].name = name].v

(* Python's  text % args  restricted to what a statement may contain: %% , %s (format, args a tuple) and
   %(name)s (pyformat, args a mapping).  With a tuple every argument must be consumed (TypeError otherwise).
   Written as a left fold over the characters (a finite automaton: FoldLeft is evaluated iteratively by TLC, so
   the length of a statement is not limited by the Java stack).
   state: m = "top" | "pct" (after %) | "key" (inside %( ) | "close" (after the closing parenthesis) | "dead" *)
FmtStep(style, args, st, c) ==
    CASE st.m = "dead" -> st
      [] st.m = "top" -> IF c = PCT THEN [st EXCEPT !.m = "pct"] ELSE [st EXCEPT !.out = Append(@, Ch(c))]
      [] st.m = "pct" ->
            IF c = PCT THEN [st EXCEPT !.m = "top", !.out = Append(@, Ch(PCT))]
            ELSE IF style = "format" /\ c = "s"
                 THEN IF st.n < Len(args) THEN [st EXCEPT !.m = "top", !.n = @ + 1, !.out = Append(@, Bv(args[st.n + 1]))]
                      ELSE [st EXCEPT !.m = "dead", !.out = Append(@, Er)]
            ELSE IF style = "pyformat" /\ c = "(" THEN [st EXCEPT !.m = "key", !.key = <<>>]
            ELSE [st EXCEPT !.m = "dead", !.out = Append(@, Er)]
      [] st.m = "key" -> IF c = ")" THEN [st EXCEPT !.m = "close"] ELSE [st EXCEPT !.key = Append(@, c)]
      [] st.m = "close" ->
            IF c = "s" /\ Bound(args, st.key) THEN [st EXCEPT !.m = "top", !.out = Append(@, Bv(Lookup(args, st.key)))]
            ELSE [st EXCEPT !.m = "dead", !.out = Append(@, Er)]

Fmt(style, cs, args) ==
    LET fin == FoldLeft(LAMBDA st, c : FmtStep(style, args, st, c), [m |-> "top", out |-> <<>>, n |-> 0, key |-> <<>>], cs) IN
    IF fin.m = "dead" THEN fin.out
    ELSE IF fin.m # "top" THEN Append(fin.out, Er)                         \* the text ends inside a conversion
    ELSE IF style = "format" /\ fin.n # Len(args) THEN Append(fin.out, Er)   \* not all arguments converted
    ELSE fin.out

DriverStage(style, cs, args) ==
    IF style \in {"format", "pyformat"} THEN Fmt(style, cs, args)
    ELSE [k \in 1 .. Len(cs) |-> Ch(cs[k])]

---------------------------------------------------------------------------
(* 2. server lexers *)
LexCfg(d) ==
    CASE d = "SQLite"     -> [bs |-> FALSE, strq |-> {SQ},     idq |-> {DQ, BTK}]
      [] d = "PostgreSQL" -> [bs |-> FALSE, strq |-> {SQ},     idq |-> {DQ}]        \* standard_conforming_strings = on
      [] d = "Oracle"     -> [bs |-> FALSE, strq |-> {SQ},     idq |-> {DQ}]
      [] d = "MySQL"      -> [bs |-> TRUE,  strq |-> {SQ, DQ}, idq |-> {BTK}]       \* default sql_mode

(* MySQL: what backslash + c denotes inside a string literal (Reference Manual, "String Literals", table of
   special character escape sequences); \% and \_ keep the backslash; an unlisted character stands for itself *)
MyEscape(c) ==
    CASE c = PCT -> <<BSL, PCT>>
      [] c = USC -> <<BSL, USC>>
      [] c = "0" -> <<"<NUL>">> [] c = "b" -> <<"<BS>">> [] c = "n" -> <<"<LF>">>
      [] c = "r" -> <<"<CR>">>  [] c = "t" -> <<"<TAB>">> [] c = "Z" -> <<"<SUB>">>
      [] OTHER -> <<c>>

(* The lexer as a left fold over the stream (finite automaton with one token of look-behind).
   state: m = "top" | "in" (inside a literal opened by q; kind "str"/"id") | "q2" (inside, just after a q: a second q
          is a quote character, anything else ends the literal) | "esc" (after a backslash, MySQL strings only)
          | "name" (after ":" under numeric/named) | "dead";  buf = characters collected;  n = positional
          parameters consumed *)
Emit(st, tok) == [st EXCEPT !.m = "top", !.buf = <<>>, !.toks = Append(@, tok)]
Die(st) == [st EXCEPT !.m = "dead", !.toks = Append(@, ErrTok)]

LexTop(cfg, style, args, st, x) ==
    IF x.k = "e" THEN Die(st)
    ELSE IF x.k = "b" THEN Emit(st, ParamTok(x.v))
    ELSE IF x.c \in cfg.strq THEN [st EXCEPT !.m = "in", !.q = x.c, !.kind = "str", !.buf = <<>>]
    ELSE IF x.c \in cfg.idq THEN [st EXCEPT !.m = "in", !.q = x.c, !.kind = "id", !.buf = <<>>]
    ELSE IF style = "qmark" /\ x.c = "?"
         THEN IF st.n < Len(args) THEN [Emit(st, ParamTok(args[st.n + 1])) EXCEPT !.n = @ + 1] ELSE Die(st)
    ELSE IF style \in {"numeric", "named"} /\ x.c = ":" THEN [st EXCEPT !.m = "name", !.buf = <<>>]
    ELSE Emit(st, CTok(x.c))

(* the name after ":" is complete *)
CloseName(style, args, st) ==
    IF st.buf = <<>> THEN Emit(st, CTok(":"))
    ELSE IF style = "numeric"
         THEN IF (\A m \in 1 .. Len(st.buf) : st.buf[m] \in Digits) /\ DecimalOf(st.buf) \in 1 .. Len(args)
              THEN Emit(st, ParamTok(args[DecimalOf(st.buf)])) ELSE Die(st)
    ELSE IF Bound(args, st.buf) THEN Emit(st, ParamTok(Lookup(args, st.buf))) ELSE Die(st)

CloseLiteral(st) == Emit(st, IF st.kind = "str" THEN StrTok(st.buf) ELSE IdTok(st.buf))

LexStep(cfg, style, args, st, x) ==
    CASE st.m = "dead" -> st
      [] st.m = "top" -> LexTop(cfg, style, args, st, x)
      [] st.m = "in" ->
            IF x.k # "c" THEN Die(st)                                   \* a bound value or a driver error inside a literal
            ELSE IF x.c = st.q THEN [st EXCEPT !.m = "q2"]
            ELSE IF cfg.bs /\ st.kind = "str" /\ x.c = BSL THEN [st EXCEPT !.m = "esc"]
            ELSE [st EXCEPT !.buf = Append(@, x.c)]
      [] st.m = "q2" ->
            IF x.k = "c" /\ x.c = st.q THEN [st EXCEPT !.m = "in", !.buf = Append(@, st.q)]
            ELSE LexTop(cfg, style, args, CloseLiteral(st), x)
      [] st.m = "esc" ->
            IF x.k # "c" THEN Die(st) ELSE [st EXCEPT !.m = "in", !.buf = @ \o MyEscape(x.c)]
      [] st.m = "name" ->
            IF x.k = "c" /\ x.c \in NameChars THEN [st EXCEPT !.buf = Append(@, x.c)]
            ELSE LET st2 == CloseName(style, args, st) IN
                 IF st2.m = "dead" THEN st2 ELSE LexTop(cfg, style, args, st2, x)

Lex(cfg, style, args, stream) ==
    LET fin0 == FoldLeft(LAMBDA st, x : LexStep(cfg, style, args, st, x), [m |-> "top", q |-> "", kind |-> "", buf |-> <<>>, toks |-> <<>>, n |-> 0], stream)
        fin  == CASE fin0.m \in {"in", "esc"} -> Die(fin0)               \* unterminated literal
                  [] fin0.m = "q2" -> CloseLiteral(fin0)
                  [] fin0.m = "name" -> CloseName(style, args, fin0)
                  [] OTHER -> fin0
    IN IF fin.m # "dead" /\ style = "qmark" /\ fin.n # Len(args) THEN Append(fin.toks, ErrTok)   \* wrong number of bindings
       ELSE fin.toks

(* the token sequence dialect d reads from text cs sent through a driver of the given paramstyle with args *)
Statement(d, style, cs, args) == Lex(LexCfg(d), style, args, DriverStage(style, cs, args))

HasErr(toks) == \E k \in 1 .. Len(toks) : toks[k].t = "err"

(* tokens that carry values, and the skeleton (everything else, values blanked) *)
Carrying(toks) == SelectSeq(toks, LAMBDA x : x.t # "c")
Skeleton(toks) == [k \in 1 .. Len(toks) |-> IF toks[k].t = "c" THEN toks[k].v ELSE "<" \o toks[k].t \o ">"]

(* THE literal property: exactly one token, of the right kind, with value s *)
DenotesString(d, style, cs, s) == SameToks(Statement(d, style, cs, <<>>), <<StrTok(s)>>)
DenotesIdent(d, style, cs, s)  == SameToks(Statement(d, style, cs, <<>>), <<IdTok(s)>>)

---------------------------------------------------------------------------
(* LIKE.  esc = "" when the statement has no ESCAPE clause and the dialect no default. *)
DefaultEscape(d) == IF d \in {"PostgreSQL", "MySQL"} THEN BSL ELSE ""

RECURSIVE LM(_, _, _, _, _, _)
LM(p, i, s, j, esc, dl) ==      \* dl: a dangling escape character stands for itself (MySQL) / never matches (SQLite)
    IF i > Len(p) THEN j > Len(s)
    ELSE IF esc # "" /\ p[i] = esc
         THEN IF i = Len(p) THEN dl /\ j = Len(s) /\ s[j] = esc
              ELSE j <= Len(s) /\ s[j] = p[i + 1] /\ LM(p, i + 2, s, j + 1, esc, dl)
    ELSE IF p[i] = PCT THEN \E k \in j .. Len(s) + 1 : LM(p, i + 1, s, k, esc, dl)
    ELSE IF p[i] = USC THEN j <= Len(s) /\ LM(p, i + 1, s, j + 1, esc, dl)
    ELSE j <= Len(s) /\ s[j] = p[i] /\ LM(p, i + 1, s, j + 1, esc, dl)

LikeMatch(p, esc, s) == LM(p, 1, s, 1, esc, FALSE)

(* a pattern whose last character is an unescaped escape character is an error on PostgreSQL *)
RECURSIVE Dangling(_, _, _)
Dangling(p, i, esc) == IF i > Len(p) THEN FALSE
                       ELSE IF p[i] = esc THEN (i = Len(p) \/ Dangling(p, i + 2, esc)) ELSE Dangling(p, i + 1, esc)
LikeDefined(p, esc) == esc = "" \/ ~Dangling(p, 1, esc)

(* Python reference *)
PyStartsWith(p, s) == Len(p) <= Len(s) /\ SubSeq(s, 1, Len(p)) = p
PyEndsWith(p, s) == Len(p) <= Len(s) /\ SubSeq(s, Len(s) - Len(p) + 1, Len(s)) = p
PyContains(p, s)  == \E k \in 0 .. Len(s) - Len(p) : SubSeq(s, k + 1, k + Len(p)) = p
PyOp(op, p, s) == CASE op = "startswith" -> PyStartsWith(p, s) [] op = "endswith" -> PyEndsWith(p, s) [] op = "in" -> PyContains(p, s)

PyPrefixes(s) == {SubSeq(s, 1, k) : k \in 0 .. Len(s)}
PySuffixes(s) == {SubSeq(s, k + 1, Len(s)) : k \in 0 .. Len(s)}
PyInfixes(s)  == {SubSeq(s, a + 1, b) : a \in 0 .. Len(s), b \in 0 .. Len(s)}      \* b <= a gives <<>>

(* replace(s, a, b) for a one-character a *)
RECURSIVE Replace1(_, _, _)
Replace1(s, a, b) == IF s = <<>> THEN <<>> ELSE (IF s[1] = a THEN b ELSE <<s[1]>>) \o Replace1(Tail(s), a, b)

(* Pattern expressions as Pony's translator builds them:
     <<"LIT", style, chars>>   a literal as the real builder rendered it (lexed here under d)
     <<"PARAM">>  the bound parameter p       <<"COLUMN">>  the stored string s
     <<"REPLACE", e, a, b>>   <<"CONCAT", e1, .., en>>
   value: [ok |-> TRUE, v |-> chars] or [ok |-> FALSE, v |-> <<>>] *)
Bad == [ok |-> FALSE, v |-> <<>>]
Good(v) == [ok |-> TRUE, v |-> v]

RECURSIVE StrEval(_, _, _, _)
RECURSIVE ConcatEval(_, _, _, _, _)
StrEval(e, d, p, s) ==
    LET op == e[1] IN
    CASE op = "LIT" -> LET toks == Statement(d, e[2], e[3], <<>>) IN
                       IF Len(toks) = 1 /\ toks[1].t = "str" THEN Good(toks[1].v) ELSE Bad
      [] op = "PARAM" -> Good(p)
      [] op = "COLUMN" -> Good(s)
      [] op = "REPLACE" -> LET x == StrEval(e[2], d, p, s)
                               a == StrEval(e[3], d, p, s)
                               b == StrEval(e[4], d, p, s)
                           IN IF x.ok /\ a.ok /\ b.ok /\ Len(a.v) = 1 THEN Good(Replace1(x.v, a.v[1], b.v)) ELSE Bad
      [] op = "CONCAT" -> ConcatEval(e, 2, d, p, s)
      [] OTHER -> Bad
ConcatEval(e, k, d, p, s) ==
    IF k > Len(e) THEN Good(<<>>)
    ELSE LET x == StrEval(e[k], d, p, s)
             r == ConcatEval(e, k + 1, d, p, s)
         IN IF x.ok /\ r.ok THEN Good(x.v \o r.v) ELSE Bad

(* <<"LIKE", <<"COLUMN">>, pattern, escape>>; escape is <<"NONE">> when the clause is absent.
   LikePrep evaluates pattern and escape once per parameter value; LikeRun matches one stored string:
   "T" / "F" / "E" (the database would raise, or the text does not denote a LIKE over strings) *)
LikePrep(e, d, p) ==
    LET pat  == StrEval(e[3], d, p, <<>>)
        escv == IF e[4][1] = "NONE" THEN Good(IF DefaultEscape(d) = "" THEN <<>> ELSE <<DefaultEscape(d)>>)
                ELSE StrEval(e[4], d, p, <<>>)
        ok   == e[2][1] = "COLUMN" /\ pat.ok /\ escv.ok /\ Len(escv.v) <= 1
        esc  == IF ok /\ escv.v # <<>> THEN escv.v[1] ELSE ""
    IN [ok |-> ok /\ ~(d = "PostgreSQL" /\ ~LikeDefined(pat.v, esc)), pat |-> pat.v, esc |-> esc]

LikeRun(prep, d, s) ==
    IF ~prep.ok THEN "E"
    \* MySQL (my_wildcmp): an escape character at the very end of the pattern stands for itself
    ELSE IF LM(prep.pat, 1, s, 1, prep.esc, d = "MySQL") THEN "T" ELSE "F"

LikeEval(e, d, p, s) == LikeRun(LikePrep(e, d, p), d, s)

---------------------------------------------------------------------------
(* Parameter placement.  A *shape* is a sequence of items of a SELECT list; the harness builds the corresponding
   Pony SQL AST, the real SQLBuilder of each dialect renders it under each of the five paramstyles and the real
   adapter closure turns the values below into the arguments object.  ExpectedCarrying is what the database must
   read, whatever the style.
     [k |-> "param", key |-> name]     ['PARAM', key]                      (repeated keys share one Param object)
     [k |-> "val",   s |-> chars]      ['VALUE', s]                        adversarial text rendered inline
     [k |-> "comp",  key |-> name]     composite parameter over (VALUE 'c', PARAM key); its function joins its
                                       arguments as "comp(c,<value>)"
     [k |-> "mod",   key |-> name]     ['MOD', ['PARAM', key], ['VALUE', 7]]  literal % in the statement text
     [k |-> "raw",   s |-> source]     ['RAWSQL', ..] of raw_sql(source): $$ is a dollar sign, $name a parameter *)
Atom(x) == [t |-> "atom", v |-> x]
ParamKeys == {"k1", "k2", "t0", "t1"}
ValOf(key) == CASE key = "k1" -> "v1" [] key = "k2" -> "v2" [] key = "t0" -> "v3" [] key = "t1" -> "v4"
(* how the harness must supply them: variable name, index into a tuple-valued variable (-1: scalar) *)
KeyTable == { [key |-> "k1", var |-> "k1", idx |-> -1, val |-> "v1"], [key |-> "k2", var |-> "k2", idx |-> -1, val |-> "v2"],
              [key |-> "t0", var |-> "t", idx |-> 0, val |-> "v3"],   [key |-> "t1", var |-> "t", idx |-> 1, val |-> "v4"] }

AdvStrings == { <<"?">>, <<PCT, "s">>, <<PCT, "(", "p", "1", ")", "s">>, <<":", "1">>, <<":", "p", "1">>, <<"$", "$">>,
                <<PCT>>, <<SQ>>, <<BSL>>, <<SQ, "?">>, <<BSL, SQ, "?">> }
AdvStrings3 == { <<"?">>, <<PCT, "s">>, <<":", "p", "1">> }
RawSources == { <<SQ, "$", "$", SQ>>,                                       \* '$$'
                <<SQ, PCT, SQ>>,                                            \* '%'
                <<"$", "k", "2", "|", "|", SQ, "$", "$", SQ, "|", "|", "$", "k", "2">> }   \* $k2||'$$'||$k2
Item(k, key, s) == [k |-> k, key |-> key, s |-> s]
ItemsFull == {Item("param", key, <<>>) : key \in ParamKeys} \cup {Item("val", "", s) : s \in AdvStrings}
             \cup {Item("comp", "k1", <<>>), Item("mod", "k1", <<>>)} \cup {Item("raw", "", s) : s \in RawSources}
ItemsSmall == {Item("param", key, <<>>) : key \in ParamKeys} \cup {Item("val", "", s) : s \in AdvStrings3}
             \cup {Item("comp", "k1", <<>>), Item("mod", "k1", <<>>), Item("raw", "", <<"$", "k", "2", "|", "|", SQ, "$", "$", SQ, "|", "|", "$", "k", "2">>)}
ItemsParams == {Item("param", key, <<>>) : key \in ParamKeys} \cup {Item("comp", "k1", <<>>)}
(* all shapes of one or two items; of three items: over the parameters only (repeated keys get one number, the
   numbering of the later ones must still match the arguments object) or over the reduced item set *)
Shapes(n3) == UNION {[1 .. k -> ItemsFull] : k \in 1 .. 2}
              \cup (IF n3 = "small" THEN [1 .. 3 -> ItemsSmall] ELSE IF n3 = "params" THEN [1 .. 3 -> ItemsParams] ELSE {})

(* raw_sql mini-language: the stream the author of the fragment wrote *)
RECURSIVE RawNameEnd(_, _)
RawNameEnd(cs, i) == IF i <= Len(cs) /\ cs[i] \in NameChars THEN RawNameEnd(cs, i + 1) ELSE i - 1
RECURSIVE RawStream(_, _)
RawStream(cs, i) ==
    IF i > Len(cs) THEN <<>>
    ELSE IF cs[i] # "$" THEN <<Ch(cs[i])>> \o RawStream(cs, i + 1)
    ELSE IF i < Len(cs) /\ cs[i + 1] = "$" THEN <<Ch("$")>> \o RawStream(cs, i + 2)
    ELSE LET j == RawNameEnd(cs, i + 1)
             nm == SubSeq(cs, i + 1, j)          \* the names used here have two characters
         IN <<Bv(Atom(ValOf(nm[1] \o nm[2])))>> \o RawStream(cs, j + 1)

ItemTokens(d, it) ==
    CASE it.k = "param" -> <<ParamTok(Atom(ValOf(it.key)))>>
      [] it.k = "val"   -> <<StrTok(it.s)>>
      [] it.k = "comp"  -> <<ParamTok(Atom("comp(c," \o ValOf(it.key) \o ")"))>>
      [] it.k = "mod"   -> <<ParamTok(Atom(ValOf(it.key)))>>
      [] it.k = "raw"   -> Carrying(Lex(LexCfg(d), "none", <<>>, RawStream(it.s, 1)))

RECURSIVE ShapeTokens(_, _)
ShapeTokens(d, sh) == IF sh = <<>> THEN <<>> ELSE ItemTokens(d, sh[1]) \o ShapeTokens(d, Tail(sh))

TableName == <<"a", DQ, BTK, "?", ":", "1">>
ExpectedCarrying(d, sh) == ShapeTokens(d, sh) \o <<IdTok(TableName), IdTok(<<"t">>)>>

(* shapes whose items are plain values: executed on the real SQLite, the row must be these values *)
Plain(sh) == \A k \in 1 .. Len(sh) : sh[k].k \in {"param", "val", "comp"}
RowOf(sh) == [k \in 1 .. Len(sh) |-> IF sh[k].k = "val" THEN [t |-> "str", v |-> sh[k].s] ELSE ItemTokens("SQLite", sh[k])[1].v]

(* the same shape with harmless values: its skeleton is the structure the statement must have *)
Benign(sh) == [k \in 1 .. Len(sh) |-> IF sh[k].k = "val" THEN Item("val", "", <<"a">>) ELSE sh[k]]

---------------------------------------------------------------------------
(* Typed literals: numbers, dates, timestamps, intervals, bytes.  The rendered text is lexed as above; its frame
   (everything but the string token) must be the dialect's syntax for a literal of that type and the string token
   must spell the original value.
     int        n                                  (|n| < 2^31)
     date       <<y, m, d>>
     datetime   <<y, m, d, H, M, S, us>>
     timedelta  <<days, seconds, microseconds>>     Python's normal form: 0 <= seconds < 86400, 0 <= us < 10^6
     bytes      sequence of 0 .. 255                                                                       *)
Frame(toks) == FoldLeft(LAMBDA acc, x : acc \o (IF x.t = "c" THEN x.v ELSE "<" \o x.t \o ">"), "", toks)
TheString(toks) == LET k == CHOOSE i \in 1 .. Len(toks) : toks[i].t = "str" IN toks[k].v
OneString(toks) == Cardinality({i \in 1 .. Len(toks) : toks[i].t = "str"}) = 1

AllDigits(cs) == cs # <<>> /\ \A k \in 1 .. Len(cs) : cs[k] \in Digits
SplitOn(cs, sep) == FoldLeft(LAMBDA acc, c : IF c = sep THEN Append(acc, <<>>)
                                             ELSE [acc EXCEPT ![Len(acc)] = Append(@, c)], <<(<<>>)>>, cs)
Pad(n, w) == LET ds == <<"0", "1", "2", "3", "4", "5", "6", "7", "8", "9">>
                 digit(k) == ds[((n \div (10 ^ k)) % 10) + 1]
             IN [i \in 1 .. w |-> digit(w - i)]

IsoDate(v) == Pad(v[1], 4) \o <<"-">> \o Pad(v[2], 2) \o <<"-">> \o Pad(v[3], 2)
IsoTime(v) == Pad(v[1], 2) \o <<":">> \o Pad(v[2], 2) \o <<":">> \o Pad(v[3], 2)

(* a signed duration [-]H:M:S[.ffffff] as <<negative, seconds, microseconds>> of its absolute value; <<>> if malformed *)
ReadDuration(cs) ==
    LET neg   == cs # <<>> /\ cs[1] = "-"
        body  == IF neg THEN Tail(cs) ELSE cs
        parts == SplitOn(body, ":")
        sf    == IF Len(parts) = 3 THEN SplitOn(parts[3], ".") ELSE <<>>
    IN IF Len(parts) # 3 \/ ~AllDigits(parts[1]) \/ ~AllDigits(parts[2]) \/ Len(sf) \notin {1, 2} THEN <<>>
       ELSE IF ~AllDigits(sf[1]) \/ (Len(sf) = 2 /\ (~AllDigits(sf[2]) \/ Len(sf[2]) # 6)) THEN <<>>
       ELSE IF DecimalOf(parts[2]) > 59 \/ DecimalOf(sf[1]) > 59 THEN <<>>
       ELSE <<neg, DecimalOf(parts[1]) * 3600 + DecimalOf(parts[2]) * 60 + DecimalOf(sf[1]),
              IF Len(sf) = 2 THEN DecimalOf(sf[2]) ELSE 0>>

(* the same for Python's (days, seconds, microseconds) *)
DurationOf(v) ==
    LET T == v[1] * 86400 + v[2] IN
    IF T >= 0 THEN <<FALSE, T, v[3]>>
    ELSE IF v[3] = 0 THEN <<TRUE, -T, 0>> ELSE <<TRUE, -T - 1, 1000000 - v[3]>>

HexDigits == <<"0", "1", "2", "3", "4", "5", "6", "7", "8", "9", "a", "b", "c", "d", "e", "f">>
HexVal(c) == CHOOSE k \in 0 .. 15 : HexDigits[k + 1] = c \/ (k >= 10 /\ <<"A", "B", "C", "D", "E", "F">>[k - 9] = c)
IsHex(c) == \E k \in 1 .. 16 : HexDigits[k] = c \/ (k > 10 /\ <<"A", "B", "C", "D", "E", "F">>[k - 10] = c)
ReadHex(cs) == IF Len(cs) % 2 = 1 \/ \E k \in 1 .. Len(cs) : ~IsHex(cs[k]) THEN <<-1>>
               ELSE [k \in 1 .. Len(cs) \div 2 |-> 16 * HexVal(cs[2 * k - 1]) + HexVal(cs[2 * k])]

(* is (d, kind) a combination whose literal syntax this module states?  (the others are compared on the real SQLite
   only, or not at all: see the harness) *)
TypedJudged(d, kind) ==
    CASE kind \in {"int", "date", "datetime"} -> TRUE
      [] kind = "timedelta" -> d # "SQLite"            \* SQLite: a float number of days, checked by echo on the real engine
      [] kind = "bytes" -> d \in {"SQLite", "MySQL"}   \* X'..' is a bit string on PostgreSQL and no literal at all on Oracle
      [] OTHER -> FALSE

TypedOk(d, style, kind, cs, v) ==
    LET toks == Statement(d, style, cs, <<>>)
        fr   == Frame(toks) IN
    /\ ~HasErr(toks)
    /\ CASE kind = "int" ->
              /\ \A k \in 1 .. Len(toks) : toks[k].t = "c"
              /\ LET cc  == [k \in 1 .. Len(toks) |-> toks[k].v]
                     neg == cc # <<>> /\ cc[1] = "-"
                     ds  == IF neg THEN Tail(cc) ELSE cc
                 IN AllDigits(ds) /\ Len(ds) <= 10 /\ (IF neg THEN -DecimalOf(ds) ELSE DecimalOf(ds)) = v
         [] kind = "date" ->
              /\ fr = (IF d = "SQLite" THEN "<str>" ELSE "DATE <str>")
              /\ TheString(toks) = IsoDate(v)
         [] kind = "datetime" ->
              /\ fr = (IF d = "SQLite" THEN "<str>" ELSE "TIMESTAMP <str>")
              /\ TheString(toks) = IsoDate(v) \o <<" ">> \o IsoTime(<<v[4], v[5], v[6]>>) \o <<".">> \o Pad(v[7], 6)
         [] kind = "timedelta" ->
              /\ fr = (IF d = "MySQL" THEN (IF v[3] # 0 THEN "INTERVAL <str> HOUR_MICROSECOND" ELSE "INTERVAL <str> HOUR_SECOND")
                       ELSE "INTERVAL <str> HOUR TO SECOND")
              /\ ReadDuration(TheString(toks)) = DurationOf(v)
         [] kind = "bytes" ->
              /\ fr \in {"X<str>", "x<str>"}
              /\ ReadHex(TheString(toks)) = v

Ints       == {0, 1, -1, 7, 10, -10, 1000000, 2147483647, -2147483647}
Dates      == {<<1, 1, 1>>, <<2020, 2, 29>>, <<1999, 12, 31>>, <<9999, 12, 31>>, <<987, 6, 5>>}
DateTimes  == {<<2020, 2, 29, 0, 0, 0, 0>>, <<1, 1, 1, 23, 59, 59, 999999>>, <<1999, 12, 31, 1, 2, 3, 4>>, <<9999, 12, 31, 12, 0, 7, 50000>>}
TimeDeltas == {<<0, 0, 0>>, <<0, 1, 0>>, <<0, 3723, 4>>, <<1, 2, 3>>, <<-1, 86399, 999999>>, <<-1, 0, 0>>, <<-2, 3600, 5>>, <<3, 86399, 0>>,
               <<0, 59, 999999>>}
ByteStrings == {<<>>, <<0>>, <<39>>, <<255, 0, 97>>, <<92, 39, 37>>}

=============================================================================
