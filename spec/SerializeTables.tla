-------------------------- MODULE SerializeTables --------------------------
(* C31: the case tables exported to the harness.
   part "keys":  the bounded key space for the composite key encoding, and TLC's check of the law
                 Decode(Reduce(pk)) = pk on all of it (decoder_ok);
   part "cases": database states x pending modifications, and for each what Entity.to_dict (every option
                 combination of ToDictOpts), the serialisation bag (object lists x configurations) and
                 unpickled objects / query results / collections must report. *)
EXTENDS Serialize, Json, IOUtils, SequencesExt

In == JsonDeserialize(IOEnv.IN)
Thorough == In.tier = "thorough"

---------------------------------------------------------------------------
Alphabet == {"*", ",", "a"}
(* arity 2 and 3 with parts up to length 3 (quick: arity 3 with parts up to length 2); arity 1 is the degenerate case *)
Keys == KeySpace(Alphabet, 3, 1) \cup KeySpace(Alphabet, 3, 2) \cup KeySpace(Alphabet, IF Thorough THEN 3 ELSE 2, 3)
DecoderOk == \A pk \in Keys : Decode(Reduce(pk)) = pk

---------------------------------------------------------------------------
Ws == {NoneV, IntV(5)}
GRefs == {NoneV, Ref("G", K1), Ref("G", K2)}

I1s == {[id |-> 1, w |-> w, g |-> g, tags |-> tg] : w \in (IF Thorough THEN Ws ELSE {IntV(5)}), g \in GRefs,
                                                    tg \in (IF Thorough THEN SUBSET {K1, K2} ELSE {{}, {K1}, {K1, K2}})}
I2s == {{}, {[id |-> 2, w |-> IntV(6), g |-> Ref("G", K1), tags |-> {K1}]}}
       \cup (IF Thorough THEN {{[id |-> 2, w |-> NoneV, g |-> NoneV, tags |-> {K2}]}} ELSE {})
States == {[gs |-> {[pk |-> K1, v |-> v1], [pk |-> K2, v |-> IntV(2)]}, is |-> {i1} \cup i2] :
              v1 \in (IF Thorough THEN {NoneV, IntV(1)} ELSE {IntV(1)}), i1 \in I1s, i2 \in I2s}

HasI(S, id) == \E y \in S.is : y.id = id
Mods(S) ==
    {<<>>}
    \cup {<<[op |-> "setv", pk |-> K1, val |-> IntV(7)]>>, <<[op |-> "setv", pk |-> K2, val |-> NoneV]>>}
    \cup {<<[op |-> "setg", id |-> 1, val |-> g]>> : g \in GRefs \ {IObj(S, 1).g}}
    \cup {<<[op |-> "addtag", id |-> 1, pk |-> k]>> : k \in {K1, K2} \ IObj(S, 1).tags}
    \cup {<<[op |-> "deltag", id |-> 1, pk |-> k]>> : k \in IObj(S, 1).tags}
    \cup {<<[op |-> "newi", id |-> 3, w |-> IntV(9), val |-> Ref("G", K2)]>>}
    \cup (IF HasI(S, 2) THEN {<<[op |-> "deli", id |-> 2]>>} ELSE {})
    \cup (IF Thorough THEN {<<[op |-> "newi", id |-> 3, w |-> NoneV, val |-> Ref("G", K1)], [op |-> "addtag", id |-> 3, pk |-> K1]>>,
                            <<[op |-> "setg", id |-> 1, val |-> NoneV], [op |-> "setv", pk |-> K1, val |-> IntV(8)]>>}
          ELSE {})

B == BOOLEAN
(* only / exclude are given for the entity of the object *)
OnlyChoices(e) == IF e = "G" THEN {<<>>, <<"v">>, <<"tags", "a">>, <<"z", "items">>} ELSE {<<>>, <<"w">>, <<"gs", "id">>, <<"g">>}
ExclChoices(e) == IF e = "G" THEN {<<>>, <<"v">>, <<"items", "b">>} ELSE {<<>>, <<"w">>, <<"gs", "g">>}
ToDictOpts(e) ==
    {[only |-> <<>>, exclude |-> <<>>, wc |-> wc, wl |-> wl, ro |-> ro] : wc \in B, wl \in B, ro \in B}
    \cup {[only |-> o, exclude |-> <<>>, wc |-> wc, wl |-> FALSE, ro |-> ro] : o \in OnlyChoices(e) \ {<<>>}, wc \in B, ro \in B}
    \cup {[only |-> <<>>, exclude |-> x, wc |-> wc, wl |-> wl, ro |-> FALSE] : x \in ExclChoices(e) \ {<<>>}, wc \in B, wl \in B}
    \cup {[only |-> o, exclude |-> x, wc |-> FALSE, wl |-> FALSE, ro |-> FALSE] :
            o \in OnlyChoices(e) \ {<<>>}, x \in ExclChoices(e) \ {<<>>}}

BagCfgs == {[wc |-> TRUE, wl |-> FALSE, ro |-> TRUE],      \* the default configuration
            [wc |-> TRUE, wl |-> TRUE, ro |-> FALSE],
            [wc |-> FALSE, wl |-> FALSE, ro |-> TRUE]}
(* object lists handed to the bag: every single object, a G together with an I, all objects *)
ObjLists(S) ==
    LET obs == Objects(S) IN
    {<<o>> : o \in obs}
    \cup {<<[ent |-> "G", pk |-> K1], [ent |-> "I", pk |-> IPk(1)]>>, <<[ent |-> "I", pk |-> IPk(1)], [ent |-> "G", pk |-> K2]>>}
    \cup {SetToSeq(obs)}

Case(S, ms) ==
    LET C == ApplyAll(S, ms) IN
    [db |-> S, mods |-> ms,
     objects |-> {[ent |-> o.ent, pk |-> o.pk, attrs |-> AllAttrs(C, o)] : o \in Objects(C)},
     todict |-> UNION {{[ent |-> o.ent, pk |-> o.pk, opts |-> op, out |-> ToDict(C, o, op)] : op \in ToDictOpts(o.ent)} : o \in Objects(C)},
     bag |-> {[objs |-> ol, cfg |-> cf, out |-> BagDict(C, ol, cf)] : ol \in ObjLists(C), cf \in BagCfgs}]

Cases == UNION {{Case(S, ms) : ms \in Mods(S)} : S \in States}

Out == IF In.part = "keys" THEN [keys |-> Keys, decoder_ok |-> DecoderOk]
       ELSE [cases |-> Cases]

ASSUME JsonSerialize(IOEnv.OUT, Out)
=============================================================================
