---------------------------- MODULE PonyDetached ----------------------------
(***************************************************************************)
(* C32 - objects from a finished db_session are read-only snapshots.       *)
(*                                                                         *)
(* One object of entity A(id, v Optional int, bs Set(B)) is followed       *)
(* through a session and beyond its end.  The database holds A[1] (v = 1)  *)
(* with two B rows; A[2] does not exist and may be created.                *)
(* In the session the program obtains the object in one of the ways that   *)
(* lead to different internal states (unloaded reference reached through   *)
(* B[1].a, loaded by lookup, created), may read or assign v, may iterate   *)
(* the collection, and the session ends by commit, rollback() or an        *)
(* exception.  Afterwards (phase "over"):                                  *)
(*   - a value that was loaded stays readable with the value the program   *)
(*     last saw, unless the session was strict;                            *)
(*   - every operation that would need the database (reading an attribute  *)
(*     or collection that was not loaded, assignment, set(), collection    *)
(*     change, delete, obj.load(), obj.flush()) raises                     *)
(*     DatabaseSessionIsOver ("Over");                                     *)
(*   - the database never changes after the end of the session.            *)
(***************************************************************************)
EXTENDS Integers, FiniteSets, TLC

CONSTANT MaxLevel

VARIABLES phase,    \* "none" | "in" | "over"
          strict,   \* db_session(strict=...)
          gen,      \* the session is a @db_session generator function that yields between the calls (read-only:
                    \* Pony refuses to suspend a generator with uncommitted changes)
          obj,      \* 0 = no object held, 1 = A[1] (persistent), 2 = A[2] (created in the session)
          hasV,     \* the value of v is in memory
          optV,     \* the value of v may or may not be in memory (a None passed to the constructor is dropped
                    \* from memory when the row is inserted, so that a database default can be reloaded)
          memV,     \* last value of v the session holds
          dirty,    \* v was assigned in the session
          collFull, \* the collection bs was fully loaded in the session
          dbv,      \* committed rows: <<v of A[1], v of A[2] or -1 if absent>>
          ev

vars == <<phase, strict, gen, obj, hasV, optV, memV, dirty, collFull, dbv, ev>>

Ev(op, x, out, ret) == [op |-> op, x |-> x, out |-> out, ret |-> ret]

Init == /\ phase = "none" /\ strict = FALSE /\ gen = FALSE /\ obj = 0 /\ hasV = FALSE /\ optV = FALSE /\ memV = 0 /\ dirty = FALSE
        /\ collFull = FALSE /\ dbv = <<1, -1>> /\ ev = Ev("Init", 0, "ok", {})

Begin(s, g) == /\ phase = "none" /\ obj = 0
            /\ phase' = "in" /\ strict' = s /\ gen' = g
            /\ ev' = Ev("Begin", (IF s THEN 1 ELSE 0) + (IF g THEN 2 ELSE 0), "ok", {})
            /\ UNCHANGED <<obj, hasV, optV, memV, dirty, collFull, dbv>>

(* a = B[1].a : an unloaded reference (seed) *)
ObtainSeed == /\ phase = "in" /\ obj = 0
              /\ obj' = 1 /\ hasV' = FALSE /\ memV' = 0
              /\ ev' = Ev("ObtainSeed", 0, "ok", {})
              /\ UNCHANGED <<phase, strict, gen, optV, dirty, collFull, dbv>>

(* a = A[1] *)
ObtainLoaded == /\ phase = "in" /\ obj = 0
                /\ obj' = 1 /\ hasV' = TRUE /\ memV' = dbv[1]
                /\ ev' = Ev("ObtainLoaded", 0, "ok", {})
                /\ UNCHANGED <<phase, strict, gen, optV, dirty, collFull, dbv>>

(* a = A(id=2, v=x) *)
ObtainCreated(x) == /\ phase = "in" /\ obj = 0 /\ ~gen
                    /\ obj' = 2 /\ hasV' = (x # 0) /\ optV' = (x = 0) /\ memV' = x /\ dirty' = TRUE /\ collFull' = TRUE
                    /\ ev' = Ev("ObtainCreated", x, "ok", {})
                    /\ UNCHANGED <<phase, strict, gen, dbv>>

ReadV == /\ phase = "in" /\ obj # 0
         \* reading the None of a new object pins nothing: if the row is not inserted yet the None is dropped from memory
         \* when it is (at the commit), if it was already inserted the read reloaded it: optV stays
         /\ hasV' = ~optV /\ optV' = optV /\ memV' = IF hasV \/ optV THEN memV ELSE dbv[1]
         /\ ev' = Ev("ReadV", 0, "ok", {IF hasV \/ optV THEN memV ELSE dbv[1]})
         /\ UNCHANGED <<phase, strict, gen, obj, dirty, collFull, dbv>>

SetV(x) == /\ phase = "in" /\ obj # 0 /\ ~gen
           /\ hasV' = ~(obj = 2 /\ x = 0) /\ optV' = (obj = 2 /\ x = 0) /\ memV' = x /\ dirty' = TRUE   \* None on a new object: see optV
           /\ ev' = Ev("SetV", x, "ok", {})
           /\ UNCHANGED <<phase, strict, gen, obj, collFull, dbv>>

Kids == IF obj = 1 THEN {1, 2} ELSE {}

ReadColl == /\ phase = "in" /\ obj # 0
            /\ collFull' = TRUE
            /\ ev' = Ev("ReadColl", 0, "ok", Kids)
            /\ UNCHANGED <<phase, strict, gen, obj, hasV, optV, memV, dirty, dbv>>

Committed == IF ~dirty THEN dbv ELSE IF obj = 1 THEN <<memV, dbv[2]>> ELSE <<dbv[1], memV>>

(* kind: "commit" (normal exit), "rollback" (rollback() then exit), "exc" (exit with an exception),
   "badcommit" (normal exit whose COMMIT the database refuses: the session is over all the same, nothing is committed) *)
End(kind) == /\ phase = "in" /\ (gen => kind \notin {"rollback", "badcommit"})     \* generator: "commit" = it returns, "exc" = closed early
             /\ phase' = "over"
             /\ dbv' = IF kind = "commit" THEN Committed ELSE dbv
             /\ ev' = Ev("End", CASE kind = "commit" -> 0 [] kind = "rollback" -> 1 [] kind = "exc" -> 2 [] OTHER -> 3, "ok", {})
             /\ UNCHANGED <<strict, gen, obj, hasV, optV, memV, dirty, collFull>>

---------------------------------------------------------------------------
(* after the session *)
Detached == phase = "over" /\ obj # 0

D(op, x, out, ret) == /\ ev' = Ev(op, x, out, ret)
                      /\ UNCHANGED <<phase, strict, gen, obj, hasV, optV, memV, dirty, collFull, dbv>>

D_ReadV == Detached /\ IF ~strict /\ hasV THEN D("D_ReadV", 0, "ok", {memV})
                       ELSE IF ~strict /\ optV THEN (D("D_ReadV", 0, "ok", {memV}) \/ D("D_ReadV", 0, "Over", {}))
                       ELSE D("D_ReadV", 0, "Over", {})
D_ReadColl == Detached /\ IF ~strict /\ collFull THEN D("D_ReadColl", 0, "ok", Kids) ELSE D("D_ReadColl", 0, "Over", {})
D_ReadPk == Detached /\ IF ~strict THEN D("D_ReadPk", 0, "ok", {obj}) ELSE D("D_ReadPk", 0, "Over", {})
D_SetV(x) == Detached /\ D("D_SetV", x, "Over", {})
D_SetKw(x) == Detached /\ D("D_SetKw", x, "Over", {})
D_Delete == Detached /\ D("D_Delete", 0, "Over", {})
D_CollAdd == Detached /\ D("D_CollAdd", 0, "Over", {})
D_CollRemove == Detached /\ D("D_CollRemove", 0, "Over", {})
D_CollClear == Detached /\ D("D_CollClear", 0, "Over", {})
D_Load == Detached /\ D("D_Load", 0, "Over", {})
(* obj.flush(): raises when there is something to write; an object with nothing to write may return silently *)
D_Flush == Detached /\ (D("D_Flush", 0, "Over", {}) \/ D("D_Flush", 0, "ok", {}))

DetachedOps == \/ D_ReadV \/ D_ReadColl \/ D_ReadPk \/ D_Delete \/ D_CollAdd \/ D_CollRemove \/ D_CollClear \/ D_Load \/ D_Flush
               \/ \E x \in 0 .. 2 : D_SetV(x) \/ D_SetKw(x)

Next == \/ \E s, g \in BOOLEAN : Begin(s, g)
        \/ ObtainSeed \/ ObtainLoaded \/ ReadV \/ ReadColl
        \/ \E x \in 0 .. 2 : ObtainCreated(x) \/ SetV(x)
        \/ \E k \in {"commit", "rollback", "exc", "badcommit"} : End(k)
        \/ DetachedOps

Spec == Init /\ [][Next]_vars
Bounded == TLCGet("level") <= MaxLevel

(* C32 as properties of the specification *)
DetachedIsReadOnly == [][phase = "over" => dbv' = dbv]_vars
WritesAlwaysRefused == phase = "over" /\ ev.op \in {"D_SetV", "D_SetKw", "D_Delete", "D_CollAdd", "D_CollRemove", "D_CollClear", "D_Load"} => ev.out = "Over"
StrictHidesEverything == phase = "over" /\ strict /\ ev.op \in {"D_ReadV", "D_ReadColl", "D_ReadPk"} => ev.out = "Over"
StepProps == Assert(phase = "over" => dbv' = dbv, "DetachedIsReadOnly violated")
=============================================================================
