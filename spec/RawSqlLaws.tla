------------------------------ MODULE RawSqlLaws ------------------------------
(* C30: the law of RawSql once more, one character longer (checked once per run of the check, in the background):
   the reference rendering Adapt is faithful under the driver model DriverLex for every statement of length 4
   over the alphabet and every paramstyle - so Intended / DriverLex / Adapt agree with each other, and the judge
   (which uses Intended and DriverLex only) accepts the reference rendering. *)
EXTENDS RawSql, Json, IOUtils

ASSUME AdaptIsFaithful4 ==
    \A s \in Strings(AlphabetSet, 4) : \A k \in 1 .. Len(Styles) :
        LET a == Adapt(s, Styles[k]) IN a.ok /\ ~Mergeable(s, Styles[k]) => Faithful(s, Styles[k], a.text, a.hasargs)

ASSUME JsonSerialize(IOEnv.OUT, [laws |-> <<"AdaptIsFaithful (length <= 3, in RawSql)", "AdaptIsFaithful4">>])
=============================================================================
