----------------------------- MODULE Serialize -----------------------------
(***************************************************************************)
(* C31 - what serialisation and pickling must report.                      *)
(*                                                                         *)
(* (a) Reduce(pk): the encoding of a composite primary key as one string,  *)
(*     transcribed from Bag._reduce_composite_pk (pony/orm/serialization.py*)
(*     ','.join(str(item).replace('*', '**').replace(',', '*,'))).         *)
(*     Decode is its inverse; Decode(Reduce(pk)) = pk for every pk of the  *)
(*     bounded key space is the law that makes "distinct keys are encoded  *)
(*     distinctly" true of the transcription (checked by TLC in            *)
(*     SerializeTables); the real function is judged by SerializeJudge.    *)
(*                                                                         *)
(* (b) A small abstract session state with two entities                    *)
(*        G: a, b (strings, composite primary key), v (Optional int),      *)
(*           z (Optional str, lazy), items = Set(I) [one-to-many],         *)
(*           tags = Set(I) [many-to-many]                                  *)
(*        I: id (int primary key), w (Optional int), g = Optional(G)       *)
(*           [reverse of items], gs = Set(G) [reverse of tags]             *)
(*     a state is [gs |-> set of [pk, v], is |-> set of [id, w, g, tags]]; *)
(*     both ends of the relationships are derived from I.g and I.tags.     *)
(*     Apply(S, m) is the effect of one modification made through the API  *)
(*     (pending, not flushed).  What must be reported is always the        *)
(*     current state:                                                      *)
(*       ToDict(S, o, opts)   - Entity.to_dict (core.py) with only,        *)
(*                              exclude, with_collections, with_lazy,      *)
(*                              related_objects                            *)
(*       BagDict(S, objs, cf) - pony.orm.serialization.to_dict / Bag /     *)
(*                              to_json: the objects given in full, the    *)
(*                              objects they refer to without collections  *)
(*       the attribute values and collection members an unpickled object,  *)
(*       query result or collection must show in the next db_session.      *)
(*                                                                         *)
(* Values are tagged: [t |-> "none"], [t |-> "int", i], [t |-> "str", s]   *)
(* (s a sequence of characters), [t |-> "ref", ent, pk] a related object,  *)
(* [t |-> "refs", ent, pks] a collection.  A primary key is a sequence of  *)
(* tagged values.                                                          *)
(* Deviations: values of related objects are identified by primary key     *)
(* only; the order of a serialised collection is not part of the model.    *)
(***************************************************************************)
EXTENDS Integers, Sequences, FiniteSets, TLC

NoneV == [t |-> "none"]
IntV(n) == [t |-> "int", i |-> n]
StrV(x) == [t |-> "str", s |-> x]
Ref(e, pk) == [t |-> "ref", ent |-> e, pk |-> pk]
Refs(e, pks) == [t |-> "refs", ent |-> e, pks |-> pks]

---------------------------------------------------------------------------
(* (a) composite key encoding *)
RECURSIVE ReplaceChar(_, _, _)      \* str.replace(ch, w) for a one-character ch
ReplaceChar(s, ch, w) == IF s = <<>> THEN <<>>
                         ELSE (IF s[1] = ch THEN w ELSE <<s[1]>>) \o ReplaceChar(Tail(s), ch, w)

Escape(s) == ReplaceChar(ReplaceChar(s, "*", <<"*", "*">>), ",", <<"*", ",">>)

RECURSIVE JoinSeq(_, _)
JoinSeq(parts, sep) == IF parts = <<>> THEN <<>>
                       ELSE IF Len(parts) = 1 THEN parts[1]
                       ELSE parts[1] \o sep \o JoinSeq(Tail(parts), sep)

(* pk: a sequence of strings (sequences of characters) *)
Reduce(pk) == JoinSeq([i \in DOMAIN pk |-> Escape(pk[i])], <<",">>)

RECURSIVE Dec(_, _, _)
Dec(r, cur, parts) ==
    IF r = <<>> THEN Append(parts, cur)
    ELSE IF r[1] = "*" /\ Len(r) >= 2 THEN Dec(SubSeq(r, 3, Len(r)), Append(cur, r[2]), parts)
    ELSE IF r[1] = "," THEN Dec(Tail(r), <<>>, Append(parts, cur))
    ELSE Dec(Tail(r), Append(cur, r[1]), parts)
Decode(e) == Dec(e, <<>>, <<>>)

Strings(alphabet, n) == UNION {[1 .. k -> alphabet] : k \in 0 .. n}
KeySpace(alphabet, n, arity) == [1 .. arity -> Strings(alphabet, n)]

---------------------------------------------------------------------------
(* (b) the abstract session state *)
K1 == <<StrV(<<"a">>), StrV(<<"b", ",", "c">>)>>     \* ('a', 'b,c')
K2 == <<StrV(<<"a", ",", "b">>), StrV(<<"c">>)>>     \* ('a,b', 'c')  - a naive join of the parts collides with K1
ZVal == StrV(<<"q">>)                                \* value of the lazy attribute z of every G

GAttrs == <<"a", "b", "v", "z", "items", "tags">>    \* in declaration order
IAttrs == <<"id", "w", "g", "gs">>
AttrsOf(e) == IF e = "G" THEN GAttrs ELSE IAttrs
IsColl(e, n) == (e = "G" /\ n \in {"items", "tags"}) \/ (e = "I" /\ n = "gs")
IsLazy(e, n) == e = "G" /\ n = "z"

IPk(id) == <<IntV(id)>>
GObj(S, pk) == CHOOSE x \in S.gs : x.pk = pk
IObj(S, id) == CHOOSE x \in S.is : x.id = id
Objects(S) == {[ent |-> "G", pk |-> x.pk] : x \in S.gs} \cup {[ent |-> "I", pk |-> IPk(x.id)] : x \in S.is}

(* current value of attribute n of object o *)
AttrVal(S, o, n) ==
    IF o.ent = "G" THEN
        LET x == GObj(S, o.pk) IN
        CASE n = "a" -> o.pk[1]
          [] n = "b" -> o.pk[2]
          [] n = "v" -> x.v
          [] n = "z" -> ZVal
          [] n = "items" -> Refs("I", {IPk(y.id) : y \in {y \in S.is : y.g = Ref("G", o.pk)}})
          [] n = "tags" -> Refs("I", {IPk(y.id) : y \in {y \in S.is : o.pk \in y.tags}})
    ELSE
        LET y == IObj(S, o.pk[1].i) IN
        CASE n = "id" -> o.pk[1]
          [] n = "w" -> y.w
          [] n = "g" -> y.g
          [] n = "gs" -> Refs("G", y.tags)

(* modifications made through the API *)
Apply(S, m) ==
    CASE m.op = "setv" -> [S EXCEPT !.gs = {IF x.pk = m.pk THEN [x EXCEPT !.v = m.val] ELSE x : x \in S.gs}]
      [] m.op = "setg" -> [S EXCEPT !.is = {IF y.id = m.id THEN [y EXCEPT !.g = m.val] ELSE y : y \in S.is}]
      [] m.op = "addtag" -> [S EXCEPT !.is = {IF y.id = m.id THEN [y EXCEPT !.tags = @ \cup {m.pk}] ELSE y : y \in S.is}]
      [] m.op = "deltag" -> [S EXCEPT !.is = {IF y.id = m.id THEN [y EXCEPT !.tags = @ \ {m.pk}] ELSE y : y \in S.is}]
      [] m.op = "newi" -> [S EXCEPT !.is = @ \cup {[id |-> m.id, w |-> m.w, g |-> m.val, tags |-> {}]}]
      [] m.op = "deli" -> [S EXCEPT !.is = {y \in S.is : y.id # m.id}]
      [] m.op = "none" -> S

RECURSIVE ApplyAll(_, _)
ApplyAll(S, ms) == IF ms = <<>> THEN S ELSE ApplyAll(Apply(S, ms[1]), Tail(ms))

---------------------------------------------------------------------------
(* Entity.to_dict: which attributes (EntityMeta._get_attrs_), which values *)
InSeq(x, s) == \E j \in DOMAIN s : s[j] = x
Selected(e, opts) ==
    LET base == IF opts.only # <<>> THEN {AttrsOf(e)[j] : j \in {j \in DOMAIN AttrsOf(e) : InSeq(AttrsOf(e)[j], opts.only)}}
                ELSE {AttrsOf(e)[j] : j \in {j \in DOMAIN AttrsOf(e) :
                                             /\ (IsColl(e, AttrsOf(e)[j]) => opts.wc)
                                             /\ (IsLazy(e, AttrsOf(e)[j]) => opts.wl)}}
    IN {n \in base : ~InSeq(n, opts.exclude)}

ToDict(S, o, opts) == {[name |-> n, val |-> AttrVal(S, o, n)] : n \in Selected(o.ent, opts)}

(* pony.orm.serialization: the objects given are reported with their collections, the objects they refer to
   (one step) without; cf = [wc, wl, ro] is the configuration of both entities (Bag.config) *)
NoOnly == [only |-> <<>>, exclude |-> <<>>]
Related(S, o, cf) ==
    LET names == Selected(o.ent, [only |-> <<>>, exclude |-> <<>>, wc |-> cf.wc, wl |-> cf.wl])
        vals == {AttrVal(S, o, n) : n \in names}
    IN {[ent |-> x.ent, pk |-> x.pk] : x \in {x \in vals : x.t = "ref"}}
       \cup UNION {{[ent |-> x.ent, pk |-> p] : p \in x.pks} : x \in {x \in vals : x.t = "refs"}}

BagDict(S, objs, cf) ==
    LET given == {objs[j] : j \in DOMAIN objs}
        rel == IF cf.ro THEN UNION {Related(S, o, cf) : o \in given} \ given ELSE {}
        full(o) == ToDict(S, o, [only |-> <<>>, exclude |-> <<>>, wc |-> cf.wc, wl |-> cf.wl])
        part(o) == ToDict(S, o, [only |-> <<>>, exclude |-> <<>>, wc |-> FALSE, wl |-> cf.wl])
    IN {[ent |-> o.ent, pk |-> o.pk, given |-> TRUE, attrs |-> full(o)] : o \in given}
       \cup {[ent |-> o.ent, pk |-> o.pk, given |-> FALSE, attrs |-> part(o)] : o \in rel}

(* what an unpickled object must show in the next session: every attribute *)
AllAttrs(S, o) == {[name |-> AttrsOf(o.ent)[j], val |-> AttrVal(S, o, AttrsOf(o.ent)[j])] : j \in DOMAIN AttrsOf(o.ent)}
=============================================================================
