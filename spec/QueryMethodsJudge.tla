-------------------------- MODULE QueryMethodsJudge --------------------------
(* C24, E2 and self-check.
   Judge: the outputs of the real sqltranslation.combine_limit_and_offset, of the real Query.__getitem__ /
   Query.limit / Query.fetch / Query.page (the (limit, offset) they hand to Query._fetch) are judged by the
   slice laws of QueryMethods on lists of every length 0..17: a structural difference to the transcription
   in QueryMethods is never reported, only a different meaning.
   Environment tables: Python slicing (PySl) and the SQLite order of NULL, exported for comparison with
   CPython and the real SQLite before they are used as oracles.
   An optional bound arrives as [n |-> 1] (None) or [n |-> 0, v |-> integer]. *)
EXTENDS QueryMethods, Json, IOUtils

In == JsonDeserialize(IOEnv.IN)

Dec(x) == IF x.n = 1 THEN None ELSE x.v
Valid(x) == x.n = 1 \/ x.v >= 0
Lens == 0 .. 17

(* c = [l, o, l2, o2, ok, rl, ro]: inputs, whether the call returned, returned limit and offset *)
CombineBad(c) ==
    \/ c.ok = 0 \/ ~Valid(c.rl) \/ ~Valid(c.ro)
    \/ \E n \in Lens : ApplyLO(Ident(n), Dec(c.rl), Dec(c.ro)) # ApplyLO(ApplyLO(Ident(n), Dec(c.l), Dec(c.o)), Dec(c.l2), Dec(c.o2))

(* c = [kind, a, b, ok, rl, ro]: kind "slice" q[a:b], "limit"/"fetch" q.limit(a, b), "page" q.page(a, b) *)
FetchBad(c) ==
    \/ c.ok = 0 \/ ~Valid(c.rl) \/ ~Valid(c.ro)
    \/ \E n \in Lens :
          ApplyLO(Ident(n), Dec(c.rl), Dec(c.ro)) #
             (CASE c.kind = "slice" -> PySl(Ident(n), Dec(c.a), Dec(c.b))
                [] c.kind \in {"limit", "fetch"} -> ApplyLO(Ident(n), Dec(c.a), Dec(c.b))
                [] c.kind = "page" -> PageOf(Ident(n), Dec(c.a), Dec(c.b)))

BadIndexes(cases, Bad(_)) == { k \in 1 .. Len(cases) : Bad(cases[k]) }

(* environment tables *)
EnvB == {None} \cup (0 .. 7)
SliceTable == { [n |-> n, i |-> i, j |-> j, out |-> PySl(Ident(n), i, j)] : n \in 0 .. 6, i \in EnvB, j \in EnvB }
OrderTable == { [col |-> c, desc |-> d, ids |-> [k \in 1 .. Len(Table) |->
                    StableSort(<<K(c, d), K("id", FALSE)>>, Elems("ent"))[k].row.id]] : c \in {"v", "s"}, d \in BOOLEAN }

ASSUME JsonSerialize(IOEnv.OUT, [combine |-> BadIndexes(In.combine, CombineBad), fetch |-> BadIndexes(In.fetch, FetchBad),
                                 checked |-> (Len(In.combine) + Len(In.fetch)) * Cardinality(Lens),
                                 slices |-> SliceTable, order |-> OrderTable, table |-> Table, letters |-> Letters])
=============================================================================
