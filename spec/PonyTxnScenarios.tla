-------------------------- MODULE PonyTxnScenarios --------------------------
(* Exports the scenario space of the trace-validation runs (C19/C17/C36) and the expected scalar outcomes of   *)
(* db_session for C18 (E1): for every option combination and per-attempt body outcome, what must be committed, *)
(* how often the body runs and which exception class leaves the session.                                       *)
EXTENDS PonyTxnConst, Naturals, Sequences, FiniteSets, Json, IOUtils

\* ---- C18: expected outcome of a session (requirement, independent of the state machine's control flow) --------
\* a case: form, retry, nest (depth at which the body runs: 1 or 2), outs = body outcome of attempt 1..retry+1
Retryable(o) == o \in {"retryable", "commit-error"}      \* CommitException is a TransactionError (default retry class)
Commits(o)   == o \in {"return", "allowed"}

\* index of the attempt that ends the session: the first non-retryable outcome, else the last permitted attempt
RECURSIVE LastAttempt(_, _, _)
LastAttempt(outs, i, n) == IF i >= n \/ ~Retryable(outs[i]) THEN i ELSE LastAttempt(outs, i + 1, n)

\* nest = 2: the session under test runs inside an outer `with db_session:` (no allowed exceptions): it neither
\* commits nor rolls back nor retries by itself; the outer session commits iff no exception reaches it.
ExpectedNested(c) ==
    LET o == c.outs[1] IN
    [ runs |-> 1, committed |-> IF o = "return" THEN {1} ELSE {}, exc |-> IF o = "return" THEN "none" ELSE o ]

ExpectedTop(c) ==
    LET n    == IF c.form = "dec" THEN c.retry + 1 ELSE 1
        last == LastAttempt(c.outs, 1, n)
        o    == c.outs[last]
        gen  == c.form \in {"gen", "coroutine"}
    IN [ runs      |-> last,
         \* writes of which attempts are in the database afterwards (only the last attempt's can be)
         committed |-> IF o = "return" \/ (o = "allowed" /\ ~gen) THEN {last} ELSE {},
         exc       |-> CASE o = "return" -> "none"
                         [] o = "commit-error" -> "CommitException"
                         [] OTHER -> o ]
Expected(c) == IF c.nest = 2 THEN ExpectedNested(c) ELSE ExpectedTop(c)

Cases ==
    { [form |-> f, retry |-> r, nest |-> d, outs |-> outs] :
        f \in AllForms, r \in 0..2, d \in 1..2, outs \in [1..3 -> BodyOutcomes] }

ValidCase(c) == /\ c.form # "dec" => c.retry = 0
                /\ \A i \in 1..3 : i > c.retry + 1 => c.outs[i] = "return"       \* unused attempts normalised
                /\ c.form \in {"gen", "coroutine"} => c.nest = 1
                /\ c.nest = 2 => c.outs[1] # "commit-error" /\ \A i \in 2..3 : c.outs[i] = "return"

Table == { [in |-> c, out |-> Expected(c)] : c \in {x \in Cases : ValidCase(x)} }

\* ---- C18: generator sessions that write before suspending --------------------------------------------------------
\* The body writes (segment 1), then does commit() / flush() / nothing, yields, is resumed, writes again (segment 2)
\* and ends with `final`.  A generator may be suspended only with nothing unflushed and no open transaction
\* ("You need to manually commit() changes before suspending the generator"): otherwise the session ends there with
\* TransactionError and nothing committed.  While it is suspended other sessions of the same thread run and commit
\* independently of it.
GenCases == { [imm |-> m, end1 |-> e, final |-> f] :
                m \in BOOLEAN, e \in {"commit", "flush", "none"}, f \in {"return", "other", "base"} }
GenExpected(c) ==
    IF c.end1 = "commit"
    THEN [ suspended |-> TRUE, committed |-> IF c.final = "return" THEN {1, 2} ELSE {1},
           exc |-> IF c.final = "return" THEN "none" ELSE c.final ]
    ELSE [ suspended |-> FALSE, committed |-> {}, exc |-> "txerr" ]
GenTable == { [in |-> c, out |-> GenExpected(c)] : c \in GenCases }

ASSUME JsonSerialize(IOEnv.OUT,
         [ calls |-> DbApiCalls, shapes |-> SessionShapes, forms |-> AllForms, kinds |-> AllKinds,
           outcomes |-> BodyOutcomes, threads |-> ThreadCounts, forkpoints |-> ForkPoints, c18 |-> Table, c18gen |-> GenTable ])
=============================================================================
