------------------------------ MODULE SqlSem ------------------------------
(***************************************************************************)
(* Meaning of the SQL abstract syntax trees Pony's translator hands to its *)
(* SQL builders (lists such as ['ADD', x, ['VALUE', 1]]).                  *)
(*                                                                         *)
(* Trees arrive from the harness as JSON: a node is a sequence whose first *)
(* element is the operator name; leaves are                                *)
(*    <<"VALUE", v>>   v a tagged value (below)                            *)
(*    <<"COLUMN", name>>  <<"PARAM", name>>   looked up in env             *)
(*    <<"NONE">>       an absent optional child                            *)
(* Values are tagged records so that TLC never compares an integer with a  *)
(* string:  [t |-> "null"], [t |-> "int", v |-> n], [t |-> "bool", ...],   *)
(* [t |-> "str", v |-> <<"a","b">>] (a string is a sequence of one-char    *)
(* strings), [t |-> "err"] (the engine would raise).                       *)
(*                                                                         *)
(* Dialect d \in {"SQLite","PostgreSQL","MySQL","Oracle"} selects the      *)
(* documented behaviour of substr and of the empty string (Oracle: NULL).  *)
(***************************************************************************)
EXTENDS Integers, Sequences, FiniteSets, TLC

Null == [t |-> "null"]
Err  == [t |-> "err"]
I(n) == [t |-> "int", v |-> n]
B(b) == [t |-> "bool", v |-> b]
S(s) == [t |-> "str", v |-> s]

IsNull(x) == x.t = "null"
IsErr(x)  == x.t = "err"

SameVal(a, b) == a.t = b.t /\ (a.t \in {"null", "err"} \/ a.v = b.v)

Max2(a, b) == IF a >= b THEN a ELSE b
Min2(a, b) == IF a <= b THEN a ELSE b

(* sub-sequence of s holding the 0-based positions [from, from+cnt) clipped to the string *)
Chunk(s, from, cnt) ==
    LET lo == Max2(from, 0)
        hi == Min2(from + cnt, Len(s))
    IN IF hi <= lo THEN <<>> ELSE SubSeq(s, lo + 1, hi)

---------------------------------------------------------------------------
(* Python reference: s[i:j] and s[i] with None (absent) bounds encoded as Null *)
PyNormBound(L, b, dflt) ==
    IF IsNull(b) THEN dflt
    ELSE IF b.v < 0 THEN Max2(L + b.v, 0) ELSE Min2(b.v, L)

PySlice(s, i, j) ==
    LET L == Len(s)
        lo == PyNormBound(L, i, 0)
        hi == PyNormBound(L, j, L)
    IN Chunk(s, lo, hi - lo)

PyIndexDefined(s, i) == i >= -Len(s) /\ i < Len(s)
PyIndex(s, i) == IF i < 0 THEN <<s[Len(s) + i + 1]>> ELSE <<s[i + 1]>>

---------------------------------------------------------------------------
(* substr(s, pos, cnt) per dialect; cnt = Null when the third argument is absent.           *)
(* SQLite: transcription of substrFunc (func.c) - validated against the real engine by the  *)
(* harness before it is used as an oracle.                                                  *)
SubstrSQLite(s, pos, cnt) ==
    LET L     == Len(s)
        neg   == ~IsNull(cnt) /\ cnt.v < 0
        p2a   == IF IsNull(cnt) THEN L + 100 ELSE IF cnt.v < 0 THEN -cnt.v ELSE cnt.v
        \* step 1: normalise start
        p1b   == IF pos < 0 THEN (IF pos + L < 0 THEN 0 ELSE pos + L)
                 ELSE IF pos > 0 THEN pos - 1 ELSE 0
        p2b   == IF pos < 0 THEN (IF pos + L < 0 THEN Max2(p2a + pos + L, 0) ELSE p2a)
                 ELSE IF pos > 0 THEN p2a
                 ELSE (IF p2a > 0 THEN p2a - 1 ELSE p2a)
        \* step 2: negative count means "characters preceding"
        p1c   == IF neg THEN (IF p1b - p2b < 0 THEN 0 ELSE p1b - p2b) ELSE p1b
        p2c   == IF neg THEN (IF p1b - p2b < 0 THEN p2b + (p1b - p2b) ELSE p2b) ELSE p2b
    IN S(Chunk(s, p1c, Max2(p2c, 0)))

(* PostgreSQL / SQL standard: characters at 1-based positions [pos, pos+cnt) that exist; negative count is an error *)
SubstrPG(s, pos, cnt) ==
    IF ~IsNull(cnt) /\ cnt.v < 0 THEN Err
    ELSE IF IsNull(cnt) THEN S(Chunk(s, pos - 1, Len(s) + Max2(0, 1 - pos) + 1))
    ELSE S(Chunk(s, pos - 1, cnt.v))

(* MySQL / MariaDB: pos 0 -> '', negative pos counts from the end and must stay inside the string, cnt < 1 -> '' *)
SubstrMySQL(s, pos, cnt) ==
    LET L == Len(s)
        start == IF pos < 0 THEN L + pos + 1 ELSE pos
    IN IF pos = 0 \/ start < 1 \/ start > L THEN S(<<>>)
       ELSE IF IsNull(cnt) THEN S(Chunk(s, start - 1, L))
       ELSE IF cnt.v < 1 THEN S(<<>>)
       ELSE S(Chunk(s, start - 1, cnt.v))

(* Oracle: pos 0 is treated as 1, negative pos counts from the end, cnt < 1 -> NULL; '' is NULL *)
SubstrOracle(s, pos, cnt) ==
    LET L == Len(s)
        p == IF pos = 0 THEN 1 ELSE pos
        start == IF p < 0 THEN L + p + 1 ELSE p
        r == IF start < 1 \/ start > L THEN <<>>
             ELSE IF IsNull(cnt) THEN Chunk(s, start - 1, L)
             ELSE IF cnt.v < 1 THEN <<>>
             ELSE Chunk(s, start - 1, cnt.v)
    IN IF r = <<>> THEN Null ELSE S(r)

Substr(d, s, pos, cnt) ==
    CASE d = "SQLite"     -> SubstrSQLite(s, pos, cnt)
      [] d = "PostgreSQL" -> SubstrPG(s, pos, cnt)
      [] d = "MySQL"      -> SubstrMySQL(s, pos, cnt)
      [] d = "Oracle"     -> SubstrOracle(s, pos, cnt)

(* the empty string is NULL on Oracle *)
StrVal(d, s) == IF d = "Oracle" /\ s = <<>> THEN Null ELSE S(s)

---------------------------------------------------------------------------
(* three-valued logic: B(TRUE), B(FALSE), Null = unknown *)
And3(a, b) == IF (a.t = "bool" /\ ~a.v) \/ (b.t = "bool" /\ ~b.v) THEN B(FALSE)
              ELSE IF IsNull(a) \/ IsNull(b) THEN Null ELSE B(TRUE)
Or3(a, b)  == IF (a.t = "bool" /\ a.v) \/ (b.t = "bool" /\ b.v) THEN B(TRUE)
              ELSE IF IsNull(a) \/ IsNull(b) THEN Null ELSE B(FALSE)
Not3(a)    == IF IsNull(a) THEN Null ELSE B(~a.v)

Cmp(op, a, b) ==
    IF IsErr(a) \/ IsErr(b) THEN Err
    ELSE IF IsNull(a) \/ IsNull(b) THEN Null
    ELSE IF a.t # b.t THEN Err
    ELSE CASE op = "EQ" -> B(a.v = b.v)
           [] op = "NE" -> B(a.v # b.v)
           [] op = "LT" -> IF a.t = "int" THEN B(a.v < b.v) ELSE Err
           [] op = "LE" -> IF a.t = "int" THEN B(a.v <= b.v) ELSE Err
           [] op = "GT" -> IF a.t = "int" THEN B(a.v > b.v) ELSE Err
           [] op = "GE" -> IF a.t = "int" THEN B(a.v >= b.v) ELSE Err

Arith(op, a, b) ==
    IF IsErr(a) \/ IsErr(b) THEN Err
    ELSE IF IsNull(a) \/ IsNull(b) THEN Null
    ELSE IF a.t # "int" \/ b.t # "int" THEN Err
    ELSE CASE op = "ADD" -> I(a.v + b.v)
           [] op = "SUB" -> I(a.v - b.v)
           [] op = "MUL" -> I(a.v * b.v)

Truth(x) == x.t = "bool" /\ x.v      \* a WHEN/WHERE condition holds only when TRUE

RECURSIVE Eval(_, _, _)
RECURSIVE EvalCase(_, _, _, _, _)
RECURSIVE FoldMaxMin(_, _, _, _, _)
RECURSIVE Coalesce(_, _, _, _)

Eval(e, env, d) ==
    LET op == e[1] IN
    CASE op = "VALUE"  -> IF e[2].t = "str" THEN StrVal(d, e[2].v) ELSE e[2]
      [] op = "COLUMN" -> env[e[2]]
      [] op = "PARAM"  -> env[e[2]]
      [] op = "NONE"   -> Null
      [] op \in {"ADD", "SUB", "MUL"} -> Arith(op, Eval(e[2], env, d), Eval(e[3], env, d))
      [] op = "NEG" -> Arith("SUB", I(0), Eval(e[2], env, d))
      [] op \in {"EQ", "NE", "LT", "LE", "GT", "GE"} -> Cmp(op, Eval(e[2], env, d), Eval(e[3], env, d))
      [] op = "AND" -> And3(Eval(e[2], env, d), IF Len(e) = 3 THEN Eval(e[3], env, d) ELSE Eval(<<"AND">> \o Tail(Tail(e)), env, d))
      [] op = "OR"  -> Or3(Eval(e[2], env, d), IF Len(e) = 3 THEN Eval(e[3], env, d) ELSE Eval(<<"OR">> \o Tail(Tail(e)), env, d))
      [] op = "NOT" -> Not3(Eval(e[2], env, d))
      [] op = "IS_NULL" -> B(IsNull(Eval(e[2], env, d)))
      [] op = "IS_NOT_NULL" -> B(~IsNull(Eval(e[2], env, d)))
      [] op = "LENGTH" -> LET x == Eval(e[2], env, d) IN
                          IF IsNull(x) \/ IsErr(x) THEN x ELSE I(Len(x.v))
      [] op = "IF" -> LET c == Eval(e[2], env, d) IN
                      IF IsErr(c) THEN Err
                      ELSE IF Truth(c) THEN Eval(e[3], env, d)
                      ELSE IF Len(e) >= 4 THEN Eval(e[4], env, d) ELSE Null
      [] op = "CASE" -> EvalCase(e[2], e[3], IF Len(e) >= 4 THEN e[4] ELSE <<"NONE">>, env, d)
      [] op = "COALESCE" -> Coalesce(e, 2, env, d)
      [] op \in {"MAX", "MIN"} -> FoldMaxMin(op, e, 4, Eval(e[3], env, d), <<env, d>>)
      [] op = "SUBSTR" ->
            LET x == Eval(e[2], env, d)
                p == Eval(e[3], env, d)
                c == IF Len(e) >= 4 THEN Eval(e[4], env, d) ELSE Null
                absent == Len(e) < 4 \/ e[4][1] = "NONE"
            IN IF IsErr(x) \/ IsErr(p) \/ IsErr(c) THEN Err
               ELSE IF IsNull(x) \/ IsNull(p) \/ (~absent /\ IsNull(c)) THEN Null
               ELSE Substr(d, x.v, p.v, c)
      [] op = "STRING_SLICE" ->    \* only reaches the builder untouched on SQLite: py_string_slice
            LET x == Eval(e[2], env, d)
                i == Eval(e[3], env, d)
                j == Eval(e[4], env, d)
            IN IF IsNull(x) THEN Null ELSE S(PySlice(x.v, i, j))
      [] OTHER -> Err

EvalCase(subject, whens, else_, env, d) ==
    IF Len(whens) = 0 THEN Eval(else_, env, d)
    ELSE LET w == whens[1]
             c == IF subject[1] = "NONE" THEN Eval(w[1], env, d)
                  ELSE Cmp("EQ", Eval(subject, env, d), Eval(w[1], env, d))
         IN IF IsErr(c) THEN Err
            ELSE IF Truth(c) THEN Eval(w[2], env, d)
            ELSE EvalCase(subject, Tail(whens), else_, env, d)

Coalesce(e, k, env, d) ==
    IF k > Len(e) THEN Null
    ELSE LET x == Eval(e[k], env, d) IN IF IsNull(x) THEN Coalesce(e, k + 1, env, d) ELSE x

(* ['MAX', distinct, a, b, ...] with several arguments is greatest(a, b, ...): NULL if any argument is NULL
   (PostgreSQL ignores NULLs instead; Pony's uses never pass a NULL-able second argument) *)
FoldMaxMin(op, e, k, acc, ed) ==
    IF k > Len(e) THEN acc
    ELSE LET x == Eval(e[k], ed[1], ed[2])
             nxt == IF IsErr(acc) \/ IsErr(x) THEN Err
                    ELSE IF IsNull(acc) \/ IsNull(x) THEN (IF ed[2] = "PostgreSQL" THEN (IF IsNull(acc) THEN x ELSE acc) ELSE Null)
                    ELSE IF op = "MAX" THEN I(Max2(acc.v, x.v)) ELSE I(Min2(acc.v, x.v))
         IN FoldMaxMin(op, e, k + 1, nxt, ed)

=============================================================================
