------------------------------ MODULE SqlSem ------------------------------
(***************************************************************************)
(* Meaning of the SQL abstract syntax trees Pony's translator hands to its *)
(* SQL builders (lists such as ['ADD', x, ['VALUE', 1]]).                  *)
(*                                                                         *)
(* Trees arrive from the harness as JSON: a node is a sequence whose first *)
(* element is the operator name; leaves are                                *)
(*    <<"VALUE", v>>   v a tagged value (below)                            *)
(*    <<"COLUMN", name>>  <<"PARAM", name>>   looked up in env             *)
(*    <<"NONE">>       an absent optional child                            *)
(* Values are tagged records so that TLC never compares an integer with a  *)
(* string:  [t |-> "null"], [t |-> "int", v |-> n], [t |-> "bool", ...],   *)
(* [t |-> "str", v |-> <<"a","b">>] (a string is a sequence of one-char    *)
(* strings), [t |-> "err"] (the engine would raise).                       *)
(*                                                                         *)
(* Dialect d \in {"SQLite","PostgreSQL","MySQL","Oracle"} selects the      *)
(* documented behaviour of substr and of the empty string (Oracle: NULL).  *)
(*                                                                         *)
(* Second part (C02): whole SELECT statements.  A statement is a record    *)
(*   [distinct, agg: BOOLEAN, cols: <<expr>>, from: <<source>>,            *)
(*    where, group, having: <<expr>>, order: << <<expr, "asc"|"desc">> >>, *)
(*    limit: <<>> or <<limit, offset>>]                                    *)
(* (harness/sqlast.py: ser_select), a source is [alias, table ("" for a    *)
(* subselect), sub (<<>> or <<statement>>), on (join condition or          *)
(* <<"NONE">>), left (BOOLEAN)].  Columns are <<"COLUMN", alias, name>>,   *)
(* looked up in env.row[alias][name]; env.tabs holds the tables (sequences *)
(* of row records), env.grp the rows of the current group for aggregates.  *)
(* Dialect differences modelled: PostgreSQL has a boolean type (comparing  *)
(* or combining it with integers is an error, conditions must be boolean), *)
(* the others use 0/1; Oracle treats '' as NULL (and NULL as '' in ||);    *)
(* NULLs sort first (SQLite, MySQL) or last (PostgreSQL, Oracle);          *)
(* LIMIT -1 / a huge number / NULL as "no limit".  LIKE is case sensitive  *)
(* (SQLite as configured by Pony, PostgreSQL, Oracle; MySQL under a binary *)
(* collation - assumption), with ESCAPE.  Division is not modelled.        *)
(***************************************************************************)
EXTENDS Integers, Sequences, FiniteSets, TLC

Null == [t |-> "null"]
Err  == [t |-> "err"]
I(n) == [t |-> "int", v |-> n]
B(b) == [t |-> "bool", v |-> b]
S(s) == [t |-> "str", v |-> s]

IsNull(x) == x.t = "null"
IsErr(x)  == x.t = "err"

SameVal(a, b) == a.t = b.t /\ (a.t \in {"null", "err"} \/ a.v = b.v)

Max2(a, b) == IF a >= b THEN a ELSE b
Min2(a, b) == IF a <= b THEN a ELSE b

(* sub-sequence of s holding the 0-based positions [from, from+cnt) clipped to the string *)
Chunk(s, from, cnt) ==
    LET lo == Max2(from, 0)
        hi == Min2(from + cnt, Len(s))
    IN IF hi <= lo THEN <<>> ELSE SubSeq(s, lo + 1, hi)

---------------------------------------------------------------------------
(* Python reference: s[i:j] and s[i] with None (absent) bounds encoded as Null *)
PyNormBound(L, b, dflt) ==
    IF IsNull(b) THEN dflt
    ELSE IF b.v < 0 THEN Max2(L + b.v, 0) ELSE Min2(b.v, L)

PySlice(s, i, j) ==
    LET L == Len(s)
        lo == PyNormBound(L, i, 0)
        hi == PyNormBound(L, j, L)
    IN Chunk(s, lo, hi - lo)

PyIndexDefined(s, i) == i >= -Len(s) /\ i < Len(s)
PyIndex(s, i) == IF i < 0 THEN <<s[Len(s) + i + 1]>> ELSE <<s[i + 1]>>

---------------------------------------------------------------------------
(* substr(s, pos, cnt) per dialect; cnt = Null when the third argument is absent.           *)
(* SQLite: transcription of substrFunc (func.c) - validated against the real engine by the  *)
(* harness before it is used as an oracle.                                                  *)
SubstrSQLite(s, pos, cnt) ==
    LET L     == Len(s)
        neg   == ~IsNull(cnt) /\ cnt.v < 0
        p2a   == IF IsNull(cnt) THEN L + 100 ELSE IF cnt.v < 0 THEN -cnt.v ELSE cnt.v
        \* step 1: normalise start
        p1b   == IF pos < 0 THEN (IF pos + L < 0 THEN 0 ELSE pos + L)
                 ELSE IF pos > 0 THEN pos - 1 ELSE 0
        p2b   == IF pos < 0 THEN (IF pos + L < 0 THEN Max2(p2a + pos + L, 0) ELSE p2a)
                 ELSE IF pos > 0 THEN p2a
                 ELSE (IF p2a > 0 THEN p2a - 1 ELSE p2a)
        \* step 2: negative count means "characters preceding"
        p1c   == IF neg THEN (IF p1b - p2b < 0 THEN 0 ELSE p1b - p2b) ELSE p1b
        p2c   == IF neg THEN (IF p1b - p2b < 0 THEN p2b + (p1b - p2b) ELSE p2b) ELSE p2b
    IN S(Chunk(s, p1c, Max2(p2c, 0)))

(* PostgreSQL / SQL standard: characters at 1-based positions [pos, pos+cnt) that exist; negative count is an error *)
SubstrPG(s, pos, cnt) ==
    IF ~IsNull(cnt) /\ cnt.v < 0 THEN Err
    ELSE IF IsNull(cnt) THEN S(Chunk(s, pos - 1, Len(s) + Max2(0, 1 - pos) + 1))
    ELSE S(Chunk(s, pos - 1, cnt.v))

(* MySQL / MariaDB: pos 0 -> '', negative pos counts from the end and must stay inside the string, cnt < 1 -> '' *)
SubstrMySQL(s, pos, cnt) ==
    LET L == Len(s)
        start == IF pos < 0 THEN L + pos + 1 ELSE pos
    IN IF pos = 0 \/ start < 1 \/ start > L THEN S(<<>>)
       ELSE IF IsNull(cnt) THEN S(Chunk(s, start - 1, L))
       ELSE IF cnt.v < 1 THEN S(<<>>)
       ELSE S(Chunk(s, start - 1, cnt.v))

(* Oracle: pos 0 is treated as 1, negative pos counts from the end, cnt < 1 -> NULL; '' is NULL *)
SubstrOracle(s, pos, cnt) ==
    LET L == Len(s)
        p == IF pos = 0 THEN 1 ELSE pos
        start == IF p < 0 THEN L + p + 1 ELSE p
        r == IF start < 1 \/ start > L THEN <<>>
             ELSE IF IsNull(cnt) THEN Chunk(s, start - 1, L)
             ELSE IF cnt.v < 1 THEN <<>>
             ELSE Chunk(s, start - 1, cnt.v)
    IN IF r = <<>> THEN Null ELSE S(r)

Substr(d, s, pos, cnt) ==
    CASE d = "SQLite"     -> SubstrSQLite(s, pos, cnt)
      [] d = "PostgreSQL" -> SubstrPG(s, pos, cnt)
      [] d = "MySQL"      -> SubstrMySQL(s, pos, cnt)
      [] d = "Oracle"     -> SubstrOracle(s, pos, cnt)

(* the empty string is NULL on Oracle *)
StrVal(d, s) == IF d = "Oracle" /\ s = <<>> THEN Null ELSE S(s)

---------------------------------------------------------------------------
(* three-valued logic: B(TRUE), B(FALSE), Null = unknown *)
And3(a, b) == IF (a.t = "bool" /\ ~a.v) \/ (b.t = "bool" /\ ~b.v) THEN B(FALSE)
              ELSE IF IsNull(a) \/ IsNull(b) THEN Null ELSE B(TRUE)
Or3(a, b)  == IF (a.t = "bool" /\ a.v) \/ (b.t = "bool" /\ b.v) THEN B(TRUE)
              ELSE IF IsNull(a) \/ IsNull(b) THEN Null ELSE B(FALSE)
Not3(a)    == IF IsNull(a) THEN Null ELSE B(~a.v)

Cmp(op, a, b) ==
    IF IsErr(a) \/ IsErr(b) THEN Err
    ELSE IF IsNull(a) \/ IsNull(b) THEN Null
    ELSE IF a.t # b.t THEN Err
    ELSE CASE op = "EQ" -> B(a.v = b.v)
           [] op = "NE" -> B(a.v # b.v)
           [] op = "LT" -> IF a.t \in {"int", "dt"} THEN B(a.v < b.v) ELSE Err
           [] op = "LE" -> IF a.t \in {"int", "dt"} THEN B(a.v <= b.v) ELSE Err
           [] op = "GT" -> IF a.t \in {"int", "dt"} THEN B(a.v > b.v) ELSE Err
           [] op = "GE" -> IF a.t \in {"int", "dt"} THEN B(a.v >= b.v) ELSE Err

Arith(op, a, b) ==
    IF IsErr(a) \/ IsErr(b) THEN Err
    ELSE IF IsNull(a) \/ IsNull(b) THEN Null
    ELSE IF a.t # "int" \/ b.t # "int" THEN Err
    ELSE CASE op = "ADD" -> I(a.v + b.v)
           [] op = "SUB" -> I(a.v - b.v)
           [] op = "MUL" -> I(a.v * b.v)

Truth(x) == x.t = "bool" /\ x.v      \* a WHEN/WHERE condition holds only when TRUE

---------------------------------------------------------------------------
(* helpers of the SELECT part *)
IsPG(d) == d = "PostgreSQL"
(* a boolean is an integer 0/1 outside PostgreSQL *)
NormB(d, x) == IF x.t = "bool" /\ ~IsPG(d) THEN I(IF x.v THEN 1 ELSE 0) ELSE x
(* operand of AND / OR / NOT, condition of WHERE / HAVING / ON / CASE WHEN *)
ToCond(d, x) == IF x.t \in {"bool", "null", "err"} THEN x
                ELSE IF x.t = "int" /\ ~IsPG(d) THEN B(x.v # 0)
                ELSE Err
CmpD(d, op, a, b) == Cmp(op, NormB(d, a), NormB(d, b))
And3E(a, b) == IF IsErr(a) \/ IsErr(b) THEN Err ELSE And3(a, b)
Or3E(a, b)  == IF IsErr(a) \/ IsErr(b) THEN Err ELSE Or3(a, b)
Not3E(a)    == IF IsErr(a) THEN Err ELSE Not3(a)
(* a value as stored in / read from a table of dialect d *)
LoadVal(d, x) == IF x.t = "str" THEN StrVal(d, x.v) ELSE NormB(d, x)

UpC(c) == CASE c = "a" -> "A" [] c = "b" -> "B" [] c = "c" -> "C" [] OTHER -> c
LoC(c) == CASE c = "A" -> "a" [] c = "B" -> "b" [] c = "C" -> "c" [] OTHER -> c

(* s LIKE p ESCAPE esc (esc = "" when absent): % any sequence, _ any one character; case sensitive *)
RECURSIVE LikeFrom(_, _, _, _, _)
LikeFrom(s, i, p, j, esc) ==
    IF j > Len(p) THEN i > Len(s)
    ELSE IF esc # "" /\ p[j] = esc
         THEN j + 1 <= Len(p) /\ i <= Len(s) /\ s[i] = p[j + 1] /\ LikeFrom(s, i + 1, p, j + 2, esc)
    ELSE IF p[j] = "%" THEN \E k \in i .. (Len(s) + 1) : LikeFrom(s, k, p, j + 1, esc)
    ELSE IF p[j] = "_" THEN i <= Len(s) /\ LikeFrom(s, i + 1, p, j + 1, esc)
    ELSE i <= Len(s) /\ s[i] = p[j] /\ LikeFrom(s, i + 1, p, j + 1, esc)

(* replace every occurrence of the one-character string from by the sequence to *)
RECURSIVE ReplaceChars(_, _, _, _)
ReplaceChars(s, i, from, to) ==
    IF i > Len(s) THEN <<>>
    ELSE (IF s[i] = from THEN to ELSE <<s[i]>>) \o ReplaceChars(s, i + 1, from, to)

SameRow(r1, r2) == Len(r1) = Len(r2) /\ \A j \in 1 .. Len(r1) : SameVal(r1[j], r2[j])
RowHasErr(r) == \E j \in 1 .. Len(r) : IsErr(r[j])

RECURSIVE DedupVals(_, _, _)
DedupVals(vals, i, acc) ==
    IF i > Len(vals) THEN acc
    ELSE IF \E k \in 1 .. Len(acc) : SameVal(acc[k], vals[i]) THEN DedupVals(vals, i + 1, acc)
    ELSE DedupVals(vals, i + 1, Append(acc, vals[i]))
RECURSIVE SumVals(_, _)
SumVals(vals, i) == IF i > Len(vals) THEN 0 ELSE vals[i].v + SumVals(vals, i + 1)
RECURSIVE ExtVals(_, _, _, _)
ExtVals(op, vals, i, acc) ==
    IF i > Len(vals) THEN acc
    ELSE ExtVals(op, vals, i + 1, IF op = "MAX" THEN (IF vals[i].v > acc.v THEN vals[i] ELSE acc)
                                  ELSE (IF vals[i].v < acc.v THEN vals[i] ELSE acc))

RECURSIVE Eval(_, _, _)
RECURSIVE EvalSelect(_, _, _)
RECURSIVE ConcatFrom(_, _, _, _)
RECURSIVE EvalCase(_, _, _, _, _)
RECURSIVE FoldMaxMin(_, _, _, _, _)
RECURSIVE Coalesce(_, _, _, _)

Eval(e, env, d) ==
    LET op == e[1] IN
    CASE op = "VALUE"  -> IF e[2].t = "str" THEN StrVal(d, e[2].v) ELSE NormB(d, e[2])
      [] op = "COLUMN" -> IF Len(e) = 2 THEN env[e[2]] ELSE env.row[e[2]][e[3]]
      [] op = "PARAM"  -> env[e[2]]
      [] op = "NONE"   -> Null
      [] op \in {"ADD", "SUB", "MUL"} -> Arith(op, Eval(e[2], env, d), Eval(e[3], env, d))
      [] op = "NEG" -> Arith("SUB", I(0), Eval(e[2], env, d))
      [] op \in {"EQ", "NE", "LT", "LE", "GT", "GE"} -> CmpD(d, op, Eval(e[2], env, d), Eval(e[3], env, d))
      [] op = "AND" -> And3E(ToCond(d, Eval(e[2], env, d)),
                             ToCond(d, IF Len(e) = 3 THEN Eval(e[3], env, d) ELSE Eval(<<"AND">> \o Tail(Tail(e)), env, d)))
      [] op = "OR"  -> Or3E(ToCond(d, Eval(e[2], env, d)),
                            ToCond(d, IF Len(e) = 3 THEN Eval(e[3], env, d) ELSE Eval(<<"OR">> \o Tail(Tail(e)), env, d)))
      [] op = "NOT" -> Not3E(ToCond(d, Eval(e[2], env, d)))
      [] op = "IS_NULL" -> B(IsNull(Eval(e[2], env, d)))
      [] op = "IS_NOT_NULL" -> B(~IsNull(Eval(e[2], env, d)))
      [] op = "LENGTH" -> LET x == Eval(e[2], env, d) IN
                          IF IsNull(x) \/ IsErr(x) THEN x ELSE I(Len(x.v))
      [] op = "IF" -> LET c == ToCond(d, Eval(e[2], env, d)) IN
                      IF IsErr(c) THEN Err
                      ELSE IF Truth(c) THEN Eval(e[3], env, d)
                      ELSE IF Len(e) >= 4 THEN Eval(e[4], env, d) ELSE Null
      [] op = "CASE" -> EvalCase(e[2], e[3], IF Len(e) >= 4 THEN e[4] ELSE <<"NONE">>, env, d)
      [] op = "COALESCE" -> Coalesce(e, 2, env, d)
      [] op \in {"MAX", "MIN"} /\ Len(e) >= 4 -> FoldMaxMin(op, e, 4, Eval(e[3], env, d), <<env, d>>)
      [] op \in {"MAX", "MIN", "SUM", "COUNT"} ->      \* aggregate over the rows of the current group: <<op, distinct, expr>>
            LET vals0 == IF Len(e) < 3 THEN [i \in 1 .. Len(env.grp) |-> I(1)]          \* COUNT(*)
                         ELSE [i \in 1 .. Len(env.grp) |-> Eval(e[3], [env EXCEPT !.row = env.grp[i]], d)]
                vals1 == SelectSeq(vals0, LAMBDA x : ~IsNull(x))
                dist  == e[2][1] = "VALUE" /\ e[2][2].t = "bool" /\ e[2][2].v
                vals  == IF dist THEN DedupVals(vals1, 1, <<>>) ELSE vals1
            IN IF \E i \in 1 .. Len(vals) : IsErr(vals[i]) THEN Err
               ELSE IF op = "COUNT" THEN I(Len(vals))
               ELSE IF Len(vals) = 0 THEN (IF op = "SUM" THEN I(0) ELSE Null)   \* every builder renders SUM as coalesce(SUM(x), 0)
               ELSE IF \E i \in 1 .. Len(vals) : vals[i].t # "int" THEN Err
               ELSE IF op = "SUM" THEN I(SumVals(vals, 1))
               ELSE ExtVals(op, vals, 2, vals[1])
      [] op = "ABS" -> LET x == Eval(e[2], env, d) IN
                       IF IsNull(x) \/ IsErr(x) THEN x ELSE IF x.t # "int" THEN Err ELSE I(IF x.v < 0 THEN -x.v ELSE x.v)
      [] op \in {"UPPER", "LOWER", "PY_UPPER", "PY_LOWER"} ->     \* PY_*: SQLite, Python's str.upper/lower as UDF
            LET x == Eval(e[2], env, d) IN
            IF IsNull(x) \/ IsErr(x) THEN x ELSE IF x.t # "str" THEN Err
            ELSE StrVal(d, [i \in 1 .. Len(x.v) |-> IF op \in {"UPPER", "PY_UPPER"} THEN UpC(x.v[i]) ELSE LoC(x.v[i])])
      [] op = "CONCAT" -> ConcatFrom(e, 2, env, d)
      [] op = "REPLACE" ->
            LET x == Eval(e[2], env, d)
                f == Eval(e[3], env, d)
                t == Eval(e[4], env, d)
            IN IF IsErr(x) \/ IsErr(f) \/ IsErr(t) THEN Err
               ELSE IF IsNull(x) THEN Null
               ELSE IF f.t # "str" \/ t.t # "str" \/ x.t # "str" \/ Len(f.v) # 1 THEN Err
               ELSE StrVal(d, ReplaceChars(x.v, 1, f.v[1], t.v))
      [] op \in {"LIKE", "NOT_LIKE"} ->
            LET x == Eval(e[2], env, d)
                p == Eval(e[3], env, d)
                \* without an ESCAPE clause a backslash escapes on PostgreSQL and MySQL (documented default)
                esc == IF Len(e) >= 4 THEN Eval(e[4], env, d)
                       ELSE IF d \in {"PostgreSQL", "MySQL"} THEN S(<<"\\">>) ELSE S(<<>>)
            IN IF IsErr(x) \/ IsErr(p) \/ IsErr(esc) THEN Err
               ELSE IF IsNull(x) \/ IsNull(p) \/ IsNull(esc) THEN Null
               ELSE IF x.t # "str" \/ p.t # "str" \/ esc.t # "str" \/ Len(esc.v) > 1 THEN Err
               ELSE LET m == LikeFrom(x.v, 1, p.v, 1, IF Len(esc.v) = 1 THEN esc.v[1] ELSE "")
                    IN B(IF op = "LIKE" THEN m ELSE ~m)
      [] op \in {"IN", "NOT_IN"} ->       \* <<op, x, <<"LIST", e1, ..>>>> or <<op, x, <<"SUBSELECT", stmt>>>>
            LET x == NormB(d, Eval(e[2], env, d))
                sub == IF e[3][1] = "SUBSELECT" THEN EvalSelect(e[3][2], env, d) ELSE [ok |-> TRUE, rows |-> <<>>]
                items == IF e[3][1] = "SUBSELECT" THEN [i \in 1 .. Len(sub.rows) |-> NormB(d, sub.rows[i][1])]
                         ELSE [i \in 1 .. (Len(e[3]) - 1) |-> NormB(d, Eval(e[3][i + 1], env, d))]
                r == IF ~sub.ok \/ IsErr(x) \/ (\E i \in 1 .. Len(items) : IsErr(items[i])) THEN Err
                     ELSE IF Len(items) = 0 THEN B(FALSE)
                     ELSE IF IsNull(x) THEN Null
                     ELSE IF \E i \in 1 .. Len(items) : ~IsNull(items[i]) /\ items[i].t # x.t THEN Err
                     ELSE IF \E i \in 1 .. Len(items) : SameVal(items[i], x) THEN B(TRUE)
                     ELSE IF \E i \in 1 .. Len(items) : IsNull(items[i]) THEN Null
                     ELSE B(FALSE)
            IN IF op = "IN" THEN r ELSE Not3E(r)
      [] op \in {"EXISTS", "NOT_EXISTS"} ->
            LET sub == EvalSelect(e[2], env, d) IN
            IF ~sub.ok THEN Err ELSE B(IF op = "EXISTS" THEN Len(sub.rows) > 0 ELSE Len(sub.rows) = 0)
      [] op = "AS" -> Eval(e[2], env, d)
      \* datetime +- timedelta; values [t |-> "dt", v |-> minutes since an epoch], [t |-> "td", v |-> minutes]
      [] op \in {"DATETIME_ADD", "DATETIME_SUB"} ->
            LET x == Eval(e[2], env, d)
                y == Eval(e[3], env, d)
            IN IF IsErr(x) \/ IsErr(y) THEN Err
               ELSE IF IsNull(x) \/ IsNull(y) THEN Null
               ELSE IF x.t # "dt" \/ y.t # "td" THEN Err
               ELSE [t |-> "dt", v |-> IF op = "DATETIME_ADD" THEN x.v + y.v ELSE x.v - y.v]
      [] op = "SUBSTR" ->
            LET x == Eval(e[2], env, d)
                p == Eval(e[3], env, d)
                c == IF Len(e) >= 4 THEN Eval(e[4], env, d) ELSE Null
                absent == Len(e) < 4 \/ e[4][1] = "NONE"
            IN IF IsErr(x) \/ IsErr(p) \/ IsErr(c) THEN Err
               ELSE IF IsNull(x) \/ IsNull(p) \/ (~absent /\ IsNull(c)) THEN Null
               ELSE Substr(d, x.v, p.v, c)
      [] op = "STRING_SLICE" ->    \* only reaches the builder untouched on SQLite: py_string_slice
            LET x == Eval(e[2], env, d)
                i == Eval(e[3], env, d)
                j == Eval(e[4], env, d)
            IN IF IsNull(x) THEN Null ELSE S(PySlice(x.v, i, j))
      [] OTHER -> Err

EvalCase(subject, whens, else_, env, d) ==
    IF Len(whens) = 0 THEN Eval(else_, env, d)
    ELSE LET w == whens[1]
             c == IF subject[1] = "NONE" THEN ToCond(d, Eval(w[1], env, d))
                  ELSE CmpD(d, "EQ", Eval(subject, env, d), Eval(w[1], env, d))
         IN IF IsErr(c) THEN Err
            ELSE IF Truth(c) THEN Eval(w[2], env, d)
            ELSE EvalCase(subject, Tail(whens), else_, env, d)

Coalesce(e, k, env, d) ==
    IF k > Len(e) THEN Null
    ELSE LET x == Eval(e[k], env, d) IN IF IsNull(x) THEN Coalesce(e, k + 1, env, d) ELSE x

(* ['MAX', distinct, a, b, ...] with several arguments is greatest(a, b, ...): NULL if any argument is NULL
   (PostgreSQL ignores NULLs instead; Pony's uses never pass a NULL-able second argument) *)
FoldMaxMin(op, e, k, acc, ed) ==
    IF k > Len(e) THEN acc
    ELSE LET x == Eval(e[k], ed[1], ed[2])
             nxt == IF IsErr(acc) \/ IsErr(x) THEN Err
                    ELSE IF IsNull(acc) \/ IsNull(x) THEN (IF ed[2] = "PostgreSQL" THEN (IF IsNull(acc) THEN x ELSE acc) ELSE Null)
                    ELSE IF op = "MAX" THEN I(Max2(acc.v, x.v)) ELSE I(Min2(acc.v, x.v))
         IN FoldMaxMin(op, e, k + 1, nxt, ed)

(* a || b || ...: NULL if any operand is NULL; Oracle treats NULL as the empty string *)
ConcatFrom(e, k, env, d) ==
    IF k > Len(e) THEN S(<<>>)
    ELSE LET x == Eval(e[k], env, d)
             rest == ConcatFrom(e, k + 1, env, d)
         IN IF IsErr(x) \/ IsErr(rest) THEN Err
            ELSE IF d = "Oracle" THEN
                 (LET a == IF IsNull(x) THEN <<>> ELSE x.v
                      b == IF IsNull(rest) THEN <<>> ELSE rest.v
                  IN IF ~IsNull(x) /\ x.t # "str" THEN Err ELSE IF k = 2 THEN StrVal(d, a \o b) ELSE S(a \o b))
            ELSE IF IsNull(x) \/ IsNull(rest) THEN Null
            ELSE IF x.t # "str" THEN Err ELSE S(x.v \o rest.v)

---------------------------------------------------------------------------
(* SELECT statements *)
EmptyRowMap == [a \in {} |-> 0]

(* rows of one source as records column -> value *)
SourceRows(src, env, d) ==
    IF src.table # ""
    THEN LET rows == env.tabs[src.table] IN
         [ok |-> TRUE, rows |-> [i \in 1 .. Len(rows) |-> [c \in DOMAIN rows[i] |-> LoadVal(d, rows[i][c])]]]
    ELSE LET sub == EvalSelect(src.sub[1], env, d)
             names == src.sub[1].names
         IN [ok |-> sub.ok,
             rows |-> [i \in 1 .. Len(sub.rows) |->
                          [c \in {names[j] : j \in 1 .. Len(names)} |-> sub.rows[i][CHOOSE j \in 1 .. Len(names) : names[j] = c]]]]
NullRowOf(src, env) ==
    IF src.table # "" THEN [c \in DOMAIN env.tabs[src.table][1] |-> Null]
    ELSE [c \in {src.sub[1].names[j] : j \in 1 .. Len(src.sub[1].names)} |-> Null]

CondVal(c, rowmap, env, d) == ToCond(d, Eval(c, [env EXCEPT !.row = rowmap], d))

(* join the sources from[k..] onto the partial row maps acc (sequence of alias -> row); result [ok, maps] *)
RECURSIVE JoinFrom(_, _, _, _, _)
JoinFrom(from, k, acc, env, d) ==
    IF k > Len(from) THEN [ok |-> TRUE, maps |-> acc]
    ELSE
      LET src == from[k]
          RECURSIVE Ext(_, _)
          \* extend the i-th partial map with every matching row of the source
          Ext(i, out) ==
              IF i > Len(acc) THEN out
              ELSE LET sr == SourceRows(src, [env EXCEPT !.row = acc[i]], d)
                       cand == [j \in 1 .. Len(sr.rows) |-> (src.alias :> sr.rows[j]) @@ acc[i]]
                       cv == [j \in 1 .. Len(cand) |-> IF src.on[1] = "NONE" THEN B(TRUE) ELSE CondVal(src.on, cand[j], env, d)]
                       bad == ~sr.ok \/ \E j \in 1 .. Len(cand) : IsErr(cv[j])
                       hits == SelectSeq([j \in 1 .. Len(cand) |-> [m |-> cand[j], c |-> cv[j]]], LAMBDA h : Truth(h.c))
                       maps == IF Len(hits) = 0 /\ src.left
                               THEN << (src.alias :> NullRowOf(src, env)) @@ acc[i] >>
                               ELSE [j \in 1 .. Len(hits) |-> hits[j].m]
                   IN Ext(i + 1, [ok |-> out.ok /\ ~bad, maps |-> out.maps \o maps])
          step == Ext(1, [ok |-> TRUE, maps |-> <<>>])
      IN IF ~step.ok THEN [ok |-> FALSE, maps |-> <<>>]
         ELSE JoinFrom(from, k + 1, step.maps, env, d)

(* the conjunction of the conditions on one row: "t" all TRUE, "f" some not TRUE, "e" some condition is an error *)
RECURSIVE CondsVal(_, _, _, _, _, _)
CondsVal(conds, j, rowmap, env, d, acc) ==
    IF j > Len(conds) THEN acc
    ELSE LET c == CondVal(conds[j], rowmap, env, d)
         IN IF IsErr(c) THEN "e" ELSE CondsVal(conds, j + 1, rowmap, env, d, IF Truth(c) THEN acc ELSE "f")

(* groups: sequence of sequences of row maps, grouped by the values of the key expressions (NULLs together) *)
RECURSIVE GroupBy(_, _, _, _, _)
GroupBy(maps, i, keys, acc, ed) ==
    IF i > Len(maps) THEN acc
    ELSE LET kv == [j \in 1 .. Len(keys) |-> Eval(keys[j], [ed[1] EXCEPT !.row = maps[i]], ed[2])]
             hit == {g \in 1 .. Len(acc) : SameRow(acc[g].key, kv)}
         IN IF hit = {} THEN GroupBy(maps, i + 1, keys, Append(acc, [key |-> kv, rows |-> <<maps[i]>>]), ed)
            ELSE LET g == CHOOSE x \in hit : TRUE
                 IN GroupBy(maps, i + 1, keys, [acc EXCEPT ![g].rows = Append(@, maps[i])], ed)

RECURSIVE DedupRows(_, _, _)
DedupRows(items, i, acc) ==
    IF i > Len(items) THEN acc
    ELSE IF \E k \in 1 .. Len(acc) : SameRow(acc[k].row, items[i].row) THEN DedupRows(items, i + 1, acc)
    ELSE DedupRows(items, i + 1, Append(acc, items[i]))

NullsFirst(d) == d \in {"SQLite", "MySQL"}
(* key tuple k1 sorts strictly before k2 *)
RECURSIVE KeyBefore(_, _, _, _, _)
KeyBefore(k1, k2, dirs, j, d) ==
    IF j > Len(k1) THEN FALSE
    ELSE LET x == k1[j]
             y == k2[j]
             \* ascending order of the dialect, NULLs at the dialect's end
             lt == IF IsNull(x) /\ IsNull(y) THEN FALSE
                   ELSE IF IsNull(x) THEN NullsFirst(d)
                   ELSE IF IsNull(y) THEN ~NullsFirst(d)
                   ELSE x.v < y.v
             gt == IF IsNull(x) /\ IsNull(y) THEN FALSE
                   ELSE IF IsNull(y) THEN NullsFirst(d)
                   ELSE IF IsNull(x) THEN ~NullsFirst(d)
                   ELSE x.v > y.v
         IN IF dirs[j] = "asc" THEN (lt \/ (~gt /\ KeyBefore(k1, k2, dirs, j + 1, d)))
            ELSE (gt \/ (~lt /\ KeyBefore(k1, k2, dirs, j + 1, d)))

RECURSIVE InsertByKey(_, _, _, _, _)
InsertByKey(sorted, item, dirs, i, d) ==
    IF i > Len(sorted) THEN Append(sorted, item)
    ELSE IF KeyBefore(item.key, sorted[i].key, dirs, 1, d)
         THEN SubSeq(sorted, 1, i - 1) \o <<item>> \o SubSeq(sorted, i, Len(sorted))
         ELSE InsertByKey(sorted, item, dirs, i + 1, d)
RECURSIVE SortByKey(_, _, _, _, _)
SortByKey(items, dirs, i, acc, d) ==
    IF i > Len(items) THEN acc ELSE SortByKey(items, dirs, i + 1, InsertByKey(acc, items[i], dirs, 1, d), d)

(* LIMIT: <<limit, offset>>; no limit = NULL / NONE (PostgreSQL, Oracle), -1 (SQLite), a number >= 2^31 (MySQL) *)
ApplyLimit(items, lim, env, d) ==
    IF Len(lim) = 0 THEN [ok |-> TRUE, items |-> items]
    ELSE LET l == Eval(lim[1], env, d)
             o == IF Len(lim) >= 2 THEN Eval(lim[2], env, d) ELSE I(0)
             off == IF IsNull(o) THEN 0 ELSE o.v
             unbounded == IsNull(l) \/ l.t = "big" \/ (l.t = "int" /\ l.v = -1 /\ d = "SQLite")
             bad == (l.t = "int" /\ l.v < 0 /\ ~unbounded) \/ (l.t = "big" /\ d # "MySQL") \/ l.t \notin {"int", "big", "null"} \/ off < 0
             n == Len(items)
             hi == IF unbounded THEN n ELSE Min2(n, off + l.v)
         IN IF bad THEN [ok |-> FALSE, items |-> <<>>]
            ELSE [ok |-> TRUE, items |-> IF off >= n \/ hi <= off THEN <<>> ELSE SubSeq(items, off + 1, hi)]

EvalSelect(st, outer, d) ==
    LET base  == IF "row" \in DOMAIN outer THEN outer.row ELSE EmptyRowMap
        env0  == [tabs |-> outer.tabs, row |-> base, grp |-> <<>>]
        joined == JoinFrom(st.from, 1, <<base>>, env0, d)
        wv    == [i \in 1 .. Len(joined.maps) |-> [m |-> joined.maps[i], c |-> CondsVal(st.where, 1, joined.maps[i], env0, d, "t")]]
        werr  == \E i \in 1 .. Len(wv) : wv[i].c = "e"
        kept0 == SelectSeq(wv, LAMBDA x : x.c = "t")
        kept  == [i \in 1 .. Len(kept0) |-> kept0[i].m]
        grouped == Len(st.group) > 0 \/ st.agg
        groups0 == IF Len(st.group) > 0 THEN GroupBy(kept, 1, st.group, <<>>, <<env0, d>>)
                   ELSE IF st.agg THEN << [key |-> <<>>, rows |-> kept] >>
                   ELSE [i \in 1 .. Len(kept) |-> [key |-> <<>>, rows |-> <<kept[i]>>]]
        \* evaluation context of one group: the first row stands for the grouping columns
        CtxOf(g) == [tabs |-> outer.tabs, grp |-> g.rows, row |-> IF Len(g.rows) > 0 THEN g.rows[1] ELSE base]
        hv    == IF Len(st.having) = 0 THEN [i \in 1 .. Len(groups0) |-> [g |-> groups0[i], c |-> "t"]]
                 ELSE [i \in 1 .. Len(groups0) |->
                          [g |-> groups0[i], c |-> LET cx == CtxOf(groups0[i]) IN CondsVal(st.having, 1, cx.row, cx, d, "t")]]
        herr  == \E i \in 1 .. Len(hv) : hv[i].c = "e"
        groups1 == SelectSeq(hv, LAMBDA x : x.c = "t")
        groups == [i \in 1 .. Len(groups1) |-> groups1[i].g]
        items0 == [i \in 1 .. Len(groups) |->
                     [row |-> [j \in 1 .. Len(st.cols) |-> Eval(st.cols[j], CtxOf(groups[i]), d)],
                      key |-> [j \in 1 .. Len(st.order) |-> Eval(st.order[j][1], CtxOf(groups[i]), d)]]]
        items1 == IF st.distinct THEN DedupRows(items0, 1, <<>>) ELSE items0
        dirs   == [j \in 1 .. Len(st.order) |-> st.order[j][2]]
        items2 == IF Len(st.order) = 0 THEN items1 ELSE SortByKey(items1, dirs, 1, <<>>, d)
        lim    == ApplyLimit(items2, st.limit, env0, d)
        rows   == [i \in 1 .. Len(lim.items) |-> lim.items[i].row]
        rerr   == \E i \in 1 .. Len(items0) : RowHasErr(items0[i].row) \/ RowHasErr(items0[i].key)
    IN [ok |-> joined.ok /\ ~werr /\ ~herr /\ ~rerr /\ lim.ok, rows |-> rows]

=============================================================================
