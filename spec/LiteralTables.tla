--------------------------- MODULE LiteralTables ---------------------------
(* C06: tables exported from Literal.tla.
   (a) environment models (SQL string/identifier lexer, LikeMatch, the % operator of format-style drivers, Python's
       startswith/endswith/in) - compared by the harness with the real SQLite engine / CPython before they are
       used as oracles;
   (b) the input spaces and expected answers of the E1 runs on SQLite (strings, PyPrefixes/PySuffixes/PyInfixes, shapes). *)
EXTENDS Literal, Json, IOUtils

In == JsonDeserialize(IOEnv.IN)

Render(st) == [k \in 1 .. Len(st) |-> IF st[k].k = "c" THEN st[k].c ELSE IF st[k].k = "b" THEN "<" \o st[k].v.v \o ">" ELSE "<err>"]
StreamErr(st) == \E k \in 1 .. Len(st) : st[k].k = "e"

LexTexts == StringsUpTo({SQ, "a", BSL}, In.lexlen)
IdTexts  == StringsUpTo({DQ, "a", SQ}, In.lexlen)
LexRow(t) == LET toks == Statement("SQLite", "qmark", t, <<>>) IN
             [text |-> t, err |-> HasErr(toks), single |-> Len(toks) = 1 /\ toks[1].t \in {"str", "id"},
              v |-> IF Len(toks) = 1 /\ toks[1].t \in {"str", "id"} THEN toks[1].v ELSE <<>>]

LikeP == StringsUpTo(Alphabet, In.likep)
LikeS == StringsUpTo(Alphabet, In.likes)
LikeRow(p, esc) == [p |-> p, esc |-> esc, m |-> {s \in LikeS : LikeMatch(p, esc, s)}]

FmtTexts == StringsUpTo({PCT, "s", "(", "p", ")", SQ}, In.fmtlen)   \* no letter that is a conversion type other than s
M(k) == Atom(IF k = 1 THEN "m1" ELSE "m2")
FmtRow(style, t, args, na) == LET st == DriverStage(style, t, args) IN
                              [style |-> style, text |-> t, nargs |-> na, err |-> StreamErr(st), out |-> Render(st)]

Strs == StringsUpTo(Alphabet, In.n)
PyRow(s) == [s |-> s, pre |-> PyPrefixes(s), suf |-> PySuffixes(s), inf |-> PyInfixes(s)]

ASSUME JsonSerialize(IOEnv.OUT, [
    lex    |-> {LexRow(t) : t \in LexTexts},
    idlex  |-> {LexRow(t) : t \in IdTexts},
    like   |-> {LikeRow(p, esc) : p \in LikeP, esc \in {"", BANG}},
    fmt    |-> {FmtRow("format", t, [k \in 1 .. na |-> M(k)], na) : t \in FmtTexts, na \in 0 .. 2}
               \cup {FmtRow("pyformat", t, <<[name |-> <<"p">>, v |-> M(1)]>>, 1) : t \in FmtTexts},
    pyops  |-> {PyRow(s) : s \in Strs},
    idstrs |-> StringsUpTo(IdAlphabet, In.idn) \ {<<>>},
    shapes |-> {[shape |-> sh, plain |-> Plain(sh), row |-> IF Plain(sh) THEN RowOf(sh) ELSE <<>>, benign |-> Benign(sh)] : sh \in Shapes(In.n3)},
    likeS  |-> LikeS,
    keys   |-> KeyTable,
    table  |-> TableName,
    typed  |-> [int |-> Ints, date |-> Dates, datetime |-> DateTimes, timedelta |-> TimeDeltas, bytes |-> ByteStrings],
    typed_judged |-> {<<d, k>> \in {"SQLite", "PostgreSQL", "MySQL", "Oracle"} \X {"int", "date", "datetime", "timedelta", "bytes"} : TypedJudged(d, k)} ])
=============================================================================
