---------------------------- MODULE CodecTables ----------------------------
(* C07, binding E1: exports for every attribute type of Validate.tla Part II and every value of its domain
   the normalised value Norm(T, v) that the writing session, a fresh session and a projecting query must
   show, and that must match the stored row when used as a query parameter.  TLC first checks the laws of
   Part II on the exported space.  Input: {"tier": "quick" | "thorough"}. *)
EXTENDS Validate, Json, IOUtils

In == JsonDeserialize(IOEnv.IN)
Tier == In.tier

Row(T) == [ty |-> T, cases |-> { [v |-> v, norm |-> Norm(T, v), nontrivial |-> NonTrivial(T, v)] : v \in ValuesOf(T, Tier) }]

ASSUME NormIdempotent(Tier)
ASSUME NormStaysValid(Tier)
ASSUME QuantizeHasScale(Tier)
ASSUME TruncBound(Tier)

ASSUME JsonSerialize(IOEnv.OUT, [rows |-> { Row(T) : T \in CTypes(Tier) },
                                 laws |-> <<"NormIdempotent", "NormStaysValid", "QuantizeHasScale", "TruncBound">>])
=============================================================================
