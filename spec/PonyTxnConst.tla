---------------------------- MODULE PonyTxnConst ----------------------------
(* Constant-level vocabulary shared by PonyTxn (state machine) and PonyTxnScenarios (export of the scenario   *)
(* space to the harness): the DB-API entry points at which a fault can be injected, the session shapes, the   *)
(* session forms / kinds and the per-attempt body outcomes.                                                   *)
DbApiCalls    == {"connect", "cursor", "execute", "executemany", "commit", "rollback", "close"}
SessionShapes == {"read-only", "optimistic write", "immediate", "serializable", "ddl", "generator", "nested"}
AllForms      == {"cm", "dec", "gen", "coroutine"}
AllKinds      == {"opt", "imm", "ser", "ddl"}          \* ser (serializable=True) is `imm` for the protocol (D5)
\* "base": the body is aborted by a BaseException that is not an Exception (KeyboardInterrupt, SystemExit, GeneratorExit ...)
BodyOutcomes  == {"return", "allowed", "retryable", "other", "base", "commit-error"}
ThreadCounts  == {1, 2, 3}
ForkPoints    == {"idle", "pooled", "open-transaction", "in-session-before-db", "in-session-after-read"}
=============================================================================
