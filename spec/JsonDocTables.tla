--------------------------- MODULE JsonDocTables ---------------------------
(* C29, E1: the stored documents, the arrays, the queries and the expected answers (JsonDoc.JsonAnswer /
   ArrayAnswer), and the key sequences of the path round-trip law with what the transcriptions in JsonDoc
   (BuildPath / ParsePath / PgBuild / PgLex) say about each.  Exported as JSON for harness/props/c29.py.
   IOEnv.IN: {"tier": "quick" | "thorough"}.  The state-machine part of JsonDoc is not used here (its
   constants and variables are instantiated with dummies). *)
EXTENDS Integers, Sequences, FiniteSets, TLC, Json, IOUtils
LOCAL SX == INSTANCE SequencesExt
SetToSeq(set) == SX!SetToSeq(set)

INSTANCE JsonDoc WITH Scalars <- {}, ArgConts <- {}, Keys <- {}, SliceB <- {}, MaxLen <- 0, MaxSeq <- 0, InitDocs <- {},
                      MaxBurst <- 0, MaxCommits <- 0, Ops <- {}, SrcDocs <- {}, MoveFrom <- {},
                      doc <- 0, committed <- 0, dirty <- FALSE, alias <- 0, budget <- 0, ncommit <- 0, ev <- 0, src <- 0

In == JsonDeserialize(IOEnv.IN)
Quick == In.tier = "quick"

---------------------------------------------------------------------------
(* stored JSON documents: nesting depth <= 2, keys needing quoting, null, booleans, numbers, empty containers *)
Leaves   == {Null, B(TRUE), B(FALSE), I(0), I(1), I(2), F(0), F(15), S(""), S("a"), S("1")}
Inner    == {L(<<>>), D(<<>>), L(<<I(1), S("a")>>), L(<<Null, B(FALSE), F(0)>>), L(<<S("a b"), S("")>>),
             D(<<KV("a", I(1))>>), D(<<KV("a b", S("a")), KV("a.b", Null)>>), D(<<KV("", B(TRUE)), KV("1", I(0))>>)}
Vals     == Leaves \cup Inner
DocKeys  == IF Quick THEN {"a", "a b", "a\"b", ""} ELSE {"a", "a b", "a.b", "a\"b", "1", "", "a[1]", "b"}
TopVals  == IF Quick THEN {Null, B(FALSE), I(0), I(1), F(0), F(15), S(""), S("a"), S("1")} \cup Inner ELSE Vals
Docs     == {D(<<KV(k, v)>>) : k \in DocKeys, v \in TopVals}
            \cup {L(<<v>>) : v \in TopVals}
            \cup {L(<<I(1), v>>) : v \in Inner}
            \cup {D(<<KV("a", v), KV("b", S("a"))>>) : v \in Inner}
            \cup {L(<<>>), D(<<>>), L(<<S("a"), S("b"), I(1)>>)}
DocSeq   == SetToSeq(Docs)

Keys1    == IF Quick THEN {S("a"), S("a b"), S("a\"b"), S(""), I(0), I(1), I(-1)}
            ELSE {S(k) : k \in DocKeys} \cup {I(0), I(1), I(-1), I(2), I(-3)}
Keys2    == IF Quick THEN {S("a"), S("a b"), I(0), I(-1)} ELSE {S("a"), S("a b"), S("a.b"), S(""), S("1"), I(0), I(1), I(-1)}
KeySeqs  == {<<>>} \cup {<<a>> : a \in Keys1} \cup {<<a, b>> : a \in Keys1, b \in Keys2}
KeySeqSeq == SetToSeq(KeySeqs)

OpSeq    == <<"==", "!=", "<", "<=", ">", ">=">>
ConstSeq == <<I(0), I(1), F(15), F(10), S("a"), S("1"), S(""), B(TRUE), B(FALSE)>>
InKeySeq == <<"a", "a b", "", "1", "b">>

AnswersAt(d, ks) ==
    LET q(kind) == [q |-> kind, keys |-> ks, op |-> "", c |-> Null, neg |-> FALSE, key |-> ""] IN
    [ path    |-> JsonAnswer(q("path"), d),
      len     |-> JsonAnswer(q("len"), d),
      truthy  |-> <<JsonAnswer(q("truthy"), d), JsonAnswer([q("truthy") EXCEPT !.neg = TRUE], d)>>,
      isnone  |-> <<JsonAnswer(q("isnone"), d), JsonAnswer([q("isnone") EXCEPT !.neg = TRUE], d)>>,
      cmp     |-> [o \in 1 .. Len(OpSeq) |-> [n \in 1 .. Len(ConstSeq) |->
                       JsonAnswer([q("cmp") EXCEPT !.op = OpSeq[o], !.c = ConstSeq[n]], d)]],
      isin    |-> [n \in 1 .. Len(InKeySeq) |-> <<JsonAnswer([q("in") EXCEPT !.key = InKeySeq[n]], d),
                                                  JsonAnswer([q("in") EXCEPT !.key = InKeySeq[n], !.neg = TRUE], d)>>] ]

JsonTable == [k \in 1 .. Len(KeySeqSeq) |-> [d \in 1 .. Len(DocSeq) |-> AnswersAt(DocSeq[d], KeySeqSeq[k])]]

(* two paths in ONE query that share a variable (a statement parameter) at the same position and differ only in a
   constant key/index: x.data[v][c1] and x.data[v][c2], or x.data[c1][v] and x.data[c2][v].  The answer is the
   pair of the two path answers. *)
Unordered(set) == {q \in set \X set : ~Same(q[1], q[2]) /\ \E n \in 1 .. Len(SetToSeq(set)) : \E m \in n + 1 .. Len(SetToSeq(set)) :
                                          Same(SetToSeq(set)[n], q[1]) /\ Same(SetToSeq(set)[m], q[2])}
PairQs   == {[var |-> v, pos |-> 1, c1 |-> q[1], c2 |-> q[2]] : v \in Keys1, q \in Unordered(Keys2)}
            \cup {[var |-> v, pos |-> 2, c1 |-> q[1], c2 |-> q[2]] : v \in Keys2, q \in Unordered(Keys1)}
PairQSeq == SetToSeq(PairQs)
PairKeys(q, c) == IF q.pos = 1 THEN <<q.var, c>> ELSE <<c, q.var>>
PairTable == [n \in 1 .. Len(PairQSeq) |-> [d \in 1 .. Len(DocSeq) |->
                 <<Path(DocSeq[d], PairKeys(PairQSeq[n], PairQSeq[n].c1)), Path(DocSeq[d], PairKeys(PairQSeq[n], PairQSeq[n].c2))>>]]

---------------------------------------------------------------------------
(* arrays *)
IntItems == {1, 2, 3}
IntArrs  == UNION {[1 .. m -> {I(n) : n \in IntItems}] : m \in 0 .. (IF Quick THEN 3 ELSE 4)}
StrArrs  == UNION {[1 .. m -> {S("a"), S("b"), S("")}] : m \in 0 .. 2}
IntArrSeq == SetToSeq(IntArrs)
StrArrSeq == SetToSeq(StrArrs)
IdxRange == IF Quick THEN -4 .. 4 ELSE -5 .. 5
Bounds   == {Null} \cup {I(n) : n \in IdxRange}
AQ(kind, i, j, c, neg) == [q |-> kind, i |-> i, j |-> j, c |-> c, neg |-> neg]
ArrQueries(items) ==
         {AQ("index", I(n), Null, Null, FALSE) : n \in IdxRange}
    \cup {AQ("slice", i, j, Null, FALSE) : i \in Bounds, j \in Bounds}
    \cup {AQ("len", Null, Null, Null, FALSE)}
    \cup {AQ("in", Null, Null, c, neg) : c \in items, neg \in BOOLEAN}
    \cup {AQ("truthy", Null, Null, Null, neg) : neg \in BOOLEAN}
IntQSeq == SetToSeq(ArrQueries({I(1), I(2), I(4)}))
StrQSeq == SetToSeq({q \in ArrQueries({S("a"), S(""), S("x")}) : q.q # "slice" \/ (q.i \in {Null, I(0), I(1), I(-1)} /\ q.j \in {Null, I(1), I(-1)})})
ArrTable(qs, arrs) == [n \in 1 .. Len(qs) |-> [d \in 1 .. Len(arrs) |-> ArrayAnswer(qs[n], arrs[d])]]

---------------------------------------------------------------------------
(* path texts: key sequences over the alphabet { a " . [ 1 space } and some integers *)
Alphabet == {"a", "\"", ".", "[", "1", " "}
Strings(n) == UNION {[1 .. m -> Alphabet] : m \in 0 .. n}
Elems(n)  == {I(m) : m \in {-1, 0, 1, 12}} \cup {C(s) : s \in Strings(n)}
LawSeqs  == IF Quick THEN {<<a>> : a \in Elems(2)} \cup {<<a, b>> : a \in Elems(1), b \in Elems(2)}
            ELSE {<<a>> : a \in Elems(3)} \cup {<<a, b>> : a \in Elems(2), b \in Elems(2)} \cup {<<a, b, c>> : a \in Elems(1), b \in Elems(1), c \in Elems(1)}
LawRow(ks) == [keys |-> ks, build |-> BuildPath(ks), rt |-> RoundTrips(ks), quote |-> HasQuote(ks),
               pg |-> PgBuild(ks), pgok |-> PgCarries(PgBuild(ks), ks)]
LawTable == {LawRow(ks) : ks \in LawSeqs}

(* what TLC establishes about the transcriptions themselves: the fallback parser recovers the keys from the
   built path exactly when no key contains a double quote; the PostgreSQL literal always carries the keys *)
LawOfTranscription == \A r \in LawTable : (r.rt <=> ~r.quote) /\ r.pgok
ASSUME PrintT(<<"LawOfTranscription", LawOfTranscription, Cardinality(LawTable)>>)

ASSUME JsonSerialize(IOEnv.OUT,
         [ keyorder |-> KeyOrder, strlens |-> StrLens,
           docs |-> DocSeq, keys |-> KeySeqSeq, ops |-> OpSeq, consts |-> ConstSeq, inkeys |-> InKeySeq, json |-> JsonTable, pairq |-> PairQSeq, pairs |-> PairTable,
           intarrs |-> IntArrSeq, intq |-> IntQSeq, intans |-> ArrTable(IntQSeq, IntArrSeq),
           strarrs |-> StrArrSeq, strq |-> StrQSeq, strans |-> ArrTable(StrQSeq, StrArrSeq),
           law |-> LawTable, lawholds |-> LawOfTranscription ])
=============================================================================
