--------------------------- MODULE SqlSemTables ---------------------------
(* Tables of the environment models inside SqlSem (SQLite's substr, Python slicing), exported so that the
   harness can compare them with the real SQLite engine and with CPython before they are used as oracles. *)
EXTENDS SqlSem, Json, IOUtils

Alphabet == <<"a", "b", "c", "d", "e", "f", "g", "h">>
Str(L) == SubSeq(Alphabet, 1, L)
Cnts == {Null} \cup {I(k) : k \in -3 .. 7}
Bnds == {Null} \cup {I(k) : k \in -7 .. 7}

SubstrTable == { [L |-> L, pos |-> p, cnt |-> c, out |-> SubstrSQLite(Str(L), p, c).v] :
                    L \in 0 .. 5, p \in -7 .. 7, c \in Cnts }
SliceTable  == { [L |-> L, i |-> i, j |-> j, out |-> PySlice(Str(L), i, j)] : L \in 0 .. 5, i \in Bnds, j \in Bnds }

ASSUME JsonSerialize(IOEnv.OUT, [substr |-> SubstrTable, slice |-> SliceTable])
=============================================================================
