---------------------------- MODULE PonyTxnTrace ----------------------------
(***************************************************************************)
(* Batch trace validation (binding V of DESIGN.md 2.2) for PonyTxn.        *)
(* Input (IOEnv.IN): {"traces": [ {"nthreads": n, "faults": f, "fowner": a,*)
(*   "evs": [event, ...]}, ... ]}.  Every event is one record with the     *)
(* same fields (unused ones carry defaults), written by the harness at the *)
(* linearisation point of one observable action of PonyTxn.                *)
(* A behaviour of this module picks one trace id, and every step consumes  *)
(* exactly one event with the PonyTxn action it names; variables that are  *)
(* not logged stay under the spec's control.  All PonyTxn invariants are   *)
(* evaluated after every consumed event (Track); the furthest position     *)
(* reached with all invariants true and the first violated invariant are   *)
(* kept per trace id in TLC registers and written to IOEnv.OUT at the end. *)
(* Run with -workers 1, CHECK_DEADLOCK FALSE.                              *)
(* A trace may start in the state of a forked child that is outside any    *)
(* session ("child" in the trace header: actor, its pooled connection -    *)
(* created by the parent -, the pid the pool recorded, its id counters):   *)
(* used to validate the sessions a child starts after it has ended a       *)
(* session it inherited (C36).                                             *)
(***************************************************************************)
EXTENDS PonyTxn, Json, IOUtils, TLCExt

VARIABLES tid, pos

Input  == JsonDeserialize(IOEnv.IN)
Traces == Input.traces
NT     == Len(Traces)
Evs    == Traces[tid].evs
Ev     == Evs[pos]

tvars == <<th, conns, lock, pre, committed, faults, fowner, forks, npid, dead, flags, tid, pos>>

ASSUME \A i \in 1..NT : TLCSet(i, 0) /\ TLCSet(NT + i, <<0, "">>) /\ TLCSet(2 * NT + i, <<0, "">>)

TInit ==
    /\ tid \in 1..NT
    /\ pos = 1
    /\ LET ch == Traces[tid].child IN
       /\ th = [a \in Actors |-> IF a = ch.a THEN [Fresh(2) EXCEPT !.pool = ch.pool, !.poolPid = ch.poolPid,
                                                                  !.nc = ch.nc, !.nwl = ch.nwl]
                                 ELSE IF a <= Traces[tid].nthreads THEN Fresh(1) ELSE Unborn]
       /\ conns = [c \in ConnIds |-> IF ch.a # 0 /\ c = ch.pool
                                     THEN [NoConn EXCEPT !.st = "open", !.creator = 1, !.by = 1, !.ready = TRUE]
                                     ELSE NoConn]
       /\ npid = IF ch.a # 0 THEN 2 ELSE 1
    /\ lock = [p \in Pids |-> 0] /\ pre = [p \in Pids |-> 0]
    /\ committed = {} /\ faults = Traces[tid].faults /\ fowner = Traces[tid].fowner
    /\ forks = MaxForks /\ dead = {}
    /\ flags = [foreignUse |-> FALSE, useAfterClose |-> FALSE, nestedBegin |-> FALSE, badRelease |-> FALSE]

\* which DB-API entry point / which connection the action at label l uses
OpAt(l) == CASE l = "CN1" -> "connect"
             [] l \in {"CN1a", "CN1b", "ES2", "ST2a", "ST2b", "ST3b", "RL2"} -> "exec"
             [] l \in {"ES1", "ST1", "RL1"} -> "cursor"
             [] l = "PV0c" -> "commit"
             [] l \in {"PR0c", "RL4"} -> "rollback"
             [] l \in {"CN1x", "PD0c", "RLxc", "RL4c"} -> "close"
             [] OTHER -> "?"
KindAt(L) == LET l == Lbl(L) IN
             CASE l \in {"CN1a", "CN1b", "ST2a", "ST2b", "RL2"} -> "pragma"
               [] l = "ST3b" -> "begin"
               [] l = "ES2" -> (IF Top(L).r.kind = "read" THEN "read" ELSE "write")
               [] OTHER -> "none"
ConnAt(a) == LET L == th[a] l == Lbl(L) IN
             CASE l = "CN1" -> (a - 1) * ConnPer + L.nc + 1
               [] l \in {"ES1", "ES2"} -> L.cconn
               [] OTHER -> L.cur

DbEvent(a, e) ==
    /\ OpAt(Lbl(th[a])) = e.op
    /\ ConnAt(a) = e.conn
    /\ e.op = "exec" => KindAt(th[a]) = e.kind
    /\ \/ DbConnect(a, e.out) \/ DbSetup1(a, e.out) \/ DbSetup2(a, e.out) \/ DbSetupClose(a, e.out)
       \/ DbCursor(a, e.out) \/ DbExec(a, e.w, e.out)
       \/ DbModeCursor(a, e.out) \/ DbModeFkRead(a, e.out) \/ DbModeFkOff(a, e.out) \/ DbBegin(a, e.out)
       \/ DbCommit(a, e.out) \/ DbRollback(a, e.out) \/ DbDropClose(a, e.out)
       \/ DbRelCursor(a, e.out) \/ DbRelFkOn(a, e.out) \/ DbRelFkClose(a, e.out)
       \/ DbPoolRollback(a, e.out) \/ DbPoolDropClose(a, e.out)

BodyEvent(a, e) ==
    CASE e.op = "read"     -> BodyRead(a)
      [] e.op = "write"    -> BodyWrite(a) /\ e.w \in th'[a].pend
      [] e.op = "rawwrite" -> BodyRawWrite(a) /\ e.w \in th'[a].unit
      [] e.op = "flush"    -> BodyFlush(a)
      [] e.op = "commit"   -> BodyCommit(a)
      [] e.op = "rollback" -> BodyRollback(a)
      [] e.op = "nest"     -> BodyNest(a)
      [] e.op = "unnest"   -> th[a].depth > 1 /\ BodyReturn(a)
      [] e.op = "yield"    -> BodyYield(a)
      [] OTHER -> FALSE

BodyEndEvent(a, e) ==
    CASE e.out = "ok" -> th[a].depth = 1 /\ BodyReturn(a)
      [] e.out \in ExcKinds -> BodyRaise(a, e.out)
      [] OTHER -> Lbl(th[a]) = "BE" /\ Top(th[a]).x = e.out /\ BodyFail(a)

LockEvent(a, e) ==
    CASE e.op = "pre"      -> LockPre(a)
      [] e.op = "acquired" -> LockAcquire(a)
      [] e.op = "releasing" -> LockReleaseSetMode(a) \/ LockReleaseCommit(a) \/ LockReleaseRollback(a) \/ LockReleaseDrop(a)
      [] OTHER -> FALSE

IdleObs(a, e) ==         \* the harness's observation of a thread outside a session (no state change)
    /\ Resting(a)
    /\ e.locked = (lock[th[a].pid] # 0)
    /\ e.pooled = th[a].pool
    /\ th[a].pool # 0 => e.in_tx = conns[th[a].pool].inDbTx
    /\ {e.closed[i] : i \in 1..Len(e.closed)} = {c \in ConnIds : conns[c].by = a /\ conns[c].creator = th[a].pid /\ conns[c].closes > 0}
    /\ UNCHANGED vars

ToSet(s) == {s[i] : i \in 1..Len(s)}

Step ==
    LET e == Ev a == e.a IN
    CASE e.ev = "Start"     -> Start(a, e.form, e.kind, e.retry, e.dbr)
      [] e.ev = "BodyStart" -> BodyStart(a)
      [] e.ev = "Body"      -> BodyEvent(a, e)
      [] e.ev = "BodyEnd"   -> BodyEndEvent(a, e)
      [] e.ev = "Db"        -> DbEvent(a, e)
      [] e.ev = "Lock"      -> LockEvent(a, e)
      [] e.ev = "Resume"    -> Resume(a)
      [] e.ev = "End"       -> th[a].result = e.result /\ th[a].bodyRuns = e.runs /\ End(a)
      [] e.ev = "Fork"      -> Fork(a, e.b)
      [] e.ev = "Recover"   -> Recover(a) /\ committed = ToSet(e.dump)
      [] e.ev = "Dump"      -> committed = ToSet(e.dump) /\ UNCHANGED vars      \* database content read by an observer
      [] e.ev = "Idle"      -> IdleObs(a, e)
      [] OTHER -> FALSE

TNext == /\ pos <= Len(Evs)
         /\ Step
         /\ pos' = pos + 1 /\ tid' = tid

TSpec == TInit /\ [][TNext]_tvars

FailedInv ==
    CASE ~TypeOK -> "TypeOK"
      [] ~NoForeignConnUse -> "NoForeignConnUse"
      [] ~LockReleased -> "LockReleased"
      [] ~LockConsistent -> "LockConsistent"
      [] ~ConnAccounted -> "ConnAccounted"
      [] ~NeverBlockedByDead -> "NeverBlockedByDead"
      [] ~Atomic -> "Atomic"
      [] ~CommitIffSuccess -> "CommitIffSuccess"
      [] ~RetryBound -> "RetryBound"
      [] ~AttemptStartsClean -> "AttemptStartsClean"
      [] ~OutermostOnly -> "OutermostOnly"
      [] OTHER -> ""

\* properties that are recorded but do not stop the validation of the rest of the trace
SoftFailed == IF ~LockCoversTx THEN "LockCoversTx" ELSE ""

\* CONSTRAINT: bookkeeping per trace id; a state that violates an invariant is recorded and not extended
Track ==
    LET f == FailedInv g == SoftFailed IN
    IF f = "" THEN /\ (IF pos > TLCGet(tid) THEN TLCSet(tid, pos) ELSE TRUE)
                   /\ (IF g # "" /\ TLCGet(2 * NT + tid)[1] = 0 THEN TLCSet(2 * NT + tid, <<pos, g>>) ELSE TRUE)
    ELSE /\ (IF TLCGet(NT + tid)[1] = 0 THEN TLCSet(NT + tid, <<pos, f>>) ELSE TRUE)
         /\ FALSE

\* POSTCONDITION: write, per trace id, the furthest position and the violated invariant (0 = none)
Report == JsonSerialize(IOEnv.OUT, [i \in 1..NT |-> [reached |-> TLCGet(i), len |-> Len(Traces[i].evs),
                                                   inv |-> TLCGet(NT + i), soft |-> TLCGet(2 * NT + i)]])
=============================================================================
