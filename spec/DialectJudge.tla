---------------------------- MODULE DialectJudge ----------------------------
(* C02, binding E2: the SELECT statement the *real* translator of a dialect produced for a QuerySem query is
   evaluated with SqlSem!EvalSelect under that dialect's semantics on the QuerySem data sets and compared
   with QuerySem!RefEval (either admissible reading of a missing collection element).

   input  [rows: BOOLEAN, devs: names of the deviations recorded under C01, items: << [id, d, q, st, take, slice, ds] >>]
            q      the QuerySem query,  st  the serialised statement (harness/sqlast.py: ser_select),
            take   number of leading result columns compared (1 for entity results: the primary key; 0 = all),
            slice  <<>> or <<start, stop>> (stop = -1: open) applied to the expected sequence (LIMIT/OFFSET),
            ds     the data sets (indices) to judge on,  exp  per data set [r |-> RefEval's result, a |-> <<>> or
                   <<result under the other reading>>] as exported by QuerySemTables (C01's table) in the same run
   output per item and data set: agree / engine error / the rows SqlSem computed (always when In.rows: the
   harness compares them with the real SQLite engine, validating the SQLite instance of the model). *)
EXTENDS SqlSem, Json, IOUtils

Q == INSTANCE QuerySem

In == JsonDeserialize(IOEnv.IN)

(* expected value e against the value g the engine returns: Pony's converters turn 0/1 into bool; Oracle cannot
   store the empty string (outside the value domain every backend stores exactly) *)
SameOut(d, e, g) == IF e.t = "bool" /\ g.t = "int" THEN e.v = (g.v # 0)
                    ELSE IF d = "Oracle" /\ e.t = "str" /\ g.t = "null" THEN e.v = <<>>
                    ELSE SameVal(e, g)
RowOut(d, er, gr) == Len(er) = Len(gr) /\ \A j \in 1 .. Len(er) : SameOut(d, er[j], gr[j])

BagAgree(d, exp, got) ==
    /\ Len(exp) = Len(got)
    /\ \A i \in 1 .. Len(exp) :
          Cardinality({k \in 1 .. Len(exp) : SameRow(exp[k], exp[i])}) = Cardinality({k \in 1 .. Len(got) : RowOut(d, exp[i], got[k])})

HasNull(key) == \E j \in 1 .. Len(key) : IsNull(key[j])
SeqAgree(d, exp, keys, got) ==
    /\ BagAgree(d, exp, got)
    /\ LET free == {i \in 1 .. Len(exp) : HasNull(keys[i])}
           e2 == SelectSeq([i \in 1 .. Len(exp) |-> [r |-> exp[i], f |-> i \in free]], LAMBDA x : ~x.f)
           g2 == SelectSeq(got, LAMBDA r : ~\E i \in free : RowOut(d, exp[i], r))
       IN Len(e2) = Len(g2) /\ \A i \in 1 .. Len(e2) : RowOut(d, e2[i].r, g2[i])

Sliced(s, sl) == IF Len(sl) = 0 THEN s
                 ELSE LET lo == Min2(sl[1], Len(s))
                          hi == IF sl[2] < 0 THEN Len(s) ELSE Min2(sl[2], Len(s))
                      IN IF hi <= lo THEN <<>> ELSE SubSeq(s, lo + 1, hi)

Take(row, n) == IF n = 0 THEN row ELSE SubSeq(row, 1, n)

Agrees(it, r, got) ==
    IF r.kind = "seq" THEN SeqAgree(it.d, Sliced(r.rows, it.slice), Sliced(r.keys, it.slice), got)
    ELSE BagAgree(it.d, r.rows, got)

Verdict(it, j) ==
    LET k   == it.ds[j]
        D   == Q!DataSets[k]
        sql == EvalSelect(it.st, [tabs |-> D], it.d)
        got == [i \in 1 .. Len(sql.rows) |-> Take(sql.rows[i], it.take)]
        r1  == it.exp[j].r               \* QuerySem!RefEval(it.q, D), exported by QuerySemTables in the same run
        ok  == sql.ok /\ (Agrees(it, r1, got) \/ (Len(it.exp[j].a) > 0 /\ Agrees(it, it.exp[j].a[1], got)))
        \* not the Python answer, but exactly what C01 already records as a deviation of the translator itself
        \* (the same on every dialect): reported under C01, only counted here
        c01 == IF ok \/ ~sql.ok THEN <<>>
               ELSE SelectSeq(In.devs, LAMBDA dv : \E coll \in {"ignored"} : Agrees(it, Q!RunQuery(it.q, Q!Cx(D, coll, {dv})), got))
    IN [ds |-> k, ok |-> ok, err |-> ~sql.ok, c01 |-> c01,
        got |-> IF ok /\ ~In.rows THEN <<>> ELSE sql.rows,
        exp |-> IF ok THEN <<>> ELSE Sliced(r1.rows, it.slice)]

Report(it) == [id |-> it.id, res |-> [j \in 1 .. Len(it.ds) |-> Verdict(it, j)]]

ASSUME JsonSerialize(IOEnv.OUT, [i \in 1 .. Len(In.items) |-> Report(In.items[i])])
=============================================================================
