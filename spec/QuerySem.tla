------------------------------ MODULE QuerySem ------------------------------
(***************************************************************************)
(* C01 - the meaning of a declarative Pony query, stated at query level.   *)
(*                                                                         *)
(* Schema (fixed, mirrored by harness/props/c01.py):                       *)
(*    T (id: int PK; a, b: Optional int; s: Optional str (nullable);       *)
(*       flag: bool; ref: Optional T2; dt: Optional datetime)              *)
(*    T2(id: int PK; n: Optional int; ts: Set(T))   -- reverse of T.ref    *)
(*                                                                         *)
(* A query is a record                                                     *)
(*    [loops |-> << <<"x","T">> >>  or << <<"y","T2">>, <<"t","y","ts">> >>,*)
(*     cond  |-> boolean expression tree (<<"true">> when absent),         *)
(*     res   |-> tuple of result expressions (<<"var","x">> = the entity), *)
(*     ord   |-> tuple of <<key expression, "asc"|"desc">>,                *)
(*     agg   |-> "none" | "count" | "sum" | "min" | "max"]                 *)
(* i.e.  select(res for x in T if cond).order_by(ord)  /  agg(res for ..). *)
(* Expression trees are tuples whose first element is the node tag, so     *)
(* that TLC never has to compare values of different kinds.                *)
(*                                                                         *)
(* RefEval is the meaning the property states:                             *)
(*   - a comparison (== != < <= > >=, startswith, endswith, in) with a     *)
(*     missing (None) operand is UNKNOWN; arithmetic, len, upper, lower,   *)
(*     concatenation and navigation propagate a missing value;             *)
(*   - and / or / not are Kleene's three-valued connectives;               *)
(*   - a truth test of a value (an int/str/entity used where a boolean is  *)
(*     needed: node "truth") is two-valued, None is false;                 *)
(*   - a row is kept iff the condition is TRUE; the condition of a         *)
(*     conditional expression selects the else branch unless TRUE;         *)
(*   - results: entities and projections are sets (Pony documents          *)
(*     automatic DISTINCT), order_by gives a sequence, aggregates ignore   *)
(*     missing values (sum of nothing = 0, min/max of nothing = None).     *)
(* Membership `v in coll` (subquery, attribute set): a missing tested value *)
(* v makes the test UNKNOWN (it is a comparison with a missing value); a   *)
(* missing *element* of the collection is not a member and is ignored -    *)
(* Python's `g not in [g1, None]` is simply True, so the answer is         *)
(* determined (cx.coll = "ignored"; the SQL reading "unknown" only         *)
(* survives inside the known deviation "notsubq").                         *)
(*                                                                         *)
(* cx.dev is a set of names of *known deviations* of Pony (recorded        *)
(* findings); RefEval with a non-empty cx.dev describes what Pony does     *)
(* instead of what it should do and is only used to attribute an observed  *)
(* disagreement to a recorded finding (QuerySemJudge.tla).                 *)
(*                                                                         *)
(* PyEval is plain Python evaluation (two-valued, `and`/`or` return their  *)
(* operands); QuerySemLaws.tla lets TLC check that RefEval coincides with  *)
(* it on None-free rows, and the Kleene laws RefEval relies on.            *)
(***************************************************************************)
EXTENDS Integers, Sequences, FiniteSets, TLC

VNull == [t |-> "null"]
VErr  == [t |-> "err"]
VI(n) == [t |-> "int", v |-> n]
VB(b) == [t |-> "bool", v |-> b]
VS(s) == [t |-> "str", v |-> s]
VD(m) == [t |-> "dt", v |-> m]       \* a datetime: minutes since 2020-01-01 00:00

IsNone(x) == x.t = "null"
SameV(a, b) == a.t = b.t /\ (a.t \in {"null", "err"} \/ a.v = b.v)
IsTrue(x) == x.t = "bool" /\ x.v

---------------------------------------------------------------------------
(* Kleene connectives over VB(TRUE), VB(FALSE), VNull (= unknown) *)
KAnd(p, q) == IF (p.t = "bool" /\ ~p.v) \/ (q.t = "bool" /\ ~q.v) THEN VB(FALSE)
              ELSE IF IsNone(p) \/ IsNone(q) THEN VNull ELSE VB(TRUE)
KOr(p, q)  == IF (p.t = "bool" /\ p.v) \/ (q.t = "bool" /\ q.v) THEN VB(TRUE)
              ELSE IF IsNone(p) \/ IsNone(q) THEN VNull ELSE VB(FALSE)
KNot(p)    == IF IsNone(p) THEN VNull ELSE VB(~p.v)

(* truth test of a value: None is false *)
TruthOf(x) == CASE x.t = "null" -> VB(FALSE)
                [] x.t = "bool" -> x
                [] x.t = "int"  -> VB(x.v # 0)
                [] x.t = "str"  -> VB(x.v # <<>>)
                [] OTHER        -> VErr

---------------------------------------------------------------------------
(* strings are sequences of one-character strings *)
IsPrefix(p, s) == Len(p) <= Len(s) /\ SubSeq(s, 1, Len(p)) = p
IsSuffix(p, s) == Len(p) <= Len(s) /\ SubSeq(s, Len(s) - Len(p) + 1, Len(s)) = p
IsInfix(p, s)  == \E i \in 0 .. (Len(s) - Len(p)) : SubSeq(s, i + 1, i + Len(p)) = p

UpChar(c) == CASE c = "a" -> "A" [] c = "b" -> "B" [] c = "c" -> "C" [] OTHER -> c
LoChar(c) == CASE c = "A" -> "a" [] c = "B" -> "b" [] c = "C" -> "c" [] OTHER -> c
Upper(s) == [i \in 1 .. Len(s) |-> UpChar(s[i])]
Lower(s) == [i \in 1 .. Len(s) |-> LoChar(s[i])]

IntCmp(op, x, y) == CASE op = "==" -> x = y  [] op = "!=" -> x # y
                      [] op = "<"  -> x < y  [] op = "<=" -> x <= y
                      [] op = ">"  -> x > y  [] op = ">=" -> x >= y

(* floor division as in Python (divisor is a non-zero constant in the grammar) *)
FloorDiv(x, y) == IF y > 0 THEN x \div y ELSE (-x) \div (-y)
(* SQL integer division: truncation towards zero (known deviation "sqldiv") *)
TruncDiv(x, y) == LET ax == IF x < 0 THEN -x ELSE x
                      ay == IF y < 0 THEN -y ELSE y
                      q  == ax \div ay
                  IN IF (x < 0) = (y < 0) THEN q ELSE -q

---------------------------------------------------------------------------
(* children of a node that are expressions over the same environment (used by the generic traversals) *)
Children(e) ==
    LET tag == e[1] IN
    CASE tag \in {"attr", "nav", "int", "str", "var", "true", "setattr", "setagg", "param"} -> <<>>
      [] tag \in {"dtadd", "dtsub", "dtaddp"} -> <<e[2]>>
      [] tag \in {"neg", "abs", "len", "upper", "lower", "not", "truth", "isnone", "notnone"} -> <<e[2]>>
      [] tag \in {"bin", "cmp"} -> <<e[3], e[4]>>
      [] tag \in {"concat", "and", "or", "startswith", "endswith", "contains", "notcontains", "coalesce"} -> <<e[2], e[3]>>
      [] tag \in {"intuple", "notintuple"} -> <<e[2]>>
      [] tag = "ifexp" -> <<e[2], e[3], e[4]>>
      [] tag \in {"insub", "notinsub", "insetattr", "notinsetattr"} -> <<e[2]>>
      [] tag = "exists" -> <<>>
      [] OTHER -> <<>>

(* does the expression navigate through a missing reference in this environment (outside subqueries) *)
RECURSIVE NavMissing(_, _)
NavMissing(e, env) ==
    \/ (e[1] = "nav" /\ IsNone(env[e[2]].ref))
    \/ \E i \in 1 .. Len(Children(e)) : NavMissing(Children(e)[i], env)

(* does the expression test membership in a collection of values (the only place where cx.coll matters) *)
RECURSIVE HasMember(_)
HasMember(e) == \/ e[1] \in {"insub", "notinsub", "insetattr", "notinsetattr"}
                \/ \E i \in 1 .. Len(Children(e)) : HasMember(Children(e)[i])

EmptyEnv == [v \in {} |-> 0]

---------------------------------------------------------------------------
RECURSIVE EvalV(_, _, _)
RECURSIVE EnvsFrom(_, _, _, _, _, _)
RECURSIVE SumOf(_, _)
RECURSIVE ExtOf(_, _, _, _)

(* rows a loop <<var, "T">> / <<var, "T2">> / <<var, parent, "ts">> ranges over *)
SrcRows(loop, env, cx) ==
    IF Len(loop) = 2 THEN (IF loop[2] = "T" THEN cx.D.T ELSE cx.D.T2)
    ELSE LET pid == env[loop[2]].id.v IN SelectSeq(cx.D.T, LAMBDA r : r.ref.t = "int" /\ r.ref.v = pid)

(* all environments of the nested loops loops[k..], extending env *)
EnvsFrom(loops, k, env, cx, rows, i) ==
    IF k > Len(loops) THEN <<env>>
    ELSE IF i > Len(rows) THEN <<>>
    ELSE LET env2 == (loops[k][1] :> rows[i]) @@ env
             deeper == IF k = Len(loops) THEN <<env2>>
                       ELSE EnvsFrom(loops, k + 1, env2, cx, SrcRows(loops[k + 1], env2, cx), 1)
         IN deeper \o EnvsFrom(loops, k, env, cx, rows, i + 1)

Envs(loops, env, cx) == EnvsFrom(loops, 1, env, cx, SrcRows(loops[1], env, cx), 1)

SumOf(vals, i) == IF i > Len(vals) THEN 0
                  ELSE (IF IsNone(vals[i]) THEN 0 ELSE vals[i].v) + SumOf(vals, i + 1)
(* min / max of the non-missing values, VNull if there is none *)
ExtOf(fn, vals, i, acc) ==
    IF i > Len(vals) THEN acc
    ELSE LET x == vals[i]
             nxt == IF IsNone(x) THEN acc
                    ELSE IF IsNone(acc) THEN x
                    ELSE IF fn = "max" THEN (IF x.v > acc.v THEN x ELSE acc) ELSE (IF x.v < acc.v THEN x ELSE acc)
         IN ExtOf(fn, vals, i + 1, nxt)

Aggregate(fn, vals) ==
    CASE fn = "sum" -> VI(SumOf(vals, 1))
      [] fn = "count" -> VI(Len(vals))
      [] fn \in {"min", "max"} -> ExtOf(fn, vals, 1, VNull)

(* v in coll, three-valued; cx.coll decides what a missing element means (see header) *)
Member(v, coll, cx) ==
    IF Len(coll) = 0 THEN VB(FALSE)
    ELSE IF IsNone(v) THEN VNull
    ELSE IF \E i \in 1 .. Len(coll) : SameV(coll[i], v) THEN VB(TRUE)
    ELSE IF cx.coll = "unknown" /\ (\E i \in 1 .. Len(coll) : IsNone(coll[i])) THEN VNull
    ELSE VB(FALSE)

(* operand of and/or: under the known deviation "nonzero" the truth test of a missing value is unknown *)
Operand(e, env, cx) ==
    IF e[1] = "truth" /\ "nonzero" \in cx.dev
    THEN (LET x == EvalV(e[2], env, cx) IN IF IsNone(x) THEN VNull ELSE TruthOf(x))
    ELSE EvalV(e, env, cx)

EvalV(e, env, cx) ==
    LET tag == e[1] IN
    CASE tag = "attr" -> env[e[2]][e[3]]
      [] tag = "var"  -> env[e[2]].id
      [] tag = "nav"  ->     \* x.ref.n
            LET r == env[e[2]].ref IN
            IF IsNone(r) THEN VNull
            ELSE LET hits == SelectSeq(cx.D.T2, LAMBDA u : u.id.v = r.v) IN hits[1][e[4]]
      [] tag = "int"  -> VI(e[2])
      [] tag = "str"  -> VS(e[2])
      [] tag = "true" -> VB(TRUE)
      [] tag = "param" -> EvalV(e[2], env, cx)      \* a Python variable of the enclosing scope holding the constant e[2]
      \* e[2] + timedelta(minutes=e[3]) / e[2] - timedelta(minutes=e[3]) / e[2] + <variable holding timedelta(minutes=e[3])>
      [] tag \in {"dtadd", "dtsub", "dtaddp"} ->
            LET x == EvalV(e[2], env, cx) IN
            IF IsNone(x) THEN VNull ELSE VD(IF tag = "dtsub" THEN x.v - e[3] ELSE x.v + e[3])
      [] tag = "bin"  ->
            LET x == EvalV(e[3], env, cx)
                y == EvalV(e[4], env, cx)
                op == e[2]
            IN IF IsNone(x) \/ IsNone(y) THEN VNull
               ELSE IF op = "+" THEN VI(x.v + y.v)
               ELSE IF op = "-" THEN VI(x.v - y.v)
               ELSE IF op = "*" THEN VI(x.v * y.v)
               ELSE IF y.v = 0 THEN VErr       \* "//"
               ELSE IF "sqldiv" \in cx.dev THEN VI(TruncDiv(x.v, y.v)) ELSE VI(FloorDiv(x.v, y.v))
      [] tag = "neg"  -> LET x == EvalV(e[2], env, cx) IN IF IsNone(x) THEN VNull ELSE VI(-x.v)
      [] tag = "abs"  -> LET x == EvalV(e[2], env, cx) IN IF IsNone(x) THEN VNull ELSE VI(IF x.v < 0 THEN -x.v ELSE x.v)
      [] tag = "len"  -> LET x == EvalV(e[2], env, cx) IN IF IsNone(x) THEN VNull ELSE VI(Len(x.v))
      [] tag = "upper" -> LET x == EvalV(e[2], env, cx) IN IF IsNone(x) THEN VNull ELSE VS(Upper(x.v))
      [] tag = "lower" -> LET x == EvalV(e[2], env, cx) IN IF IsNone(x) THEN VNull ELSE VS(Lower(x.v))
      [] tag = "concat" ->
            LET x == EvalV(e[2], env, cx)
                y == EvalV(e[3], env, cx)
            IN IF IsNone(x) \/ IsNone(y) THEN VNull ELSE VS(x.v \o y.v)
      [] tag = "coalesce" -> LET x == EvalV(e[2], env, cx) IN IF IsNone(x) THEN EvalV(e[3], env, cx) ELSE x
      [] tag = "cmp"  ->
            LET x == EvalV(e[3], env, cx)
                y == EvalV(e[4], env, cx)
                op == e[2]
            IN IF IsNone(x) \/ IsNone(y) THEN VNull
               ELSE IF x.t # y.t THEN VErr
               ELSE IF x.t \in {"int", "dt"} THEN VB(IntCmp(op, x.v, y.v))
               ELSE IF op = "==" THEN VB(x.v = y.v)
               ELSE IF op = "!=" THEN VB(x.v # y.v)
               ELSE VErr
      [] tag = "and"  -> KAnd(Operand(e[2], env, cx), Operand(e[3], env, cx))
      [] tag = "or"   -> KOr(Operand(e[2], env, cx), Operand(e[3], env, cx))
      [] tag = "not"  ->
            \* (CPython compiles `not (a in b)` to `a not in b`: under the deviation both spellings behave alike)
            IF "strnotin" \in cx.dev /\ e[2][1] = "contains" THEN EvalV(<<"notcontains", e[2][2], e[2][3]>>, env, cx)
            \* known deviation "notsubq": `not (v in (subquery))` lacks the IS NOT NULL guard of `v not in (subquery)`,
            \* so a missing element makes it unknown
            ELSE IF "notsubq" \in cx.dev /\ e[2][1] = "insub" THEN KNot(EvalV(e[2], env, [cx EXCEPT !.coll = "unknown"]))
            ELSE KNot(EvalV(e[2], env, cx))
      [] tag = "truth" ->
            IF e[2][1] = "setattr" THEN VB(Len(SrcRows(<<"_", e[2][2], e[2][3]>>, env, cx)) > 0)
            ELSE TruthOf(EvalV(e[2], env, cx))
      [] tag = "isnone"  -> VB(IsNone(EvalV(e[2], env, cx)))
      [] tag = "notnone" -> VB(~IsNone(EvalV(e[2], env, cx)))
      [] tag \in {"startswith", "endswith"} ->       \* e[2].startswith(e[3])
            LET x == EvalV(e[2], env, cx)
                p == EvalV(e[3], env, cx)
            IN IF IsNone(x) \/ IsNone(p) THEN VNull
               ELSE VB(IF tag = "startswith" THEN IsPrefix(p.v, x.v) ELSE IsSuffix(p.v, x.v))
      [] tag \in {"contains", "notcontains"} ->      \* e[2] in e[3]   /   e[2] not in e[3]   (strings)
            LET p == EvalV(e[2], env, cx)
                x == EvalV(e[3], env, cx)
            IN IF tag = "notcontains" /\ "strnotin" \in cx.dev /\ IsNone(x)
               \* known deviation: a missing attribute makes `not in` true, a missing expression counts as ''
               THEN (IF e[3][1] = "attr" THEN VB(TRUE) ELSE IF IsNone(p) THEN VNull ELSE VB(~IsInfix(p.v, <<>>)))
               ELSE IF IsNone(x) \/ IsNone(p) THEN VNull
               ELSE IF tag = "contains" THEN VB(IsInfix(p.v, x.v)) ELSE VB(~IsInfix(p.v, x.v))
      [] tag \in {"intuple", "notintuple"} ->        \* e[2] in (c1, c2, ..): e[3] is a tuple of constants of one type
            LET x == EvalV(e[2], env, cx)
                hit == \E i \in 1 .. Len(e[3]) : e[3][i] = x.v
            IN IF IsNone(x) THEN VNull ELSE VB(IF tag = "intuple" THEN hit ELSE ~hit)
      [] tag = "ifexp" ->                            \* e[2] if e[3] else e[4]
            IF IsTrue(EvalV(e[3], env, cx)) THEN EvalV(e[2], env, cx) ELSE EvalV(e[4], env, cx)
      [] tag = "exists" ->                           \* exists(v for v in src if cond): <<"exists", loops, cond>>
            LET es == Envs(e[2], env, cx) IN
            VB(\E i \in 1 .. Len(es) : IsTrue(EvalV(e[3], es[i], cx)))
      [] tag \in {"insub", "notinsub"} ->            \* e[2] in (expr for v in src if cond): <<tag, e, loops, expr, cond>>
            LET es == SelectSeq(Envs(e[3], env, cx), LAMBDA en : IsTrue(EvalV(e[5], en, cx)))
                coll == [i \in 1 .. Len(es) |-> EvalV(e[4], es[i], cx)]
                m == Member(EvalV(e[2], env, cx), coll, cx)
            IN IF tag = "insub" THEN m ELSE KNot(m)
      [] tag \in {"insetattr", "notinsetattr"} ->    \* e[2] in y.ts.a: <<tag, e, "y", "ts", "a">>
            LET rows == SrcRows(<<"_", e[3], e[4]>>, env, cx)
                coll == [i \in 1 .. Len(rows) |-> rows[i][e[5]]]
                m == Member(EvalV(e[2], env, cx), coll, cx)
            IN IF tag = "insetattr" THEN m ELSE KNot(m)
      [] tag = "setagg" ->                           \* count(y.ts) / sum(y.ts.a) / max(y.ts.b): <<"setagg", fn, "y", "ts", attr>>
            LET rows == SrcRows(<<"_", e[3], e[4]>>, env, cx)
                vals == [i \in 1 .. Len(rows) |-> rows[i][e[5]]]
            IN Aggregate(e[2], vals)
      [] OTHER -> VErr

---------------------------------------------------------------------------
(* query level *)
RowEq(r1, r2) == Len(r1) = Len(r2) /\ \A j \in 1 .. Len(r1) : SameV(r1[j], r2[j])

RECURSIVE Dedupe(_, _, _)
Dedupe(rows, i, acc) ==
    IF i > Len(rows) THEN acc
    ELSE IF \E k \in 1 .. Len(acc) : RowEq(acc[k], rows[i]) THEN Dedupe(rows, i + 1, acc)
    ELSE Dedupe(rows, i + 1, Append(acc, rows[i]))

RECURSIVE DedupeItems(_, _, _)
DedupeItems(items, i, acc) ==
    IF i > Len(items) THEN acc
    ELSE IF \E k \in 1 .. Len(acc) : RowEq(acc[k].row, items[i].row) THEN DedupeItems(items, i + 1, acc)
    ELSE DedupeItems(items, i + 1, Append(acc, items[i]))

(* k1 strictly before k2 under the directions dirs; a missing key sorts first (its position is not compared by the harness) *)
RECURSIVE KeyLess(_, _, _, _)
KeyLess(k1, k2, dirs, j) ==
    IF j > Len(k1) THEN FALSE
    ELSE LET x == k1[j]
             y == k2[j]
             lt == IF IsNone(x) THEN ~IsNone(y) ELSE IF IsNone(y) THEN FALSE ELSE x.v < y.v
             gt == IF IsNone(y) THEN ~IsNone(x) ELSE IF IsNone(x) THEN FALSE ELSE x.v > y.v
         IN IF dirs[j] = "asc" THEN (lt \/ (~gt /\ KeyLess(k1, k2, dirs, j + 1)))
            ELSE (gt \/ (~lt /\ KeyLess(k1, k2, dirs, j + 1)))

(* insertion sort of items [row, key] *)
RECURSIVE InsertSorted(_, _, _, _)
InsertSorted(sorted, item, dirs, i) ==
    IF i > Len(sorted) THEN Append(sorted, item)
    ELSE IF KeyLess(item.key, sorted[i].key, dirs, 1)
         THEN SubSeq(sorted, 1, i - 1) \o <<item>> \o SubSeq(sorted, i, Len(sorted))
         ELSE InsertSorted(sorted, item, dirs, i + 1)
RECURSIVE SortItems(_, _, _, _)
SortItems(items, dirs, i, acc) ==
    IF i > Len(items) THEN acc ELSE SortItems(items, dirs, i + 1, InsertSorted(acc, items[i], dirs, 1))

QueryNavMissing(q, env) ==
    \/ NavMissing(q.cond, env)
    \/ (Len(q.res) = 1 /\ q.res[1][1] = "attr" /\ q.res[1][3] = "ref" /\ IsNone(env[q.res[1][2]].ref))
    \/ \E j \in 1 .. Len(q.res) : NavMissing(q.res[j], env)
    \/ \E j \in 1 .. Len(q.ord) : NavMissing(q.ord[j][1], env)

(* known deviation "ifexpfilter" (generator way): the decompiler folds the filter of
   `(A if c else B for x in T if f)` into the condition of the conditional expression: (A if (f and c) else B for x in T) *)
Refold(q, cx) ==
    IF "ifexpfilter" \in cx.dev /\ Len(q.res) = 1 /\ q.res[1][1] = "ifexp" /\ q.cond[1] # "true"
    THEN [q EXCEPT !.cond = <<"true">>, !.res = << <<"ifexp", q.res[1][2], <<"and", q.cond, q.res[1][3]>>, q.res[1][4]>> >>]
    ELSE q

RunQuery(q0, cx) ==
    LET q == Refold(q0, cx)
        envs0 == Envs(q.loops, EmptyEnv, cx)
        \* known deviation "innerjoin": x.ref.n anywhere in the query drops the rows whose ref is missing
        envs1 == IF "innerjoin" \in cx.dev THEN SelectSeq(envs0, LAMBDA en : ~QueryNavMissing(q, en)) ELSE envs0
        kept  == SelectSeq(envs1, LAMBDA en : IsTrue(EvalV(q.cond, en, cx)))
        rows  == [i \in 1 .. Len(kept) |-> [j \in 1 .. Len(q.res) |-> EvalV(q.res[j], kept[i], cx)]]
    IN IF q.agg # "none"
       THEN [kind |-> "val",
             rows |-> << << Aggregate(q.agg, IF q.agg = "count" THEN Dedupe(rows, 1, <<>>)
                                             ELSE [i \in 1 .. Len(rows) |-> rows[i][1]]) >> >>,
             keys |-> <<>>]
       ELSE IF Len(q.ord) = 0
       THEN [kind |-> "set", rows |-> Dedupe(rows, 1, <<>>), keys |-> <<>>]
       ELSE LET dirs  == [j \in 1 .. Len(q.ord) |-> q.ord[j][2]]
                items == [i \in 1 .. Len(kept) |->
                            [row |-> rows[i], key |-> [j \in 1 .. Len(q.ord) |-> EvalV(q.ord[j][1], kept[i], cx)]]]
                \* set semantics first (known deviation "ordbag": an ordered projection keeps duplicates)
                uniq  == IF "ordbag" \in cx.dev THEN items ELSE DedupeItems(items, 1, <<>>)
                sorted == SortItems(uniq, dirs, 1, <<>>)
            IN [kind |-> "seq", rows |-> [i \in 1 .. Len(sorted) |-> sorted[i].row],
                keys |-> [i \in 1 .. Len(sorted) |-> sorted[i].key]]

Cx(D, coll, dev) == [D |-> D, coll |-> coll, dev |-> dev]
RefEval(q, D) == RunQuery(q, Cx(D, "ignored", {}))
RefEvalAlt(q, D) == RunQuery(q, Cx(D, "unknown", {}))     \* the SQL reading; QuerySemLaws: coincides on None-free data

SameResult(r1, r2) ==
    /\ r1.kind = r2.kind
    /\ Len(r1.rows) = Len(r2.rows)
    /\ IF r1.kind = "set"
       THEN /\ \A i \in 1 .. Len(r1.rows) : \E k \in 1 .. Len(r2.rows) : RowEq(r1.rows[i], r2.rows[k])
            /\ \A i \in 1 .. Len(r2.rows) : \E k \in 1 .. Len(r1.rows) : RowEq(r2.rows[i], r1.rows[k])
       ELSE \A i \in 1 .. Len(r1.rows) : RowEq(r1.rows[i], r2.rows[i])

---------------------------------------------------------------------------
(* Plain Python evaluation of a subquery-free expression on one environment: no unknown, `and`/`or`     *)
(* return an operand, comparisons give bool; a None where Python would raise gives VErr.  Written       *)
(* independently of EvalV on purpose: QuerySemLaws compares the two on None-free rows.                  *)
PyTruthy(x) == CASE x.t = "null" -> FALSE [] x.t = "bool" -> x.v [] x.t = "int" -> x.v # 0
                 [] x.t = "str" -> Len(x.v) > 0 [] OTHER -> FALSE

RECURSIVE PyEval(_, _, _)
PyEval(e, env, D) ==
    LET tag == e[1]
        U1 == IF Len(e) >= 2 /\ tag \in {"neg", "abs", "len", "upper", "lower", "not", "truth", "isnone", "notnone"}
              THEN PyEval(e[2], env, D) ELSE VErr
    IN
    CASE tag = "attr" -> env[e[2]][e[3]]
      [] tag = "var"  -> env[e[2]].id
      [] tag = "nav"  -> LET r == env[e[2]].ref IN
                         IF IsNone(r) THEN VErr ELSE (CHOOSE u \in {D.T2[i] : i \in 1 .. Len(D.T2)} : u.id.v = r.v)[e[4]]
      [] tag = "int"  -> VI(e[2])
      [] tag = "str"  -> VS(e[2])
      [] tag = "true" -> VB(TRUE)
      [] tag = "param" -> PyEval(e[2], env, D)
      [] tag \in {"dtadd", "dtsub", "dtaddp"} ->
            LET x == PyEval(e[2], env, D) IN
            IF x.t # "dt" THEN VErr ELSE IF tag = "dtsub" THEN VD(x.v - e[3]) ELSE VD(x.v + e[3])
      [] tag = "bin"  -> LET x == PyEval(e[3], env, D)
                             y == PyEval(e[4], env, D)
                         IN IF x.t # "int" \/ y.t # "int" THEN VErr
                            ELSE IF e[2] = "+" THEN VI(x.v + y.v)
                            ELSE IF e[2] = "-" THEN VI(x.v - y.v)
                            ELSE IF e[2] = "*" THEN VI(x.v * y.v)
                            ELSE IF y.v = 0 THEN VErr ELSE VI(FloorDiv(x.v, y.v))
      [] tag = "neg"  -> IF U1.t # "int" THEN VErr ELSE VI(0 - U1.v)
      [] tag = "abs"  -> IF U1.t # "int" THEN VErr ELSE (IF U1.v >= 0 THEN U1 ELSE VI(0 - U1.v))
      [] tag = "len"  -> IF U1.t # "str" THEN VErr ELSE VI(Len(U1.v))
      [] tag = "upper" -> IF U1.t # "str" THEN VErr ELSE VS(Upper(U1.v))
      [] tag = "lower" -> IF U1.t # "str" THEN VErr ELSE VS(Lower(U1.v))
      [] tag = "concat" -> LET x == PyEval(e[2], env, D)
                               y == PyEval(e[3], env, D)
                           IN IF x.t # "str" \/ y.t # "str" THEN VErr ELSE VS(x.v \o y.v)
      [] tag = "coalesce" -> LET x == PyEval(e[2], env, D) IN IF IsNone(x) THEN PyEval(e[3], env, D) ELSE x
      [] tag = "cmp"  -> LET x == PyEval(e[3], env, D)
                             y == PyEval(e[4], env, D)
                         IN IF x.t \in {"null", "err"} \/ y.t \in {"null", "err"} \/ x.t # y.t THEN VErr
                            ELSE IF x.t = "int" \/ x.t = "dt" THEN VB(IntCmp(e[2], x.v, y.v))
                            ELSE IF e[2] = "==" THEN VB(x.v = y.v) ELSE IF e[2] = "!=" THEN VB(~(x.v = y.v)) ELSE VErr
      \* x and y: x if x is falsy else y;  x or y: x if x is truthy else y
      [] tag = "and"  -> LET x == PyEval(e[2], env, D) IN IF PyTruthy(x) THEN PyEval(e[3], env, D) ELSE x
      [] tag = "or"   -> LET x == PyEval(e[2], env, D) IN IF PyTruthy(x) THEN x ELSE PyEval(e[3], env, D)
      [] tag = "not"  -> VB(~PyTruthy(U1))
      [] tag = "truth" -> U1          \* Python has no coercion node: the value itself is tested by its context
      [] tag = "isnone"  -> VB(U1.t = "null")
      [] tag = "notnone" -> VB(U1.t # "null")
      [] tag \in {"startswith", "endswith"} ->
            LET x == PyEval(e[2], env, D)
                p == PyEval(e[3], env, D)
            IN IF x.t # "str" \/ p.t # "str" THEN VErr
               ELSE IF Len(p.v) > Len(x.v) THEN VB(FALSE)
               ELSE IF tag = "startswith" THEN VB(\A i \in 1 .. Len(p.v) : x.v[i] = p.v[i])
               ELSE VB(\A i \in 1 .. Len(p.v) : x.v[Len(x.v) - Len(p.v) + i] = p.v[i])
      [] tag \in {"contains", "notcontains"} ->
            LET p == PyEval(e[2], env, D)
                x == PyEval(e[3], env, D)
                found == \E k \in 1 .. (Len(x.v) - Len(p.v) + 1) : \A i \in 1 .. Len(p.v) : x.v[k + i - 1] = p.v[i]
            IN IF x.t # "str" \/ p.t # "str" THEN VErr
               ELSE VB(IF tag = "contains" THEN (Len(p.v) = 0 \/ found) ELSE ~(Len(p.v) = 0 \/ found))
      [] tag \in {"intuple", "notintuple"} ->
            LET x == PyEval(e[2], env, D)
                n == Cardinality({i \in 1 .. Len(e[3]) : x.t \in {"int", "str"} /\ e[3][i] = x.v})
            IN IF x.t = "err" THEN VErr ELSE VB(IF tag = "intuple" THEN n > 0 ELSE n = 0)
      [] tag = "ifexp" -> IF PyTruthy(PyEval(e[3], env, D)) THEN PyEval(e[2], env, D) ELSE PyEval(e[4], env, D)
      [] OTHER -> VErr

---------------------------------------------------------------------------
(* types of expressions: the grammar below only builds well-typed trees; trees supplied from outside   *)
(* (the sampled depth-3 trees of the thorough tier) are checked with TypeOf before they are evaluated. *)
IntAttr == {"a", "b", "id"}
RECURSIVE TypeOf(_)
TypeOf(e) ==
    LET tag == e[1]
        T(i) == TypeOf(e[i])
    IN
    CASE tag = "attr" -> IF e[3] \in IntAttr \/ (e[3] = "n") THEN "int"
                         ELSE IF e[3] = "s" THEN "str" ELSE IF e[3] = "flag" THEN "bool"
                         ELSE IF e[3] = "ref" THEN "ent" ELSE IF e[3] = "dt" THEN "dt" ELSE "bad"
      [] tag = "var" -> "ent"
      [] tag = "nav" -> IF e[3] = "ref" /\ e[4] = "n" THEN "int" ELSE "bad"
      [] tag = "int" -> "int"
      [] tag = "str" -> "str"
      [] tag = "true" -> "bool"
      [] tag = "param" -> IF e[2][1] \in {"int", "str"} THEN T(2) ELSE "bad"
      [] tag \in {"dtadd", "dtsub", "dtaddp"} -> IF T(2) = "dt" THEN "dt" ELSE "bad"
      [] tag = "setattr" -> "set"
      [] tag = "bin" -> IF e[2] \in {"+", "-", "*", "//"} /\ T(3) = "int" /\ T(4) = "int" THEN "int" ELSE "bad"
      [] tag \in {"neg", "abs"} -> IF T(2) = "int" THEN "int" ELSE "bad"
      [] tag = "len" -> IF T(2) = "str" THEN "int" ELSE "bad"
      [] tag \in {"upper", "lower"} -> IF T(2) = "str" THEN "str" ELSE "bad"
      [] tag = "concat" -> IF T(2) = "str" /\ T(3) = "str" THEN "str" ELSE "bad"
      [] tag = "coalesce" -> IF T(2) = T(3) /\ T(2) \in {"int", "str"} THEN T(2) ELSE "bad"
      [] tag = "cmp" -> IF T(3) = T(4) /\ ((T(3) \in {"int", "dt"} /\ e[2] \in {"==", "!=", "<", "<=", ">", ">="})
                                           \/ (T(3) \in {"str", "bool"} /\ e[2] \in {"==", "!="})) THEN "bool" ELSE "bad"
      [] tag \in {"and", "or"} -> IF T(2) = "bool" /\ T(3) = "bool" THEN "bool" ELSE "bad"
      [] tag = "not" -> IF T(2) = "bool" THEN "bool" ELSE "bad"
      [] tag = "truth" -> IF T(2) \in {"int", "str", "ent", "set"} THEN "bool" ELSE "bad"
      [] tag \in {"isnone", "notnone"} -> IF T(2) \in {"int", "str", "ent", "dt"} THEN "bool" ELSE "bad"
      [] tag \in {"startswith", "endswith", "contains", "notcontains"} -> IF T(2) = "str" /\ T(3) = "str" THEN "bool" ELSE "bad"
      [] tag \in {"intuple", "notintuple"} -> IF T(2) \in {"int", "str"} /\ Len(e[3]) > 0 THEN "bool" ELSE "bad"
      [] tag = "ifexp" -> IF T(3) = "bool" /\ T(2) = T(4) /\ T(2) \in {"int", "str"} THEN T(2) ELSE "bad"
      [] tag = "exists" -> IF TypeOf(e[3]) = "bool" THEN "bool" ELSE "bad"
      [] tag \in {"insub", "notinsub"} -> IF T(2) = TypeOf(e[4]) /\ T(2) \in {"int", "str", "ent"} /\ TypeOf(e[5]) = "bool" THEN "bool" ELSE "bad"
      [] tag \in {"insetattr", "notinsetattr"} -> IF T(2) = "int" /\ e[5] \in {"a", "b"} THEN "bool" ELSE "bad"
      [] tag = "setagg" -> IF e[2] \in {"count", "sum", "min", "max"} THEN "int" ELSE "bad"
      [] OTHER -> "bad"

WellTyped(q) ==
    /\ TypeOf(q.cond) = "bool"
    /\ \A j \in 1 .. Len(q.res) : TypeOf(q.res[j]) \in {"int", "str", "bool", "ent", "dt"}
    /\ \A j \in 1 .. Len(q.ord) : TypeOf(q.ord[j][1]) = "int" /\ q.ord[j][2] \in {"asc", "desc"}
    /\ q.agg \in {"none", "count", "sum", "min", "max"}
    /\ (q.agg \in {"sum", "min", "max"} => Len(q.res) = 1 /\ TypeOf(q.res[1]) = "int")

---------------------------------------------------------------------------
(* the data sets: <= 3 rows of T, 2 rows of T2; D1, D2 contain missing values, D3, D4 are None-free.   *)
(* 0, negative numbers, the empty string, LIKE wildcards, mixed case and duplicates all occur.         *)
Str(s) == VS(s)
RowT(id, a, b, s, flag, ref, dt) == [id |-> VI(id), a |-> a, b |-> b, s |-> s, flag |-> VB(flag), ref |-> ref, dt |-> dt]
RowU(id, n) == [id |-> VI(id), n |-> n]

DataSets == <<
  [T  |-> << RowT(1, VNull,  VI(1),  VNull,                 TRUE,  VI(1), VD(90)),
             RowT(2, VI(0),  VNull,  Str(<<>>),             FALSE, VNull, VNull),
             RowT(3, VI(-1), VI(2),  Str(<<"a", "%">>),     TRUE,  VI(1), VD(1440)) >>,
   T2 |-> << RowU(1, VI(1)), RowU(2, VNull) >>],
  [T  |-> << RowT(1, VI(1),  VI(1),  Str(<<"a", "b">>),     FALSE, VI(2), VD(0)),
             RowT(2, VI(1),  VI(-2), Str(<<"a", "b">>),     TRUE,  VI(2), VD(0)),
             RowT(3, VNull,  VI(0),  Str(<<"A", "_">>),     TRUE,  VNull, VNull) >>,
   T2 |-> << RowU(1, VI(0)), RowU(2, VI(2)) >>],
  [T  |-> << RowT(1, VI(0),  VI(1),  Str(<<>>),             TRUE,  VI(1), VD(30)),
             RowT(2, VI(-1), VI(-1), Str(<<"a", "!">>),     FALSE, VI(1), VD(-75)),
             RowT(3, VI(2),  VI(1),  Str(<<"a", "%", "b">>), TRUE, VI(2), VD(2000)) >>,
   T2 |-> << RowU(1, VI(1)), RowU(2, VI(-1)) >>],
  [T  |-> << RowT(1, VI(1),  VI(0),  Str(<<"A", "b">>),     FALSE, VI(1), VD(45)),
             RowT(2, VI(1),  VI(2),  Str(<<"_", "b">>),     TRUE,  VI(1), VD(45)),
             RowT(3, VI(-2), VI(2),  Str(<<"a", "b">>),     TRUE,  VI(1), VD(1395)) >>,
   T2 |-> << RowU(1, VI(2)), RowU(2, VI(0)) >>]
>>
NoneFree == {3, 4}

---------------------------------------------------------------------------
(* the query space *)
XA == <<"attr", "x", "a">>
XB == <<"attr", "x", "b">>
XS == <<"attr", "x", "s">>
XF == <<"attr", "x", "flag">>
XID == <<"attr", "x", "id">>
N(k) == <<"int", k>>
C(s) == <<"str", s>>

IntAttrs  == {XA, XB}
IntConsts == {N(0), N(1), N(-2)}
Int0 == IntAttrs \cup IntConsts
StrConsts == {C(<<>>), C(<<"a">>), C(<<"%">>), C(<<"_", "b">>)}
Str0 == {XS} \cup StrConsts

(* depth 1 *)
IntBin1 == {<<"bin", op, l, r>> : op \in {"+", "-", "*"}, l \in IntAttrs, r \in Int0}
           \cup {<<"bin", op, l, r>> : op \in {"+", "-", "*"}, l \in IntConsts, r \in IntAttrs}
Int1Only == IntBin1 \cup {<<"neg", XA>>, <<"abs", XA>>, <<"len", XS>>, <<"coalesce", XA, N(1)>>, <<"coalesce", XB, XA>>}
Int1 == Int0 \cup Int1Only
Str1Only == {<<"concat", XS, c>> : c \in {C(<<"a">>), C(<<"%">>)}} \cup {<<"concat", C(<<"a">>), XS>>, <<"concat", XS, XS>>}
            \cup {<<"upper", XS>>, <<"lower", XS>>, <<"coalesce", XS, C(<<"a">>)>>}
Str1 == Str0 \cup Str1Only

CmpOps == {"==", "!=", "<", "<=", ">", ">="}
IntPairs0 == ({XA} \X {XB, N(0), N(1), N(-2)}) \cup ({XB} \X {XA, N(0)}) \cup {<<N(1), XA>>}
Cmp1 == {<<"cmp", op, p[1], p[2]>> : op \in CmpOps, p \in IntPairs0}
StrCmp1 == {<<"cmp", op, XS, c>> : op \in {"==", "!="}, c \in StrConsts} \cup {<<"cmp", "==", C(<<"a">>), XS>>}
StrPred1 == {<<f, XS, c>> : f \in {"startswith", "endswith"}, c \in StrConsts}
            \cup {<<f, c, XS>> : f \in {"contains", "notcontains"}, c \in StrConsts}
            \cup {<<"contains", XS, C(<<"a", "%", "b">>)>>, <<"startswith", XS, XS>>, <<"contains", XS, XS>>}
NoneTest1 == {<<f, x>> : f \in {"isnone", "notnone"}, x \in {XA, XB, XS}}
InTuple1 == {<<f, XA, <<0, 1>>>> : f \in {"intuple", "notintuple"}}
            \cup {<<f, XS, << <<>>, <<"a", "b">> >> >> : f \in {"intuple", "notintuple"}}
Truth1 == {<<"truth", XA>>, <<"truth", XS>>, XF}
(* Python variables of the enclosing scope (bound parameters) and the LIKE escape character *)
P(c) == <<"param", c>>
ParamPreds == {<<f, XS, P(c)>> : f \in {"startswith", "endswith"}, c \in {C(<<"a", "!">>), C(<<"!">>), C(<<"%">>)}}
              \cup {<<f, P(c), XS>> : f \in {"contains", "notcontains"}, c \in {C(<<"a", "!">>), C(<<"!">>), C(<<"_">>)}}
              \cup {<<"contains", XS, P(C(<<"a", "!", "b">>))>>, <<"contains", XS, C(<<"a", "!", "b">>)>>,
                    <<"endswith", <<"coalesce", XS, C(<<"a", "!">>)>>, XS>>, <<"endswith", XS, C(<<"!">>)>>}
              \cup {<<"cmp", op, XA, P(N(1))>> : op \in {"==", "<"}} \cup {<<"cmp", "==", XS, P(C(<<"a", "!">>))>>}
Bool1 == Cmp1 \cup StrCmp1 \cup StrPred1 \cup NoneTest1 \cup InTuple1 \cup Truth1 \cup ParamPreds

(* a few representative conditions used as second operands / inner conditions *)
BoolSmall == {XF, <<"cmp", ">", XB, N(0)>>, <<"truth", XS>>, <<"isnone", XB>>, <<"truth", XA>>}

(* depth 2 *)
Not2 == {<<"not", b>> : b \in Bool1}
AndOr2 == {<<f, b, c>> : f \in {"and", "or"}, b \in Bool1, c \in BoolSmall}
Cmp2 == {<<"cmp", op, l, r>> : op \in {"==", "<", ">="}, l \in Int1Only, r \in {XB, N(0), N(1)}}
        \cup {<<"cmp", op, r, l>> : op \in {"!=", ">"}, l \in IntBin1, r \in {XB}}
StrPred2 == {<<"cmp", op, s, c>> : op \in {"==", "!="}, s \in Str1Only, c \in {C(<<"a">>), C(<<"a", "b", "a">>)}}
            \cup {<<f, s, c>> : f \in {"startswith", "endswith"}, s \in Str1Only, c \in {C(<<"a">>), C(<<"%">>)}}
            \cup {<<f, c, s>> : f \in {"contains", "notcontains"}, s \in Str1Only, c \in {C(<<"a">>), C(<<"_">>)}}
            \cup {<<"truth", s>> : s \in Str1Only} \cup {<<"truth", i>> : i \in Int1Only}
            \cup {<<"isnone", i>> : i \in Int1Only \cup Str1Only}
BoolCmp2 == {<<"cmp", op, b, XF>> : op \in {"==", "!="}, b \in Cmp1 \cup NoneTest1 \cup StrPred1}
            \cup {<<"cmp", op, XF, b>> : op \in {"==", "!="}, b \in NoneTest1 \cup {<<"cmp", o, XA, N(0)>> : o \in CmpOps}}
IfExp2 == {<<"ifexp", t, c, f>> : t \in {XA, N(1)}, c \in BoolSmall \cup {<<"cmp", "==", XA, N(0)>>}, f \in {XB, N(0)}}
StrIfExp2 == {<<"ifexp", XS, c, C(<<"a">>)>> : c \in BoolSmall}
FloorDiv2 == {<<"bin", "//", l, r>> : l \in IntAttrs, r \in {N(2), N(-2)}}
(* the De Morgan family not (b and/or c): strictly depth 3, kept because negation of a connective is where
   the treatment of missing values in truth tests shows *)
NotAndOr3 == {<<"not", <<f, b, c>>>> : f \in {"and", "or"},
                                     b \in Truth1 \cup NoneTest1 \cup {<<"cmp", ">", XA, N(0)>>, <<"startswith", XS, C(<<"a">>)>>, <<"contains", C(<<"a">>), XS>>},
                                     c \in BoolSmall}
Bool2Only == Not2 \cup AndOr2 \cup Cmp2 \cup StrPred2 \cup BoolCmp2 \cup NotAndOr3

LoopX == << <<"x", "T">> >>
Sel(loops, res, cond, ord, agg) == [loops |-> loops, res |-> res, cond |-> cond, ord |-> ord, agg |-> agg]
TT == <<"true">>
VX == <<"var", "x">>

Filter(c) == Sel(LoopX, <<VX>>, c, <<>>, "none")
Proj(es, c) == Sel(LoopX, es, c, <<>>, "none")

(* subqueries over T correlated with x *)
YA == <<"attr", "y", "a">>
YB == <<"attr", "y", "b">>
YS == <<"attr", "y", "s">>
YF == <<"attr", "y", "flag">>
YID == <<"attr", "y", "id">>
LoopY == << <<"y", "T">> >>
InnerConds == {TT, YF, <<"cmp", ">", YB, N(0)>>, <<"notnone", YA>>, <<"cmp", "<", YA, XB>>}
ExistsConds == {<<"cmp", "==", YA, XB>>, <<"cmp", ">", YA, XA>>, <<"and", <<"cmp", "==", YB, XA>>, YF>>,
                <<"cmp", "==", YS, XS>>, <<"and", <<"cmp", "!=", YID, XID>>, <<"cmp", "==", YA, XA>>>>,
                <<"cmp", "!=", YB, XB>>, <<"startswith", YS, XS>>, <<"isnone", YA>>,
                <<"or", <<"cmp", "<", YA, XA>>, <<"isnone", YB>>>>, <<"cmp", "==", <<"bin", "+", YA, N(1)>>, XB>>}
Sub1 == {<<"exists", LoopY, c>> : c \in ExistsConds}
        \cup {<<f, e, LoopY, p, c>> : f \in {"insub", "notinsub"}, e \in {XA, XB, <<"bin", "+", XA, N(1)>>, N(1)},
                                      p \in {YA, YB, <<"bin", "*", YA, N(-2)>>}, c \in InnerConds}
        \cup {<<f, XS, LoopY, p, c>> : f \in {"insub", "notinsub"}, p \in {YS, <<"upper", YS>>}, c \in {TT, YF}}
Sub2 == {<<"not", b>> : b \in Sub1} \cup {<<f, XF, b>> : f \in {"and", "or"}, b \in Sub1}

(* membership of an entity in a subquery that projects an optional reference: y [not] in (x.ref for x in T if c) *)
EntSub == {<<f, <<"var", "y">>, LoopX, <<"attr", "x", "ref">>, c>> : f \in {"insub", "notinsub"},
                                                              c \in {TT, XF, <<"cmp", ">", XB, N(0)>>, <<"isnone", XA>>, <<"notnone", XS>>}}
EntSubConds == EntSub \cup {<<"not", b>> : b \in EntSub} \cup {<<"and", b, <<"notnone", <<"attr", "y", "n">>>>>> : b \in EntSub}

(* datetime +- a constant timedelta (positive, negative, more than a day) and + a timedelta held by a variable *)
XD == <<"attr", "x", "dt">>
DtExprs == {<<f, XD, m>> : f \in {"dtadd", "dtsub"}, m \in {45, 180, 1440, 1560, 2925}}
           \cup {<<"dtaddp", XD, m>> : m \in {-180, -45, 90, -1560}}
DtQueries == {Sel(LoopX, <<XID, e>>, c, <<>>, "none") : e \in DtExprs \cup {XD}, c \in {TT, XF}}
             \cup {Sel(LoopX, <<VX>>, <<"cmp", op, e, XD>>, <<>>, "none") : op \in {"<", ">", "!="}, e \in DtExprs}
             \cup {Sel(LoopX, <<VX>>, c, <<>>, "none") : c \in {<<"isnone", XD>>, <<"notnone", XD>>,
                                                              <<"cmp", "<", <<"dtsub", XD, 180>>, <<"dtadd", XD, 45>>>>}}

(* navigation x.ref.n and the reference itself *)
XRN == <<"nav", "x", "ref", "n">>
XR  == <<"attr", "x", "ref">>
NavConds == {<<"cmp", op, XRN, r>> : op \in CmpOps, r \in {N(1), XA}}
            \cup {<<"isnone", XRN>>, <<"notnone", XRN>>, <<"truth", XRN>>, <<"not", <<"truth", XRN>>>>,
                  <<"isnone", XR>>, <<"notnone", XR>>, <<"truth", XR>>, <<"not", <<"truth", XR>>>>}
            \cup {<<"or", <<"cmp", "==", XRN, N(1)>>, c>> : c \in BoolSmall}
            \cup {<<"and", <<"cmp", ">=", XRN, N(0)>>, c>> : c \in BoolSmall}
            \cup {<<"cmp", "==", <<"bin", "+", XRN, XA>>, N(1)>>, <<"not", <<"cmp", "==", XRN, N(1)>>>>}

(* attribute sets: queries over T2 *)
LoopU == << <<"y", "T2">> >>
YN == <<"attr", "y", "n">>
VY == <<"var", "y">>
TA == <<"attr", "t", "a">>
TB == <<"attr", "t", "b">>
TS == <<"attr", "t", "s">>
TF == <<"attr", "t", "flag">>
LoopTS == << <<"t", "y", "ts">> >>
SetConds == {<<"cmp", op, <<"setagg", "count", "y", "ts", "id">>, N(k)>> : op \in {"==", ">", "<="}, k \in {0, 1, 2}}
            \cup {<<"cmp", op, <<"setagg", fn, "y", "ts", at>>, r>> : op \in {"==", "<", ">="}, fn \in {"sum", "min", "max"},
                                                                  at \in {"a", "b"}, r \in {N(0), N(1), YN}}
            \cup {<<f, e, "y", "ts", at>> : f \in {"insetattr", "notinsetattr"}, e \in {N(1), N(-1), YN}, at \in {"a", "b"}}
            \cup {<<"not", <<"insetattr", e, "y", "ts", at>>>> : e \in {N(1), YN}, at \in {"a", "b"}}
            \cup {<<"truth", <<"setattr", "y", "ts">>>>, <<"not", <<"truth", <<"setattr", "y", "ts">>>>>>}
            \cup {<<"exists", LoopTS, c>> : c \in {TF, <<"cmp", "==", TA, YN>>, <<"cmp", ">", TB, N(0)>>, <<"isnone", TA>>,
                                                  <<"startswith", TS, C(<<"a">>)>>, <<"not", <<"truth", TA>>>>,
                                                  <<"and", TF, <<"cmp", "<", TA, TB>>>>}}
            \cup {<<"not", <<"exists", LoopTS, c>>>> : c \in {TF, <<"cmp", "==", TA, YN>>, <<"isnone", TA>>}}
LoopUT == << <<"y", "T2">>, <<"t", "y", "ts">> >>
VT == <<"var", "t">>
TwoLoop == {Sel(LoopUT, r, c, <<>>, "none") :
               r \in {<<VT>>, <<VY>>, <<YN, TA>>, <<TA>>, <<<<"bin", "+", YN, TA>>>>, <<YN>>},
               c \in {TT, TF, <<"cmp", "==", YN, N(1)>>, <<"cmp", "<", TA, YN>>, <<"isnone", TA>>, <<"truth", YN>>}}

OrdKeys == {XA, XB, <<"bin", "+", XA, XB>>, <<"bin", "*", XA, N(-2)>>, <<"neg", XB>>, <<"len", XS>>, <<"abs", XA>>,
            <<"coalesce", XA, N(1)>>}
Ordered == {Sel(LoopX, <<VX>>, c, << <<k, d>>, <<XID, "asc">> >>, "none") : k \in OrdKeys, d \in {"asc", "desc"}, c \in {TT, XF}}
           \cup {Sel(LoopX, <<VX>>, TT, << <<XA, d1>>, <<XB, d2>>, <<XID, "desc">> >>, "none") : d1 \in {"asc", "desc"}, d2 \in {"asc", "desc"}}
           \cup {Sel(LoopX, <<k>>, c, << <<k, d>> >>, "none") : k \in OrdKeys, d \in {"asc", "desc"}, c \in {TT, <<"notnone", XB>>}}

AggExprs == {XA, XB, <<"bin", "+", XA, XB>>, <<"bin", "*", XA, XB>>, <<"bin", "-", XA, N(1)>>, <<"neg", XA>>, <<"len", XS>>,
             <<"abs", XB>>, <<"coalesce", XA, N(1)>>, <<"bin", "*", XB, N(-2)>>}
AggConds == BoolSmall \cup {TT, <<"cmp", ">", XA, N(1)>>, <<"cmp", "<", XA, XB>>}
Aggregates == {Sel(LoopX, <<e>>, c, <<>>, fn) : fn \in {"sum", "min", "max"}, e \in AggExprs, c \in AggConds}
              \cup {Sel(LoopX, <<VX>>, c, <<>>, "count") : c \in Bool1 \cup {TT}}

ProjConds == {TT, XF, <<"cmp", ">", XB, N(0)>>}
Projections(d) ==
    {Proj(<<e>>, c) : e \in (IF d >= 2 THEN Int1 \cup Str1 \cup IfExp2 \cup StrIfExp2 ELSE Int0 \cup Str0) \cup {XF, XID, XR}, c \in ProjConds}
    \cup {Proj(<<e>>, TT) : e \in Cmp1 \cup NoneTest1}
    \cup {Proj(es, c) : es \in {<<XA, XS>>, <<XA, XB>>, <<XID, XA>>, <<XF, <<"bin", "+", XA, N(1)>>>>, <<XS, XS>>, <<XR, XA>>}, c \in ProjConds}
    \cup {Proj(<<XRN>>, TT), Proj(<<XID, XRN>>, TT), Proj(<<XRN, XA>>, XF)}

Queries(d) ==
    {Filter(c) : c \in Bool1 \cup {TT}}
    \cup Projections(d)
    \cup (IF d >= 2 THEN {Filter(c) : c \in Bool2Only} \cup {Filter(c) : c \in Sub2} ELSE {})
    \cup {Filter(c) : c \in Sub1}
    \cup {Filter(c) : c \in NavConds}
    \cup {Sel(LoopU, <<VY>>, c, <<>>, "none") : c \in SetConds \cup EntSubConds}
    \cup DtQueries
    \cup TwoLoop \cup Ordered \cup Aggregates

(* integer floor division is kept apart: Pony renders it as SQL "/" (recorded finding) *)
DivQueries == {Filter(<<"cmp", op, e, r>>) : op \in {"==", "<"}, e \in FloorDiv2, r \in {N(0), N(-1)}}
              \cup {Proj(<<e>>, TT) : e \in FloorDiv2}

(* expression sets over which QuerySemLaws compares RefEval with PyEval *)
LawConds == Bool1 \cup Bool2Only \cup NavConds \cup {<<"cmp", op, e, XD>> : op \in CmpOps, e \in DtExprs}
LawExprs == Int1 \cup Str1 \cup IfExp2 \cup StrIfExp2 \cup FloorDiv2 \cup DtExprs

=============================================================================
