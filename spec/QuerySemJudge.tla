---------------------------- MODULE QuerySemJudge ----------------------------
(* C01: attribution of an observed disagreement.  For each item [q, ds, kind, rows] (rows = what Pony
   returned, as tagged values) report which of the named deviations of QuerySem (cx.dev: recorded findings)
   reproduces exactly the observed rows.  Used only to give a disagreement its signature. *)
EXTENDS QuerySem, Json, IOUtils

In == JsonDeserialize(IOEnv.IN)

Got(it) == [kind |-> it.kind, rows |-> it.rows, keys |-> <<>>]
Explains(it, d) == \E coll \in {"ignored"} :
                      SameResult(RunQuery(it.q, Cx(DataSets[it.ds], coll, {d})), Got(it))
Verdict(it) == IF ~WellTyped(it.q) THEN <<>>
               ELSE SelectSeq(In.devs, LAMBDA d : Explains(it, d))

ASSUME JsonSerialize(IOEnv.OUT, [i \in 1 .. Len(In.items) |-> Verdict(In.items[i])])
=============================================================================
