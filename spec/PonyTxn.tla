------------------------------- MODULE PonyTxn -------------------------------
(***************************************************************************)
(* Protocol between db_session, SessionCache, provider, connection pool,   *)
(* DB-API connection and the SQLite provider's process-wide                *)
(* transaction_lock, with injected DB-API faults, process crash and fork.  *)
(*                                                                         *)
(* Code modelled (pony/orm):                                               *)
(*   core.py  DBSessionContextManager.__enter__/_enter/__exit__/           *)
(*            _commit_or_rollback/_wrap_function/                          *)
(*            _wrap_coroutine_or_generator_function, commit(), rollback(), *)
(*            Database._exec_sql, SessionCache.connect/                    *)
(*            prepare_connection_for_query_execution/flush/commit/         *)
(*            rollback/release/close                                       *)
(*   dbproviders/sqlite.py  SQLiteProvider.acquire_lock/release_lock/      *)
(*            set_transaction_mode/commit/rollback/drop/release,           *)
(*            SQLitePool._connect                                          *)
(*   dbapiprovider.py  Pool.connect (pid check)/release/drop,              *)
(*            DBAPIProvider.commit/rollback/release/drop                   *)
(*                                                                         *)
(* Shape.  Every thread ("actor") is a stack machine: th[a].stk is the     *)
(* Python call stack restricted to the functions above, one frame          *)
(* [l, e, x, b] per active function (l = label of the critical section     *)
(* that runs next / continuation after the callee returns, x = exception   *)
(* delivered to a handler of this frame, e = exception saved by the        *)
(* function, b = a boolean local: `rollback` of close(), `in_transaction`  *)
(* snapshot of provider.commit/rollback/drop, prev_immediate of flush()).  *)
(* Raise(L, k) unwinds to the nearest frame whose label has an entry in    *)
(* the handler table H (try/except and try/finally of the code).           *)
(* One action per label.  Labels that touch only thread-local state are    *)
(* "silent" (step functions S_<label>); they are run to completion inside  *)
(* the observable action that reaches them (Norm).  "Observable"           *)
(* actions are exactly the points the harness can log: body operations,    *)
(* every DB-API call, lock acquire/release, session start/end.             *)
(*                                                                         *)
(* Deliberate deviations (named):                                          *)
(*  D1 one database per session; PartialCommitException paths absent.      *)
(*  D2 a DB error inside a body operation always leaves the body (bodies   *)
(*     do not catch database errors and continue).                         *)
(*  D3 should_reconnect() is False (SQLite): SessionCache.reconnect only   *)
(*     re-raises; the reconnecting path of other providers is absent.      *)
(*  D4 SQLitePool._connect is modelled as REQUIRED, not as written: when a *)
(*     set-up statement after sqlite3.connect fails, the new connection is *)
(*     closed and not pooled.  The code leaves it in pool.con without      *)
(*     pool.pid (finding C19:connect-setup).                               *)
(*  D5 serializable=True is `immediate` for this protocol; strict and      *)
(*     optimistic do not influence it.                                     *)
(*  D6 while a generator session is suspended the same thread starts no    *)
(*     other session (other threads do).                                   *)
(*  D7 at most MaxFaults DB-API calls fail per behaviour; handlers of      *)
(*     handlers that need two failures are therefore absent (CM1x).        *)
(*  D8 Fork is enabled only while no other thread of the parent holds the  *)
(*     transaction lock (fork-with-threads hazard, not C36).  With         *)
(*     ForkInSession = FALSE only idle threads fork.                       *)
(*  D9 a failed DB-API call has no effect on the connection; close()       *)
(*     counts as the one permitted close attempt even when it raises.      *)
(*  D10 Provider = "generic": DBAPIProvider/Pool as used by the other      *)
(*     providers: no lock, no BEGIN statement, the DB-API connection opens *)
(*     a transaction implicitly at the first statement.                    *)
(*  D11 Database.commit()/flush_and_commit and the decorator form called   *)
(*     inside another session (a plain call) have no actions of their own; *)
(*     the latter's scalar behaviour is in PonyTxnScenarios (nest = 2).    *)
(*  D12 a generator session that ends with an allowed exception rolls back *)
(*     (as the code does); CommitIffSuccess permits but does not require   *)
(*     a commit there.                                                     *)
(*                                                                         *)
(* Bounded checking.  Connection ids, write ids and the fault budget       *)
(* (fowner: the one actor whose DB-API calls may fail, chosen in Init) are *)
(* per actor, so that actions of different actors commute except lock      *)
(* acquisition; Reduce = TRUE exploits this (see MyTurn) and lets End      *)
(* forget a finished session.  Trace validation uses Reduce = FALSE.       *)
(***************************************************************************)
EXTENDS PonyTxnConst, Naturals, Sequences, FiniteSets, TLC

CONSTANTS
    NActors,        \* actor slots: initial threads + slots for fork children / recovery
    NThreads,       \* threads of the initial process (pid 1)
    MaxSess,        \* sessions per actor
    MaxOps,         \* body operations per attempt
    MaxWrites,      \* writes per attempt
    MaxRetry,       \* retry option of decorator sessions
    MaxNest,        \* db_context_counter bound
    MaxFaults,      \* DB-API calls that may fail (or crash) per behaviour
    ConnPer,        \* connections an actor may open (connection ids are (a-1)*ConnPer + 1 ..)
    MaxForks,
    Forms,          \* subset of {"cm", "dec", "gen"}
    Kinds,          \* subset of {"opt", "imm", "ddl"}
    ExcKinds,       \* exceptions a body may raise: subset of {"allowed","retryable","other","base"} ("base": a
                    \* BaseException that is not an Exception; for the protocol it is like "other": never allowed, never retried)
    Provider,       \* "sqlite" | "generic"
    AllowCrash,     \* BOOLEAN
    ForkInSession,  \* BOOLEAN (D8)
    Reduce          \* BOOLEAN: partial-order reduction (model checking) / free interleaving (trace validation)

Actors  == 1..NActors
MaxConn == NActors * ConnPer
ConnIds == 1..MaxConn
NoE     == "none"


VARIABLES
    th,         \* actor -> thread-local state (record below)
    conns,      \* conn id -> DB-API connection state
    lock,       \* pid -> actor holding provider.transaction_lock (0 = free)
    pre,        \* pid -> actor holding provider.pre_transaction_lock
    committed,  \* durable database content: set of write ids
    faults,     \* remaining fault budget
    fowner,     \* the actor whose DB-API calls may fail in this behaviour (chosen initially)
    forks,      \* remaining forks
    npid,       \* pids handed out so far
    dead,       \* pids of crashed processes
    flags       \* ghost record of protocol errors at the DB-API boundary

shared == <<conns, lock, pre, committed, faults, fowner, forks, npid, dead, flags>>
vars   == <<th, conns, lock, pre, committed, faults, fowner, forks, npid, dead, flags>>

Pids == 1..(1 + MaxForks + 1)

-----------------------------------------------------------------------------
(* Frames and the local state record *)

NoReq  == [kind |-> "read", w |-> 0]
Fr(l)     == [l |-> l, e |-> NoE, x |-> NoE, b |-> FALSE, r |-> NoReq]
FrB(l, b) == [l |-> l, e |-> NoE, x |-> NoE, b |-> b, r |-> NoReq]
FrE(l, e) == [l |-> l, e |-> e,  x |-> NoE, b |-> FALSE, r |-> NoReq]
FrR(l, k, w) == [l |-> l, e |-> NoE, x |-> NoE, b |-> FALSE, r |-> [kind |-> k, w |-> w]]   \* _exec_sql(statement)

NoSess == [form |-> "cm", kind |-> "opt", retry |-> 0, dbr |-> FALSE]
Fresh(p) == [
    pid |-> p, stk |-> <<>>, depth |-> 0, sess |-> NoSess, attempt |-> 0, bodyRuns |-> 0,
    ops |-> 0, wr |-> 0, started |-> FALSE,
    cache |-> "none",        \* none | alive | closing | stashed (suspended generator)
    cconn |-> 0,             \* cache.connection
    inTx |-> FALSE,          \* cache.in_transaction
    imm |-> FALSE,           \* cache.immediate
    modified |-> FALSE, noflush |-> FALSE, savedFk |-> FALSE,
    pend |-> {},             \* unflushed ORM writes (objects_to_save)
    unit |-> {},             \* ghost: writes of the open transaction unit
    aborted |-> {},          \* ghost: writes of units that were abandoned
    pool |-> 0, poolPid |-> 0,
    nc |-> 0,                \* connections this actor opened
    nwl |-> 0,               \* writes this actor issued (write ids are 100*a + 1 ..)
    cur |-> 0,               \* the local variable `connection` of connect()/close()
    sessDone |-> 0,
    outs |-> <<>>,           \* ghost: exception that ended each attempt ("ok" for none)
    bodyOut |-> NoE, result |-> NoE, lastW |-> {}, fin |-> FALSE, faulted |-> FALSE ]

Unborn == Fresh(0)
NoConn == [st |-> "unused", creator |-> 0, by |-> 0, inDbTx |-> FALSE, txw |-> {}, closes |-> 0, ready |-> FALSE]

Top(L) == L.stk[Len(L.stk)]
Lbl(L) == IF L.stk = <<>> THEN "" ELSE Top(L).l
Goto(L, l)     == [L EXCEPT !.stk[Len(L.stk)].l = l]
GotoX(L, l, x) == [L EXCEPT !.stk[Len(L.stk)].l = l, !.stk[Len(L.stk)].x = x]
SetB(L, b)     == [L EXCEPT !.stk[Len(L.stk)].b = b]
SetE(L, e)     == [L EXCEPT !.stk[Len(L.stk)].e = e]
Call(L, ret, f) == [L EXCEPT !.stk = Append([@ EXCEPT ![Len(@)].l = ret], f)]
Ret(L)         == [L EXCEPT !.stk = SubSeq(@, 1, Len(@) - 1)]

\* handler table: label of a frame (its own try region, or the continuation it waits at) -> handler label
H(l) ==
    CASE l \in {"ST1", "ST2", "ST2a", "ST2b", "ST3", "ST3b"} -> "ST9"   \* set_transaction_mode: finally
      [] l = "CN3"  -> "CN3x"      \* connect(): except: provider.drop(); raise
      [] l = "FL1"  -> "FL9"       \* flush(): finally
      [] l = "CM1"  -> "CM1x"      \* commit(): except: rollback_and_reraise
      [] l = "CM2"  -> "CM2x"      \* commit(): except: ... CommitException
      [] l \in {"CC1", "CC2"} -> "CCx"   \* cache.commit(): except: cache.rollback(); raise
      [] l = "PV0c" -> "PV1"       \* provider.commit: finally
      [] l = "PR0c" -> "PR1"
      [] l = "PD0c" -> "PD1"
      [] l = "CL2"  -> "CL2x"      \* close(): except: provider.drop(); raise
      [] l \in {"CL2y", "CL3"} -> "CL9"  \* close(): finally
      [] l \in {"RL1", "RL2"} -> "RLx"   \* sqlite release: except: pool.drop(); raise
      [] l = "RL4"  -> "RL4x"      \* Pool.release: except: pool.drop(con); raise
      [] l = "RB1"  -> "RB1x"      \* rollback(): RollbackException
      [] l \in {"EX2", "EX3"} -> "EX9"   \* _commit_or_rollback: finally
      [] l = "EX4"  -> "EX4x"      \* except: if exc_type is None: raise
      [] l = "B"    -> "BE"        \* exception leaves the body
      [] l = "WC1"  -> "WC1x"      \* with-statement calls __exit__(exc)
      [] l = "WC2"  -> "WCz"
      [] l \in {"WD1", "WD2"} -> "WDx"   \* _wrap_function: except
      [] l = "WD5"  -> "WD5x"      \* finally: __exit__ after a failed rollback()
      [] l \in {"WD3", "WD4", "WD6", "WD7"} -> "WDz"
      [] l \in {"WG1", "WGr2", "WGr3"} -> "WGx"  \* wrapped_interact: except: rollback_and_reraise
      [] l = "WGx2" -> "WGx3"
      [] OTHER -> ""

RECURSIVE Unwind(_, _)
Unwind(s, k) ==
    IF s = <<>> THEN <<Fr("PANIC")>>
    ELSE LET n == Len(s) h == H(s[n].l) IN
         IF h # "" THEN [s EXCEPT ![n].l = h, ![n].x = k]
         ELSE Unwind(SubSeq(s, 1, n - 1), k)
Raise(L, k)    == [L EXCEPT !.stk = Unwind(@, k)]                          \* from inside a try region / callee
RaiseOut(L, k) == [L EXCEPT !.stk = Unwind(SubSeq(@, 1, Len(@) - 1), k)]  \* leave this function with k

IsRetry(L, k) == \/ k = "retryable"
                 \/ k \in {"commitexc", "rollbackexc", "txerr"}      \* TransactionError family (default retry_exceptions)
                 \/ k = "dberr" /\ L.sess.dbr
CanCommit(k)  == k \in {NoE, "allowed"}
SessImm(s)    == s.kind \in {"imm", "ddl"}
Sqlite        == Provider = "sqlite"

NewCache(L) == [L EXCEPT !.cache = "alive", !.cconn = 0, !.inTx = FALSE, !.imm = SessImm(L.sess),
                         !.modified = FALSE, !.noflush = FALSE, !.savedFk = FALSE, !.pend = {}]
GetCache(L) == IF L.cache = "alive" THEN L ELSE NewCache(L)

-----------------------------------------------------------------------------
(* Scheduling *)

Alive(a)   == th[a].pid # 0 /\ th[a].pid \notin dead
Idle(a)    == Alive(a) /\ th[a].stk = <<>>
Resting(a) == Alive(a) /\ (th[a].stk = <<>> \/ Lbl(th[a]) \in {"SUSP", "END"})

(* Reduction.  Connection ids, write ids and the fault budget are per actor, so every action of an actor  *)
(* commutes with every action of another actor except: acquiring the two locks (competing), and the      *)
(* actions that act on a whole process (crash).  All invariants are conjunctions of predicates over one  *)
(* actor's local state, its own connections, its own write ids and "lock = me".  Hence an actor that can *)
(* do something other than acquire a lock runs alone (lowest first); branching over actors happens only  *)
(* where all movable actors are at a lock acquisition.  Releases are safe to prioritise: what they enable *)
(* cannot happen before them.  Everything terminates, so no cycle proviso is needed.                      *)
AcquireLbls == {"ST0p", "ST0t"}
Eager(a) == /\ Alive(a) /\ Lbl(th[a]) \notin AcquireLbls \cup {"DEAD"}
            /\ th[a].stk = <<>> => th[a].sessDone < MaxSess \/ (forks > 0 /\ \E b \in Actors : th[b].pid = 0)
MyTurn(a) == Reduce => \A b \in Actors : b < a => ~Eager(b)
\* Silent labels (thread-local code between two observable points) are executed to completion inside the
\* observable action that reaches them: Norm, defined after the step functions S_<label> below.
RECURSIVE Norm(_)
Upd(a, L2) == th' = [th EXCEPT ![a] = Norm(L2)]
Obs(a, l)  == Lbl(th[a]) = l /\ Alive(a) /\ MyTurn(a)

-----------------------------------------------------------------------------
(* Session forms *)

Start(a, form, kind, retry, dbr) ==
    /\ Idle(a) /\ th[a].sessDone < MaxSess /\ MyTurn(a)
    /\ form \in Forms /\ kind \in Kinds /\ retry \in 0..MaxRetry /\ dbr \in BOOLEAN
    /\ form # "dec" => retry = 0                      \* __enter__ rejects retry; generators reject retry
    /\ retry = 0 => ~dbr
    /\ kind = "ddl" => retry = 0 /\ form # "gen"      \* 'ddl' and 'retry' exclude each other; no ddl generators
    /\ Upd(a, [th[a] EXCEPT !.sess = [form |-> form, kind |-> kind, retry |-> retry, dbr |-> dbr],
                            !.attempt = 0, !.bodyRuns = 0, !.outs = <<>>, !.fin = FALSE, !.started = FALSE,
                            !.bodyOut = NoE, !.result = NoE, !.lastW = {}, !.faulted = FALSE,
                            !.stk = <<Fr(CASE form = "cm" -> "WC0" [] form = "dec" -> "WD0" [] OTHER -> "WG0")>>])
    /\ UNCHANGED shared

\* ---- with db_session: ------------------------------------------------------
S_WC0(L0) == LET L == L0 IN (Call([L EXCEPT !.depth = 1], "WC1", Fr("B0")))
S_WC1(L0) == LET L == L0 IN (Call(L, "WC2", FrE("EX0", NoE)))
S_WC1x(L0) == LET L == L0 IN (Call(L, "WC2", FrE("EX0", Top(L).x)))
S_WC2(L0) == LET L == L0 IN
          (Goto([L EXCEPT !.result = IF L.bodyOut = "ok" THEN "ok" ELSE L.bodyOut], "END"))
S_WCz(L0) == LET L == L0 IN (Goto([L EXCEPT !.result = Top(L).x], "END"))

\* ---- @db_session(retry=n) ----------------------------------------------------
S_WD0(L0) == LET L == L0 IN (Call([L EXCEPT !.depth = 1], "WD1", Fr("B0")))
S_WD1(L0) == LET L == L0 IN (Call(L, "WD2", Fr("CM0")))         \* commit() after func()
S_WD2(L0) == LET L == L0 IN
          (Call([L EXCEPT !.outs = Append(@, "ok")], "WD3", FrE("EX0", NoE)))       \* finally: __exit__(None)
S_WD3(L0) == LET L == L0 IN (Goto([L EXCEPT !.result = "ok"], "END"))
S_WDx(L0) == LET L == L0 k == Top(L).x L1 == SetE([L EXCEPT !.outs = Append(@, k)], k) IN
          (IF IsRetry(L, k) THEN Call(L1, "WD5", Fr("RB0"))                         \* rollback()
                 ELSE Call(L1, "WD4", FrE("EX0", k)))                                     \* raise; finally: __exit__
S_WD4(L0) == LET L == L0 IN (Goto([L EXCEPT !.result = Top(L).e], "END"))
S_WD5(L0) == LET L == L0 IN (Call(L, "WD7", FrE("EX0", Top(L).e)))
S_WD5x(L0) == LET L == L0 IN (Call(L, "WD6", FrE("EX0", Top(L).e)))
S_WD6(L0) == LET L == L0 IN (Goto([L EXCEPT !.result = Top(L).x], "END"))
S_WD7(L0) == LET L == L0 IN
          (IF L.attempt < L.sess.retry
                 THEN [L EXCEPT !.attempt = @ + 1, !.stk = <<Fr("WD0")>>]
                 ELSE Goto([L EXCEPT !.result = Top(L).e], "END"))
S_WDz(L0) == LET L == L0 IN (Goto([L EXCEPT !.result = Top(L).x], "END"))

\* ---- @db_session on a generator function -------------------------------------
S_WG0(L0) == LET L == L0
                               L1 == [L EXCEPT !.depth = 1, !.cache = IF @ = "stashed" THEN "alive" ELSE @] IN
          (IF L.started THEN Call(L1, "WG1", Fr("B")) ELSE Call(L1, "WG1", Fr("B0")))
S_WG1(L0) == LET L == L0 IN (Call(L, "WGr2", Fr("CM0")))          \* StopIteration: commit()
S_WGy(L0) == LET L == L0 IN
          (IF L.cache = "alive" /\ (L.modified \/ L.inTx)
                 THEN GotoX([L EXCEPT !.bodyOut = "txerr", !.lastW = L.unit], "WGx", "txerr")
                 ELSE SetB(Goto(L, "WG9"), FALSE))
S_WGr2(L0) == LET L == L0 IN
           (IF L.cache = "alive" THEN Call(L, "WGr3", FrB("CL0", FALSE)) ELSE Goto(L, "WGr3"))
S_WGr3(L0) == LET L == L0 IN (SetB(Goto([L EXCEPT !.result = "ok"], "WG9"), TRUE))
S_WGx(L0) == LET L == L0 IN (Call(SetE(L, Top(L).x), "WGx2", Fr("RB0")))
S_WGx2(L0) == LET L == L0 IN (SetB(Goto([L EXCEPT !.result = Top(L).e], "WG9"), TRUE))
S_WGx3(L0) == LET L == L0 IN (SetB(Goto([L EXCEPT !.result = Top(L).e], "WG9"), TRUE))
S_WG9(L0) == LET L == L0
                               L1 == [L EXCEPT !.depth = 0, !.cache = IF @ = "alive" THEN "stashed" ELSE @] IN
          (IF Top(L).b THEN Goto(L1, "END") ELSE Goto(L1, "SUSP"))
Resume(a) == Obs(a, "SUSP") /\ Upd(a, Goto(th[a], "WG0")) /\ UNCHANGED shared

(* End of a session.  Under Reduce the model forgets what no later transition can read: the finished     *)
(* session's ghost fields, its write ids (they are in no connection's transaction: LockReleased), closed *)
(* connections; the pooled connection is renamed to the actor's first slot.                              *)
End(a) ==
    /\ Obs(a, "END")
    /\ UNCHANGED <<lock, pre, faults, fowner, forks, npid, dead, flags>>
    /\ IF ~Reduce
       THEN /\ Upd(a, [th[a] EXCEPT !.stk = <<>>, !.sessDone = @ + 1, !.fin = TRUE])
            /\ UNCHANGED <<conns, committed>>
       ELSE LET L == th[a] base == (a - 1) * ConnPer
                own == L.pool # 0 /\ conns[L.pool].by = a /\ conns[L.pool].creator = L.pid IN
            /\ Upd(a, [Fresh(L.pid) EXCEPT !.sessDone = L.sessDone + 1, !.fin = TRUE,
                                            !.pool = IF own THEN base + 1 ELSE L.pool, !.poolPid = L.poolPid,
                                            !.nc = IF own THEN 1 ELSE 0])
            /\ conns' = [c \in ConnIds |->
                             IF c \in (base + 1)..(base + ConnPer)
                             THEN (IF c = base + 1 /\ own THEN conns[L.pool] ELSE NoConn)
                             ELSE conns[c]]
            /\ committed' = {w \in committed : w \div 100 # a}

-----------------------------------------------------------------------------
(* The body *)

BodyStart(a) == /\ Obs(a, "B0")
                /\ Upd(a, Goto([th[a] EXCEPT !.bodyRuns = @ + 1, !.ops = 0, !.wr = 0, !.started = TRUE], "B"))
                /\ UNCHANGED shared
More(a) == th[a].ops < MaxOps
Op(L)   == [L EXCEPT !.ops = @ + 1]

BodyRead(a) == /\ Obs(a, "B") /\ More(a)
               /\ Upd(a, Call(Op(th[a]), "B", FrR("ES0", "read", 0)))
               /\ UNCHANGED shared
BodyWrite(a) ==      \* ORM create/update/delete: deferred to the next flush
    /\ Obs(a, "B") /\ More(a) /\ th[a].wr < MaxWrites
    /\ LET L == GetCache(Op(th[a])) w == 100 * a + L.nwl + 1 IN
       Upd(a, [L EXCEPT !.nwl = @ + 1, !.wr = @ + 1, !.modified = TRUE, !.pend = @ \cup {w}, !.unit = @ \cup {w}])
    /\ UNCHANGED shared
BodyRawWrite(a) ==   \* db.execute / db.insert: start_transaction=True
    /\ Obs(a, "B") /\ More(a) /\ th[a].wr < MaxWrites
    /\ LET L == Op(th[a]) w == 100 * a + L.nwl + 1 IN
       Upd(a, Call([L EXCEPT !.nwl = @ + 1, !.wr = @ + 1, !.unit = @ \cup {w}], "B", FrR("ES0", "write", w)))
    /\ UNCHANGED shared
BodyFlush(a) == /\ Obs(a, "B") /\ More(a)            \* flush(): for cache in _get_caches(): cache.flush()
                /\ Upd(a, IF th[a].cache = "alive" THEN Call(Op(th[a]), "B", Fr("FL0")) ELSE Op(th[a]))
                /\ UNCHANGED shared
BodyCommit(a) == /\ Obs(a, "B") /\ More(a)
                 /\ Upd(a, Call(Op(th[a]), "B", Fr("CM0"))) /\ UNCHANGED shared
BodyRollback(a) == /\ Obs(a, "B") /\ More(a)
                   /\ Upd(a, Call(Op(th[a]), "B", Fr("RB0"))) /\ UNCHANGED shared
BodyNest(a) == /\ Obs(a, "B") /\ More(a) /\ th[a].depth < MaxNest       \* inner `with db_session:` -> _enter()
               /\ Upd(a, [Op(th[a]) EXCEPT !.depth = @ + 1]) /\ UNCHANGED shared
BodyYield(a) == /\ Obs(a, "B") /\ More(a) /\ th[a].sess.form = "gen" /\ th[a].depth = 1
                /\ Upd(a, Goto(Ret(Op(th[a])), "WGy")) /\ UNCHANGED shared
BodyReturn(a) ==
    /\ Obs(a, "B")
    /\ LET L == th[a] IN
       Upd(a, IF L.depth > 1 THEN Call(L, "B", FrE("EX0", NoE))               \* inner __exit__(None, None, None)
              ELSE Ret([L EXCEPT !.bodyOut = "ok", !.lastW = L.unit]))
    /\ UNCHANGED shared
BodyRaise(a, k) ==
    /\ Obs(a, "B") /\ k \in ExcKinds
    /\ LET L == th[a] IN Upd(a, SetE(Goto([L EXCEPT !.bodyOut = k, !.lastW = L.unit], "BX"), k))
    /\ UNCHANGED shared
BodyFail(a) ==       \* a database error arrives in the body and leaves it (D2)
    /\ Obs(a, "BE")
    /\ LET L == th[a] IN Upd(a, SetE(Goto([L EXCEPT !.bodyOut = Top(L).x, !.lastW = L.unit], "BX"), Top(L).x))
    /\ UNCHANGED shared
S_BX(L0) == LET L == L0 IN          \* the exception passes the inner __exit__s: counter only
         (IF L.depth > 1 THEN [L EXCEPT !.depth = @ - 1] ELSE RaiseOut(L, Top(L).e))

-----------------------------------------------------------------------------
(* DBSessionContextManager.__exit__ / _commit_or_rollback *)

S_EX0(L0) == LET L == L0 L1 == [L EXCEPT !.depth = @ - 1] k == Top(L).e IN
          (IF L1.depth > 0 THEN Ret(L1)
                 ELSE IF CanCommit(k) THEN Call(L1, "EX2", Fr("CM0")) ELSE Call(L1, "EX4", Fr("RB0")))
S_EX2(L0) == LET L == L0 IN       \* for cache in _get_caches(): cache.release()
          (IF L.cache = "alive" THEN Call(L, "EX3", FrB("CL0", FALSE)) ELSE Goto(L, "EX9"))
S_EX3(L0) == (Goto(L0, "EX9"))
S_EX4(L0) == (Goto(L0, "EX9"))
S_EX4x(L0) == (GotoX(L0, "EX9", NoE))     \* exc_type is not None: swallowed
S_EX9(L0) == LET L == L0 IN
          (IF Top(L).x # NoE THEN RaiseOut(L, Top(L).x) ELSE Ret(L))

\* ---- commit() ----------------------------------------------------------------
S_CM0(L0) == LET L == L0 IN
          (IF L.cache # "alive" THEN Ret(L) ELSE Call(L, "CM1", Fr("FL0")))
S_CM1(L0) == (Call(L0, "CM2", Fr("CC1")))
S_CM1x(L0) == LET L == L0 IN (Call(SetE(L, Top(L).x), "CM1y", Fr("RB0")))
S_CM1y(L0) == LET L == L0 IN (RaiseOut(L, Top(L).e))
S_CM2(L0) == (Ret(L0))
S_CM2x(L0) == (RaiseOut(L0, "commitexc"))

\* ---- SessionCache.commit ------------------------------------------------------
S_CC1(L0) == LET L == L0 IN
          (IF L.inTx THEN Call(L, "CC2", Fr("PV0")) ELSE Goto(L, "CC2"))
S_CC2(L0) == (Ret([L0 EXCEPT !.imm = TRUE]))
S_CCx(L0) == LET L == L0 IN (Call(SetE(L, Top(L).x), "CCy", FrB("CL0", TRUE)))
S_CCy(L0) == LET L == L0 IN (RaiseOut(L, Top(L).e))

\* ---- rollback() ---------------------------------------------------------------
S_RB0(L0) == LET L == L0 IN
          (IF L.cache # "alive" THEN Ret(L) ELSE Call(L, "RB1", FrB("CL0", TRUE)))
S_RB1(L0) == (Ret(L0))
S_RB1x(L0) == (RaiseOut(L0, "rollbackexc"))

\* ---- SessionCache.flush -------------------------------------------------------
S_FL0(L0) == LET L == L0 IN
          (Goto(SetB([L EXCEPT !.imm = TRUE], L.imm), "FL1"))               \* b = prev_immediate
S_FL1(L0) == LET L == L0 IN
          (IF ~L.modified THEN Goto(L, "FL9")
                 ELSE IF L.pend = {} THEN Goto([L EXCEPT !.modified = FALSE], "FL9")
                 ELSE Call([L EXCEPT !.noflush = TRUE], "FL1", FrR("ES0", "flush", 0)))
S_FL9(L0) == LET L == L0
                               L1 == [L EXCEPT !.noflush = FALSE, !.imm = IF L.inTx THEN @ ELSE Top(L).b] IN
          (IF Top(L).x # NoE THEN RaiseOut(L1, Top(L).x) ELSE Ret(L1))

\* ---- Database._exec_sql -------------------------------------------------------
S_ES0(L0) == LET L == GetCache(L0)
                               L1 == IF Top(L).r.kind # "read" THEN [L EXCEPT !.imm = TRUE] ELSE L IN
          (Call(L1, "ES1", Fr("PC0")))

\* ---- prepare_connection_for_query_execution -----------------------------------
S_PC0(L0) == LET L == L0 IN
          (IF L.cconn = 0 THEN Call(L, "PC2", Fr("CN0"))
                 ELSE IF L.imm /\ ~L.inTx THEN Call([L EXCEPT !.cur = L.cconn], "PC2", Fr("ST0"))   \* D3: reconnect re-raises
                 ELSE Goto(L, "PC2"))
S_PC2(L0) == LET L == L0 IN
          (IF ~L.noflush /\ L.modified THEN Call(L, "PC3", Fr("FL0")) ELSE Ret(L))
S_PC3(L0) == (Ret(L0))

\* ---- SessionCache.connect / Pool.connect --------------------------------------
S_CN0(L0) == LET L == L0
                               L1 == IF L.pool # 0 /\ L.poolPid # L.pid      \* forked: forget the parent's connection
                                     THEN [L EXCEPT !.pool = 0, !.poolPid = 0] ELSE L IN
          (IF L1.pool = 0 THEN Goto(L1, "CN1") ELSE Goto([L1 EXCEPT !.cur = L1.pool], "CN2"))
S_CN1e(L0) == (RaiseOut(L0, Top(L0).x))
S_CN2(L0) == (Call(L0, "CN3", Fr("ST0")))
S_CN3(L0) == LET L == L0 IN (Ret([L EXCEPT !.cconn = L.cur]))
S_CN3x(L0) == LET L == L0 IN (Call(SetE(L, Top(L).x), "CN3y", Fr("PD0")))
S_CN3y(L0) == LET L == L0 IN (RaiseOut(L, Top(L).e))

\* ---- provider.set_transaction_mode(connection = cur, cache) -------------------
S_ST0(L0) == LET L == L0 IN
          (IF ~Sqlite THEN Ret(L) ELSE IF L.imm THEN Goto(L, "ST0p") ELSE Goto(L, "ST1"))
S_ST2(L0) == LET L == L0 IN (IF L.sess.kind = "ddl" THEN Goto(L, "ST2a") ELSE Goto(L, "ST3"))
S_ST3(L0) == LET L == L0 IN (IF L.imm THEN Goto(L, "ST3b") ELSE Goto(L, "ST9"))
S_ST9(L0) == LET L == L0 IN
          (IF L.imm /\ ~L.inTx THEN Goto(L, "ST9r") ELSE Goto(L, "ST10"))
S_ST10(L0) == LET L == L0 IN
           (IF Top(L).x # NoE THEN RaiseOut(L, Top(L).x) ELSE Ret(L))

\* ---- provider.commit / rollback / drop (SQLite: finally release the lock) -----
S_PV0(L0) == LET L == L0 IN (Goto(SetB([L EXCEPT !.cur = L.cconn], L.inTx), "PV0c"))
S_PR0(L0) == LET L == L0 IN (Goto(SetB(L, L.inTx), "PR0c"))
S_PD0(L0) == LET L == L0 IN          \* Pool.drop: pool.con = None, then con.close()
          (Goto(SetB([L EXCEPT !.pool = IF @ = L.cur THEN 0 ELSE @], L.inTx), "PD0c"))
Fin1(L, lr, l2) == IF Top(L).b /\ Sqlite THEN Goto([L EXCEPT !.inTx = FALSE], lr) ELSE Goto(L, l2)
Fin2(L) == IF Top(L).x # NoE THEN RaiseOut(L, Top(L).x) ELSE Ret(L)
S_PV1(L0) == Fin1(L0, "PV1r", "PV2")
S_PV2(L0) == Fin2(L0)
S_PR1(L0) == Fin1(L0, "PR1r", "PR2")
S_PR2(L0) == Fin2(L0)
S_PD1(L0) == Fin1(L0, "PD1r", "PD2")
S_PD2(L0) == Fin2(L0)

\* ---- SessionCache.close(rollback = b) -----------------------------------------
S_CL0(L0) == LET L == L0 rb == Top(L).b
                               L1 == [L EXCEPT !.cache = "closing", !.modified = FALSE, !.pend = {},
                                               !.aborted = IF rb THEN @ \cup L.unit ELSE @,
                                               !.unit = IF rb THEN {} ELSE @] IN
          (IF L.cconn = 0 THEN Goto(L1, "CL9")
                 ELSE LET L2 == [L1 EXCEPT !.cur = L.cconn, !.cconn = 0] IN
                      IF rb THEN Call(L2, "CL2", Fr("PR0")) ELSE Call(L2, "CL3", Fr("RL0")))
S_CL2(L0) == (Call(L0, "CL3", Fr("RL0")))
S_CL2x(L0) == LET L == L0 IN (Call(GotoX(SetE(L, Top(L).x), "CL2x", NoE), "CL2y", Fr("PD0")))
S_CL2y(L0) == LET L == L0 IN (GotoX(L, "CL9", Top(L).e))
S_CL3(L0) == (Goto(L0, "CL9"))
S_CL9(L0) == LET L == L0 L1 == [L EXCEPT !.cache = "none"] IN
          (IF Top(L).x # NoE THEN RaiseOut(L1, Top(L).x) ELSE Ret(L1))

\* ---- provider.release(connection = cur, cache) --------------------------------
S_RL0(L0) == LET L == L0 IN
          (IF Sqlite /\ L.sess.kind = "ddl" /\ L.savedFk THEN Goto(L, "RL1") ELSE Goto(L, "RL3"))
S_RLx(L0) == LET L == L0 IN (Goto([L EXCEPT !.pool = IF @ = L.cur THEN 0 ELSE @], "RLxc"))
S_RLxe(L0) == (RaiseOut(L0, Top(L0).x))
S_RL3(L0) == LET L == L0 IN
          (IF L.sess.kind = "ddl" THEN Call(L, "RL9", Fr("PD0")) ELSE Goto(L, "RL4"))
S_RL4x(L0) == LET L == L0 IN (Goto([L EXCEPT !.pool = IF @ = L.cur THEN 0 ELSE @], "RL4c"))
S_RL4e(L0) == (RaiseOut(L0, Top(L0).x))
S_RL9(L0) == (Ret(L0))

-----------------------------------------------------------------------------
(* DB-API calls: ok | fail (raises) | crash (the process dies inside the call) *)

Outs(a) == {"ok"} \cup (IF faults > 0 /\ fowner = a THEN {"fail"} \cup (IF AllowCrash THEN {"crash"} ELSE {}) ELSE {})

Note(a, c, op) ==       \* ghost bookkeeping of misuse of the DB-API
    flags' = [flags EXCEPT !.foreignUse = @ \/ (c # 0 /\ conns[c].creator # th[a].pid),
                           !.useAfterClose = @ \/ (c # 0 /\ conns[c].closes > 0),
                           !.nestedBegin = @ \/ (op = "begin" /\ conns[c].inDbTx)]

CrashProc(a, applied) ==    \* process of a dies; `applied`: the commit it was executing became durable
    LET p == th[a].pid IN
    /\ dead' = dead \cup {p}
    /\ faults' = faults - 1
    /\ th' = [b \in Actors |-> IF th[b].pid = p
                 THEN [th[b] EXCEPT !.stk = <<Fr("DEAD")>>, !.faulted = TRUE,
                                    !.aborted = IF applied /\ b = a THEN @ ELSE @ \cup th[b].unit,
                                    !.unit = {}]
                 ELSE th[b]]
    /\ conns' = [c \in ConnIds |-> IF conns[c].creator = p /\ conns[c].st = "open"
                                    THEN [conns[c] EXCEPT !.st = "lost", !.txw = {}, !.inDbTx = FALSE] ELSE conns[c]]
    /\ lock' = [lock EXCEPT ![p] = 0] /\ pre' = [pre EXCEPT ![p] = 0]

\* generic call on an existing connection c: Lok / Lfail are the successor local states, cf the connection effect
DbCallD(a, l, op, c, out, Lok, Lfail, cf, dur) ==
    /\ Obs(a, l) /\ out \in Outs(a)
    /\ Note(a, c, op)
    /\ UNCHANGED <<fowner, forks, npid>>
    /\ CASE out = "ok" ->
              /\ Upd(a, Lok) /\ conns' = [conns EXCEPT ![c] = cf]
              /\ committed' = committed \cup dur
              /\ UNCHANGED <<lock, pre, faults, dead>>
         [] out = "fail" ->
              /\ Upd(a, [Lfail EXCEPT !.faulted = TRUE]) /\ faults' = faults - 1
              /\ conns' = IF op = "close" THEN [conns EXCEPT ![c].closes = @ + 1] ELSE conns     \* D9
              /\ UNCHANGED <<lock, pre, committed, dead>>
         [] out = "crash" ->
              \E applied \in (IF op = "commit" THEN BOOLEAN ELSE {FALSE}) :
                 /\ CrashProc(a, applied)
                 /\ committed' = IF applied THEN committed \cup conns[c].txw ELSE committed
DbCall(a, l, op, c, out, Lok, Lfail, cf) ==
    DbCallD(a, l, op, c, out, Lok, Lfail, cf, IF op = "commit" THEN conns[c].txw ELSE {})

Closed(c)     == [conns[c] EXCEPT !.st = "closed", !.closes = @ + 1, !.txw = {}, !.inDbTx = FALSE]
RolledBack(c) == [conns[c] EXCEPT !.txw = {}, !.inDbTx = FALSE]
Same(c)       == conns[c]
Touched(c)    == IF Sqlite THEN conns[c] ELSE [conns[c] EXCEPT !.inDbTx = TRUE]     \* D10: implicit transaction

\* -- connect: sqlite3.connect + set-up statements (SQLitePool._connect), D4 ------
DbConnect(a, out) ==
    /\ Obs(a, "CN1") /\ out \in Outs(a) /\ th[a].nc < ConnPer
    /\ UNCHANGED <<fowner, forks, npid, flags>>
    /\ LET L0 == th[a] c == (a - 1) * ConnPer + L0.nc + 1 L == [L0 EXCEPT !.nc = @ + 1] IN
       CASE out = "ok" ->
              /\ conns' = [conns EXCEPT ![c] = [NoConn EXCEPT !.st = "open", !.creator = L.pid, !.by = a, !.ready = ~Sqlite]]
              /\ Upd(a, IF Sqlite THEN Goto([L EXCEPT !.cur = c], "CN1a")
                        ELSE Goto([L EXCEPT !.cur = c, !.pool = c, !.poolPid = L.pid], "CN2"))
              /\ UNCHANGED <<lock, pre, committed, faults, dead>>
         [] out = "fail" ->
              /\ Upd(a, RaiseOut([L0 EXCEPT !.faulted = TRUE], "dberr")) /\ faults' = faults - 1
              /\ UNCHANGED <<conns, lock, pre, committed, dead>>
         [] out = "crash" -> CrashProc(a, FALSE) /\ UNCHANGED <<committed>>
DbSetup1(a, out) == LET L == th[a] IN
    DbCall(a, "CN1a", "exec", L.cur, out, Goto(L, "CN1b"), GotoX(L, "CN1x", "dberr"), Same(L.cur))
DbSetup2(a, out) == LET L == th[a] IN
    DbCall(a, "CN1b", "exec", L.cur, out, Goto([L EXCEPT !.pool = L.cur, !.poolPid = L.pid], "CN2"),
           GotoX(L, "CN1x", "dberr"), [conns[L.cur] EXCEPT !.ready = TRUE])
DbSetupClose(a, out) == LET L == th[a] IN
    DbCall(a, "CN1x", "close", L.cur, out, Goto(L, "CN1e"), Goto(L, "CN1e"), Closed(L.cur))

\* -- _exec_sql: connection.cursor(), provider.execute ----------------------------
DbCursor(a, out) == LET L == th[a] IN
    DbCall(a, "ES1", "cursor", L.cconn, out, Goto(L, "ES2"), RaiseOut(L, "dberr"), Same(L.cconn))
DbExec(a, w, out) == LET L == th[a] c == L.cconn k == Top(L).r.kind IN
    /\ Lbl(L) = "ES2"
    /\ CASE k = "read"  -> w = 0
         [] k = "write" -> w = Top(L).r.w
         [] OTHER       -> w \in L.pend
    /\ DbCallD(a, "ES2", "exec", c, out,
              Ret([L EXCEPT !.inTx = IF L.imm THEN TRUE ELSE @, !.pend = @ \ {w}]),
              RaiseOut(L, "dberr"),
              IF w = 0 THEN Touched(c)
              ELSE [Touched(c) EXCEPT !.txw = IF Touched(c).inDbTx THEN @ \cup {w} ELSE @],
              \* a write on a connection that is not in a transaction is durable at once (autocommit)
              IF w # 0 /\ ~Touched(c).inDbTx THEN {w} ELSE {})

\* -- set_transaction_mode ---------------------------------------------------------
LockPre(a) == /\ Obs(a, "ST0p") /\ pre[th[a].pid] = 0
              /\ pre' = [pre EXCEPT ![th[a].pid] = a] /\ Upd(a, Goto(th[a], "ST0t"))
              /\ UNCHANGED <<conns, lock, committed, faults, fowner, forks, npid, dead, flags>>
LockAcquire(a) == /\ Obs(a, "ST0t") /\ lock[th[a].pid] = 0
                  /\ lock' = [lock EXCEPT ![th[a].pid] = a] /\ pre' = [pre EXCEPT ![th[a].pid] = 0]
                  /\ Upd(a, Goto(th[a], "ST1"))
                  /\ UNCHANGED <<conns, committed, faults, fowner, forks, npid, dead, flags>>
Release(a, l, l2) == /\ Obs(a, l)
                     /\ lock' = [lock EXCEPT ![th[a].pid] = 0]
                     /\ flags' = [flags EXCEPT !.badRelease = @ \/ lock[th[a].pid] # a]
                     /\ Upd(a, Goto(th[a], l2))
                     /\ UNCHANGED <<conns, pre, committed, faults, fowner, forks, npid, dead>>
LockReleaseSetMode(a) == Lbl(th[a]) = "ST9r" /\ Release(a, "ST9r", "ST10")
LockReleaseCommit(a) == Lbl(th[a]) = "PV1r" /\ Release(a, "PV1r", "PV2")
LockReleaseRollback(a) == Lbl(th[a]) = "PR1r" /\ Release(a, "PR1r", "PR2")
LockReleaseDrop(a) == Lbl(th[a]) = "PD1r" /\ Release(a, "PD1r", "PD2")

DbModeCursor(a, out) == LET L == th[a] IN
    DbCall(a, "ST1", "cursor", L.cur, out, Goto(L, "ST2"), GotoX(L, "ST9", "dberr"), Same(L.cur))
DbModeFkRead(a, out) == LET L == th[a] IN
    DbCall(a, "ST2a", "exec", L.cur, out, Goto(L, "ST2b"), GotoX(L, "ST9", "dberr"), Same(L.cur))
DbModeFkOff(a, out) == LET L == th[a] IN
    DbCall(a, "ST2b", "exec", L.cur, out, Goto([L EXCEPT !.savedFk = TRUE], "ST3"), GotoX(L, "ST9", "dberr"), Same(L.cur))
\* SQLite's own write lock: BEGIN IMMEDIATE fails with "database is locked" (after the busy timeout) while another
\* connection - of any process - is inside a transaction.  Such a failure needs no injected fault.
Busy(c) == \E c2 \in ConnIds : c2 # c /\ conns[c2].st = "open" /\ conns[c2].inDbTx
DbBegin(a, out) == LET L == th[a] IN
    IF Busy(L.cur)
    THEN /\ Obs(a, "ST3b") /\ out = "fail"
         /\ Note(a, L.cur, "begin")
         /\ Upd(a, GotoX([L EXCEPT !.faulted = TRUE], "ST9", "dberr"))
         /\ UNCHANGED <<conns, lock, pre, committed, faults, fowner, forks, npid, dead>>
    ELSE DbCall(a, "ST3b", "begin", L.cur, out, Goto([L EXCEPT !.inTx = TRUE], "ST9"), GotoX(L, "ST9", "dberr"),
                [conns[L.cur] EXCEPT !.inDbTx = TRUE])

\* -- provider.commit / rollback / drop ---------------------------------------------
DbCommit(a, out) == LET L == th[a] c == L.cur IN
    DbCall(a, "PV0c", "commit", c, out,
           Goto([L EXCEPT !.inTx = FALSE, !.unit = @ \ conns[c].txw], "PV1"), GotoX(L, "PV1", "dberr"), RolledBack(c))
DbRollback(a, out) == LET L == th[a] c == L.cur IN
    DbCall(a, "PR0c", "rollback", c, out, Goto([L EXCEPT !.inTx = FALSE], "PR1"), GotoX(L, "PR1", "dberr"), RolledBack(c))
DbDropClose(a, out) == LET L == th[a] c == L.cur IN
    DbCall(a, "PD0c", "close", c, out, Goto([L EXCEPT !.inTx = FALSE], "PD1"), GotoX(L, "PD1", "dberr"), Closed(c))

\* -- provider.release / Pool.release -------------------------------------------------
DbRelCursor(a, out) == LET L == th[a] IN
    DbCall(a, "RL1", "cursor", L.cur, out, Goto(L, "RL2"), GotoX(L, "RLx", "dberr"), Same(L.cur))
DbRelFkOn(a, out) == LET L == th[a] IN
    DbCall(a, "RL2", "exec", L.cur, out, Goto(L, "RL3"), GotoX(L, "RLx", "dberr"), Same(L.cur))
DbRelFkClose(a, out) == LET L == th[a] IN
    DbCall(a, "RLxc", "close", L.cur, out, Goto(L, "RLxe"), Goto(L, "RLxe"), Closed(L.cur))
DbPoolRollback(a, out) == LET L == th[a] IN
    DbCall(a, "RL4", "rollback", L.cur, out, Goto(L, "RL9"), GotoX(L, "RL4x", "dberr"), RolledBack(L.cur))
DbPoolDropClose(a, out) == LET L == th[a] IN
    DbCall(a, "RL4c", "close", L.cur, out, Goto(L, "RL4e"), Goto(L, "RL4e"), Closed(L.cur))

-----------------------------------------------------------------------------
(* Processes *)

Fork(a, b) ==      \* os.fork() in thread a; b becomes the (single) thread of the child
    /\ Alive(a) /\ MyTurn(a) /\ forks > 0 /\ th[b].pid = 0
    /\ Lbl(th[a]) \in {"", "B", "SUSP"}
    /\ ~ForkInSession => th[a].stk = <<>>
    /\ lock[th[a].pid] \in {0, a} /\ pre[th[a].pid] = 0                      \* D8
    /\ LET p == npid + 1 IN
       /\ npid' = p /\ forks' = forks - 1
       /\ th' = [th EXCEPT ![b] = [th[a] EXCEPT !.pid = p]]
       /\ lock' = [lock EXCEPT ![p] = IF lock[th[a].pid] = a THEN b ELSE 0]
    /\ UNCHANGED <<conns, pre, committed, faults, fowner, dead, flags>>

Recover(b) ==      \* after a crash a new process opens the database
    /\ dead # {} /\ th[b].pid = 0 /\ npid < 1 + MaxForks + 1
    /\ \A c \in Actors : th[c].pid \in dead \/ th[c].pid = 0
    /\ npid' = npid + 1
    /\ th' = [th EXCEPT ![b] = Fresh(npid + 1)]
    /\ UNCHANGED <<conns, lock, pre, committed, faults, fowner, forks, dead, flags>>

-----------------------------------------------------------------------------
Init ==
    /\ th = [a \in Actors |-> IF a <= NThreads THEN Fresh(1) ELSE Unborn]
    /\ conns = [c \in ConnIds |-> NoConn]
    /\ fowner \in Actors
    /\ lock = [p \in Pids |-> 0] /\ pre = [p \in Pids |-> 0]
    /\ committed = {} /\ faults = MaxFaults /\ forks = MaxForks /\ npid = 1 /\ dead = {}
    /\ flags = [foreignUse |-> FALSE, useAfterClose |-> FALSE, nestedBegin |-> FALSE, badRelease |-> FALSE]

SilentLbls == {"WC0", "WC1", "WC1x", "WC2", "WCz", "WD0", "WD1", "WD2", "WD3", "WDx", "WD4", "WD5", "WD5x", "WD6", "WD7", "WDz", "WG0", "WG1", "WGy", "WGr2", "WGr3", "WGx", "WGx2", "WGx3", "WG9", "BX", "EX0", "EX2", "EX3", "EX4", "EX4x", "EX9", "CM0", "CM1", "CM1x", "CM1y", "CM2", "CM2x", "CC1", "CC2", "CCx", "CCy", "RB0", "RB1", "RB1x", "FL0", "FL1", "FL9", "ES0", "PC0", "PC2", "PC3", "CN0", "CN1e", "CN2", "CN3", "CN3x", "CN3y", "ST0", "ST2", "ST3", "ST9", "ST10", "PV0", "PR0", "PD0", "CL0", "CL2", "CL2x", "CL2y", "CL3", "CL9", "RL0", "RLx", "RLxe", "RL3", "RL4x", "RL4e", "RL9", "PV1", "PV2", "PR1", "PR2", "PD1", "PD2"}
SilStep(L) ==
    CASE Lbl(L) = "WC0" -> S_WC0(L)
      [] Lbl(L) = "WC1" -> S_WC1(L)
      [] Lbl(L) = "WC1x" -> S_WC1x(L)
      [] Lbl(L) = "WC2" -> S_WC2(L)
      [] Lbl(L) = "WCz" -> S_WCz(L)
      [] Lbl(L) = "WD0" -> S_WD0(L)
      [] Lbl(L) = "WD1" -> S_WD1(L)
      [] Lbl(L) = "WD2" -> S_WD2(L)
      [] Lbl(L) = "WD3" -> S_WD3(L)
      [] Lbl(L) = "WDx" -> S_WDx(L)
      [] Lbl(L) = "WD4" -> S_WD4(L)
      [] Lbl(L) = "WD5" -> S_WD5(L)
      [] Lbl(L) = "WD5x" -> S_WD5x(L)
      [] Lbl(L) = "WD6" -> S_WD6(L)
      [] Lbl(L) = "WD7" -> S_WD7(L)
      [] Lbl(L) = "WDz" -> S_WDz(L)
      [] Lbl(L) = "WG0" -> S_WG0(L)
      [] Lbl(L) = "WG1" -> S_WG1(L)
      [] Lbl(L) = "WGy" -> S_WGy(L)
      [] Lbl(L) = "WGr2" -> S_WGr2(L)
      [] Lbl(L) = "WGr3" -> S_WGr3(L)
      [] Lbl(L) = "WGx" -> S_WGx(L)
      [] Lbl(L) = "WGx2" -> S_WGx2(L)
      [] Lbl(L) = "WGx3" -> S_WGx3(L)
      [] Lbl(L) = "WG9" -> S_WG9(L)
      [] Lbl(L) = "BX" -> S_BX(L)
      [] Lbl(L) = "EX0" -> S_EX0(L)
      [] Lbl(L) = "EX2" -> S_EX2(L)
      [] Lbl(L) = "EX3" -> S_EX3(L)
      [] Lbl(L) = "EX4" -> S_EX4(L)
      [] Lbl(L) = "EX4x" -> S_EX4x(L)
      [] Lbl(L) = "EX9" -> S_EX9(L)
      [] Lbl(L) = "CM0" -> S_CM0(L)
      [] Lbl(L) = "CM1" -> S_CM1(L)
      [] Lbl(L) = "CM1x" -> S_CM1x(L)
      [] Lbl(L) = "CM1y" -> S_CM1y(L)
      [] Lbl(L) = "CM2" -> S_CM2(L)
      [] Lbl(L) = "CM2x" -> S_CM2x(L)
      [] Lbl(L) = "CC1" -> S_CC1(L)
      [] Lbl(L) = "CC2" -> S_CC2(L)
      [] Lbl(L) = "CCx" -> S_CCx(L)
      [] Lbl(L) = "CCy" -> S_CCy(L)
      [] Lbl(L) = "RB0" -> S_RB0(L)
      [] Lbl(L) = "RB1" -> S_RB1(L)
      [] Lbl(L) = "RB1x" -> S_RB1x(L)
      [] Lbl(L) = "FL0" -> S_FL0(L)
      [] Lbl(L) = "FL1" -> S_FL1(L)
      [] Lbl(L) = "FL9" -> S_FL9(L)
      [] Lbl(L) = "ES0" -> S_ES0(L)
      [] Lbl(L) = "PC0" -> S_PC0(L)
      [] Lbl(L) = "PC2" -> S_PC2(L)
      [] Lbl(L) = "PC3" -> S_PC3(L)
      [] Lbl(L) = "CN0" -> S_CN0(L)
      [] Lbl(L) = "CN1e" -> S_CN1e(L)
      [] Lbl(L) = "CN2" -> S_CN2(L)
      [] Lbl(L) = "CN3" -> S_CN3(L)
      [] Lbl(L) = "CN3x" -> S_CN3x(L)
      [] Lbl(L) = "CN3y" -> S_CN3y(L)
      [] Lbl(L) = "ST0" -> S_ST0(L)
      [] Lbl(L) = "ST2" -> S_ST2(L)
      [] Lbl(L) = "ST3" -> S_ST3(L)
      [] Lbl(L) = "ST9" -> S_ST9(L)
      [] Lbl(L) = "ST10" -> S_ST10(L)
      [] Lbl(L) = "PV0" -> S_PV0(L)
      [] Lbl(L) = "PR0" -> S_PR0(L)
      [] Lbl(L) = "PD0" -> S_PD0(L)
      [] Lbl(L) = "CL0" -> S_CL0(L)
      [] Lbl(L) = "CL2" -> S_CL2(L)
      [] Lbl(L) = "CL2x" -> S_CL2x(L)
      [] Lbl(L) = "CL2y" -> S_CL2y(L)
      [] Lbl(L) = "CL3" -> S_CL3(L)
      [] Lbl(L) = "CL9" -> S_CL9(L)
      [] Lbl(L) = "RL0" -> S_RL0(L)
      [] Lbl(L) = "RLx" -> S_RLx(L)
      [] Lbl(L) = "RLxe" -> S_RLxe(L)
      [] Lbl(L) = "RL3" -> S_RL3(L)
      [] Lbl(L) = "RL4x" -> S_RL4x(L)
      [] Lbl(L) = "RL4e" -> S_RL4e(L)
      [] Lbl(L) = "RL9" -> S_RL9(L)
      [] Lbl(L) = "PV1" -> S_PV1(L)
      [] Lbl(L) = "PV2" -> S_PV2(L)
      [] Lbl(L) = "PR1" -> S_PR1(L)
      [] Lbl(L) = "PR2" -> S_PR2(L)
      [] Lbl(L) = "PD1" -> S_PD1(L)
      [] Lbl(L) = "PD2" -> S_PD2(L)
Norm(L) == IF Lbl(L) \in SilentLbls THEN Norm(SilStep(L)) ELSE L

BodyNext(a) ==
    \/ BodyStart(a) \/ BodyRead(a) \/ BodyWrite(a) \/ BodyRawWrite(a) \/ BodyFlush(a) \/ BodyCommit(a)
    \/ BodyRollback(a) \/ BodyNest(a) \/ BodyYield(a) \/ BodyReturn(a) \/ BodyFail(a)
    \/ \E k \in ExcKinds : BodyRaise(a, k)

DbNext(a) == \E out \in {"ok", "fail", "crash"} :
    \/ DbConnect(a, out) \/ DbSetup1(a, out) \/ DbSetup2(a, out) \/ DbSetupClose(a, out)
    \/ DbCursor(a, out) \/ (Lbl(th[a]) = "ES2" /\ \E w \in {0, Top(th[a]).r.w} \cup th[a].pend : DbExec(a, w, out))
    \/ DbModeCursor(a, out) \/ DbModeFkRead(a, out) \/ DbModeFkOff(a, out) \/ DbBegin(a, out)
    \/ DbCommit(a, out) \/ DbRollback(a, out) \/ DbDropClose(a, out)
    \/ DbRelCursor(a, out) \/ DbRelFkOn(a, out) \/ DbRelFkClose(a, out) \/ DbPoolRollback(a, out) \/ DbPoolDropClose(a, out)

LockNext(a) == \/ LockPre(a) \/ LockAcquire(a) \/ LockReleaseSetMode(a) \/ LockReleaseCommit(a)
               \/ LockReleaseRollback(a) \/ LockReleaseDrop(a)

SessNext(a) == \/ \E f \in Forms, k \in Kinds, r \in 0..MaxRetry, d \in BOOLEAN : Start(a, f, k, r, d)
               \/ Resume(a) \/ End(a)

ActorNext(a) == BodyNext(a) \/ DbNext(a) \/ LockNext(a) \/ SessNext(a)

AllDone == \A a \in Actors : th[a].pid = 0 \/ th[a].pid \in dead \/ (th[a].stk = <<>> /\ th[a].sessDone = MaxSess)
Done == AllDone /\ UNCHANGED vars

Next == \/ \E a \in Actors : ActorNext(a)
        \/ \E a, b \in Actors : Fork(a, b)
        \/ \E b \in Actors : Recover(b)
        \/ Done

Spec     == Init /\ [][Next]_vars
FairSpec == Spec /\ \A a \in Actors : WF_vars(ActorNext(a))
\* every behaviour is finite (bounded sessions, operations, retries), so fairness of Next as a whole gives the same
\* guarantees as per-actor fairness and is much cheaper for TLC (one ENABLED per state)
FairSpec1 == Spec /\ WF_vars(Next)

-----------------------------------------------------------------------------
(* Properties *)

Live == {a \in Actors : Alive(a)}

TypeOK == /\ \A a \in Actors : th[a].depth \in 0..MaxNest /\ th[a].pool \in 0..MaxConn /\ th[a].cconn \in 0..MaxConn
          /\ \A a \in Live : Lbl(th[a]) # "PANIC"
          /\ faults \in 0..MaxFaults

\* C19 -------------------------------------------------------------------------------
LockReleased ==         \* outside a session a thread neither holds the lock nor believes it is in a transaction
    \A a \in Live : Resting(a) =>
        /\ lock[th[a].pid] # a /\ pre[th[a].pid] # a
        /\ ~th[a].inTx
        /\ th[a].pool # 0 /\ conns[th[a].pool].creator = th[a].pid /\ (Sqlite \/ Lbl(th[a]) # "SUSP")
              => ~conns[th[a].pool].inDbTx      \* (D10: a suspended generator keeps the implicit transaction of its reads)

LockConsistent ==       \* the lock is held exactly by a thread that is inside a write transaction (or acquiring it)
    /\ ~flags.badRelease
    /\ \A p \in Pids : lock[p] # 0 => lock[p] \in Live /\ th[lock[p]].pid = p /\ th[lock[p]].stk # <<>>

ConnAccounted ==        \* every connection is the thread's pooled one, or was closed exactly once
    /\ \A c \in ConnIds : conns[c].closes <= 1
    /\ \A a \in Live : Resting(a) =>
          \A c \in ConnIds : conns[c].by = a /\ conns[c].st # "unused" /\ conns[c].creator = th[a].pid =>
               \/ c = th[a].pool /\ conns[c].closes = 0 /\ conns[c].ready /\ th[a].poolPid = th[a].pid
               \/ c # th[a].pool /\ conns[c].closes = 1
    /\ \A a \in Live : Idle(a) \/ Lbl(th[a]) = "END" => th[a].cache = "none" /\ th[a].cconn = 0
    /\ ~flags.useAfterClose /\ ~flags.nestedBegin

NeverBlockedByDead ==   \* nobody who is outside a session (or dead) is in the way of a later session
    \A p \in Pids : /\ lock[p] # 0 => ~Resting(lock[p]) /\ th[lock[p]].pid \notin dead
                    /\ pre[p] # 0 => ~Resting(pre[p]) /\ th[pre[p]].pid \notin dead

\* The transaction lock is there so that threads never meet SQLite's own write lock: whoever has an open SQLite
\* transaction holds it.  NOT an invariant of the protocol as coded: SQLiteProvider.commit/rollback release the lock
\* in their `finally` also when the DB-API call failed, i.e. before SessionCache.rollback()/close() ends the
\* transaction; in that window another thread acquires the lock and its BEGIN IMMEDIATE fails (Busy).  Checked by TLC
\* in a run that is expected to find this counterexample, and reported on traces (finding C19:lock-released-...).
LockCoversTx ==
    Sqlite => \A c \in ConnIds : conns[c].st = "open" /\ conns[c].inDbTx /\ conns[c].creator \notin dead
                  => lock[conns[c].creator] = conns[c].by \/ flags.foreignUse

LockEventuallyFree == \A a \in Actors : \A p \in Pids : (lock[p] = a) ~> (lock[p] # a)
LockEventuallyFree1 == \A a \in Actors : (lock[1] = a) ~> (lock[1] # a)       \* configurations without fork: one process
Terminates == <>[]AllDone

\* C17 -------------------------------------------------------------------------------
Atomic ==
    /\ \A a \in Actors : th[a].aborted \cap committed = {}              \* abandoned units never become durable
    /\ \A a \in Live : th[a].unit \cap committed = {}                   \* an open unit is not partly durable
    /\ \A a \in Live : Lbl(th[a]) = "PV0c" => conns[th[a].cur].txw = th[a].unit   \* COMMIT covers exactly the unit
    /\ \A a \in Live : Idle(a) \/ Lbl(th[a]) = "END" => th[a].unit = {}
AtomicStep ==           \* the durable content changes only in the DB-API commit of a session, by exactly its unit
    committed' # committed =>
        \/ \E a \in Actors : Lbl(th[a]) = "PV0c" /\ committed' = committed \cup th[a].unit
        \/ \E a \in Actors : Reduce /\ Lbl(th[a]) = "END" /\ committed' \subseteq committed   \* End forgets (see End)
AtomicAction == [][AtomicStep]_vars

\* C18 -------------------------------------------------------------------------------
Finished(a) == Alive(a) /\ Lbl(th[a]) = "END"
CommitIffSuccess ==
    \A a \in Actors : Finished(a) =>
        LET L == th[a] IN
        /\ L.bodyOut \notin {"ok", "allowed"} => L.lastW \cap committed = {}
        /\ L.result = "commitexc" => L.lastW \cap committed = {}            \* a failed commit committed nothing
        /\ L.result = "ok" => L.bodyOut = "ok" /\ L.lastW \subseteq committed
        /\ L.result = "allowed" /\ L.sess.form # "gen" => L.lastW \subseteq committed
        /\ ~L.faulted => L.result = L.bodyOut                             \* the body's exception propagates
RetryBound ==
    \A a \in Live : LET L == th[a] IN
        /\ L.bodyRuns <= L.sess.retry + 1
        /\ L.sess.form # "dec" => L.bodyRuns <= 1
        /\ \A i \in 1..Len(L.outs) : i < L.bodyRuns => IsRetry(L, L.outs[i])   \* re-run only after a retryable one
AttemptStartsClean ==
    \A a \in Live : Lbl(th[a]) = "B0" =>
        LET L == th[a] IN
        /\ L.cache = "none" /\ ~L.inTx /\ L.unit = {} /\ L.pend = {} /\ L.cconn = 0
        /\ lock[L.pid] # a
        /\ L.pool # 0 /\ conns[L.pool].creator = L.pid => ~conns[L.pool].inDbTx /\ conns[L.pool].txw = {}
OutermostLbls == {"EX2", "EX3", "EX4", "EX4x", "EX9"}
OutermostOnly ==
    \A a \in Live : \A i \in 1..Len(th[a].stk) : th[a].stk[i].l \in OutermostLbls => th[a].depth = 0
OutermostStep ==        \* leaving an inner session changes the counter and nothing else
    \A a \in Actors : th[a].depth > 1 /\ th'[a].depth = th[a].depth - 1 /\ Lbl(th'[a]) = "B" =>
        /\ committed' = committed /\ conns' = conns /\ lock' = lock
        /\ th'[a].cache = th[a].cache /\ th'[a].unit = th[a].unit /\ th'[a].inTx = th[a].inTx
OutermostAction == [][OutermostStep]_vars

\* C36 -------------------------------------------------------------------------------
NoForeignConnUse == ~flags.foreignUse

=============================================================================
