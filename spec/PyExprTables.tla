--------------------------- MODULE PyExprTables ---------------------------
(* Glue for C03/C04: exports, for the expression space defined in PyExpr, the table of Eval over every
   environment (E1).  The harness replays each tree into the real code (pony's decompiler, ast2src,
   a real query) and compares with the table; it also compares the table with CPython's own eval
   (self-check of the environment model).
   Input (JSON): mode = "exprs": alpha, n, part ("small": all trees with < n nodes, or "rooted": exactly n
                                   nodes and root kind in roots), vals
                 mode = "trees": trees (given explicitly: seeded random larger trees, replay), names, vals
                 mode = "gens":  alpha, n, part, parts, vals  (generator shells)
                 mode = "eltgens": alpha, n, part, parts, vals  ((<elt> for x in T) for every elt of ExprSeq(alpha, n))
                 mode = "derivs" / "genderivs": derivations over the alphabet (seeded random larger trees)
                 mode = "gentrees": generator trees given explicitly (replay);  mode = "count": sizes and alphabet *)
EXTENDS PyExpr, Json, IOUtils

In == JsonDeserialize(IOEnv.IN)

ValueSets == [
    six   |-> <<None, B(FALSE), B(TRUE), I(0), I(1), I(2)>>,
    \* for operator precedence: two ints, a falsy value, a string, a tuple and an object with attributes
    mixed |-> <<None, I(1), I(2), S(<<"a", "b">>), Tup(<<S(<<"b">>), I(2)>>), Obj("R1")>>
]

RECURSIVE PowI(_, _)
PowI(b, e) == IF e = 0 THEN 1 ELSE b * PowI(b, e - 1)

SeqSet(s) == {s[i] : i \in 1 .. Len(s)}
RECURSIVE UnionOver(_, _)
UnionOver(F(_), s) == IF Len(s) = 0 THEN {} ELSE F(s[1]) \cup UnionOver(F, Tail(s))

(* names occurring in a tree *)
RECURSIVE NamesOf(_), NamesOfParts(_)
NamesOfSeq(es) == UNION {NamesOf(es[i]) : i \in 1 .. Len(es)}
NamesOf(e) ==
    LET k == e[1] IN
    CASE k = "Name"  -> {e[2]}
      [] k \in {"Const", "Omit"} -> {}
      [] k = "Bool"  -> NamesOfSeq(e[3])
      [] k = "Un"    -> NamesOf(e[3])
      [] k = "Cmp"   -> NamesOf(e[2]) \cup NamesOfSeq(e[4])
      [] k = "Bin"   -> NamesOf(e[3]) \cup NamesOf(e[4])
      [] k = "IfExp" -> NamesOf(e[2]) \cup NamesOf(e[3]) \cup NamesOf(e[4])
      [] k = "Attr"  -> NamesOf(e[2])
      [] k = "Sub"   -> NamesOf(e[2]) \cup NamesOf(e[3])
      [] k = "Slice" -> NamesOf(e[2]) \cup NamesOf(e[3]) \cup NamesOf(e[4])
      [] k = "Tuple" -> NamesOfSeq(e[2])
      [] k = "Call"  -> NamesOf(e[2]) \cup NamesOfSeq(e[3]) \cup UNION {NamesOf(e[4][i][2]) : i \in 1 .. Len(e[4])}
      [] k = "Lambda" -> NamesOfSeq(e[3]) \cup NamesOf(e[4])
      [] k = "FStr"  -> NamesOfParts(e[2])
NamesOfParts(ps) == UNION {IF ps[i][1] = "Lit" THEN {} ELSE NamesOf(ps[i][2]) \cup NamesOfParts(ps[i][4]) : i \in 1 .. Len(ps)}

(* number of leading names of `names` a tree uses (the numbering is cyclic, so the used names are a prefix) *)
UsedCount(e, names) == Cardinality(NamesOf(e) \cap SeqSet(names))

(* environment number idx (0-based, last name varies fastest = itertools.product) over the first k names *)
EnvAt(names, k, V, idx) ==
    [n \in {names[j] : j \in 1 .. k} |->
        LET j == CHOOSE i \in 1 .. k : names[i] = n
        IN V[((idx \div PowI(Len(V), k - j)) % Len(V)) + 1]]

(* all environments over the first k names, k = 0 .. Len(names), computed once (TLCEval forces the value) *)
EnvTable(names, V) == TLCEval([k1 \in 1 .. (Len(names) + 1) |-> [idx \in 1 .. PowI(Len(V), k1 - 1) |-> EnvAt(names, k1 - 1, V, idx - 1)]])

Table(e, envs) == [idx \in 1 .. Len(envs) |-> Out(Eval(e, envs[idx]))]

Row(e, names, ET) == LET k == UsedCount(e, names) IN [e |-> e, k |-> k, tab |-> Table(e, ET[k + 1])]

---------------------------------------------------------------------------
(* generator shells: 1-2 for-clauses, 0-2 ifs each, element and conditions from ExprSeq; at most n operator nodes
   in total.  The first iterable is T; the second one U or x.p.  (Sequences and index arithmetic, as in PyExpr.) *)
Iter2 == <<N("U"), <<"Attr", N("x"), "p">>>>

Cross(X, Y, F(_, _)) == [p \in 1 .. (Len(X) * Len(Y)) |-> F(X[((p - 1) \div Len(Y)) + 1], Y[((p - 1) % Len(Y)) + 1])]

(* sequences of `cnt` expressions with exactly `total` operator nodes; bySize[i + 1] = the trees of size i *)
RECURSIVE ExprSeqs(_, _, _)
ExprSeqs(bySize, cnt, total) ==
    IF cnt = 0 THEN (IF total = 0 THEN <<<<>>>> ELSE <<>>)
    ELSE LET Part(i) == Cross(bySize[i + 1], ExprSeqs(bySize, cnt - 1, total - i), LAMBDA e, rest : <<e>> \o rest)
         IN CatRange(Part, 0, total)

Gen1(s, n1) == <<"Gen", s[1], <<<<"x", N("T"), SubSeq(s, 2, 1 + n1)>>>>>>
Gen2(s, n1, n2, it) == <<"Gen", s[1], <<<<"x", N("T"), SubSeq(s, 2, 1 + n1)>>, <<"y", it, SubSeq(s, 2 + n1, 1 + n1 + n2)>>>>>>

GenShellSeq(A, n) ==
    LET bySize == TLCEval([i \in 1 .. (n + 1) |-> ExprSeqExact(A, i - 1)])
        Slots(cnt) == LET Tot(t) == ExprSeqs(bySize, cnt, t) IN TLCEval(CatRange(Tot, 0, n))
        One(n1) == LET ss == Slots(1 + n1) IN [i \in 1 .. Len(ss) |-> Gen1(ss[i], n1)]
        Two(c) == LET n1 == c \div 6  n2 == (c \div 2) % 3  it == Iter2[(c % 2) + 1]  ss == Slots(1 + n1 + n2)
                  IN [i \in 1 .. Len(ss) |-> Gen2(ss[i], n1, n2, it)]
    IN CatRange(One, 0, 2) \o CatRange(Two, 0, 17)

(* one for-clause without filter around every expression with at most n operator nodes: the yielded element is where
   conditional expressions, and/or and their nestings are reconstructed from jumps that end at YIELD_VALUE *)
ElementShellSeq(A, n) == LET es == ExprSeq(A, n) IN [i \in 1 .. Len(es) |-> Gen1(<<es[i]>>, 0)]

(* a generator from a derivation [elt |-> d, c1 |-> <<d, ...>>, two |-> "y" or "n", it |-> 1 or 2, c2 |-> <<d, ...>>] *)
BuildGen(A, gd) ==
    LET Bd(d) == Build(A, d, 1)[1]
        cl1 == <<"x", N("T"), [i \in 1 .. Len(gd.c1) |-> Bd(gd.c1[i])]>>
    IN <<"Gen", Bd(gd.elt), IF gd.two = "y" THEN <<cl1, <<"y", Iter2[gd.it], [i \in 1 .. Len(gd.c2) |-> Bd(gd.c2[i])]>>>> ELSE <<cl1>>>>

(* truth table of a clause's filter: TRUE / FALSE / abort *)
CondTable(ifs, envs) == [idx \in 1 .. Len(envs) |-> Out(CondVal(ifs, 1, envs[idx]))]

RunEnvs == <<[a |-> None, y |-> I(2), T |-> Tup(<<None, B(FALSE), B(TRUE), I(0), I(1), I(2), Obj("R2")>>), U |-> Tup(<<I(0), I(1)>>)],
             [a |-> I(1), y |-> I(2), T |-> Tup(<<None, B(FALSE), B(TRUE), I(0), I(1), I(2), Obj("R2")>>), U |-> Tup(<<I(0), I(1)>>)]>>

Max2(a, b) == IF a >= b THEN a ELSE b
RECURSIVE MaxUsed(_, _, _)
MaxUsed(es, names, k) == IF k > Len(es) THEN 0 ELSE Max2(UsedCount(es[k], names), MaxUsed(es, names, k + 1))

(* element and filters are tabulated over the names they use (a prefix of `names`, as for plain expressions) *)
GenRow(g, names, ET) ==
    [g |-> g,
     elt |-> LET k == UsedCount(g[2], names) IN [k |-> k, tab |-> Table(g[2], ET[k + 1])],
     conds |-> [ci \in 1 .. Len(g[3]) |-> LET k == MaxUsed(g[3][ci][3], names, 1) IN [k |-> k, tab |-> CondTable(g[3][ci][3], ET[k + 1])]],
     runs |-> [ri \in 1 .. Len(RunEnvs) |->
                 LET r == EvalGen(g, RunEnvs[ri]) IN [out |-> [i \in 1 .. Len(r.out) |-> Out(r.out[i])], stop |-> Out(r.stop)]]]

---------------------------------------------------------------------------
(* part In.part of In.parts (contiguous, equal sizes) of an enumeration: how the harness splits the work over several TLC processes *)
Slice(seq) == LET lo == (((In.part - 1) * Len(seq)) \div In.parts) + 1
                  hi == (In.part * Len(seq)) \div In.parts
              IN [i \in 1 .. (hi - lo + 1) |-> seq[lo + i - 1]]

Result ==
    CASE In.mode = "exprs" ->      \* a slice of the enumeration ExprSeq(alpha, n)
            LET A == Alphabets[In.alpha]
                ET == EnvTable(A.names, ValueSets[In.vals])
                es == Slice(ExprSeq(A, In.n))
            IN [i \in 1 .. Len(es) |-> Row(es[i], A.names, ET)]
      [] In.mode = "trees" ->
            LET ET == EnvTable(In.names, ValueSets[In.vals]) IN [i \in 1 .. Len(In.trees) |-> Row(In.trees[i], In.names, ET)]
      [] In.mode = "gens" ->
            LET A == Alphabets[In.alpha]
                ET == EnvTable(A.names, ValueSets[In.vals])
                gs == Slice(GenShellSeq(A, In.n))
            IN [i \in 1 .. Len(gs) |-> GenRow(gs[i], A.names, ET)]
      [] In.mode = "eltgens" ->     \* deeper elements: (<elt> for x in T) for every elt of ExprSeq(alpha, n)
            LET A == Alphabets[In.alpha]
                ET == EnvTable(A.names, ValueSets[In.vals])
                gs == Slice(ElementShellSeq(A, In.n))
            IN [i \in 1 .. Len(gs) |-> GenRow(gs[i], A.names, ET)]
      [] In.mode = "derivs" ->      \* trees given as derivations over the alphabet (seeded random larger trees)
            LET A == Alphabets[In.alpha]
                ET == EnvTable(A.names, ValueSets[In.vals])
            IN [i \in 1 .. Len(In.derivs) |-> Row(Build(A, In.derivs[i], 1)[1], A.names, ET)]
      [] In.mode = "genderivs" ->
            LET A == Alphabets[In.alpha]
                ET == EnvTable(A.names, ValueSets[In.vals])
            IN [i \in 1 .. Len(In.derivs) |-> GenRow(BuildGen(A, In.derivs[i]), A.names, ET)]
      [] In.mode = "gentrees" ->
            LET ET == EnvTable(In.names, ValueSets[In.vals]) IN [i \in 1 .. Len(In.trees) |-> GenRow(In.trees[i], In.names, ET)]
      [] In.mode = "count" ->      \* sizes of the spaces; distinct = cardinality of the set (the enumeration may list a tree twice)
            LET A == Alphabets[In.alpha] IN
            <<[exprs |-> Len(ExprSeq(A, In.n)),
               distinct |-> IF In.distinct THEN Cardinality(Exprs(A, In.n)) ELSE 0,
               gens |-> IF In.gn >= 0 THEN Len(GenShellSeq(A, In.gn)) ELSE 0,
               un |-> A.un, bin |-> A.bin, ter |-> A.ter, names |-> A.names, nconsts |-> Len(A.consts)]>>

ASSUME JsonSerialize(IOEnv.OUT, [rows |-> Result])
=============================================================================
