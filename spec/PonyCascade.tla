---------------------------- MODULE PonyCascade ----------------------------
(***************************************************************************)
(* C13 / C11 / C15 - a delete that is refused midway through a cascade.    *)
(*                                                                         *)
(* Three entities:  P(id, ks = Set(K, cascade_delete=True),                *)
(*                       rs = Set(R))   -- ks is declared BEFORE rs        *)
(*                  K(id, p = Required(P), w = Optional(int))              *)
(*                                           deleted with its parent       *)
(*                  C(id, k = Required(K))   K.cs = Set(C, cascade_delete) *)
(*                                           a second level below K[1]     *)
(*                  R(id, p = Required(P))   no cascade: refuses the delete*)
(* P[1].delete() first cascades over ks (deleting the K objects, cancelling*)
(* the ones created in this session) and only then meets rs; if an R       *)
(* exists the call raises ConstraintError and EVERYTHING must be as        *)
(* before: the K objects exist with the same status, are found by primary  *)
(* key as the same Python objects, belong to P[1].ks, and a later commit   *)
(* writes exactly the session's view (a K created before the refused       *)
(* delete is still inserted, a K modified before it is still updated:      *)
(* field W = the K objects whose attribute w is set).                      *)
(***************************************************************************)
EXTENDS Integers, FiniteSets, TLC

CONSTANTS KIds, RIds, MaxLevel,
          CIds        \* grandchildren: every C belongs to K[1]

VARIABLES db, cur,     \* [p |-> BOOLEAN, K |-> SUBSET KIds, R |-> SUBSET RIds, W |-> SUBSET KIds, C |-> SUBSET CIds]   (all children belong to P[1])
          new,         \* K/R objects created by the session, not flushed: <<e, k>>
          dead,        \* objects deleted by the session: their keys are not reused in this model (a deleted object may
                       \* keep its key until the next flush, which can happen implicitly before any query)
          sess, ev

vars == <<db, cur, new, dead, sess, ev>>
Ev(op, e, k, out, ret) == [op |-> op, e |-> e, k |-> k, out |-> out, ret |-> ret]

Seeds == {[p |-> TRUE, K |-> {}, R |-> {}, W |-> {}, C |-> {}], [p |-> TRUE, K |-> {1}, R |-> {}, W |-> {}, C |-> {}],
          [p |-> TRUE, K |-> {1}, R |-> {1}, W |-> {}, C |-> {}], [p |-> TRUE, K |-> {}, R |-> {1}, W |-> {}, C |-> {}],
          [p |-> TRUE, K |-> {1}, R |-> {1}, W |-> {1}, C |-> {}],
          [p |-> TRUE, K |-> {1}, R |-> {1}, W |-> {}, C |-> CIds], [p |-> TRUE, K |-> {1}, R |-> {}, W |-> {}, C |-> CIds]}

Init == db \in Seeds /\ cur = db /\ new = {} /\ dead = {} /\ sess = "none" /\ ev = Ev("Init", "-", 0, "ok", {})

Begin == sess = "none" /\ sess' = "open" /\ cur' = db /\ new' = {} /\ dead' = {} /\ ev' = Ev("Begin", "-", 0, "ok", {}) /\ UNCHANGED db

CreateK(k) == /\ sess = "open" /\ cur.p /\ k \notin cur.K /\ <<"K", k>> \notin dead     \* (a persistent object deleted in this session keeps its key until the flush)
              /\ cur' = [cur EXCEPT !.K = @ \cup {k}] /\ new' = new \cup {<<"K", k>>}
              /\ ev' = Ev("Create", "K", k, "ok", {}) /\ UNCHANGED <<db, dead, sess>>
CreateR(k) == /\ sess = "open" /\ cur.p /\ k \notin cur.R /\ <<"R", k>> \notin dead
              /\ cur' = [cur EXCEPT !.R = @ \cup {k}] /\ new' = new \cup {<<"R", k>>}
              /\ ev' = Ev("Create", "R", k, "ok", {}) /\ UNCHANGED <<db, dead, sess>>
DeleteR(k) == /\ sess = "open" /\ k \in cur.R
              /\ cur' = [cur EXCEPT !.R = @ \ {k}] /\ new' = new \ {<<"R", k>>} /\ dead' = dead \cup {<<"R", k>>}
              /\ ev' = Ev("Delete", "R", k, "ok", {}) /\ UNCHANGED <<db, sess>>
DeleteK(k) == /\ sess = "open" /\ k \in cur.K
              /\ cur' = [cur EXCEPT !.K = @ \ {k}, !.W = @ \ {k}, !.C = IF k = 1 THEN {} ELSE @]
              /\ new' = (new \ {<<"K", k>>}) \ (IF k = 1 THEN {<<"C", c>> : c \in CIds} ELSE {})
              /\ dead' = dead \cup {<<"K", k>>} \cup (IF k = 1 THEN {<<"C", c>> : c \in cur.C} ELSE {})
              /\ ev' = Ev("Delete", "K", k, "ok", {}) /\ UNCHANGED <<db, sess>>

CreateC(c) == /\ sess = "open" /\ 1 \in cur.K /\ c \notin cur.C /\ <<"C", c>> \notin dead
              /\ cur' = [cur EXCEPT !.C = @ \cup {c}] /\ new' = new \cup {<<"C", c>>}
              /\ ev' = Ev("Create", "C", c, "ok", {}) /\ UNCHANGED <<db, dead, sess>>
DeleteC(c) == /\ sess = "open" /\ c \in cur.C
              /\ cur' = [cur EXCEPT !.C = @ \ {c}] /\ new' = new \ {<<"C", c>>} /\ dead' = dead \cup {<<"C", c>>}
              /\ ev' = Ev("Delete", "C", c, "ok", {}) /\ UNCHANGED <<db, sess>>

(* K[k].w = 1 / None: a plain modification of a child (queued for UPDATE unless the object is new) *)
SetW(k) == /\ sess = "open" /\ k \in cur.K
           /\ cur' = [cur EXCEPT !.W = IF k \in @ THEN @ \ {k} ELSE @ \cup {k}]
           /\ ev' = Ev("SetW", "K", k, "ok", {}) /\ UNCHANGED <<db, new, dead, sess>>

(* P[1].delete(): cascade over ks, then refusal by rs - or success *)
DeleteP == /\ sess = "open" /\ cur.p
           /\ IF cur.R # {}
              THEN ev' = Ev("Delete", "P", 1, "ConstraintError", {}) /\ UNCHANGED <<db, cur, new, dead, sess>>     \* C13: nothing changes
              ELSE /\ cur' = [p |-> FALSE, K |-> {}, R |-> {}, W |-> {}, C |-> {}] /\ new' = {}
                   /\ dead' = dead \cup {<<"K", k>> : k \in cur.K} \cup {<<"C", c>> : c \in cur.C}
                   /\ ev' = Ev("Delete", "P", 1, "ok", {}) /\ UNCHANGED <<db, sess>>

(* what the program can observe (asked by the replay in every state): which objects exist, P[1].ks, P[1].rs *)
Look == /\ sess = "open"
        /\ ev' = Ev("Look", "-", 0, "ok", {<<"K", k>> : k \in cur.K} \cup {<<"R", k>> : k \in cur.R} \cup {<<"W", k>> : k \in cur.W} \cup {<<"C", c>> : c \in cur.C}
                                          \cup (IF cur.p THEN {<<"P", 1>>} ELSE {}))
        /\ UNCHANGED <<db, cur, new, dead, sess>>

End == sess = "open" /\ sess' = "none" /\ db' = cur /\ new' = {} /\ dead' = {} /\ ev' = Ev("End", "-", 0, "ok", {}) /\ UNCHANGED cur
EndExc == sess = "open" /\ sess' = "none" /\ new' = {} /\ dead' = {} /\ ev' = Ev("EndExc", "-", 0, "ok", {}) /\ UNCHANGED <<db, cur>>

Next == \/ Begin \/ End \/ EndExc \/ DeleteP \/ Look
        \/ \E k \in KIds : CreateK(k) \/ DeleteK(k) \/ SetW(k)
        \/ \E k \in RIds : CreateR(k) \/ DeleteR(k)
        \/ \E c \in CIds : CreateC(c) \/ DeleteC(c)

Bounded == TLCGet("level") <= MaxLevel
NoOrphans == (~db.p => db.K = {} /\ db.R = {}) /\ db.W \subseteq db.K /\ cur.W \subseteq cur.K
             /\ (1 \notin db.K => db.C = {}) /\ (1 \notin cur.K => cur.C = {})
StepProps == /\ Assert(ev'.out # "ok" => (db' = db /\ cur' = cur /\ new' = new /\ dead' = dead /\ sess' = sess), "a refused delete changed the session")
             /\ Assert(db' # db => (ev'.op = "End" /\ db' = cur), "database changed outside a commit")
=============================================================================
