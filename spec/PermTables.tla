----------------------------- MODULE PermTables -----------------------------
(* C34, E1: for every scenario (rule set) of Perm.Scenarios the expected three-valued answers of
   has_perm(user, perm, x) for every user, every target (entities, attributes, objects) and every permission,
   of can_view, and the objects to_json must not contain.  Answers are packed as one string per user:
   for each target in TargetList order: the four has_perm answers in PermList order followed by can_view.
   The laws of the oracle (Monotone, OrderFree, EmptyDenies) are checked on the way. *)
EXTENDS Perm, Json, IOUtils

In == JsonDeserialize(IOEnv.IN)

CV(v, e) == IF v = "T" THEN "T" ELSE IF v = "F" /\ e = "F" THEN "F" ELSE "O"      \* = Perm.CanView, from the two answers
(* a permission no rule of the scenario mentions is denied everywhere (law Unmentioned, checked below on the sample):
   it is not evaluated target by target *)
Mentioned(rs) == UNION {rs[k].perms : k \in 1 .. Len(rs)}
Pack(rs, u) == LET ps == Mentioned(rs)
                   A(p, x) == IF p \in ps THEN Allowed(rs, u, p, x) ELSE "F" IN
               FoldLeft(LAMBDA acc, x : LET v == A("view", x)
                                            e == A("edit", x)
                                        IN acc \o v \o e \o A("delete", x) \o A("create", x) \o CV(v, e),
                        "", TargetList)
Unmentioned(rs) == \A p \in {"view", "edit", "delete", "create"} \ Mentioned(rs) :
                      \A u \in {"u1", "u2", "u3"}, x \in Entities \cup Attrs \cup Objects : Allowed(rs, u, p, x) = "F"
ASSUME PermList = <<"view", "edit", "delete", "create">>

Row(rs) == [rules |-> rs, ans |-> [k \in 1 .. Len(UserList) |-> Pack(rs, UserList[k])],
            hidden |-> [k \in 1 .. Len(UserList) |-> NotViewable(rs, UserList[k])]]

Scn == Scenarios(In.big)

ASSUME EmptyDenies
ASSUME \A rs \in (IF In.alllaws THEN Scn ELSE LawSample(In.big)) : Monotone(rs) /\ OrderFree(rs) /\ Unmentioned(rs)

ASSUME JsonSerialize(IOEnv.OUT, [
    entities |-> EntityList, attrs |-> AttrList, objects |-> ObjectList, users |-> UserList, perms |-> PermList,
    targets |-> TargetList,
    groups |-> [k \in 1 .. Len(UserList) |-> UserGroups(UserList[k])],
    roles  |-> {[u |-> u, o |-> o, roles |-> Roles(u, o)] : u \in {"u1", "u2", "u3"}, o \in Objects},
    labels |-> [k \in 1 .. Len(ObjectList) |-> Labels(ObjectList[k])],
    rows   |-> {Row(rs) : rs \in Scn} ])
=============================================================================
