------------------------------- MODULE Perm -------------------------------
(***************************************************************************)
(* C34 - permission checks follow the declared access rules.               *)
(*                                                                         *)
(* Model: three entities  A --(A.bs / B.a)-- B --(B.c / C.b)-- C  with one  *)
(* plain attribute each, four objects, three users.  A rule is what        *)
(*   with db.set_perms_for(ents...):                                       *)
(*       perm(perms..., groups, roles, labels).exclude(xents..., xattrs...)*)
(* declares (pony/orm/core.py: perm, AccessRule, Database.set_perms_for).  *)
(*                                                                         *)
(* The property statement fixes this much and no more:                     *)
(*   - a rule grants its permissions on its entities to users who belong   *)
(*     to all its groups, hold all its roles on the object and whose       *)
(*     object carries all its labels - minus the entities and attributes   *)
(*     it excludes, "including exclusions on the reverse side of           *)
(*     relationships";                                                     *)
(*   - several rules: a permission is held when some rule grants it.       *)
(* It does not say what a rule WITH roles or labels means for a check on   *)
(* an entity or an attribute (there is no object to hold a role on), nor   *)
(* whether a relationship attribute needs the grant on one side or on both *)
(* sides, nor that "edit" implies "view".  The oracle is therefore three-  *)
(* valued: "T" / "F" where every reading of the statement agrees, "O"      *)
(* (open) otherwise; the harness never compares an "O".                    *)
(*     entity:    T if a rule without roles/labels grants it;              *)
(*                F if no rule grants it even ignoring roles/labels.       *)
(*     attribute: as entity, additionally minus excluded attributes;       *)
(*                for a relationship attribute T needs both sides T,       *)
(*                F needs both sides F (an excluded attribute whose        *)
(*                reverse side is excluded too is certainly not granted).  *)
(*     object:    two-valued - groups, roles on the object, labels of the  *)
(*                object, minus excluded entities.                         *)
(*     can_view:  T if view is T; F if view and edit are both F.           *)
(* to_json: every object in the output must be outside NotViewable(user).  *)
(* Repeated checks: the answer is a function of (rules, user, perm, x) -   *)
(* the harness asks twice in one session and once in a new session.        *)
(***************************************************************************)
EXTENDS Integers, Sequences, FiniteSets, SequencesExt, TLC

EntityList == <<"A", "B", "C">>
AttrList   == <<"A.x", "A.bs", "B.y", "B.a", "B.c", "C.z", "C.b">>
ObjectList == <<"a1", "b1", "b2", "c1">>
UserList   == <<"u1", "u2", "u3">>
PermList   == <<"view", "edit", "delete", "create">>

Entities == {"A", "B", "C"}
Attrs    == {"A.x", "A.bs", "B.y", "B.a", "B.c", "C.z", "C.b"}
Objects  == {"a1", "b1", "b2", "c1"}

EntOf(a) == CASE a \in {"A.x", "A.bs"} -> "A" [] a \in {"B.y", "B.a", "B.c"} -> "B" [] a \in {"C.z", "C.b"} -> "C"
RevOf(a) == CASE a = "A.bs" -> "B.a" [] a = "B.a" -> "A.bs" [] a = "B.c" -> "C.b" [] a = "C.b" -> "B.c" [] OTHER -> ""
ObjEnt(o) == CASE o = "a1" -> "A" [] o \in {"b1", "b2"} -> "B" [] o = "c1" -> "C"
(* the data: b1.a = b2.a = a1, c1.b = b1 *)

UserGroups(u) == CASE u = "u1" -> {"g1"} [] u = "u2" -> {"g1", "g2"} [] u = "u3" -> {}
Roles(u, o) == IF (u = "u1" /\ o \in {"a1", "b1"}) \/ (u = "u2" /\ o = "b2") THEN {"r1"} ELSE {}
Labels(o) == IF o \in {"a1", "b1"} THEN {"l1"} ELSE {}

Rule(ents, perms, groups, roles, labels, xents, xattrs) ==
    [ents |-> ents, perms |-> perms, groups |-> groups, roles |-> roles, labels |-> labels, xents |-> xents, xattrs |-> xattrs]

RulesFor(rs, e, p) == {k \in 1 .. Len(rs) : e \in rs[k].ents /\ p \in rs[k].perms}
GroupsOk(r, u) == r.groups \subseteq UserGroups(u)         \* every user is in the group "anybody"
Unconditional(r) == r.roles = {} /\ r.labels = {}

(* does rule r cover entity e / attribute a of e for user u, as far as groups and exclusions go *)
Covers(r, u, e) == GroupsOk(r, u) /\ e \notin r.xents
CoversAttr(r, u, a) == Covers(r, u, EntOf(a)) /\ a \notin r.xattrs

Tri(strict, loose) == IF strict THEN "T" ELSE IF ~loose THEN "F" ELSE "O"

EntityAllowed(rs, u, p, e) ==
    Tri(\E k \in RulesFor(rs, e, p) : Covers(rs[k], u, e) /\ Unconditional(rs[k]),
        \E k \in RulesFor(rs, e, p) : Covers(rs[k], u, e))

Side(rs, u, p, a) ==
    Tri(\E k \in RulesFor(rs, EntOf(a), p) : CoversAttr(rs[k], u, a) /\ Unconditional(rs[k]),
        \E k \in RulesFor(rs, EntOf(a), p) : CoversAttr(rs[k], u, a))

AttrAllowed(rs, u, p, a) ==
    IF RevOf(a) = "" THEN Side(rs, u, p, a)
    ELSE LET f == Side(rs, u, p, a)
             r == Side(rs, u, p, RevOf(a))
         IN IF f = "T" /\ r = "T" THEN "T" ELSE IF f = "F" /\ r = "F" THEN "F" ELSE "O"

ObjectAllowed(rs, u, p, o) ==
    IF \E k \in RulesFor(rs, ObjEnt(o), p) :
          /\ Covers(rs[k], u, ObjEnt(o))
          /\ rs[k].roles \subseteq Roles(u, o)
          /\ rs[k].labels \subseteq Labels(o)
    THEN "T" ELSE "F"

Allowed(rs, u, p, x) ==
    IF x \in Entities THEN EntityAllowed(rs, u, p, x)
    ELSE IF x \in Attrs THEN AttrAllowed(rs, u, p, x)
    ELSE ObjectAllowed(rs, u, p, x)

CanView(rs, u, x) ==
    LET v == Allowed(rs, u, "view", x)
        e == Allowed(rs, u, "edit", x)
    IN IF v = "T" THEN "T" ELSE IF v = "F" /\ e = "F" THEN "F" ELSE "O"

NotViewable(rs, u) == {o \in Objects : CanView(rs, u, o) = "F"}

TargetList == EntityList \o AttrList \o ObjectList

---------------------------------------------------------------------------
(* rule spaces *)
Exclusions == { [e |-> {}, a |-> {}], [e |-> {"A"}, a |-> {}], [e |-> {"B"}, a |-> {}], [e |-> {}, a |-> {"A.x"}],
                [e |-> {}, a |-> {"A.bs"}], [e |-> {}, a |-> {"B.a"}], [e |-> {}, a |-> {"B.c"}] }

(* single rules: the full product (the small variant drops "create" and the entity set {B, C}) *)
Rules1(big) == { Rule(ents, perms, groups, roles, labels, x.e, x.a) :
               ents \in (IF big THEN {{"A"}, {"B"}, {"A", "B"}, {"B", "C"}} ELSE {{"A"}, {"B"}, {"A", "B"}}),
               perms \in (IF big THEN {{"view"}, {"edit"}, {"view", "delete"}, {"create"}} ELSE {{"view"}, {"edit"}, {"view", "delete"}}),
               groups \in {{}, {"g1"}, {"g2"}}, roles \in {{}, {"r1"}}, labels \in {{}, {"l1"}}, x \in Exclusions }

(* rules combined in pairs *)
Rules2(big) == { Rule(ents, perms, groups, roles, labels, IF x = "own" THEN ents ELSE {}, IF x \in {"A.bs", "B.a"} THEN {x} ELSE {}) :
               ents \in {{"A"}, {"B"}}, perms \in {{"view"}, {"edit"}},
               groups \in (IF big THEN {{}, {"g1"}, {"g2"}} ELSE {{}, {"g1"}}), roles \in {{}, {"r1"}},
               labels \in (IF big THEN {{}, {"l1"}} ELSE {{}}),
               x \in {"none", "A.bs", "B.a", "own"} }     \* "own": the rule excludes its own entity

(* no rule, every single rule, every unordered pair of the pool (a rule paired with itself is the same rule declared
   twice).  Declaration order is immaterial to the oracle (law OrderFree below), so the harness is free to declare
   a pair in either order - it alternates. *)
PairIdx(n, lim) == {w \in (1 .. n) \X (1 .. n) : w[1] <= w[2] /\ w[1] <= lim}
Scenarios(big) ==
    LET s2 == SetToSeq(Rules2(big)) IN
    {<<>>} \cup {<<r>> : r \in Rules1(big)} \cup {<<s2[q[1]], s2[q[2]]>> : q \in PairIdx(Len(s2), Len(s2))}
(* the part of the scenarios on which the quick tier re-checks the laws below (the thorough tier checks them on all) *)
LawSample(big) ==
    LET s2 == SetToSeq(Rules2(big)) IN
    {<<s2[q[1]], s2[q[2]]>> : q \in PairIdx(Len(s2), 3)}

---------------------------------------------------------------------------
(* laws of the oracle itself, checked by TLC over the exported scenarios (PermTables) *)
Rank(t) == CASE t = "F" -> 0 [] t = "O" -> 1 [] t = "T" -> 2
(* rules only grant: declaring one more rule never lowers an answer *)
Monotone(rs) == Len(rs) < 2 \/ \A k \in 1 .. Len(rs) : \A u \in {"u1", "u2", "u3"}, p \in {"view", "edit"}, x \in Entities \cup Attrs \cup Objects :
                    Rank(Allowed(<<rs[k]>>, u, p, x)) <= Rank(Allowed(rs, u, p, x))
(* declaration order is immaterial *)
OrderFree(rs) == Len(rs) # 2 \/ \A u \in {"u1", "u2", "u3"}, p \in {"view", "edit"}, x \in Entities \cup Attrs \cup Objects :
                    Allowed(rs, u, p, x) = Allowed(<<rs[2], rs[1]>>, u, p, x)
(* without rules nothing is granted *)
EmptyDenies == \A u \in {"u1", "u2", "u3"}, p \in {"view", "edit", "delete", "create"}, x \in Entities \cup Attrs \cup Objects : Allowed(<<>>, u, p, x) = "F"
=============================================================================
