------------------------------ MODULE JsonDoc ------------------------------
(***************************************************************************)
(* JSON documents and arrays as Pony sees them (attributes of type Json,   *)
(* IntArray, StrArray), in three parts:                                    *)
(*                                                                         *)
(*  1. values and the Python meaning of every dict / list operation        *)
(*     (CPython is the environment here: the harness replays every         *)
(*     generated behaviour on plain dict/list first and stops with a       *)
(*     machinery failure if this part disagrees with CPython);             *)
(*  2. C29 - the meaning of the query operations on stored documents       *)
(*     (Path, Truthy, Compare, Contains, Length, array Index/Slice) and    *)
(*     transcriptions of the JSON path builders                            *)
(*     (SQLBuilder.eval_json_path, PGSQLBuilder.eval_json_path), of the    *)
(*     fallback path parser (dbproviders/sqlite.py:_parse_path) and of     *)
(*     PostgreSQL's array-literal syntax, with the round-trip laws.        *)
(*     Constant level: used through JsonDocTables / JsonDocJudge;          *)
(*  3. C28 - the state machine (doc, committed, dirty) of one object with  *)
(*     such an attribute inside a db_session: in-place mutations through   *)
(*     the attribute or through an alias taken earlier, reads, Commit and  *)
(*     Reopen (leave the db_session, load the object in a new one).        *)
(*     Pony side: ormtypes.TrackedValue/TrackedDict/TrackedList/           *)
(*     TrackedArray + tracked_method, core.Entity._attr_changed_,          *)
(*     dbapiprovider.JsonConverter/ArrayConverter (validate, dbval2val).   *)
(*                                                                         *)
(* Values are tagged records.  TLC must never compare 1 with "a", and it   *)
(* compares records field by field in an order of its own, so each scalar  *)
(* type keeps its payload in a field of its own name:                      *)
(*   [t |-> "null"]  [t |-> "bool", b]  [t |-> "int", n]  [t |-> "str", s] *)
(*   [t |-> "float", f |-> tenths]                                         *)
(*   [t |-> "list", v |-> <<values>>]                                      *)
(*   [t |-> "dict", v |-> <<[k |-> key, x |-> value], ...>>] with the      *)
(*   pairs in increasing KeyRank, so that equal dicts are equal values     *)
(*   (insertion order is not modelled: popitem is only offered on dicts    *)
(*   with at most one key, iteration results are compared as bags).        *)
(* Deliberate bounds: nesting depth <= 2, lists no longer than MaxLen.     *)
(***************************************************************************)
EXTENDS Integers, Sequences, FiniteSets, TLC

Null == [t |-> "null"]
B(b) == [t |-> "bool", b |-> b]
I(n) == [t |-> "int", n |-> n]
S(s) == [t |-> "str", s |-> s]
F(n) == [t |-> "float", f |-> n]          \* n tenths: F(15) is 1.5, F(0) is 0.0 (TLC has no reals)
L(s) == [t |-> "list", v |-> s]
D(ps) == [t |-> "dict", v |-> ps]
KV(k, x) == [k |-> k, x |-> x]

IsCont(x)   == x.t \in {"list", "dict"}
IsScalar(x) == ~IsCont(x)

Max2(a, b) == IF a >= b THEN a ELSE b
Min2(a, b) == IF a <= b THEN a ELSE b

(* Every string used as a dict key or as a scalar, in Python's (code point) order.  The harness checks the
   order against sorted() before anything else. *)
KeyOrder == <<"", " ", "1", "a", "a b", "a\"b", "a.b", "a[1]", "b", "c", "k", "x">>
KeyRank(k) == CHOOSE i \in 1 .. Len(KeyOrder) : KeyOrder[i] = k
StrLens  == <<0, 1, 1, 1, 3, 3, 3, 4, 1, 1, 1, 1>>          \* len() of the strings of KeyOrder (checked by the harness)
StrLen(k) == StrLens[KeyRank(k)]

---------------------------------------------------------------------------
(* Python equality on decoded JSON values: numbers and booleans compare numerically (True == 1). *)
IsNum(x) == x.t \in {"int", "bool", "float"}
Num(x)   == IF x.t = "bool" THEN (IF x.b THEN 10 ELSE 0) ELSE IF x.t = "int" THEN 10 * x.n ELSE x.f     \* in tenths

(* structural identity of two values, comparing payloads only under equal tags *)
RECURSIVE Same(_, _)
Same(a, b) ==
    IF a.t # b.t THEN FALSE
    ELSE CASE a.t = "null"  -> TRUE
           [] a.t = "bool"  -> a.b = b.b
           [] a.t = "int"   -> a.n = b.n
           [] a.t = "float" -> a.f = b.f
           [] a.t = "str"   -> a.s = b.s
           [] a.t = "list"  -> Len(a.v) = Len(b.v) /\ \A n \in 1 .. Len(a.v) : Same(a.v[n], b.v[n])
           [] a.t = "dict"  -> Len(a.v) = Len(b.v) /\ \A n \in 1 .. Len(a.v) : a.v[n].k = b.v[n].k /\ Same(a.v[n].x, b.v[n].x)
           [] OTHER -> a = b

RECURSIVE Eq(_, _)
Eq(a, b) ==
    IF IsNum(a) /\ IsNum(b) THEN Num(a) = Num(b)
    ELSE IF a.t # b.t THEN FALSE
    ELSE CASE a.t = "null" -> TRUE
           [] a.t = "str"  -> a.s = b.s
           [] a.t = "list" -> Len(a.v) = Len(b.v) /\ \A n \in 1 .. Len(a.v) : Eq(a.v[n], b.v[n])
           [] a.t = "dict" -> Len(a.v) = Len(b.v) /\ \A n \in 1 .. Len(a.v) : a.v[n].k = b.v[n].k /\ Eq(a.v[n].x, b.v[n].x)

---------------------------------------------------------------------------
(* list operations on TLA+ sequences; indexes are Python's (0-based, negative from the end);
   slice bounds are Null (omitted) or I(n) *)
Norm(n, i)     == IF i < 0 THEN i + n ELSE i
ValidIdx(n, i) == Norm(n, i) >= 0 /\ Norm(n, i) < n
At(s, i)       == s[Norm(Len(s), i) + 1]
ReplaceAt(s, i, x) == [s EXCEPT ![Norm(Len(s), i) + 1] = x]
RemovePos(s, k)    == SubSeq(s, 1, k - 1) \o SubSeq(s, k + 1, Len(s))      \* k is 1-based
RemoveAt(s, i)     == RemovePos(s, Norm(Len(s), i) + 1)
Bound(n, b, dflt)  == IF b.t = "null" THEN dflt ELSE IF b.n < 0 THEN Max2(n + b.n, 0) ELSE Min2(b.n, n)
GetSlice(s, i, j)  == LET lo == Bound(Len(s), i, 0)
                          hi == Bound(Len(s), j, Len(s))
                      IN IF hi <= lo THEN <<>> ELSE SubSeq(s, lo + 1, hi)
SetSlice(s, i, j, vs) == LET lo == Bound(Len(s), i, 0)
                             hi == Max2(Bound(Len(s), j, Len(s)), lo)
                         IN SubSeq(s, 1, lo) \o vs \o SubSeq(s, hi + 1, Len(s))
InsertAt(s, i, x)  == LET k == IF i < 0 THEN Max2(Len(s) + i, 0) ELSE Min2(i, Len(s))
                      IN SubSeq(s, 1, k) \o <<x>> \o SubSeq(s, k + 1, Len(s))
Occurs(s, x)       == {n \in 1 .. Len(s) : Eq(s[n], x)}
FirstPos(s, x)     == IF Occurs(s, x) = {} THEN 0 ELSE CHOOSE n \in Occurs(s, x) : \A m \in Occurs(s, x) : n <= m
Reverse(s)         == [n \in 1 .. Len(s) |-> s[Len(s) + 1 - n]]
RECURSIVE Repeat(_, _)
Repeat(s, k)       == IF k <= 0 THEN <<>> ELSE s \o Repeat(s, k - 1)
AllOf(s, tag)      == \A n \in 1 .. Len(s) : s[n].t = tag
Sortable(s)        == AllOf(s, "int") \/ AllOf(s, "str")       \* Python refuses to order mixed types
Rank(x)            == IF x.t = "int" THEN x.n ELSE KeyRank(x.s)
RECURSIVE SortAsc(_)
SortIns(sorted, x) == LET k == Cardinality({n \in 1 .. Len(sorted) : Rank(sorted[n]) <= Rank(x)})
                      IN SubSeq(sorted, 1, k) \o <<x>> \o SubSeq(sorted, k + 1, Len(sorted))
SortAsc(s)         == IF s = <<>> THEN <<>> ELSE SortIns(SortAsc(SubSeq(s, 1, Len(s) - 1)), s[Len(s)])

(* dict operations on key-ordered pair sequences *)
DIdx(ps, k)    == LET c == {n \in 1 .. Len(ps) : ps[n].k = k} IN IF c = {} THEN 0 ELSE CHOOSE n \in c : TRUE
DHas(ps, k)    == DIdx(ps, k) # 0
DGet(ps, k)    == ps[DIdx(ps, k)].x
DPut(ps, k, x) == IF DHas(ps, k) THEN [ps EXCEPT ![DIdx(ps, k)] = KV(k, x)]
                  ELSE LET pos == Cardinality({n \in 1 .. Len(ps) : KeyRank(ps[n].k) < KeyRank(k)})
                       IN SubSeq(ps, 1, pos) \o <<KV(k, x)>> \o SubSeq(ps, pos + 1, Len(ps))
DDel(ps, k)    == RemovePos(ps, DIdx(ps, k))
RECURSIVE DUpdate(_, _)
DUpdate(ps, qs) == IF qs = <<>> THEN ps ELSE DUpdate(DPut(ps, qs[1].k, qs[1].x), Tail(qs))
DKeyList(ps)   == [n \in 1 .. Len(ps) |-> S(ps[n].k)]
DItemList(ps)  == [n \in 1 .. Len(ps) |-> L(<<S(ps[n].k), ps[n].x>>)]

---------------------------------------------------------------------------
(* One call on one container.  An action is a record [op, i, j, k, x]: i, j are Null or I(n) (index, slice
   bounds, repeat count), k a key ("" when unused), x a value (Null when unused).  The result says what the
   container is afterwards, how the call ends (ok or the exception family), what it returns, and whether the
   call is one of the mutating methods/operators (mut) - a mutating call that raises changes nothing. *)
Act(op, i, j, k, x) == [op |-> op, i |-> i, j |-> j, k |-> k, x |-> x]
Did(c, ret)  == [c |-> c, out |-> "ok", ret |-> ret, mut |-> TRUE]
Saw(c, ret)  == [c |-> c, out |-> "ok", ret |-> ret, mut |-> FALSE]
Fail(c, e, m) == [c |-> c, out |-> e, ret |-> Null, mut |-> m]

ListMutators == {"setitem", "setslice", "delitem", "delslice", "append", "extend", "insert", "pop", "popi",
                 "remove", "sort", "sortrev", "reverse", "clear", "iadd", "imul"}
ListReaders  == {"getitem", "getslice", "len", "iter", "copy", "contains", "count"}
DictMutators == {"setitem", "delitem", "update", "updatekw", "updatepairs", "setdefault", "setdefault1",
                 "pop", "popd", "popitem", "clear", "ior"}
DictReaders  == {"getitem", "get", "getd", "len", "iter", "items", "copy", "contains"}

ListApply(c, a) ==
    LET s == c.v
        n == Len(s)
        op == a.op
    IN CASE op = "setitem"  -> IF ValidIdx(n, a.i.n) THEN Did(L(ReplaceAt(s, a.i.n, a.x)), Null) ELSE Fail(c, "IndexError", TRUE)
         [] op = "setslice" -> Did(L(SetSlice(s, a.i, a.j, a.x.v)), Null)
         [] op = "delitem"  -> IF ValidIdx(n, a.i.n) THEN Did(L(RemoveAt(s, a.i.n)), Null) ELSE Fail(c, "IndexError", TRUE)
         [] op = "delslice" -> Did(L(SetSlice(s, a.i, a.j, <<>>)), Null)
         [] op = "append"   -> Did(L(Append(s, a.x)), Null)
         [] op \in {"extend", "iadd"} -> Did(L(s \o a.x.v), Null)
         [] op = "insert"   -> Did(L(InsertAt(s, a.i.n, a.x)), Null)
         [] op = "pop"      -> IF n = 0 THEN Fail(c, "IndexError", TRUE) ELSE Did(L(SubSeq(s, 1, n - 1)), s[n])
         [] op = "popi"     -> IF ValidIdx(n, a.i.n) THEN Did(L(RemoveAt(s, a.i.n)), At(s, a.i.n)) ELSE Fail(c, "IndexError", TRUE)
         [] op = "remove"   -> IF FirstPos(s, a.x) = 0 THEN Fail(c, "ValueError", TRUE) ELSE Did(L(RemovePos(s, FirstPos(s, a.x))), Null)
         [] op = "sort"     -> Did(L(SortAsc(s)), Null)
         [] op = "sortrev"  -> Did(L(Reverse(SortAsc(s))), Null)
         [] op = "reverse"  -> Did(L(Reverse(s)), Null)
         [] op = "clear"    -> Did(L(<<>>), Null)
         [] op = "imul"     -> Did(L(Repeat(s, a.i.n)), Null)
         [] op = "getitem"  -> IF ValidIdx(n, a.i.n) THEN Saw(c, At(s, a.i.n)) ELSE Fail(c, "IndexError", FALSE)
         [] op = "getslice" -> Saw(c, L(GetSlice(s, a.i, a.j)))
         [] op = "len"      -> Saw(c, I(n))
         [] op \in {"iter", "copy"} -> Saw(c, c)
         [] op = "contains" -> Saw(c, B(FirstPos(s, a.x) # 0))
         [] op = "count"    -> Saw(c, I(Cardinality(Occurs(s, a.x))))

DictApply(c, a) ==
    LET ps == c.v
        op == a.op
        has == DHas(ps, a.k)
    IN CASE op = "setitem"  -> Did(D(DPut(ps, a.k, a.x)), Null)
         [] op = "delitem"  -> IF has THEN Did(D(DDel(ps, a.k)), Null) ELSE Fail(c, "KeyError", TRUE)
         [] op \in {"update", "updatekw", "updatepairs", "ior"} -> Did(D(DUpdate(ps, a.x.v)), Null)
         [] op \in {"setdefault", "setdefault1"} -> IF has THEN Did(c, DGet(ps, a.k)) ELSE Did(D(DPut(ps, a.k, a.x)), a.x)
         [] op = "pop"      -> IF has THEN Did(D(DDel(ps, a.k)), DGet(ps, a.k)) ELSE Fail(c, "KeyError", TRUE)
         [] op = "popd"     -> IF has THEN Did(D(DDel(ps, a.k)), DGet(ps, a.k)) ELSE Did(c, a.x)
         [] op = "popitem"  -> IF ps = <<>> THEN Fail(c, "KeyError", TRUE) ELSE Did(D(<<>>), L(<<S(ps[1].k), ps[1].x>>))
         [] op = "clear"    -> Did(D(<<>>), Null)
         [] op = "getitem"  -> IF has THEN Saw(c, DGet(ps, a.k)) ELSE Fail(c, "KeyError", FALSE)
         [] op = "get"      -> Saw(c, IF has THEN DGet(ps, a.k) ELSE Null)
         [] op = "getd"     -> Saw(c, IF has THEN DGet(ps, a.k) ELSE a.x)
         [] op = "len"      -> Saw(c, I(Len(ps)))
         [] op = "iter"     -> Saw(c, L(DKeyList(ps)))
         [] op = "items"    -> Saw(c, L(DItemList(ps)))
         [] op = "copy"     -> Saw(c, c)
         [] op = "contains" -> Saw(c, B(has))

Apply(c, a) == IF c.t = "list" THEN ListApply(c, a) ELSE DictApply(c, a)

---------------------------------------------------------------------------
(* documents of depth <= 2: paths to containers are <<>> (the attribute value itself) and <<e>> with e = S(key)
   or I(index) for a container held directly by the top container *)
ChildPaths(doc) ==
    IF doc.t = "list" THEN {<<I(n - 1)>> : n \in {m \in 1 .. Len(doc.v) : IsCont(doc.v[m])}}
    ELSE {<<S(doc.v[n].k)>> : n \in {m \in 1 .. Len(doc.v) : IsCont(doc.v[m].x)}}
ContPaths(doc) == {<<>>} \cup ChildPaths(doc)

Child(doc, e) == IF doc.t = "list" THEN doc.v[e.n + 1] ELSE DGet(doc.v, e.s)
GetAt(doc, p) == IF p = <<>> THEN doc ELSE Child(doc, p[1])
SetAt(doc, p, c) == IF p = <<>> THEN c
                    ELSE IF doc.t = "list" THEN L([doc.v EXCEPT ![p[1].n + 1] = c])
                    ELSE D(DPut(doc.v, p[1].s, c))

Flat(c) == IF c.t = "list" THEN \A n \in 1 .. Len(c.v) : IsScalar(c.v[n])
           ELSE \A n \in 1 .. Len(c.v) : IsScalar(c.v[n].x)
Items(c) == IF c.t = "list" THEN {c.v[n] : n \in 1 .. Len(c.v)} ELSE {c.v[n].x : n \in 1 .. Len(c.v)}

---------------------------------------------------------------------------
(*             C29 - query operations on a stored document                 *)
(*                                                                         *)
(* The meaning of each operation is Python's on the decoded value.  Where  *)
(* Python would raise (missing key, index out of range, a key applied to   *)
(* a scalar, ordering of unlike types, len() of a number ...) a query has  *)
(* no Python value to agree with: path selection then has to give None     *)
(* (SQL NULL - Missing below, with the reason for reporting), conditions   *)
(* are left open (Undef).                                                  *)
(***************************************************************************)
Missing(why) == [t |-> "missing", why |-> why]
Undef        == [t |-> "undef"]
Defined(v)   == v.t \notin {"missing", "undef"}

PathStep(v, key) ==
    IF v.t = "missing" THEN v
    ELSE IF v.t = "dict" THEN (IF key.t # "str" THEN Missing("index-on-dict")
                               ELSE IF DHas(v.v, key.s) THEN DGet(v.v, key.s) ELSE Missing("no-such-key"))
    ELSE IF v.t = "list" THEN (IF key.t # "int" THEN Missing("key-on-list")
                               ELSE IF ValidIdx(Len(v.v), key.n) THEN At(v.v, key.n) ELSE Missing("index-out-of-range"))
    ELSE IF v.t = "str" /\ key.t = "int" THEN Missing("index-on-str")      \* Python would index the string; JSON paths do not
    ELSE Missing("key-on-scalar")

RECURSIVE Path(_, _)
Path(v, keys) == IF keys = <<>> THEN v ELSE Path(PathStep(v, keys[1]), Tail(keys))

Truthy(v) == CASE v.t = "null" -> FALSE
               [] v.t = "bool" -> v.b
               [] v.t = "int"  -> v.n # 0
               [] v.t = "float" -> v.f # 0
               [] v.t = "str"  -> v.s # ""
               [] v.t \in {"list", "dict"} -> Len(v.v) > 0

(* v op c for a constant c: "T", "F", or "U" when Python raises TypeError *)
Compare(op, v, c) ==
    IF op = "==" THEN (IF Eq(v, c) THEN "T" ELSE "F")
    ELSE IF op = "!=" THEN (IF Eq(v, c) THEN "F" ELSE "T")
    ELSE LET a == IF IsNum(v) /\ IsNum(c) THEN Num(v) ELSE IF v.t = "str" /\ c.t = "str" THEN KeyRank(v.s) ELSE 0
             b == IF IsNum(v) /\ IsNum(c) THEN Num(c) ELSE IF v.t = "str" /\ c.t = "str" THEN KeyRank(c.s) ELSE 0
             r == CASE op = "<" -> a < b [] op = "<=" -> a <= b [] op = ">" -> a > b [] op = ">=" -> a >= b
         IN IF (IsNum(v) /\ IsNum(c)) \/ (v.t = "str" /\ c.t = "str") THEN (IF r THEN "T" ELSE "F") ELSE "U"

Tri(b) == IF b THEN "T" ELSE "F"
Neg(r) == IF r = "T" THEN "F" ELSE IF r = "F" THEN "T" ELSE r

(* key/item membership: `key in v` for a string key *)
Contains(v, key) == IF v.t = "dict" THEN Tri(DHas(v.v, key))
                    ELSE IF v.t = "list" THEN Tri(\E n \in 1 .. Len(v.v) : Eq(v.v[n], S(key)))
                    ELSE "U"                   \* substring test on strings / TypeError on the rest: not a JSON operation
Length(v) == IF v.t \in {"list", "dict"} THEN I(Len(v.v)) ELSE IF v.t = "str" THEN I(StrLen(v.s)) ELSE Undef

(* a query on a Json attribute: [q, keys, op, c, neg, key]; its answer for one stored document *)
JsonAnswer(q, doc) ==
    LET v == Path(doc, q.keys) IN
    CASE q.q = "path"   -> v
      [] q.q = "cmp"    -> IF Defined(v) THEN Compare(q.op, v, q.c) ELSE "U"
      [] q.q = "isnone" -> IF Defined(v) THEN (IF q.neg THEN Tri(v.t # "null") ELSE Tri(v.t = "null")) ELSE "U"
      [] q.q = "truthy" -> IF Defined(v) THEN (IF q.neg THEN Tri(~Truthy(v)) ELSE Tri(Truthy(v))) ELSE "U"
      [] q.q = "in"     -> IF Defined(v) THEN (IF q.neg THEN Neg(Contains(v, q.key)) ELSE Contains(v, q.key)) ELSE "U"
      [] q.q = "len"    -> IF Defined(v) THEN Length(v) ELSE Undef

(* a query on an IntArray / StrArray attribute holding the sequence s *)
ArrayAnswer(q, s) ==
    CASE q.q = "index"  -> IF ValidIdx(Len(s), q.i.n) THEN At(s, q.i.n) ELSE Missing("index-out-of-range")
      [] q.q = "slice"  -> L(GetSlice(s, q.i, q.j))
      [] q.q = "len"    -> I(Len(s))
      [] q.q = "in"     -> IF q.neg THEN Tri(FirstPos(s, q.c) = 0) ELSE Tri(FirstPos(s, q.c) # 0)
      [] q.q = "truthy" -> IF q.neg THEN Tri(s = <<>>) ELSE Tri(s # <<>>)

---------------------------------------------------------------------------
(*        JSON path texts: building, quoting and the fallback parser       *)
(*                                                                         *)
(* Texts are sequences of one-character strings.  A path element is        *)
(* I(n) or [t |-> "chars", v |-> <<characters>>].                          *)
(***************************************************************************)
C(s) == [t |-> "chars", v |-> s]
DigitCh == <<"0", "1", "2", "3", "4", "5", "6", "7", "8", "9">>
IsDigit(ch) == \E n \in 1 .. 10 : DigitCh[n] = ch
DigitVal(ch) == (CHOOSE n \in 1 .. 10 : DigitCh[n] = ch) - 1
IsWordCh(ch) == IsDigit(ch) \/ ch \in {"a", "b", "c", "k", "x", "_"}        \* \w restricted to the characters used here
IsIdentStart(ch) == ch \in {"a", "b", "c", "k", "x", "_"}
IsIdent(s) == s # <<>> /\ IsIdentStart(s[1]) /\ \A n \in 2 .. Len(s) : IsWordCh(s[n])     \* utils.is_ident

RECURSIVE NatChars(_)
NatChars(n) == IF n < 10 THEN <<DigitCh[n + 1]>> ELSE NatChars(n \div 10) \o <<DigitCh[(n % 10) + 1]>>
IntChars(n) == IF n < 0 THEN <<"-">> \o NatChars(-n) ELSE NatChars(n)
RECURSIVE NatVal(_)
NatVal(ds) == IF ds = <<>> THEN 0 ELSE 10 * NatVal(SubSeq(ds, 1, Len(ds) - 1)) + DigitVal(ds[Len(ds)])

RECURSIVE Flatten(_)
Flatten(ss) == IF ss = <<>> THEN <<>> ELSE ss[1] \o Flatten(Tail(ss))
EscapeQuotes(s) == Flatten([n \in 1 .. Len(s) |-> IF s[n] = "\"" THEN <<"\\", "\"">> ELSE <<s[n]>>])

(* SQLBuilder.eval_json_path (SQLite, MySQL, Oracle): $, then [n] for an integer, .name for an identifier,
   and the key between double quotes with every double quote preceded by a backslash otherwise *)
BuildElem(e) == IF e.t = "int" THEN <<"[">> \o IntChars(e.n) \o <<"]">>
                ELSE IF IsIdent(e.v) THEN <<".">> \o e.v
                ELSE <<".", "\"">> \o EscapeQuotes(e.v) \o <<"\"">>
BuildPath(keys) == <<"$">> \o Flatten([n \in 1 .. Len(keys) |-> BuildElem(keys[n])])

(* dbproviders/sqlite.py:_parse_path - json_path_re matched repeatedly from position 1 (0-based) on: either
   [ optional minus, digits ], or a dot followed by a run of word characters, or a dot followed by a double
   quote, any characters but a double quote, and a double quote; the result is None when some position
   matches nothing *)
RunEnd(p, from, Pred(_)) ==          \* first position >= from whose character fails Pred (Len+1 if none)
    LET stop == {n \in from .. Len(p) : ~Pred(p[n])} IN
    IF stop = {} THEN Len(p) + 1 ELSE CHOOSE n \in stop : \A m \in stop : n <= m
NoMatch == [ok |-> FALSE, key |-> Null, next |-> 0]
MatchAt(p, pos) ==
    IF p[pos] = "[" THEN
        LET neg == pos + 1 <= Len(p) /\ p[pos + 1] = "-"
            d0  == IF neg THEN pos + 2 ELSE pos + 1
            d1  == RunEnd(p, d0, IsDigit)
        IN IF d1 > d0 /\ d1 <= Len(p) /\ p[d1] = "]"
           THEN [ok |-> TRUE, key |-> I((IF neg THEN -1 ELSE 1) * NatVal(SubSeq(p, d0, d1 - 1))), next |-> d1 + 1]
           ELSE NoMatch
    ELSE IF p[pos] = "." /\ pos + 1 <= Len(p) THEN
        IF IsWordCh(p[pos + 1])
        THEN LET e == RunEnd(p, pos + 1, IsWordCh) IN [ok |-> TRUE, key |-> C(SubSeq(p, pos + 1, e - 1)), next |-> e]
        ELSE IF p[pos + 1] = "\""
        THEN LET e == RunEnd(p, pos + 2, LAMBDA ch : ch # "\"") IN
             IF e <= Len(p) THEN [ok |-> TRUE, key |-> C(SubSeq(p, pos + 2, e - 1)), next |-> e + 1] ELSE NoMatch
        ELSE NoMatch
    ELSE NoMatch
RECURSIVE ParseFrom(_, _, _)
ParseFrom(p, pos, acc) ==
    IF pos > Len(p) THEN [ok |-> TRUE, keys |-> acc]
    ELSE LET m == MatchAt(p, pos) IN IF m.ok THEN ParseFrom(p, m.next, Append(acc, m.key)) ELSE [ok |-> FALSE, keys |-> <<>>]
ParsePath(p) == IF p # <<>> /\ p[1] = "$" THEN ParseFrom(p, 2, <<>>) ELSE [ok |-> FALSE, keys |-> <<>>]

RoundTrips(keys) == LET r == ParsePath(BuildPath(keys)) IN r.ok /\ r.keys = keys
HasQuote(keys)   == \E n \in 1 .. Len(keys) : keys[n].t = "chars" /\ \E m \in 1 .. Len(keys[n].v) : keys[n].v[m] = "\""

(* PGSQLBuilder.eval_json_path: the text of a text[] literal - braces around comma separated elements; integers
   and identifiers as they are, other keys between double quotes with double quotes backslash-escaped *)
PgElem(e) == IF e.t = "int" THEN IntChars(e.n)
             ELSE IF IsIdent(e.v) THEN e.v ELSE <<"\"">> \o EscapeQuotes(e.v) \o <<"\"">>
RECURSIVE JoinComma(_)
JoinComma(ss) == IF ss = <<>> THEN <<>> ELSE IF Len(ss) = 1 THEN ss[1] ELSE ss[1] \o <<",">> \o JoinComma(Tail(ss))
PgBuild(keys) == <<"{">> \o JoinComma([n \in 1 .. Len(keys) |-> PgElem(keys[n])]) \o <<"}">>
PgText(e) == IF e.t = "int" THEN IntChars(e.n) ELSE e.v          \* the element a text[] path must carry

(* Lexer for one-dimensional PostgreSQL array literals (array_in): elements separated by commas inside braces;
   an element is either double-quoted (backslash escapes the next character) or unquoted (no quote, brace,
   comma; backslash escapes; surrounding white space dropped; must not be empty).  Result: the element texts. *)
IsSpace(ch) == ch = " "
PgBad == [ok |-> FALSE, items |-> <<>>]
RECURSIVE PgQuoted(_, _, _)
PgQuoted(p, pos, acc) ==       \* pos is inside the quotes; returns [ok, text, next] with next after the closing quote
    IF pos > Len(p) THEN [ok |-> FALSE, text |-> <<>>, next |-> 0]
    ELSE IF p[pos] = "\"" THEN [ok |-> TRUE, text |-> acc, next |-> pos + 1]
    ELSE IF p[pos] = "\\" THEN (IF pos + 1 > Len(p) THEN [ok |-> FALSE, text |-> <<>>, next |-> 0]
                                 ELSE PgQuoted(p, pos + 2, Append(acc, p[pos + 1])))
    ELSE PgQuoted(p, pos + 1, Append(acc, p[pos]))
RECURSIVE PgUnquoted(_, _, _)
PgUnquoted(p, pos, acc) ==     \* returns [ok, text, next] with next at the delimiter
    IF pos > Len(p) THEN [ok |-> FALSE, text |-> <<>>, next |-> 0]
    ELSE IF p[pos] \in {",", "}"} THEN [ok |-> TRUE, text |-> acc, next |-> pos]
    ELSE IF p[pos] \in {"\"", "{"} THEN [ok |-> FALSE, text |-> <<>>, next |-> 0]
    ELSE IF p[pos] = "\\" THEN (IF pos + 1 > Len(p) THEN [ok |-> FALSE, text |-> <<>>, next |-> 0]
                                 ELSE PgUnquoted(p, pos + 2, Append(acc, p[pos + 1])))
    ELSE PgUnquoted(p, pos + 1, Append(acc, p[pos]))
RECURSIVE RTrim(_)
RTrim(s) == IF s # <<>> /\ IsSpace(s[Len(s)]) THEN RTrim(SubSeq(s, 1, Len(s) - 1)) ELSE s
RECURSIVE PgItems(_, _, _)
PgItems(p, pos, acc) ==        \* pos at the start of an element
    LET st == RunEnd(p, pos, IsSpace) IN
    IF st > Len(p) THEN PgBad
    ELSE LET r == IF p[st] = "\"" THEN PgQuoted(p, st + 1, <<>>) ELSE PgUnquoted(p, st, <<>>)
             quoted == p[st] = "\""
         IN IF ~r.ok THEN PgBad
            ELSE LET text == IF quoted THEN r.text ELSE RTrim(r.text)
                     nx == RunEnd(p, r.next, IsSpace)
                 IN IF (~quoted /\ text = <<>>) \/ nx > Len(p) THEN PgBad
                    ELSE IF p[nx] = "," THEN PgItems(p, nx + 1, Append(acc, text))
                    ELSE IF p[nx] = "}" /\ nx = Len(p) THEN [ok |-> TRUE, items |-> Append(acc, text)]
                    ELSE PgBad
PgLex(p) == IF Len(p) < 2 \/ p[1] # "{" THEN PgBad
            ELSE IF Len(p) = 2 /\ p[2] = "}" THEN [ok |-> TRUE, items |-> <<>>]
            ELSE PgItems(p, 2, <<>>)
PgCarries(text, keys) == LET r == PgLex(text) IN r.ok /\ r.items = [n \in 1 .. Len(keys) |-> PgText(keys[n])]

---------------------------------------------------------------------------
(*                      C28 - the tracking state machine                   *)
(*                                                                         *)
(* doc        the value of the attribute as Python sees it now             *)
(* committed  the value a new db_session reads (the database row)          *)
(* dirty      a mutating method/operator was called since the last commit  *)
(*            (the object may be written at commit; it must be written     *)
(*            when doc # committed, and ~dirty => doc = committed)         *)
(* alias      x = <container at alias.p>, taken by an earlier step          *)
(* budget, ncommit   scheduling only (MaxBurst = 0: free interleaving;     *)
(*            MaxBurst = n: 1..n calls, then a commit, so that generated   *)
(*            behaviours observe the database right after short bursts)    *)
(* ev         observation record of the step that led to this state        *)
(*                                                                         *)
(* A call addresses its container either through the attribute             *)
(* (o.data['k'].append(1), o.data['k'] += [1]) or through the alias        *)
(* (x.append(1), x += [1], x['k'] += [1]).                                 *)
(* Deliberate deviations from plain Python: assigning a container into a   *)
(* tracked value stores a tracked *copy* (TrackedValue.make), so the       *)
(* model forgets the alias whenever the aliased container or its parent is *)
(* the target of a call that may re-assign it; a call that would nest      *)
(* deeper than 2 or grow a list beyond MaxLen is not offered.              *)
(***************************************************************************)
CONSTANTS Scalars,     \* scalar values offered as arguments
          ArgConts,    \* containers offered as arguments to calls on the top container ({} for arrays)
          Keys,        \* dict keys offered
          SliceB,      \* slice bounds offered (Null = omitted)
          MaxLen, MaxSeq,
          InitDocs,    \* values the attribute may have when the behaviour starts (already committed)
          MaxBurst, MaxCommits,
          Ops,         \* operations offered (AllOps, or less for a particular run)
          SrcDocs,     \* values of the *source* Json attribute nested containers are moved from
          MoveFrom     \* where that source lives: subset of {"attr2", "obj2"}; {} = no moves and no flush

VARIABLES doc, committed, dirty, alias, budget, ncommit, ev,
          src          \* value of the source attribute: o.data2 (MoveFrom "attr2") and o2.data of a second object
                       \* ("obj2") both hold it; storing one of its containers elsewhere stores a tracked copy, so
                       \* nothing in this machine ever changes it
vars == <<doc, committed, dirty, alias, budget, ncommit, ev, src>>
View == <<doc, committed, dirty, alias, budget, ncommit, src>>       \* ev adds no behaviour

NoAlias == [on |-> FALSE, p |-> <<>>]
AugOps  == {"iadd", "imul", "ior"}

ArgVals(p) == Scalars \cup (IF p = <<>> THEN ArgConts ELSE {})
SeqArgs(p) == {<<>>} \cup {<<x>> : x \in ArgVals(p)}
              \cup (IF MaxSeq >= 2 THEN {<<x, y>> : x \in ArgVals(p), y \in Scalars} ELSE {})
DictArgs(p) == {D(<<>>)} \cup {D(<<KV(k, x)>>) : k \in Keys, x \in ArgVals(p)}
               \cup (IF MaxSeq >= 2 THEN {D(<<KV(k1, x), KV(k2, y)>>) : <<k1, k2>> \in {q \in Keys \X Keys : KeyRank(q[1]) < KeyRank(q[2])},
                                                                        x \in Scalars, y \in Scalars}
                     ELSE {})
IdxFor(n) == -(n + 1) .. n                    \* every valid index and one invalid on each side

Fits(c) == c.t = "dict" \/ Len(c.v) <= MaxLen

(* the calls of kind o offered on container c at path p *)
ListActs(o, c, p) ==
    LET n == Len(c.v)
        all ==
          CASE o = "setitem"  -> {Act(o, I(i), Null, "", x) : i \in IdxFor(n), x \in ArgVals(p)}
            [] o = "setslice" -> {Act(o, i, j, "", L(vs)) : i \in SliceB, j \in SliceB, vs \in SeqArgs(p)}
            [] o \in {"delitem", "popi", "getitem"} -> {Act(o, I(i), Null, "", Null) : i \in IdxFor(n)}
            [] o \in {"delslice", "getslice"} -> {Act(o, i, j, "", Null) : i \in SliceB, j \in SliceB}
            [] o = "append"   -> {Act(o, Null, Null, "", x) : x \in ArgVals(p)}
            [] o \in {"extend", "iadd"} -> {Act(o, Null, Null, "", L(vs)) : vs \in SeqArgs(p)}
            [] o = "insert"   -> {Act(o, I(i), Null, "", x) : i \in IdxFor(n), x \in ArgVals(p)}
            [] o = "remove"   -> {Act(o, Null, Null, "", x) : x \in ArgVals(p) \cup Items(c)}
            [] o \in {"sort", "sortrev"} -> IF Sortable(c.v) THEN {Act(o, Null, Null, "", Null)} ELSE {}
            [] o \in {"pop", "reverse", "clear", "len", "iter", "copy"} -> {Act(o, Null, Null, "", Null)}
            [] o = "imul"     -> {Act(o, I(k), Null, "", Null) : k \in (IF Flat(c) THEN {0, 1, 2} ELSE {0, 1})}
            [] o \in {"contains", "count"} -> {Act(o, Null, Null, "", x) : x \in Scalars}
            [] OTHER -> {}
    IN {a \in all : Fits(ListApply(c, a).c)}

DictActs(o, c, p) ==
    CASE o = "setitem" -> {Act(o, Null, Null, k, x) : k \in Keys, x \in ArgVals(p)}
      [] o \in {"delitem", "pop", "setdefault1", "getitem", "get", "contains"} -> {Act(o, Null, Null, k, Null) : k \in Keys}
      [] o \in {"update", "updatekw", "updatepairs", "ior"} -> {Act(o, Null, Null, "", x) : x \in DictArgs(p)}
      [] o = "setdefault" -> {Act(o, Null, Null, k, x) : k \in Keys, x \in ArgVals(p)}
      [] o \in {"popd", "getd"} -> {Act(o, Null, Null, k, x) : k \in Keys, x \in Scalars}
      [] o = "popitem" -> IF Len(c.v) <= 1 THEN {Act(o, Null, Null, "", Null)} ELSE {}
      [] o \in {"clear", "len", "iter", "items", "copy"} -> {Act(o, Null, Null, "", Null)}
      [] OTHER -> {}

ActsOf(o, c, p) == IF c.t = "list" THEN ListActs(o, c, p) ELSE DictActs(o, c, p)

Vias(p) == {"attr"} \cup (IF alias.on /\ (alias.p = <<>> \/ alias.p = p) THEN {"alias"} ELSE {})

Running  == MaxCommits = 0 \/ ncommit < MaxCommits
MayCall  == Running /\ (MaxBurst = 0 \/ budget > 0)
MayCommit == Running /\ (MaxBurst = 0 \/ budget = 0)
Spend    == budget' = (IF MaxBurst = 0 THEN 0 ELSE budget - 1) /\ ncommit' = ncommit

Ev(op, on, p, via, rel, a, out, ret, mut, chg, may) ==
    [op |-> op, on |-> on, p |-> p, via |-> via, rel |-> rel, i |-> a.i, j |-> a.j, k |-> a.k, x |-> a.x,
     out |-> out, ret |-> ret, mut |-> mut, chg |-> chg, may |-> may, mv |-> [on |-> FALSE, from |-> "", q |-> <<>>]]
NoMove == [on |-> FALSE, from |-> "", q |-> <<>>]
NoArgs == Act("", Null, Null, "", Null)

Init == /\ doc \in InitDocs
        /\ committed = doc
        /\ dirty = FALSE
        /\ alias = NoAlias
        /\ budget \in (IF MaxBurst = 0 THEN {0} ELSE 1 .. MaxBurst)
        /\ ncommit = 0
        /\ src \in SrcDocs
        /\ ev = Ev("init", "session", <<>>, "attr", <<>>, NoArgs, "ok", doc, FALSE, FALSE, FALSE)

(* one method call / operator / read on the container at path p *)
(* mv # NoMove: the argument a.x is not a literal but the container at path mv.q of the source attribute
   (o.data[k] = o.data2[q], o.data.append(o2.data[q]) ...): a.x is its value, the source keeps it *)
CallWith(p, via, a, mv) ==
    LET c  == GetAt(doc, p)
        r  == Apply(c, a)
        nd == SetAt(doc, p, r.c)
        done == r.out = "ok" /\ r.mut
        forget == alias.on /\ done /\
                  \/ p = <<>> /\ alias.p # <<>>                                  \* parent was the target
                  \/ p # <<>> /\ alias.p = p /\ a.op \in AugOps /\ ~(via = "alias" /\ alias.p = p)
                                                                                  \* o.data[k] += .. re-assigns o.data[k]
    IN /\ MayCall
       /\ doc' = nd
       /\ dirty' = (dirty \/ r.mut)
       /\ alias' = IF forget THEN NoAlias ELSE alias
       /\ committed' = committed
       /\ src' = src
       /\ Spend
       /\ ev' = [Ev(a.op, c.t, p, via, IF via = "alias" /\ alias.p = p THEN <<>> ELSE p, a,
                    r.out, r.ret, r.mut, ~Same(nd, doc), dirty \/ r.mut) EXCEPT !.mv = mv]
Call(p, via, a) == CallWith(p, via, a, NoMove)

(* storing a nested container of the source (or the whole source value when it is flat) into the top container
   through the calls that take the value as a direct argument *)
MovablePaths == ChildPaths(src) \cup (IF Flat(src) THEN {<<>>} ELSE {})
MoveActs(c, x) ==
    LET all == IF c.t = "list"
               THEN {Act("setitem", I(n), Null, "", x) : n \in 0 .. Len(c.v) - 1}
                    \cup {Act("append", Null, Null, "", x)} \cup {Act("insert", I(n), Null, "", x) : n \in {0, 1}}
               ELSE {Act(o, Null, Null, k, x) : o \in {"setitem", "setdefault"}, k \in Keys}
    IN {a \in all : Fits(Apply(c, a).c)}
Move == \E from \in MoveFrom : \E q \in MovablePaths : \E via \in Vias(<<>>) : \E a \in MoveActs(doc, GetAt(src, q)) :
            CallWith(<<>>, via, a, [on |-> TRUE, from |-> from, q |-> q])

(* flush(): the pending UPDATE is sent, nothing is committed; the machine's state does not change *)
Flush ==
    /\ MoveFrom # {}
    /\ MayCall
    /\ UNCHANGED <<doc, committed, dirty, alias, src>>
    /\ Spend
    /\ ev' = Ev("flush", "session", <<>>, "attr", <<>>, NoArgs, "ok", doc, FALSE, FALSE, dirty)

TakeAlias(p) ==
    /\ MayCall
    /\ alias' = [on |-> TRUE, p |-> p]
    /\ UNCHANGED <<doc, committed, dirty, src>>
    /\ Spend
    /\ ev' = Ev("alias", GetAt(doc, p).t, p, "attr", p, NoArgs, "ok", GetAt(doc, p), FALSE, FALSE, dirty)

(* commit() inside the db_session (objects and alias stay usable) / leaving the db_session and loading the
   object in a new one.  ev.ret is the value the row must hold and a new session must read; ev.chg says the
   row must have been rewritten, ev.may that it may have been. *)
Sync(op) ==
    /\ MayCommit
    /\ committed' = doc
    /\ dirty' = FALSE
    /\ doc' = doc
    /\ src' = src
    /\ alias' = IF op = "reopen" THEN NoAlias ELSE alias
    /\ budget' \in (IF MaxBurst = 0 THEN {0} ELSE 1 .. MaxBurst)
    /\ ncommit' = (IF MaxCommits = 0 THEN 0 ELSE ncommit + 1)
    /\ ev' = Ev(op, "session", <<>>, "attr", <<>>, NoArgs, "ok", doc, FALSE, ~Same(doc, committed), dirty)

Next == \/ \E p \in ContPaths(doc) : \E via \in Vias(p) :
              \E o \in Ops : \E a \in ActsOf(o, GetAt(doc, p), p) : Call(p, via, a)
        \/ \E p \in ContPaths(doc) : TakeAlias(p)
        \/ Move \/ Flush
        \/ Sync("commit")
        \/ Sync("reopen")

Spec == Init /\ [][Next]_vars

(* The same relation with the calls listed kind by kind: TLC's simulator first draws a disjunct of the
   next-state relation, so this form spreads the steps of generated behaviours evenly over the alphabet
   instead of over the argument combinations.  Used for generation (SimSpec); Spec is what is model checked. *)
Op(o) == o \in Ops /\ \E p \in ContPaths(doc) : \E via \in Vias(p) : \E a \in ActsOf(o, GetAt(doc, p), p) : Call(p, via, a)

NextByOp ==
        \/ Op("setitem") \/ Op("setslice") \/ Op("delitem") \/ Op("delslice") \/ Op("append") \/ Op("extend")
        \/ Op("insert") \/ Op("pop") \/ Op("popi") \/ Op("remove") \/ Op("sort") \/ Op("sortrev") \/ Op("reverse")
        \/ Op("clear") \/ Op("iadd") \/ Op("imul")
        \/ Op("update") \/ Op("updatekw") \/ Op("updatepairs") \/ Op("setdefault") \/ Op("setdefault1")
        \/ Op("popd") \/ Op("popitem") \/ Op("ior")
        \/ Op("getitem") \/ Op("getslice") \/ Op("len") \/ Op("iter") \/ Op("copy") \/ Op("contains") \/ Op("count")
        \/ Op("get") \/ Op("getd") \/ Op("items")
        \/ \E p \in ContPaths(doc) : TakeAlias(p)
        \/ Move \/ Move \/ Flush                  \* (listed twice: drawn as often as two of the calls)
        \/ Sync("commit")
        \/ Sync("reopen")

SimSpec == Init /\ [][NextByOp]_vars

AllOps == ListMutators \cup ListReaders \cup DictMutators \cup DictReaders
NextCoversAlphabet ==      \* the disjuncts above name every operation of the alphabet
    AllOps = {"setitem", "setslice", "delitem", "delslice", "append", "extend", "insert", "pop", "popi", "remove",
              "sort", "sortrev", "reverse", "clear", "iadd", "imul", "update", "updatekw", "updatepairs",
              "setdefault", "setdefault1", "popd", "popitem", "ior", "getitem", "getslice", "len", "iter", "copy",
              "contains", "count", "get", "getd", "items"}
ASSUME NextCoversAlphabet

(* ---- what TLC checks on the machine itself ---- *)
SortedKeys(ps) == \A n \in 1 .. Len(ps) - 1 : KeyRank(ps[n].k) < KeyRank(ps[n + 1].k)
WellFormedCont(c, inner) ==
    /\ IsCont(c)
    /\ c.t = "list" => Len(c.v) <= MaxLen
    /\ c.t = "dict" => SortedKeys(c.v)
    /\ inner => Flat(c)
WellFormed(d) == WellFormedCont(d, FALSE) /\ \A p \in ChildPaths(d) : WellFormedCont(GetAt(d, p), TRUE)

TypeOK         == WellFormed(doc) /\ WellFormed(committed) /\ dirty \in BOOLEAN
CleanIsSaved   == ~dirty => Same(committed, doc)                 \* nothing can be lost while the object is not marked
AliasValid     == alias.on => alias.p \in ContPaths(doc)

SourceKept     == [][Same(src', src)]_vars                  \* moving a container out of the source never changes the source
IsSync(e)      == e.op \in {"commit", "reopen"}
MutationMarks  == [][ev'.mut => dirty']_vars                                      \* every mutation sets dirty
ReadsArePure   == [][(~ev'.mut /\ ~IsSync(ev')) => (Same(doc', doc) /\ Same(committed', committed) /\ dirty' = dirty)]_vars   \* reads never do
CommitSaves    == [][IsSync(ev') => (Same(committed', doc) /\ Same(doc', doc) /\ ~dirty')]_vars
FailureIsNoop  == [][ev'.out # "ok" => Same(doc', doc)]_vars
ChangeIsMarked == [][~Same(doc', doc) => (ev'.mut /\ ev'.chg /\ dirty')]_vars

---------------------------------------------------------------------------
(* parameter sets named from the .cfg files written by the harness *)
ScalarsJson  == {I(1), I(2), S("a"), Null}
ScalarsTwo   == {I(1), I(2)}
ScalarsOne   == {I(1)}
ScalarsInt   == {I(1), I(2), I(3)}
ScalarsStr   == {S("a"), S("b"), S("c")}
ContsJson    == {L(<<>>), L(<<I(1)>>), D(<<>>), D(<<KV("a", I(1))>>)}
ContsEmpty   == {L(<<>>), D(<<>>)}
ContsNone    == {}
KeysAB       == {"a", "b"}
KeysA        == {"a"}
SliceBFull   == {Null, I(0), I(1), I(-1), I(2)}
SliceBSmall  == {Null, I(1)}
SliceBMid    == {Null, I(1), I(-1)}

SeqsUpTo(sc, n) == UNION {[1 .. m -> sc] : m \in 0 .. n}
RECURSIVE KeySeq(_)
KeySeq(ks) == IF ks = {} THEN <<>>
              ELSE LET k == CHOOSE q \in ks : \A r \in ks : KeyRank(q) <= KeyRank(r) IN <<k>> \o KeySeq(ks \ {k})
DictsOver(keys, vals) == UNION {{D([n \in 1 .. Len(KeySeq(ks)) |-> KV(KeySeq(ks)[n], f[KeySeq(ks)[n]])]) : f \in [ks -> vals]}
                                : ks \in SUBSET keys}
ListsOver(vals, n) == {L(s) : s \in SeqsUpTo(vals, n)}
Vals1(sc, keys, n) == sc \cup ListsOver(sc, n) \cup DictsOver(keys, sc)
DocsOver(sc, keys, inner, n) == ListsOver(Vals1(sc, keys, inner), n) \cup DictsOver(keys, Vals1(sc, keys, inner))

OpsNoSetSlice == AllOps \ {"setslice"}
SrcNone      == {L(<<>>)}
SrcJson      == {D(<<KV("a", L(<<I(1), I(2)>>)), KV("b", D(<<KV("a", I(1))>>))>>), L(<<L(<<I(2)>>), D(<<>>)>>)}
SrcOne       == {D(<<KV("a", L(<<I(1)>>))>>)}
NoMoves      == {}
MovesBoth    == {"attr2", "obj2"}
OpsMove      == {"append", "len"}
DocsMove     == {D(<<KV("a", I(1))>>)}
DocsMove2    == {D(<<KV("a", I(1))>>), L(<<I(1)>>)}
DocsMC0      == DocsOver(ScalarsOne, KeysA, 1, 1)
DocsMC1      == DocsOver(ScalarsOne, KeysA, 1, 2)
DocsMC2      == DocsOver(ScalarsTwo, KeysAB, 1, 1) \cup DocsOver(ScalarsOne, KeysA, 2, 2)
DocsSim      == DocsOver(ScalarsTwo, KeysAB, 1, 2)
DocsIntArr   == ListsOver(ScalarsInt, 3)
DocsStrArr   == ListsOver(ScalarsStr, 3)
DocsIntArr2  == ListsOver(ScalarsTwo, 2)
DocsEpisode  == { D(<<>>), L(<<>>),
                  D(<<KV("a", L(<<I(2), I(1)>>)), KV("b", D(<<KV("a", I(1))>>))>>),
                  L(<<I(1), L(<<I(2), I(1)>>), D(<<KV("a", I(1))>>)>>),
                  D(<<KV("a", I(1)), KV("b", L(<<>>))>>),
                  L(<<D(<<>>), S("a")>>) }
DocsEpisode2 == { D(<<KV("a", L(<<I(1)>>)), KV("b", D(<<KV("a", I(1))>>))>>),
                  L(<<I(1), L(<<I(1)>>), D(<<>>)>>) }
DocsEpisodeInt == { L(<<>>), L(<<I(2), I(1)>>), L(<<I(3), I(1), I(2)>>) }
DocsEpisodeStr == { L(<<>>), L(<<S("b"), S("a")>>) }

=============================================================================
