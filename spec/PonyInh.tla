------------------------------ MODULE PonyInh ------------------------------
(***************************************************************************)
(* C27 - objects keep their class and polymorphic queries are exact.       *)
(*                                                                         *)
(* Hierarchy (diamond, custom integer discriminator):                      *)
(*        Base                                                             *)
(*       /    \                                                            *)
(*      S1    S2          R.b : Optional(Base)   (a reference typed with   *)
(*       \    /                                   the root class)          *)
(*        S12             S3 (a further leaf subclass of Base)              *)
(* cls[k] is the class object k was created as ("none": no such object).   *)
(* The session may meet an object first as an unloaded reference typed     *)
(* Base (navigation R[k].b), by lookup through any class of the hierarchy, *)
(* or in the result of a polymorphic query; in every case the Python       *)
(* object's class must be exactly cls[k], and a query / lookup over class  *)
(* c returns exactly the objects whose class is c or a subclass of c.      *)
(***************************************************************************)
EXTENDS Integers, FiniteSets, TLC

CONSTANTS Ids, MaxLevel

Classes == {"Base", "S1", "S2", "S12", "S3"}        \* S3: a leaf sibling of the diamond
Sub(c, d) == c = d \/ d = "Base" \/ (c = "S12" /\ d \in {"S1", "S2"})     \* c is d or a subclass of d

VARIABLES cls,     \* committed: id -> class or "none"
          cur,     \* the session's view
          sess,    \* "none" | "open"
          seen,    \* ids whose Python object the session already holds (as seed or loaded)
          ev

vars == <<cls, cur, sess, seen, ev>>
Ev(op, c, k, out, ret, rc) == [op |-> op, c |-> c, k |-> k, out |-> out, ret |-> ret, rc |-> rc]

Init == /\ cls = [k \in Ids |-> "none"] /\ cur = cls /\ sess = "none" /\ seen = {}
        /\ ev = Ev("Init", "-", 0, "ok", {}, "-")

Begin == /\ sess = "none" /\ sess' = "open" /\ cur' = cls /\ seen' = {}
         /\ ev' = Ev("Begin", "-", 0, "ok", {}, "-") /\ UNCHANGED cls

(* c(id=k) together with R(id=k, b=obj) *)
Create(c, k) == /\ sess = "open" /\ cur[k] = "none"
                /\ cur' = [cur EXCEPT ![k] = c] /\ seen' = seen \cup {k}
                /\ ev' = Ev("Create", c, k, "ok", {}, c) /\ UNCHANGED <<cls, sess>>

End == /\ sess = "open" /\ sess' = "none" /\ cls' = cur /\ seen' = {}
       /\ ev' = Ev("End", "-", 0, "ok", {}, "-") /\ UNCHANGED cur

Members(c) == {k \in Ids : cur[k] # "none" /\ Sub(cur[k], c)}

(* select(x for x in c) -- every returned object must have exactly its own class *)
SelAll(c) == /\ sess = "open"
             /\ seen' = seen \cup Members(c)
             /\ ev' = Ev("SelAll", c, 0, "ok", Members(c), "-") /\ UNCHANGED <<cls, cur, sess>>

(* select(x for x in c if isinstance(x, d)): objects that are both a c and a d (d is passed in ev.k as an index) *)
ClassIdx == [i \in 1 .. 5 |-> CASE i = 1 -> "Base" [] i = 2 -> "S1" [] i = 3 -> "S2" [] i = 4 -> "S12" [] i = 5 -> "S3"]
IsInst(c, i) == /\ sess = "open"
                /\ seen' = seen \cup (Members(c) \cap Members(ClassIdx[i]))
                /\ ev' = Ev("IsInst", c, i, "ok", Members(c) \cap Members(ClassIdx[i]), "-") /\ UNCHANGED <<cls, cur, sess>>

(* c.get(id=k): found iff the object is a c; rc = class of the returned object.
   When the session already holds the object and it is not a c, Pony may raise instead of returning None. *)
Find(c, k) == /\ sess = "open"
              /\ IF cur[k] # "none" /\ Sub(cur[k], c)
                 THEN /\ seen' = seen \cup {k} /\ ev' = Ev("Find", c, k, "ok", {1}, cur[k])
                 ELSE /\ seen' = seen
                      /\ \/ ev' = Ev("Find", c, k, "ok", {0}, "-")
                         \/ (k \in seen /\ cur[k] # "none" /\ ev' = Ev("Find", c, k, "ClassError", {}, "-"))
              /\ UNCHANGED <<cls, cur, sess>>

(* R[k].b : an unloaded reference typed Base; then its class is asked *)
RefClass(k) == /\ sess = "open" /\ cur[k] # "none"
               /\ seen' = seen \cup {k}
               /\ ev' = Ev("RefClass", "-", k, "ok", {1}, cur[k]) /\ UNCHANGED <<cls, cur, sess>>

Next == \/ Begin \/ End
        \/ \E c \in Classes, k \in Ids : Create(c, k) \/ Find(c, k)
        \/ \E c \in Classes : SelAll(c) \/ \E i \in 1 .. 5 : IsInst(c, i)
        \/ \E k \in Ids : RefClass(k)

Spec == Init /\ [][Next]_vars
Bounded == TLCGet("level") <= MaxLevel

(* properties of the specification itself *)
ClassPreserved == Assert(\A k \in Ids : cls[k] # "none" => cls'[k] = cls[k], "an object changed its class")
PolymorphicExact == /\ ev.op = "SelAll" => \A k \in Ids : (k \in ev.ret) <=> (cur[k] # "none" /\ Sub(cur[k], ev.c))
                    /\ ev.op = "IsInst" => \A k \in Ids : (k \in ev.ret) <=> (cur[k] # "none" /\ Sub(cur[k], ev.c) /\ Sub(cur[k], ClassIdx[ev.k]))
DiamondIsBoth == \A k \in Ids : cur[k] = "S12" => (Sub(cur[k], "S1") /\ Sub(cur[k], "S2"))
=============================================================================
