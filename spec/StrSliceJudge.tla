--------------------------- MODULE StrSliceJudge ---------------------------
(* C25: judges the SQL ASTs the real translator/builder produced for s[i], s[i:j] against Python's
   slicing, for every string length and every value of the bounds, under each dialect's substr. *)
EXTENDS SqlSem, Json, IOUtils

In == JsonDeserialize(IOEnv.IN)

Alphabet == <<"a", "b", "c", "d", "e", "f", "g", "h", "i", "j">>
Str(L) == SubSeq(Alphabet, 1, L)

RangeOf(r) == r[1] .. r[2]

EnvOf(d, L, a, b) == [s |-> StrVal(d, Str(L)), n |-> I(a), m |-> I(b)]   \* a stored empty string is NULL on Oracle

Expected(c, L, env) ==
    IF c.kind = "slice"
    THEN StrVal(c.d, PySlice(Str(L), Eval(c.start, env, c.d), Eval(c.stop, env, c.d)))
    ELSE StrVal(c.d, PyIndex(Str(L), Eval(c.start, env, c.d).v))

InDomain(c, L, env) ==
    c.kind = "slice" \/ PyIndexDefined(Str(L), Eval(c.start, env, c.d).v)

Points(c) == { <<L, a, b>> \in (0 .. In.lmax) \X RangeOf(c.nrange) \X RangeOf(c.mrange) :
                  InDomain(c, L, EnvOf(c.d, L, a, b)) }

BadPoints(c) == { p \in Points(c) :
                    ~SameVal(Eval(c.ast, EnvOf(c.d, p[1], p[2], p[3]), c.d), Expected(c, p[1], EnvOf(c.d, p[1], p[2], p[3]))) }

Report(c) == LET bad == BadPoints(c) IN
             [id |-> c.id, points |-> Cardinality(Points(c)), nbad |-> Cardinality(bad),
              \* symptom: every disagreement has a negative Python start bound
              allneg |-> \A q \in bad : LET sv == Eval(c.start, EnvOf(c.d, q[1], q[2], q[3]), c.d) IN sv.t = "int" /\ sv.v < 0,
              bad |-> IF bad = {} THEN <<>> ELSE
                      LET p == CHOOSE q \in bad : \A r \in bad : (q[1] < r[1]) \/ (q[1] = r[1] /\ q[2] < r[2]) \/ (q[1] = r[1] /\ q[2] = r[2] /\ q[3] <= r[3])
                          env == EnvOf(c.d, p[1], p[2], p[3])
                      IN <<[L |-> p[1], n |-> p[2], m |-> p[3], got |-> Eval(c.ast, env, c.d), expected |-> Expected(c, p[1], env)]>>]

ASSUME JsonSerialize(IOEnv.OUT, [k \in 1 .. Len(In.cases) |-> Report(In.cases[k])])
=============================================================================
