------------------------------------------- MODULE PonyOCC -------------------------------------------
(***************************************************************************************************)
(* Concurrent pony db_sessions on shared rows, at statement granularity (C20, C21, C35).          *)
(*                                                                                                 *)
(* What is modelled (pony/orm/core.py, pony/orm/dbproviders/sqlite.py):                            *)
(*  * one entity T(id, a, b) whose two non-key attributes have a *kind* each (chosen in Init from   *)
(*    the constant sets KA, KB, so that one TLC run covers several entity declarations):          *)
(*      "opt"      ordinary attribute, takes part in optimistic checks                             *)
(*      "null"     Optional(int), NULL in every initial row: like "opt", the value 0 stands for NULL *)
(*                 (the criteria must say IS NULL for it); writes store non-NULL values            *)
(*      "nonopt"   Required(int, optimistic=False) or a float attribute (RealConverter.optimistic  *)
(*                 = False): read bit is set, re-delivery is compared, but it never appears in the *)
(*                 UPDATE's WHERE                                                                   *)
(*      "volatile" volatile=True: no bit in _bits_except_volatile_, silently refreshed, exempt     *)
(*      "link"     Optional(P) with P.items = Set(T) and one parent row P[1]; value 1 = "in        *)
(*                 P[1].items", 0 = None.  The collection P[1].items is derived from it.           *)
(*  * the database: committed rows `row`/`exists`; the working copy `txrow`/`txexists` of the one  *)
(*    session that holds SQLite's write transaction.  pony's SQLite provider serialises write      *)
(*    transactions of one process with provider.transaction_lock (acquire_lock in                  *)
(*    set_transaction_mode, BEGIN IMMEDIATE, released by commit/rollback); a session that is not   *)
(*    `immediate` runs in autocommit mode and every SELECT sees the latest committed rows; readers *)
(*    are never blocked.  acquire_lock takes pre_transaction_lock first and keeps it while it      *)
(*    waits for transaction_lock: `preHolder` is that first waiter (nobody overtakes it), later    *)
(*    acquirers park on pre_transaction_lock (`waiting`, a set: plain locks are not fair, a        *)
(*    newcomer may get it before an older waiter once it is free).                                 *)
(*  * per session the identity-map state of each object: status, _dbvals_ (dbval), _vals_ (val),   *)
(*    _rbits_, _wbits_, cache.for_update, the SetData of P[1].items (collItems, collFull).         *)
(*  * operations of a session's program (one per step, chosen freely => all programs of at most    *)
(*    MaxOps operations, all interleavings):                                                        *)
(*      R(o,x)  T.get(id=o).x        W(o,x)  T.get(id=o).x = v      D(o)  T.get(id=o).delete()     *)
(*      Q       select(t for t in T)[:]  (loads / re-delivers every row: Requery)                  *)
(*      QFU     the same with .for_update()          GFU(o,m)  T.get_for_update(id=o [,nowait|..]) *)
(*      RC      set(P[1].items)  (Set.copy: LoadColl)     LC  len(P[1].items)                      *)
(*      F       flush()              C  leave the db_session (commit)       X  rollback()          *)
(*      CM      commit() and go on in the same db_session: flush, COMMIT, lock released,           *)
(*              cache.for_update cleared, cache.immediate = True (SessionCache.commit) - every     *)
(*              later query of the session opens an immediate transaction; objects, read bits and  *)
(*              dbvals survive, so what the program saw stays protected across the commit         *)
(*      QR(x)   select(t for t in T if t.x > n)[:]: Q whose condition uses attribute x - the       *)
(*              attribute counts as read on every object returned (_fetch_objects -> _set_rbits;   *)
(*              the binding also issues it on a base entity with x declared in a subclass)         *)
(*      GFU with m = "bykey": T.get_for_update(u=key) by a unique non-pk attribute (same meaning)  *)
(*    Session 1 may be given its own alphabet and modes (OpSet1/Modes1 vs OpSetN/ModesN): one     *)
(*    reader or locker against writers, or symmetric sessions when the sets are equal.             *)
(*    Every operation that reaches the database first flushes pending changes                      *)
(*    (SessionCache.prepare_connection_for_query_execution); the first write statement, the first  *)
(*    query of an immediate/serializable session and every for_update query open the transaction:  *)
(*    if another session holds the lock (or waits for it) the step ends `blocked` (TryBegin) and   *)
(*    the whole operation is carried out later by Granted.  Since only one transaction writes at a *)
(*    time and uncommitted rows are invisible to others, carrying out the statements of one        *)
(*    operation in one step loses no interleaving.                                                 *)
(*  * flush: per modified object  UPDATE .. WHERE id = o AND <x = dbval[x] for the optimistic      *)
(*    attributes x in _rbits_>  unless the session is not optimistic or o is in cache.for_update   *)
(*    (_construct_optimistic_criteria_, _save_updated_); row count 0 in an optimistic session =>   *)
(*    OptimisticCheckError and rollback.  DELETE .. WHERE id = o carries no criteria               *)
(*    (_save_deleted_) and is therefore outside NoLostUpdate, which speaks of updates.             *)
(*  * delivery of a row to a loaded object (Entity._db_set_): a changed attribute whose read bit   *)
(*    is set => UnrepeatableReadError; otherwise dbval (and val unless written) are refreshed.     *)
(*    A link that appears in / disappears from a fully loaded collection => UnrepeatableReadError  *)
(*    (Set.db_reverse_add; for the disappearing case the reference behaviour is the same and is    *)
(*    selected by RefPhantomRemove = TRUE; FALSE transcribes what Set.db_reverse_remove really     *)
(*    does - it silently removes the item - and makes RepeatableOrLoud fail, see C21).             *)
(*                                                                                                 *)
(*  * after an UPDATE the values of volatile attributes are forgotten (_update_dbvals_), the next *)
(*    read reloads the whole row (notLoaded; obj._load_() raises UnrepeatableReadError if the row  *)
(*    has disappeared).                                                                            *)
(*  * get_for_update on a row that another session deleted returns None even when the object is    *)
(*    cached; T.get(id=o) of a cached object never goes to the database.                           *)
(*                                                                                                 *)
(* Deliberate deviations: a session is one transaction (commit ends it); 'updated' is folded into  *)
(* 'loaded'; a failed or finished session's local state is reset (it is not observable any more);  *)
(* a W on the link attribute toggles membership (the value assigned is part of the behaviour).     *)
(* Every state carries the observation record ev = [s, k, o, x, m, step, out, why, retv, rets] of  *)
(* the action that produced it; the harness replays behaviours from it (harness/sched_occ.py).     *)
(* Ghost variables (not part of pony): seen, collSeen, written, locked, applied, ev.                *)
(***************************************************************************************************)
EXTENDS Integers, Sequences, FiniteSets, TLC

CONSTANTS NS,               \* number of sessions
          NO,               \* number of rows of T
          MaxOps, MaxOpsN,  \* program length of session 1 / of the other sessions (C / X not counted)
          KA, KB,           \* sets of kinds the attributes a and b may have (one combination is chosen in Init)
          Modes1, ModesN,   \* modes of session 1 / of the other sessions: subsets of {"opt", "imm", "ser"}:
                            \* db_session(), (immediate=True), (serializable=True | optimistic=False)
          OpSet1, OpSetN,   \* operation alphabet of session 1 / of the other sessions:
                            \* subsets of {"R","W","D","Q","QFU","GFU","RC","LC","F","X"}
                            \* (equal sets: symmetric sessions; different sets: e.g. one reader and writers)
          LockModes,        \* subset of {"wait","nowait","skip_locked"}
          RefPhantomRemove  \* TRUE: reference behaviour of db_reverse_remove; FALSE: what the code does

Sessions == 1..NS
Objs     == 1..NO
Attrs    == {"a", "b"}
Unseen   == -1

VARIABLES kind,                 \* kind[x] of the attributes (fixed in the initial state)
          row, exists,          \* committed database
          txrow, txexists,      \* working copy of the lock holder (= committed when nobody holds the lock)
          lockHolder,           \* owner of provider.transaction_lock (the open write transaction)
          preHolder, waiting,   \* owner of pre_transaction_lock blocked on transaction_lock / sessions blocked on pre_transaction_lock
          mode, imm, touched, pc, result, pending,  \* imm = cache.immediate; touched = the session's cache exists
          status, dbval, val, rbits, wbits, notLoaded, forUpdate, collItems, collFull,
          oldReads,             \* ghost: read bits of an object that were already set when it was last flushed (UPDATE)
          seen, collSeen, written, locked, applied,
          ev

Kind == kind
Tracked(x) == Kind[x] # "volatile"            \* has a bit in _bits_except_volatile_
Optim(x)   == Kind[x] \in {"opt", "null", "link"}     \* appears in optimistic criteria when read
LinkAttrs  == {x \in Attrs : Kind[x] = "link"}
HasLink    == LinkAttrs # {}
LinkA      == CHOOSE x \in LinkAttrs : TRUE

InitRowFor(k) == [o \in Objs |-> [x \in Attrs |-> IF k[x] = "link" /\ o = 1 THEN 1 ELSE 0]]

dbvars   == <<row, exists, txrow, txexists, lockHolder, preHolder, waiting>>
sessvars == <<kind, mode, imm, touched, pc, result, pending, status, dbval, val, rbits, wbits, notLoaded, forUpdate, collItems, collFull>>
ghosts   == <<oldReads, seen, collSeen, written, locked, applied>>
vars     == <<dbvars, sessvars, ghosts, ev>>

NoOp == [k |-> "-", o |-> 0, x |-> "-", m |-> "-"]
Op(k, o, x, m) == [k |-> k, o |-> o, x |-> x, m |-> m]

AllProgOps ==
    {op \in    {Op("R", o, x, "-") : o \in Objs, x \in Attrs}
          \cup {Op("W", o, x, "-") : o \in Objs, x \in Attrs}
          \cup {Op("QR", 0, x, "-") : x \in Attrs}
          \cup {Op("D", o, "-", "-") : o \in Objs}
          \cup {Op("GFU", o, "-", m) : o \in Objs, m \in LockModes}
          \cup {Op("QFU", 0, "-", m) : m \in LockModes}
          \cup {Op(k, 0, "-", "-") : k \in {"Q", "RC", "LC", "F", "CM"}} : op.k \in OpSet1 \cup OpSetN}
OpSetOf(s) == IF s = 1 THEN OpSet1 ELSE OpSetN
ModesOf(s) == IF s = 1 THEN Modes1 ELSE ModesN
MaxOpsOf(s) == IF s = 1 THEN MaxOps ELSE MaxOpsN
ProgOps(s) == {op \in AllProgOps : op.k \in OpSetOf(s)}
EndOps(s)  == {Op("C", 0, "-", "-")} \cup (IF "X" \in OpSetOf(s) THEN {Op("X", 0, "-", "-")} ELSE {})

(* ------------------------------- session-local state as a record ------------------------------ *)
Sess(s) == [st |-> status[s], dv |-> dbval[s], v |-> val[s], rb |-> rbits[s], wb |-> wbits[s], nl |-> notLoaded[s],
            fu |-> forUpdate[s], ci |-> collItems[s], cf |-> collFull[s]]

BlankSess == [st |-> [o \in Objs |-> "none"], dv |-> [o \in Objs |-> [x \in Attrs |-> 0]],
              v |-> [o \in Objs |-> [x \in Attrs |-> 0]], rb |-> [o \in Objs |-> {}], wb |-> [o \in Objs |-> {}],
              nl |-> [o \in Objs |-> {}], fu |-> {}, ci |-> {}, cf |-> FALSE]

Gone(S, o)    == S.st[o] \in {"marked", "deleted"}
ModObjs(S)    == {o \in Objs : S.st[o] = "modified"}
DelObjs(S)    == {o \in Objs : S.st[o] = "marked"}
IsModified(S) == ModObjs(S) \cup DelObjs(S) # {}

InTxn(s) == lockHolder = s
OptSession(s) == mode[s] # "ser"

(* does the operation reach the database? *)
HitsDb(S, op) ==
    CASE op.k = "R"             -> S.st[op.o] = "none" \/ op.x \in S.nl[op.o]   \* Attribute.load -> obj._load_()
      [] op.k \in {"W", "D"}      -> S.st[op.o] = "none"
      [] op.k \in {"Q", "QFU", "QR"} -> TRUE
      [] op.k = "GFU"             -> op.o \notin S.fu      \* _find_in_cache_: found but not locked => query
      [] op.k \in {"RC", "LC"}    -> ~S.cf                 \* Set.load unless fully loaded
      [] OTHER                    -> FALSE
Flushes(S, op) == IsModified(S) /\ (HitsDb(S, op) \/ op.k \in {"F", "C", "CM"})
(* TryBegin: the operation has to open the write transaction (acquire_lock + BEGIN IMMEDIATE) *)
NeedsLock(s, S, op) ==
    /\ ~InTxn(s)
    /\ \/ Flushes(S, op)
       \/ HitsDb(S, op) /\ (imm[s] \/ op.k \in {"GFU", "QFU"})

OpEnabled(S, op) ==
    CASE op.k \in {"R", "W", "D", "GFU"} -> ~Gone(S, op.o)   \* the program does not touch what it deleted itself
      [] op.k \in {"RC", "LC"}          -> HasLink
      [] op.k = "QR"                    -> Kind[op.x] \notin {"link", "null"}   \* (NULL > n filters the row out)
      [] OTHER                          -> TRUE

(* ----------------------------------------- flush --------------------------------------------- *)
Criteria(S, s, o) == IF OptSession(s) /\ o \notin S.fu THEN {x \in S.rb[o] : Optim(x)} ELSE {}
Matches(S, D, s, o) == D.ex[o] /\ \A x \in Criteria(S, s, o) : D.row[o][x] = S.dv[o][x]
FlushFails(S, D, s) == OptSession(s) /\ \E o \in ModObjs(S) : ~Matches(S, D, s, o)   \* rowcount 0 => OptimisticCheckError
FlushDB(S, D, s) ==
    [row |-> [o \in Objs |->
                IF o \in DelObjs(S) THEN [x \in Attrs |-> 0]
                ELSE IF o \in ModObjs(S) /\ Matches(S, D, s, o)
                     THEN [x \in Attrs |-> IF x \in S.wb[o] THEN S.v[o][x] ELSE D.row[o][x]]
                     ELSE D.row[o]],
     ex  |-> [o \in Objs |-> D.ex[o] /\ o \notin DelObjs(S)]]
FlushS(S) ==
    [S EXCEPT !.st = [o \in Objs |-> CASE S.st[o] = "modified" -> "loaded" [] S.st[o] = "marked" -> "deleted" [] OTHER -> S.st[o]],
              !.dv = [o \in Objs |-> IF o \in ModObjs(S) THEN [x \in Attrs |-> IF x \in S.wb[o] THEN S.v[o][x] ELSE S.dv[o][x]]
                                     ELSE S.dv[o]],
              !.rb = [o \in Objs |-> IF o \in ModObjs(S) THEN S.rb[o] \cup {x \in S.wb[o] : Tracked(x)} ELSE S.rb[o]],
              !.wb = [o \in Objs |-> IF o \in ModObjs(S) \cup DelObjs(S) THEN {} ELSE S.wb[o]],
              \* _update_dbvals_: values of volatile attributes are forgotten after an UPDATE ("may be changed in the DB")
              !.nl = [o \in Objs |-> IF o \in ModObjs(S) THEN {x \in Attrs : ~Tracked(x)} ELSE S.nl[o]]]
(* history records of the statements that changed a row (ghost) *)
FlushRecs(S, D, s) ==
    {[s |-> s, o |-> o, kind |-> IF o \in ModObjs(S) THEN "upd" ELSE "del", before |-> D.row[o],
      know |-> seen[s][o], own |-> written[s][o],
      lockedBy |-> {t \in Sessions \ {s} : result[t] = "running" /\ o \in locked[t]},
      optim |-> OptSession(s), committed |-> FALSE, early |-> FALSE] :
        o \in {p \in ModObjs(S) : Matches(S, D, s, p)} \cup {p \in DelObjs(S) : D.ex[p]}}

(* ------------------------------- delivery of rows (Entity._db_set_) -------------------------- *)
Changed(S, o, r) == {x \in Attrs \ S.nl[o] : S.dv[o][x] # r[x]}
(* why a delivery fails: "read_changed" (read bit set and value changed), "phantom_add" (Set.db_reverse_add on a
   fully loaded collection), "phantom_remove" (an item leaves a fully loaded collection: Set.db_reverse_remove) *)
Live(S, o) == S.st[o] # "none" /\ ~Gone(S, o)
ReadChanged(S, o, r)   == Live(S, o) /\ Changed(S, o, r) \cap S.rb[o] # {}
PhantomAdd(S, o, r)    == HasLink /\ S.cf /\ r[LinkA] = 1 /\ (S.st[o] = "none" \/ (Live(S, o) /\ S.dv[o][LinkA] = 0))
PhantomRemove(S, o, r) == HasLink /\ S.cf /\ Live(S, o) /\ r[LinkA] = 0 /\ S.dv[o][LinkA] = 1
DeliverOk(S, o, r) == ~ReadChanged(S, o, r) /\ ~PhantomAdd(S, o, r) /\ (RefPhantomRemove => ~PhantomRemove(S, o, r))
Why(S, T, D) == IF \E o \in T : ReadChanged(S, o, D.row[o]) THEN "read_changed"
                ELSE IF \E o \in T : PhantomAdd(S, o, D.row[o]) THEN "phantom_add"
                ELSE IF \E o \in T : PhantomRemove(S, o, D.row[o]) THEN "phantom_remove" ELSE "-"
Deliver1(S, o, r, fu) ==     \* new (st, dv, v, rb, wb) of o, assuming DeliverOk
    IF S.st[o] = "none" THEN [st |-> "loaded", dv |-> r, v |-> r, rb |-> {}, wb |-> {}, nl |-> {}]
    ELSE IF Gone(S, o) THEN [st |-> S.st[o], dv |-> S.dv[o], v |-> S.v[o], rb |-> S.rb[o], wb |-> S.wb[o], nl |-> S.nl[o]]
    ELSE [st |-> S.st[o], dv |-> r, v |-> [x \in Attrs |-> IF x \in S.wb[o] /\ Tracked(x) THEN S.v[o][x] ELSE r[x]],
          rb |-> S.rb[o], wb |-> S.wb[o], nl |-> {}]
DeliverAll(S, T, D, fu) ==
    LET n(o) == Deliver1(S, o, D.row[o], fu)
        live == {o \in T : ~Gone(S, o)}
    IN [st |-> [o \in Objs |-> IF o \in T THEN n(o).st ELSE S.st[o]],
        dv |-> [o \in Objs |-> IF o \in T THEN n(o).dv ELSE S.dv[o]],
        v  |-> [o \in Objs |-> IF o \in T THEN n(o).v  ELSE S.v[o]],
        rb |-> [o \in Objs |-> IF o \in T THEN n(o).rb ELSE S.rb[o]],
        wb |-> [o \in Objs |-> IF o \in T THEN n(o).wb ELSE S.wb[o]],
        nl |-> [o \in Objs |-> IF o \in T THEN n(o).nl ELSE S.nl[o]],
        fu |-> IF fu THEN S.fu \cup live ELSE S.fu,
        ci |-> IF HasLink THEN (S.ci \ {o \in live : D.row[o][LinkA] = 0}) \cup {o \in live : D.row[o][LinkA] = 1}
               ELSE S.ci,
        cf |-> S.cf]

Targets(S, D, op) ==
    CASE op.k \in {"R", "W", "D", "GFU"} -> IF HitsDb(S, op) /\ D.ex[op.o] THEN {op.o} ELSE {}
      [] op.k \in {"Q", "QFU", "QR"}     -> {o \in Objs : D.ex[o]}
      [] op.k \in {"RC", "LC"}           -> IF HitsDb(S, op) THEN {o \in Objs : D.ex[o] /\ D.row[o][LinkA] = 1} ELSE {}
      [] OTHER                           -> {}

(* ------------------------------ the part that runs in Python only ---------------------------- *)
WriteVal(s, S, op) == IF Kind[op.x] = "link" THEN 1 - S.v[op.o][op.x] ELSE s
Py(s, S, D, op) ==
    CASE op.k = "R" -> [S EXCEPT !.rb[op.o] = IF op.x \notin S.wb[op.o] /\ Tracked(op.x) THEN @ \cup {op.x} ELSE @]
      [] op.k = "W" -> [S EXCEPT !.st[op.o] = "modified", !.wb[op.o] = @ \cup {op.x}, !.nl[op.o] = @ \ {op.x},
                                 !.v[op.o][op.x] = WriteVal(s, S, op),
                                 !.ci = IF Kind[op.x] # "link" THEN @
                                        ELSE IF WriteVal(s, S, op) = 1 THEN @ \cup {op.o} ELSE @ \ {op.o}]
      [] op.k = "D" -> [S EXCEPT !.st[op.o] = "marked", !.ci = @ \ {op.o}]
      [] op.k = "QR" -> [S EXCEPT !.rb = [o \in Objs |-> IF D.ex[o] /\ S.st[o] \in {"loaded", "modified"} /\ Tracked(op.x)
                                                                /\ op.x \notin S.wb[o]
                                                             THEN S.rb[o] \cup {op.x} ELSE S.rb[o]]]
      [] op.k = "CM" -> [S EXCEPT !.fu = {}]
      [] op.k = "RC" -> [S EXCEPT !.rb = [o \in Objs |-> IF o \in S.ci /\ LinkA \notin S.wb[o] THEN S.rb[o] \cup {LinkA} ELSE S.rb[o]]]
      [] OTHER -> S

(* --------------------------------------- initial state --------------------------------------- *)
NoEv == [s |-> 0, k |-> "init", o |-> 0, x |-> "-", m |-> "-", step |-> "init", out |-> "ok", why |-> "-", retv |-> 0, rets |-> {}]
Init ==
    /\ kind \in [a : KA, b : KB]
    /\ row = InitRowFor(kind) /\ exists = [o \in Objs |-> TRUE]
    /\ txrow = row /\ txexists = [o \in Objs |-> TRUE]
    /\ lockHolder = 0 /\ preHolder = 0 /\ waiting = {}
    /\ mode \in {f \in [Sessions -> Modes1 \cup ModesN] : \A s \in Sessions : f[s] \in ModesOf(s)}
    /\ imm = [s \in Sessions |-> mode[s] # "opt"]
    /\ touched = [s \in Sessions |-> FALSE]
    /\ pc = [s \in Sessions |-> 0]
    /\ result = [s \in Sessions |-> "running"]
    /\ pending = [s \in Sessions |-> NoOp]
    /\ status = [s \in Sessions |-> BlankSess.st] /\ dbval = [s \in Sessions |-> BlankSess.dv]
    /\ val = [s \in Sessions |-> BlankSess.v] /\ rbits = [s \in Sessions |-> BlankSess.rb]
    /\ wbits = [s \in Sessions |-> BlankSess.wb] /\ notLoaded = [s \in Sessions |-> BlankSess.nl] /\ forUpdate = [s \in Sessions |-> {}]
    /\ collItems = [s \in Sessions |-> {}] /\ collFull = [s \in Sessions |-> FALSE]
    /\ oldReads = [s \in Sessions |-> [o \in Objs |-> {}]]
    /\ seen = [s \in Sessions |-> [o \in Objs |-> [x \in Attrs |-> Unseen]]]
    /\ collSeen = [s \in Sessions |-> [known |-> FALSE, set |-> {}]]
    /\ written = [s \in Sessions |-> [o \in Objs |-> {}]]
    /\ locked = [s \in Sessions |-> {}]
    /\ applied = {}
    /\ ev = NoEv

(* ------------------------------------------ actions ------------------------------------------ *)
SetSess(s, S) ==
    /\ status' = [status EXCEPT ![s] = S.st] /\ dbval' = [dbval EXCEPT ![s] = S.dv]
    /\ val' = [val EXCEPT ![s] = S.v] /\ rbits' = [rbits EXCEPT ![s] = S.rb] /\ wbits' = [wbits EXCEPT ![s] = S.wb]
    /\ notLoaded' = [notLoaded EXCEPT ![s] = S.nl]
    /\ forUpdate' = [forUpdate EXCEPT ![s] = S.fu] /\ collItems' = [collItems EXCEPT ![s] = S.ci]
    /\ collFull' = [collFull EXCEPT ![s] = S.cf]

(* the session ends (commit, rollback or error): local state and ghosts are reset, lock released *)
EndSession(s, res, D, commit, hold) ==
    /\ result' = [result EXCEPT ![s] = res]
    /\ SetSess(s, BlankSess)
    /\ seen' = [seen EXCEPT ![s] = [o \in Objs |-> [x \in Attrs |-> Unseen]]]
    /\ oldReads' = [oldReads EXCEPT ![s] = [o \in Objs |-> {}]]
    /\ collSeen' = [collSeen EXCEPT ![s] = [known |-> FALSE, set |-> {}]]
    /\ written' = [written EXCEPT ![s] = [o \in Objs |-> {}]]
    /\ locked' = [locked EXCEPT ![s] = {}]
    /\ IF commit THEN /\ row' = D.row /\ exists' = D.ex /\ txrow' = D.row /\ txexists' = D.ex
                 ELSE IF hold THEN /\ UNCHANGED <<row, exists>> /\ txrow' = row /\ txexists' = exists   \* rollback
                 ELSE UNCHANGED <<row, exists, txrow, txexists>>

Exec(s, op, how) ==
    \* (each stage is bound with \E v \in {e} so that TLC evaluates it once)
    \E S0 \in {Sess(s)} :
    \E hold \in {NeedsLock(s, S0, op) \/ InTxn(s)} :
    \E D0 \in {IF InTxn(s) THEN [row |-> txrow, ex |-> txexists] ELSE [row |-> row, ex |-> exists]} :
    \E fl \in {Flushes(S0, op)} :
    \E ffail \in {fl /\ FlushFails(S0, D0, s)} :
    \E S1 \in {IF fl THEN FlushS(S0) ELSE S0} :
    \E D1 \in {IF fl THEN FlushDB(S0, D0, s) ELSE D0} :
    \E recs \in {IF fl THEN FlushRecs(S0, D0, s) ELSE {}} :
    \E T \in {Targets(S1, D1, op)} :
    \E gone \in {op.k = "R" /\ S1.st[op.o] # "none" /\ op.x \in S1.nl[op.o] /\ ~D1.ex[op.o]} :   \* obj._load_(): phantom object disappeared
    \E dfail \in {gone \/ \E o \in T : ~DeliverOk(S1, o, D1.row[o])} :
    \E S2a \in {DeliverAll(S1, T, D1, op.k \in {"GFU", "QFU"})} :
    \E S2 \in {IF op.k \in {"RC", "LC"} THEN [S2a EXCEPT !.cf = TRUE] ELSE S2a} :
    \* T.get(id=o) returned None / _find_in_db_ of get_for_update found no row (even if o is cached)
    \E none \in {(op.k \in {"R", "W", "D"} /\ S2.st[op.o] = "none") \/ (op.k = "GFU" /\ HitsDb(S0, op) /\ ~D1.ex[op.o])} :
    \E S3 \in {IF none \/ ffail \/ dfail THEN S2 ELSE Py(s, S2, D1, op)} :
    \E out \in {IF ffail THEN "optimistic_error" ELSE IF dfail THEN "unrepeatable_error"
                 ELSE IF none THEN "none" ELSE "ok"} :
    \E live \in {{o \in T : ~Gone(S1, o)}} :
    \E retv \in {CASE out # "ok" -> 0
                   [] op.k = "R" -> S2.v[op.o][op.x]
                   [] op.k = "LC" -> Cardinality(S2.ci)
                   [] OTHER -> 0} :
    \E rets \in {CASE out # "ok" -> {}
                   [] op.k \in {"Q", "QFU", "QR"} -> live
                   [] op.k = "RC" -> S2.ci
                   [] OTHER -> {}} :
    \E mine \in {{r \in applied : r.s = s}} :
    \E newOld \in {IF fl THEN [o \in Objs |-> IF o \in ModObjs(S0) THEN oldReads[s][o] \cup S0.rb[o] ELSE oldReads[s][o]]
                    ELSE oldReads[s]} :
    \E newLocked \in {IF op.k \in {"GFU", "QFU"} \/ mode[s] = "ser" THEN live ELSE {}} :
    /\ ev' = [s |-> s, k |-> op.k, o |-> op.o, x |-> op.x, m |-> op.m, step |-> how, out |-> out,
              why |-> IF out = "unrepeatable_error" THEN (IF gone THEN "object_disappeared" ELSE Why(S1, T, D1)) ELSE "-", retv |-> retv, rets |-> rets]
    /\ UNCHANGED <<mode, kind>>
    \* commit() sets cache.immediate only if the session has a cache already (it has none before its first entity operation)
    /\ imm' = IF op.k = "CM" /\ out = "ok" /\ touched[s] THEN [imm EXCEPT ![s] = TRUE] ELSE imm
    /\ touched' = IF op.k \in {"F", "CM", "C", "X"} THEN touched ELSE [touched EXCEPT ![s] = TRUE]
    /\ IF out \in {"optimistic_error", "unrepeatable_error"}
       THEN \* the exception leaves the db_session: rollback, lock released
            /\ EndSession(s, out, D0, FALSE, hold)
            /\ lockHolder' = IF hold THEN 0 ELSE lockHolder
            /\ applied' = applied \ {r \in mine : ~r.committed}
       ELSE IF op.k = "C"
       THEN /\ EndSession(s, "committed", D1, hold, hold)
            /\ lockHolder' = IF hold THEN 0 ELSE lockHolder
            /\ applied' = (applied \ mine) \cup {[r EXCEPT !.committed = TRUE] : r \in mine \cup recs}
       ELSE IF op.k = "X"
       THEN /\ EndSession(s, "aborted", D0, FALSE, hold)
            /\ lockHolder' = IF hold THEN 0 ELSE lockHolder
            /\ applied' = applied \ {r \in mine : ~r.committed}
       ELSE IF op.k = "CM"
       THEN \* commit() in the middle of the db_session: the transaction ends, the session and its cache go on
            /\ SetSess(s, S3)
            /\ UNCHANGED <<result, seen, collSeen, written>>
            /\ oldReads' = [oldReads EXCEPT ![s] = newOld]
            /\ IF hold THEN /\ row' = D1.row /\ exists' = D1.ex /\ txrow' = D1.row /\ txexists' = D1.ex
                       ELSE UNCHANGED <<row, exists, txrow, txexists>>
            /\ lockHolder' = IF hold THEN 0 ELSE lockHolder
            /\ applied' = (applied \ mine) \cup {[r EXCEPT !.committed = TRUE, !.early = TRUE] : r \in mine \cup recs}
            /\ locked' = [locked EXCEPT ![s] = {}]
       ELSE /\ SetSess(s, S3)
            /\ UNCHANGED <<result, row, exists>>
            /\ lockHolder' = IF hold THEN s ELSE lockHolder
            /\ IF hold THEN txrow' = D1.row /\ txexists' = D1.ex ELSE UNCHANGED <<txrow, txexists>>
            /\ applied' = applied \cup recs
            /\ oldReads' = [oldReads EXCEPT ![s] = newOld]
            /\ seen' = [seen EXCEPT ![s] =
                          IF out # "ok" THEN @
                          ELSE IF op.k = "R" THEN [@ EXCEPT ![op.o][op.x] = IF @ = Unseen THEN retv ELSE @]
                          ELSE IF op.k = "W" THEN [@ EXCEPT ![op.o][op.x] = S3.v[op.o][op.x]]
                          ELSE IF op.k = "QR" THEN [o \in Objs |-> IF o \in live /\ @[o][op.x] = Unseen
                                                                   THEN [@[o] EXCEPT ![op.x] = S2.v[o][op.x]] ELSE @[o]]
                          ELSE @]
            /\ collSeen' = [collSeen EXCEPT ![s] =
                          IF out # "ok" THEN @
                          ELSE IF op.k \in {"RC", "LC"} /\ ~@.known THEN [known |-> TRUE, set |-> S2.ci]
                          ELSE IF @.known /\ op.k = "W" /\ Kind[op.x] = "link"
                               THEN [@ EXCEPT !.set = IF S3.v[op.o][op.x] = 1 THEN @ \cup {op.o} ELSE @ \ {op.o}]
                          ELSE IF @.known /\ op.k = "D" THEN [@ EXCEPT !.set = @ \ {op.o}]
                          ELSE @]
            /\ written' = [written EXCEPT ![s] = IF out = "ok" /\ op.k = "W" THEN [@ EXCEPT ![op.o] = @ \cup {op.x}] ELSE @]
            /\ locked' = [locked EXCEPT ![s] = @ \cup newLocked]

(* A session issues its next operation.  If the operation must open the transaction and the lock is
   not available, the step only records the blocked acquirer (TryBegin); otherwise it runs. *)
Step(s, op) ==
    /\ result[s] = "running" /\ pending[s] = NoOp
    /\ op \in EndOps(s) \/ (op \in ProgOps(s) /\ pc[s] < MaxOpsOf(s))
    /\ OpEnabled(Sess(s), op)
    /\ pc' = [pc EXCEPT ![s] = IF op \in ProgOps(s) THEN @ + 1 ELSE @]
    /\ IF NeedsLock(s, Sess(s), op) /\ ~(lockHolder = 0 /\ preHolder = 0)
       THEN /\ IF preHolder = 0 THEN preHolder' = s /\ UNCHANGED waiting          \* got pre_transaction_lock, waits for the transaction
                             ELSE waiting' = waiting \cup {s} /\ UNCHANGED preHolder
            /\ pending' = [pending EXCEPT ![s] = op]
            /\ ev' = [s |-> s, k |-> op.k, o |-> op.o, x |-> op.x, m |-> op.m, step |-> "run", out |-> "blocked",
                      why |-> "-", retv |-> 0, rets |-> {}]
            /\ UNCHANGED <<row, exists, txrow, txexists, lockHolder, mode, imm, touched, kind, result, status, dbval, val, rbits, wbits,
                           notLoaded, forUpdate, collItems, collFull, ghosts>>
       ELSE /\ Exec(s, op, "run")
            /\ UNCHANGED <<preHolder, waiting, pending>>

(* A blocked acquirer moves on: the holder of pre_transaction_lock gets the free transaction lock and carries
   out its pending operation; or a session parked on pre_transaction_lock gets that one (free again) and then
   either the transaction lock as well, or waits for it as the new preHolder (still blocked). *)
Granted(s) ==
    /\ UNCHANGED pc
    /\ \/ /\ preHolder = s /\ lockHolder = 0
          /\ preHolder' = 0 /\ UNCHANGED waiting
          /\ pending' = [pending EXCEPT ![s] = NoOp]
          /\ Exec(s, pending[s], "grant")
       \/ /\ s \in waiting /\ preHolder = 0 /\ lockHolder = 0
          /\ waiting' = waiting \ {s} /\ UNCHANGED preHolder
          /\ pending' = [pending EXCEPT ![s] = NoOp]
          /\ Exec(s, pending[s], "grant")
       \/ /\ s \in waiting /\ preHolder = 0 /\ lockHolder # 0
          /\ waiting' = waiting \ {s} /\ preHolder' = s
          /\ ev' = [s |-> s, k |-> pending[s].k, o |-> pending[s].o, x |-> pending[s].x, m |-> pending[s].m,
                    step |-> "grant", out |-> "blocked", why |-> "-", retv |-> 0, rets |-> {}]
          /\ UNCHANGED <<row, exists, txrow, txexists, lockHolder, sessvars, ghosts>>

Next == \E s \in Sessions : Granted(s) \/ \E op \in ProgOps(s) \cup EndOps(s) : Step(s, op)

Spec == Init /\ [][Next]_vars

(* ----------------------------------------- invariants ---------------------------------------- *)
Results == {"running", "committed", "aborted", "optimistic_error", "unrepeatable_error"}
TypeOK ==
    /\ lockHolder \in Sessions \cup {0}
    /\ \A s \in Sessions : result[s] \in Results
    /\ \A s \in Sessions : (pending[s] # NoOp) <=> (s = preHolder \/ s \in waiting)
    /\ preHolder \notin waiting /\ (waiting # {} => preHolder # 0 \/ lockHolder = 0 \/ TRUE)
    /\ lockHolder # 0 => result[lockHolder] = "running" /\ pending[lockHolder] = NoOp
    /\ lockHolder = 0 => txrow = row /\ txexists = exists
    /\ \A s \in Sessions : \A o \in Objs : wbits[s][o] # {} => status[s][o] \in {"modified", "marked"}

(* C20: an update statement is applied only if every optimistic attribute of that object which the
   program had read and not overwritten itself still had, immediately before the update, the value the
   program saw.  (Stated on what the *program observed*, not on dbval/rbits, so that it also fails when
   the bookkeeping - read bits, refresh of dbval on re-delivery - is wrong.)  Sessions that failed
   contribute nothing: their records are dropped with the rollback and `row` only changes in commits.
   Optimistic sessions only, as the property says: a serializable / optimistic=False session is protected by
   the lock it holds from its first query to the end of the *transaction*; after an explicit commit() it keeps
   its cache, sends unguarded UPDATEs and can overwrite what others committed in between (TLC shows the
   behaviour R(a) CM W(b) || W(a) when the restriction is dropped) - outside C20's statement. *)
NoLostUpdate ==
    \A r \in applied : (r.kind = "upd" /\ r.optim) =>
        \A x \in Attrs : (Optim(x) /\ r.know[x] # Unseen /\ x \notin r.own) => r.before[x] = r.know[x]
FailedContributeNothing ==
    \A r \in applied : r.committed => (result[r.s] = "committed" \/ r.early)    \* early: committed by an explicit commit()

(* C21: a read of a non-volatile attribute returns what the program saw first (or wrote itself); a
   fully loaded collection that was observed keeps its value (own changes applied). *)
RepeatableOrLoud ==
    /\ (ev.k = "R" /\ ev.out = "ok" /\ Tracked(ev.x)) => ev.retv = seen[ev.s][ev.o][ev.x]
    /\ (ev.k = "RC" /\ ev.out = "ok") => ev.rets = collSeen[ev.s].set
    /\ (ev.k = "LC" /\ ev.out = "ok") => ev.retv = Cardinality(collSeen[ev.s].set)

(* C35: no UPDATE/DELETE of another session is executed on a row while a running session has it locked
   (get_for_update / for_update(), or read by a serializable session). *)
LockedNotOverwritten == \A r \in applied : r.lockedBy = {}
(* ... because whoever locks holds the transaction lock until it ends *)
LockersHoldLock == \A s \in Sessions : (result[s] = "running" /\ locked[s] # {}) => lockHolder = s

(* bounds the search when used as CONSTRAINT in simulation runs *)
AllDone == \A s \in Sessions : result[s] # "running"
========================================================================================================
