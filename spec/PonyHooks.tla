----------------------------- MODULE PonyHooks -----------------------------
(***************************************************************************)
(* C33 - lifecycle hooks run once per saved change.                        *)
(*                                                                         *)
(* The machine every object goes through inside a flush:                   *)
(*    idle --before_K--> armed(K) --statement K--> written(K)              *)
(*         --after_K--> done                                               *)
(* for K in {insert, update, delete}.  A further round (before -> statement*)
(* -> after) may follow "done" inside the same flush when an after_* hook  *)
(* modified the object again.  When an API call returns (event "quiesce")  *)
(* every object must be idle or done: no hook is left without its          *)
(* statement, no statement without its after_* hook.                       *)
(*                                                                         *)
(* This module is a trace acceptor: Traces (JSON, recorded from the real   *)
(* ORM: hook invocations logged by the hooks themselves, statements logged *)
(* by the sqlite3 connection) are checked one event at a time; a trace is  *)
(* accepted iff all of its events can be consumed.  TLC checks all traces  *)
(* of a batch in one run (tid chosen in Init).                             *)
(***************************************************************************)
EXTENDS Integers, Sequences, FiniteSets, TLC, Json, IOUtils

Traces == JsonDeserialize(IOEnv.IN)       \* sequence of [tid |-> n, evs |-> <<[t |-> .., o |-> .., k |-> ..], ...>>]

VARIABLES tid, pos, phase, kind, failed

vars == <<tid, pos, phase, kind, failed>>

Objs == {"A1", "A2", "B1", "B2", "L1", "L2", "L3", "L4", "L5", "L6", "L7", "L8", "L"}   \* "L<k>": the k-th log object in flight, created inside a before_insert hook of A
Kinds == {"insert", "update", "delete"}

Evs == Traces[tid].evs
Cur == Evs[pos]

Init == /\ tid \in 1 .. Len(Traces)
        /\ pos = 1
        /\ phase = [o \in Objs |-> "idle"]
        /\ kind = [o \in Objs |-> "none"]
        /\ failed = FALSE

Consume == pos' = pos + 1 /\ UNCHANGED tid

Before == /\ pos <= Len(Evs) /\ Cur.t = "before" /\ ~failed
          /\ phase[Cur.o] \in {"idle", "done"}
          /\ phase' = [phase EXCEPT ![Cur.o] = "armed"]
          /\ kind' = [kind EXCEPT ![Cur.o] = Cur.k]
          /\ UNCHANGED failed
          /\ Consume

Stmt ==   /\ pos <= Len(Evs) /\ Cur.t = "stmt" /\ ~failed
          /\ phase[Cur.o] = "armed" /\ kind[Cur.o] = Cur.k
          /\ phase' = [phase EXCEPT ![Cur.o] = "written"]
          /\ UNCHANGED <<kind, failed>>
          /\ Consume

After ==  /\ pos <= Len(Evs) /\ Cur.t = "after" /\ ~failed
          /\ phase[Cur.o] = "written" /\ kind[Cur.o] = Cur.k
          /\ phase' = [phase EXCEPT ![Cur.o] = "done"]
          /\ UNCHANGED <<kind, failed>>
          /\ Consume

(* the database rejected a statement: the flush is abandoned (the session will be rolled back); the object
   must have been armed for exactly this statement, nothing more may be written or hooked in this call *)
Fail ==   /\ pos <= Len(Evs) /\ Cur.t = "fail" /\ ~failed
          /\ (Cur.o # "L" => phase[Cur.o] = "armed" /\ kind[Cur.o] = Cur.k)
          /\ failed' = TRUE
          /\ UNCHANGED <<phase, kind>>
          /\ Consume

(* log rows are not hooked: their statements are consumed without a machine *)
LogStmt == /\ pos <= Len(Evs) /\ Cur.t = "logstmt"
           /\ UNCHANGED <<phase, kind, failed>>
           /\ Consume

Quiesce == /\ pos <= Len(Evs) /\ Cur.t = "quiesce"
           /\ (failed \/ \A o \in Objs : phase[o] \in {"idle", "done"})
           /\ phase' = [o \in Objs |-> "idle"]
           /\ kind' = [o \in Objs |-> "none"]
           /\ failed' = FALSE
           /\ Consume

Next == Before \/ Stmt \/ After \/ Fail \/ LogStmt \/ Quiesce

Spec == Init /\ [][Next]_vars

(* the machine's own sanity: a statement is always between its two hooks *)
TypeOK == \A o \in Objs : phase[o] \in {"idle", "armed", "written", "done"} /\ (phase[o] \in {"armed", "written"} => kind[o] \in Kinds)

(* acceptance bookkeeping: register 1 collects the ids of fully consumed traces, register 2 the furthest position per run *)
Accepted == pos > Len(Evs)
Track == /\ (Accepted => TLCSet(1, TLCGet(1) \cup {Traces[tid].tid}))
         /\ TLCSet(2, TLCGet(2) \cup {<<Traces[tid].tid, pos>>})
ASSUME TLCSet(1, {}) /\ TLCSet(2, {})
Report == PrintT(<<"accepted", TLCGet(1)>>) /\ PrintT(<<"progress", TLCGet(2)>>)
=============================================================================
