------------------------------- MODULE Schema -------------------------------
(***************************************************************************)
(* C26 - what database schema an entity diagram denotes.                   *)
(*                                                                         *)
(* A diagram is what a user writes with Pony's declaration API             *)
(* (pony/orm/core.py: Required/Optional/PrimaryKey/Set/Discriminator,      *)
(* composite_key, composite_index, PrimaryKey(a, b), _table_, inheritance):*)
(*                                                                         *)
(*   d = [ents |-> <<E1, .., En>>, rels |-> <<R1, .., Rm>>]                *)
(*   E = [name, table (<<>> = default), base (0 = none, else index of an   *)
(*        earlier entity), attrs |-> <<A..>>, pk |-> <<names>> (arguments  *)
(*        of PrimaryKey(a, b); <<>> = none), ckeys, cidx |-> <<<<names>>>>]*)
(*   A = [name, kind \in {"Required","Optional","PrimaryKey",              *)
(*        "Discriminator"}, type \in {"int","str"}, unique, nullable \in   *)
(*        {"none","true","false"}, index |-> [k \in {"none","true",        *)
(*        "false","name"}, n], column (<<>> = default)]                    *)
(*   R = [a |-> End, b |-> End, sym]  a relationship; each end is an       *)
(*        attribute of entity `ent`:                                       *)
(*   End = [ent, name, kind \in {"Required","Optional","Set",              *)
(*        "PrimaryKey"}, columns, nullable, index, cascade \in {"none",    *)
(*        "true","false"}, table (Set only), rcolumns (reverse_columns of  *)
(*        a symmetric Set)]                                                *)
(*        sym = TRUE: a = b is the single attribute Set(E, reverse=itself).*)
(*        kind "PrimaryKey": `x = PrimaryKey(E)` - the reference is the    *)
(*        whole primary key of its entity (class PrimaryKey(Required)); a  *)
(*        Required end may also be named in pk (PrimaryKey(owner, no)).    *)
(*        Either way the columns are primary key columns AND the child     *)
(*        columns of a foreign key, which the schema must contain like the *)
(*        one of any other reference; no separate index is made for them   *)
(*        when they are a prefix of the primary key (ForeignKey.__init__). *)
(* Names are sequences of one-character strings.                           *)
(*                                                                         *)
(* Expected(c, d), c = [dialect, maxlen, exec], is either                  *)
(*   [status |-> "rejected", reasons |-> {..}]  - no schema exists for the *)
(*        declaration (contradictory or unmappable: the rules below), or   *)
(*   [status |-> "mapped", tables |-> {..}, names_ok, problems |-> {..}]   *)
(*        the abstract schema: per table its columns with nullability,     *)
(*        primary key, unique sets, declared indexes, foreign keys with    *)
(*        on-delete action and the column lists whose look-up must be      *)
(*        indexed.  names_ok says whether the names Pony's documented      *)
(*        generation scheme produces (transcribed below from               *)
(*        dbapiprovider.py: normalize_name, get_default_*_name, `_2`       *)
(*        suffixes in core.py) are pairwise distinct in the name spaces of *)
(*        the backend and within c.maxlen.  When names_ok is FALSE the     *)
(*        declaration cannot be mapped with that scheme: the implementation*)
(*        must reject it (or produce names without NameProblems).           *)
(*                                                                         *)
(* NameProblems is also the judge applied to the names the real provider   *)
(* classes generate (SchemaJudge.tla).                                     *)
(*                                                                         *)
(* Deliberate deviations from the code: the place where a default m2m      *)
(* table name is made unique (`_2`, `_3`..) looks at the tables of *all*   *)
(* entities, not only at those defined earlier (the code's answer depends  *)
(* on the definition order of the entities); column order inside a table   *)
(* is not part of the abstract schema; SQL types are not modelled.         *)
(***************************************************************************)
EXTENDS Integers, Sequences, FiniteSets, TLC

Range(f) == {f[x] : x \in DOMAIN f}
Min2(a, b) == IF a <= b THEN a ELSE b

---------------------------------------------------------------------------
(* characters and names *)
Upper26 == <<"A","B","C","D","E","F","G","H","I","J","K","L","M","N","O","P","Q","R","S","T","U","V","W","X","Y","Z">>
Lower26 == <<"a","b","c","d","e","f","g","h","i","j","k","l","m","n","o","p","q","r","s","t","u","v","w","x","y","z">>
Digits  == <<"0","1","2","3","4","5","6","7","8","9">>
Ascii   == Digits \o Upper26 \o <<"_">> \o Lower26          \* in code point order
LowerOf == [ch \in Range(Upper26) |-> Lower26[CHOOSE i \in 1 .. 26 : Upper26[i] = ch]]
UpperOf == [ch \in Range(Lower26) |-> Upper26[CHOOSE i \in 1 .. 26 : Lower26[i] = ch]]
OrdOf   == [ch \in Range(Ascii) |-> CHOOSE i \in 1 .. Len(Ascii) : Ascii[i] = ch]

Lower(s) == [i \in 1 .. Len(s) |-> IF s[i] \in DOMAIN LowerOf THEN LowerOf[s[i]] ELSE s[i]]
Upper(s) == [i \in 1 .. Len(s) |-> IF s[i] \in DOMAIN UpperOf THEN UpperOf[s[i]] ELSE s[i]]
Trunc(s, n) == IF Len(s) <= n THEN s ELSE SubSeq(s, 1, n)
Rep(ch, n) == [i \in 1 .. n |-> ch]

RECURSIVE NameLT(_, _)          \* Python's < on str
NameLT(x, y) == IF x = <<>> THEN y # <<>>
                ELSE IF y = <<>> THEN FALSE
                ELSE IF x[1] = y[1] THEN NameLT(Tail(x), Tail(y))
                ELSE OrdOf[x[1]] < OrdOf[y[1]]

RECURSIVE Join(_, _)            \* sep.join(names)
Join(names, sep) == IF names = <<>> THEN <<>>
                    ELSE IF Len(names) = 1 THEN names[1]
                    ELSE names[1] \o sep \o Join(Tail(names), sep)

RECURSIVE Flat(_)               \* concatenation of a sequence of sequences
Flat(ss) == IF ss = <<>> THEN <<>> ELSE ss[1] \o Flat(Tail(ss))

IsPrefix(p, s) == Len(p) <= Len(s) /\ SubSeq(s, 1, Len(p)) = p
US == <<"_">>

---------------------------------------------------------------------------
(* name generation, transcribed from pony/orm/dbapiprovider.py and the provider classes *)
(* DBAPIProvider.normalize_name and its overrides: PostgreSQL/MySQL lower(), Oracle upper() *)
Normalize(c, s) ==
    LET t == Trunc(s, c.maxlen) IN
    CASE c.dialect \in {"PostgreSQL", "MySQL"} -> Lower(t)
      [] c.dialect = "Oracle" -> Upper(t)
      [] OTHER -> t

(* how the backend compares identifiers: SQLite and MySQL ignore case; Pony quotes every name, so
   PostgreSQL and Oracle compare exactly *)
Fold(c, s) == IF c.dialect \in {"SQLite", "MySQL"} THEN Lower(s) ELSE s

(* get_default_index_name (is_pk = False) *)
DefaultIndexName(c, tname, cnames, isUnique, m2m) ==
    LET body == IF isUnique THEN <<"u","n","q","_">> \o tname \o <<"_","_">> \o Join(cnames, US)
                ELSE IF m2m THEN <<"i","d","x","_">> \o tname
                ELSE <<"i","d","x","_">> \o tname \o <<"_","_">> \o Join(cnames, US)
    IN Normalize(c, Lower(body))

(* get_default_fk_name *)
DefaultFkName(c, childTable, childCols) ==
    Normalize(c, Lower(<<"f","k","_">> \o childTable \o <<"_","_">> \o Join(childCols, <<"_","_">>)))

---------------------------------------------------------------------------
(* structure of a diagram *)
NoIdx == [k |-> "none", n |-> <<>>]

RECURSIVE RootIx(_, _)
RootIx(d, i) == IF d.ents[i].base = 0 THEN i ELSE RootIx(d, d.ents[i].base)
IsSub(d, i) == d.ents[i].base # 0
Roots(d) == {i \in DOMAIN d.ents : d.ents[i].base = 0}
Members(d, r) == {i \in DOMAIN d.ents : RootIx(d, i) = r}
HasSubclasses(d, r) == Members(d, r) # {r}

(* ends of relationships: <<k, s>> is side s (1 = a, 2 = b) of relationship k; a symmetric relationship has side 1 only *)
Sides(d) == {<<k, s>> \in (DOMAIN d.rels) \X {1, 2} : s = 1 \/ ~d.rels[k].sym}
End(d, ks) == IF ks[2] = 1 THEN d.rels[ks[1]].a ELSE d.rels[ks[1]].b
OtherSide(d, ks) == IF d.rels[ks[1]].sym THEN ks ELSE <<ks[1], 3 - ks[2]>>
Other(d, ks) == End(d, OtherSide(d, ks))
(* Attribute.is_required: Required and its subclass PrimaryKey *)
IsReq(kind) == kind \in {"Required", "PrimaryKey"}
IsM2M(d, k) == d.rels[k].a.kind = "Set" /\ d.rels[k].b.kind = "Set"

(* entity table name: _table_ of the root, else get_default_entity_table_name *)
TableOf(c, d, i) == LET r == d.ents[RootIx(d, i)] IN IF r.table # <<>> THEN r.table ELSE Normalize(c, r.name)

ExplicitDiscr(d, r) == \E k \in DOMAIN d.ents[r].attrs : d.ents[r].attrs[k].kind = "Discriminator"
ClassType == <<"c","l","a","s","s","t","y","p","e">>
IdName == <<"i","d">>

(* Attribute.get_columns for an attribute that is not part of a relationship *)
ScalarCol(c, a) == IF a.column # <<>> THEN a.column ELSE Normalize(c, a.name)

(* which end of a relationship holds the foreign key columns (Attribute.get_columns) *)
HoldsFk(d, ks) ==
    LET me == End(d, ks)  ot == Other(d, ks) IN
    /\ me.kind # "Set"
    /\ \/ ot.kind = "Set"
       \/ IsReq(me.kind)
       \/ me.columns # <<>>
       \/ /\ ot.columns = <<>>
          /\ ~IsReq(ot.kind)
          /\ ~NameLT(d.ents[ot.ent].name, d.ents[me.ent].name)

(* relationship attributes of entity i declared as x = PrimaryKey(E) *)
PkEnds(d, i) == {ks \in Sides(d) : End(d, ks).ent = i /\ End(d, ks).kind = "PrimaryKey"}

(* declared primary key of a root entity: names of the attributes; <<>> = the implicit `id` *)
PkNames(d, r) ==
    LET e == d.ents[r] IN
    IF e.pk # <<>> THEN e.pk
    ELSE IF \E k \in DOMAIN e.attrs : e.attrs[k].kind = "PrimaryKey"
         THEN <<e.attrs[CHOOSE k \in DOMAIN e.attrs : e.attrs[k].kind = "PrimaryKey"].name>>
         ELSE IF PkEnds(d, r) # {} THEN <<End(d, CHOOSE ks \in PkEnds(d, r) : TRUE).name>>
         ELSE <<>>

ScalarNamed(d, i, n) == {k \in DOMAIN d.ents[i].attrs : d.ents[i].attrs[k].name = n}
EndNamed(d, i, n) == {ks \in Sides(d) : End(d, ks).ent = i /\ End(d, ks).name = n}
(* the entity that declares attribute n, seen from entity i: i itself or the nearest base (a composite key or
   index of a subclass may name attributes of its bases: composite_key(Base.x, y)) *)
RECURSIVE Owner(_, _, _)
Owner(d, i, n) == IF ScalarNamed(d, i, n) # {} \/ EndNamed(d, i, n) # {} \/ d.ents[i].base = 0 THEN i
                  ELSE Owner(d, d.ents[i].base, n)

(* primary key columns of root r (EntityMeta._get_pk_columns_) and the columns of a foreign key end;
   mutually recursive because a primary key may contain a relationship attribute *)
RECURSIVE PkCols(_, _, _)
RECURSIVE FkCols(_, _, _)
RECURSIVE ColsOfName(_, _, _, _)

FkCols(c, d, ks) ==
    LET me == End(d, ks)
        tp == PkCols(c, d, RootIx(d, Other(d, ks).ent))
    IN IF me.columns # <<>> THEN me.columns
       ELSE IF Len(tp) = 1 THEN <<Normalize(c, me.name)>>
       ELSE [j \in 1 .. Len(tp) |-> Normalize(c, me.name \o US \o tp[j])]

ColsOfName(c, d, e, n) ==       \* columns of the attribute called n of entity e or of one of its bases (<<>> if it has none)
    LET i == Owner(d, e, n) IN
    IF ScalarNamed(d, i, n) # {}
    THEN <<ScalarCol(c, d.ents[i].attrs[CHOOSE k \in ScalarNamed(d, i, n) : TRUE])>>
    ELSE IF EndNamed(d, i, n) # {}
    THEN LET ks == CHOOSE x \in EndNamed(d, i, n) : TRUE IN IF HoldsFk(d, ks) THEN FkCols(c, d, ks) ELSE <<>>
    ELSE <<>>

PkCols(c, d, r) ==
    LET names == PkNames(d, r) IN
    IF names = <<>> THEN <<IdName>>
    ELSE Flat([j \in 1 .. Len(names) |-> ColsOfName(c, d, r, names[j])])

TargetPkLen(c, d, ks) == Len(PkCols(c, d, RootIx(d, Other(d, ks).ent)))

InSeq(x, s) == \E j \in DOMAIN s : s[j] = x

(* The key columns of root r are made from the key columns of the roots in PkRefs(d, r).  A declaration in which
   an entity's key is made from itself that way (x = PrimaryKey('T') inside T; PrimaryKey(parent, n) with
   parent = Required('T'); A's key a reference to B and B's key a reference to A) denotes no schema: neither
   the number nor the types of the key columns are determined (PkCols above would not terminate, so Expected
   asks PkCyclic first). *)
PkRefs(d, r) == {RootIx(d, Other(d, ks).ent) :
                   ks \in {x \in Sides(d) : End(d, x).ent = r /\ HoldsFk(d, x) /\ InSeq(End(d, x).name, PkNames(d, r))}}
RECURSIVE PkReach(_, _, _)
PkReach(d, s, n) == IF n = 0 THEN s ELSE PkReach(d, s \cup UNION {PkRefs(d, x) : x \in s}, n - 1)
PkCyclic(d) == \E r \in Roots(d) : r \in PkReach(d, PkRefs(d, r), Len(d.ents))

InKeyOrIndex(e, n) == \/ \E j \in DOMAIN e.ckeys : InSeq(n, e.ckeys[j])
                      \/ \E j \in DOMAIN e.cidx : InSeq(n, e.cidx[j])
InPk(d, i, n) == ~IsSub(d, i) /\ InSeq(n, PkNames(d, i))
(* named by a composite key or index of the entity or of any entity of its hierarchy (Index._init_ makes such an
   optional attribute nullable when the class that names it is defined) *)
InKeyOrIndexH(d, i, n) == \E j \in Members(d, RootIx(d, i)) : InKeyOrIndex(d.ents[j], n)

---------------------------------------------------------------------------
(* nullability of the columns of an attribute *)
ScalarNullable(c, d, i, a) ==
    IF IsSub(d, i) THEN TRUE                                      \* single-table inheritance
    ELSE IF a.kind # "Optional" THEN a.nullable = "true"
    ELSE IF a.type = "int" THEN TRUE
    ELSE \/ a.nullable = "true" \/ a.unique \/ InKeyOrIndexH(d, i, a.name)
         \/ c.dialect = "Oracle"                                  \* '' is NULL there

EndNullable(d, ks) ==
    LET me == End(d, ks) IN
    IF IsSub(d, me.ent) THEN TRUE
    ELSE IF IsReq(me.kind) THEN me.nullable = "true"
    ELSE TRUE

(* on-delete action of the foreign key held by end ks (Attribute.linked: cascade_delete of the reverse side
   defaults to "it is a collection and this side is required"; generate_mapping: CASCADE / SET NULL / none).
   The same for a reference that is (part of) the primary key: its columns are NOT NULL, so never SET NULL. *)
OnDelete(d, ks) ==
    LET me == End(d, ks)  ot == Other(d, ks)
        cascade == IF ot.cascade = "none" THEN ot.kind = "Set" /\ IsReq(me.kind) ELSE ot.cascade = "true"
    IN IF cascade THEN "CASCADE"
       ELSE IF me.kind = "Optional" /\ EndNullable(d, ks) THEN "SET NULL"
       ELSE "NO ACTION"

---------------------------------------------------------------------------
(* many-to-many link tables *)
M2Ms(d) == {k \in DOMAIN d.rels : IsM2M(d, k)}

(* the end Pony calls `attr` when it builds the link table: the one whose entity name is smaller
   (same entity: whose attribute name is smaller) *)
FirstSide(d, k) ==
    LET r == d.rels[k] IN
    IF r.sym THEN 1
    ELSE IF r.a.ent = r.b.ent THEN (IF NameLT(r.b.name, r.a.name) THEN 2 ELSE 1)
    ELSE IF NameLT(d.ents[r.b.ent].name, d.ents[r.a.ent].name) THEN 2 ELSE 1

M2MExplicitTable(d, k) == IF d.rels[k].a.table # <<>> THEN d.rels[k].a.table ELSE d.rels[k].b.table

(* get_default_m2m_table_name *)
M2MBaseName(c, d, k) ==
    LET f == End(d, <<k, FirstSide(d, k)>>)  o == Other(d, <<k, FirstSide(d, k)>>) IN
    IF d.rels[k].sym THEN Normalize(c, d.ents[f.ent].name \o US \o f.name)
    ELSE Normalize(c, d.ents[f.ent].name \o US \o d.ents[o.ent].name)

EntityTables(c, d) == {TableOf(c, d, i) : i \in DOMAIN d.ents}

NumName(n) == IF n < 10 THEN <<Digits[n + 1]>> ELSE <<Digits[(n \div 10) + 1], Digits[(n % 10) + 1]>>

RECURSIVE M2MTable(_, _, _)
(* link tables are created in the order of d.rels (the diagram families keep relationships that share a
   default name in that order) *)
M2MTable(c, d, k) ==
    IF M2MExplicitTable(d, k) # <<>> THEN M2MExplicitTable(d, k)
    ELSE LET base == M2MBaseName(c, d, k)
             taken == EntityTables(c, d) \cup {M2MTable(c, d, j) : j \in {x \in M2Ms(d) : x < k}}
             n == CHOOSE m \in 2 .. 20 : (base \o US \o NumName(m)) \notin taken
                                          /\ \A m2 \in 2 .. (m - 1) : (base \o US \o NumName(m2)) \in taken
         IN IF base \notin taken THEN base ELSE base \o US \o NumName(n)

(* get_default_m2m_column_names(entity) *)
M2MDefaultCols(c, d, i) ==
    LET pk == PkCols(c, d, RootIx(d, i))
        nm == Lower(d.ents[i].name)
    IN IF Len(pk) = 1 THEN <<Normalize(c, nm)>>
       ELSE [j \in 1 .. Len(pk) |-> Normalize(c, nm \o US \o pk[j])]

Suffix2(cols) == [j \in 1 .. Len(cols) |-> cols[j] \o <<"_","2">>]

(* columns of the link table that refer to the entity of end ks (Set.get_m2m_columns) *)
M2MColsRef(c, d, ks) ==
    LET k == ks[1]
        r == d.rels[k]
        me == End(d, ks)
        ot == Other(d, ks)      \* the attribute whose `column(s)` option names these columns
        first == <<k, FirstSide(d, k)>>
    IN IF r.sym THEN (IF me.columns # <<>> THEN me.columns ELSE M2MDefaultCols(c, d, me.ent))
       ELSE IF r.a.ent = r.b.ent
       THEN \* self-reference with two attributes: the first attribute's own columns, the other's default to <first>_2
            LET fa == End(d, first)
                fcols == IF fa.columns # <<>> THEN fa.columns ELSE M2MDefaultCols(c, d, fa.ent)
            IN IF ks = first THEN (IF ot.columns # <<>> THEN ot.columns ELSE Suffix2(fcols))
               ELSE fcols
       ELSE IF ot.columns # <<>> THEN ot.columns ELSE M2MDefaultCols(c, d, me.ent)

(* symmetric: the second column group *)
M2MSymRevCols(c, d, k) ==
    LET me == d.rels[k].a IN
    IF me.rcolumns # <<>> THEN me.rcolumns ELSE Suffix2(M2MColsRef(c, d, <<k, 1>>))

---------------------------------------------------------------------------
(* rejection rules: declarations for which no schema exists *)
BadScalar(c, d, i, a) ==
    (IF a.kind = "Optional" /\ a.type = "int" /\ a.nullable = "false" THEN {"optional-non-string-not-nullable"} ELSE {})
    \cup (IF a.kind = "Optional" /\ a.nullable = "false" /\ (a.unique \/ InKeyOrIndexH(d, i, a.name))
          THEN {"optional-in-key-not-nullable"} ELSE {})
    \cup (IF a.kind = "Optional" /\ InPk(d, i, a.name) THEN {"optional-in-primary-key"} ELSE {})
    \cup (IF IsSub(d, i) /\ a.nullable = "false" THEN {"subclass-attribute-not-nullable"} ELSE {})
    \cup (IF IsSub(d, i) /\ a.kind \in {"PrimaryKey", "Discriminator"} THEN {"key-or-discriminator-in-subclass"} ELSE {})
    \cup (IF a.unique /\ a.index.k = "false" THEN {"unique-without-index"} ELSE {})
    \cup (IF c.dialect = "Oracle" /\ a.kind = "Optional" /\ a.type = "str" /\ a.nullable = "false"
          THEN {"oracle-optional-string-not-nullable"} ELSE {})

BadEntity(c, d, i) ==
    LET e == d.ents[i] IN
    UNION {BadScalar(c, d, i, e.attrs[k]) : k \in DOMAIN e.attrs}
    \cup (IF IsSub(d, i) /\ e.table # <<>> THEN {"table-name-in-subclass"} ELSE {})
    \cup (IF IsSub(d, i) /\ e.pk # <<>> THEN {"primary-key-in-subclass"} ELSE {})
    \cup (IF Cardinality({k \in DOMAIN e.attrs : e.attrs[k].kind = "PrimaryKey"}) + Cardinality(PkEnds(d, i))
             + (IF e.pk # <<>> THEN 1 ELSE 0) > 1
          THEN {"two-primary-keys"} ELSE {})
    \cup (IF \E j1 \in DOMAIN e.ckeys : \E j3 \in DOMAIN e.cidx : e.ckeys[j1] = e.cidx[j3]
          THEN {"key-and-index-on-same-columns"} ELSE {})
    \cup (IF \E j \in DOMAIN e.ckeys : e.ckeys[j] = e.pk THEN {"key-equals-primary-key"} ELSE {})
    \cup (IF \E j \in DOMAIN d.ents : j # i /\ ~IsSub(d, i) /\ ~IsSub(d, j) /\ TableOf(c, d, j) = TableOf(c, d, i)
          THEN {"two-hierarchies-one-table"} ELSE {})

BadEnd(c, d, ks) ==
    LET me == End(d, ks)  ot == Other(d, ks)  k == ks[1] IN
    (IF IsReq(me.kind) /\ IsReq(ot.kind) THEN {"one-to-one-both-required"} ELSE {})
    \cup (IF me.kind = "PrimaryKey" /\ IsSub(d, me.ent) THEN {"key-or-discriminator-in-subclass"} ELSE {})
    \cup (IF me.kind = "Optional" /\ me.nullable = "false" THEN {"optional-non-string-not-nullable"} ELSE {})
    \cup (IF me.kind # "Set" /\ IsSub(d, me.ent) /\ me.nullable = "false" THEN {"subclass-attribute-not-nullable"} ELSE {})
    \cup (IF me.kind = "Optional" /\ InPk(d, me.ent, me.name) THEN {"optional-in-primary-key"} ELSE {})
    \cup (IF me.kind = "Set" /\ InPk(d, me.ent, me.name) THEN {"collection-in-primary-key"} ELSE {})
    \cup (IF me.kind = "Set" /\ ot.kind # "Set" /\ me.table # <<>> THEN {"table-on-one-to-many"} ELSE {})
    \cup (IF me.kind # "Set" /\ (me.table # <<>> \/ me.rcolumns # <<>>) THEN {"collection-option-on-single-attribute"} ELSE {})
    \cup (IF me.kind = "Set" /\ ot.kind # "Set" /\ me.columns # <<>> THEN {"column-on-one-to-many"} ELSE {})
    \cup (IF HoldsFk(d, ks) /\ me.columns # <<>> /\ Len(me.columns) # TargetPkLen(c, d, ks)
          THEN {"wrong-number-of-columns"} ELSE {})
    \cup (IF me.kind # "Set" /\ ~HoldsFk(d, ks) /\ me.columns # <<>> THEN {"wrong-number-of-columns"} ELSE {})
    \cup (IF me.cascade = "true" /\ (ot.cascade = "true" \/ ot.kind = "Set") THEN {"cascade-delete-misplaced"} ELSE {})
    \cup (IF IsM2M(d, k) /\ me.table # <<>> /\ ot.table # <<>> /\ me.table # ot.table THEN {"m2m-table-names-differ"} ELSE {})
    \cup (IF IsM2M(d, k) /\ me.columns # <<>> /\ Len(me.columns) # TargetPkLen(c, d, ks)
          THEN {"wrong-number-of-columns"} ELSE {})
    \cup (IF IsM2M(d, k) /\ d.rels[k].sym /\ me.rcolumns # <<>> /\ Len(me.rcolumns) # TargetPkLen(c, d, ks)
          THEN {"wrong-number-of-columns"} ELSE {})

BadM2M(c, d, k) ==
    LET t == M2MExplicitTable(d, k) IN
    (IF t # <<>> /\ (t \in EntityTables(c, d) \/ \E j \in M2Ms(d) : j # k /\ M2MExplicitTable(d, j) = t)
     THEN {"m2m-table-name-in-use"} ELSE {})
    \cup (IF ~d.rels[k].sym /\ M2MColsRef(c, d, <<k, 1>>) = M2MColsRef(c, d, <<k, 2>>) THEN {"m2m-same-columns"} ELSE {})

StructuralRejects(c, d) ==
    UNION {BadEntity(c, d, i) : i \in DOMAIN d.ents}
    \cup UNION {BadEnd(c, d, ks) : ks \in Sides(d)}
    \cup UNION {BadM2M(c, d, k) : k \in M2Ms(d)}

---------------------------------------------------------------------------
(* the abstract schema *)
(* column entries of the table of root r; src makes entries of different attributes distinct *)
TableColumns(c, d, r) ==
    LET pk == PkCols(c, d, r) IN
    {[src |-> <<"a", i, k>>, name |-> ScalarCol(c, d.ents[i].attrs[k]),
      notnull |-> InSeq(ScalarCol(c, d.ents[i].attrs[k]), pk) \/ ~ScalarNullable(c, d, i, d.ents[i].attrs[k])] :
        <<i, k>> \in {x \in Members(d, r) \X (1 .. 8) : x[2] \in DOMAIN d.ents[x[1]].attrs}}
    \cup UNION {{[src |-> <<"f", ks[1], ks[2], j>>, name |-> FkCols(c, d, ks)[j],
                  notnull |-> InSeq(FkCols(c, d, ks)[j], pk) \/ ~EndNullable(d, ks)] : j \in 1 .. Len(FkCols(c, d, ks))} :
                ks \in {x \in Sides(d) : End(d, x).ent \in Members(d, r) /\ HoldsFk(d, x)}}
    \cup (IF PkNames(d, r) = <<>> THEN {[src |-> <<"id">>, name |-> IdName, notnull |-> TRUE]} ELSE {})
    \cup (IF HasSubclasses(d, r) /\ ~ExplicitDiscr(d, r) THEN {[src |-> <<"discr">>, name |-> ClassType, notnull |-> TRUE]} ELSE {})

(* unique sets (each as a column sequence) with the name of the unique index *)
TableUniques(c, d, r) ==
    LET t == TableOf(c, d, r) IN
    {[cols |-> <<ScalarCol(c, d.ents[i].attrs[k])>>,
      name |-> IF d.ents[i].attrs[k].index.k = "name" THEN d.ents[i].attrs[k].index.n
               ELSE DefaultIndexName(c, t, <<ScalarCol(c, d.ents[i].attrs[k])>>, TRUE, FALSE)] :
        <<i, k>> \in {x \in Members(d, r) \X (1 .. 8) : x[2] \in DOMAIN d.ents[x[1]].attrs
                                                         /\ d.ents[x[1]].attrs[x[2]].unique}}
    \cup {[cols |-> Flat([j \in 1 .. Len(d.ents[i].ckeys[q]) |-> ColsOfName(c, d, i, d.ents[i].ckeys[q][j])]),
           name |-> DefaultIndexName(c, t, Flat([j \in 1 .. Len(d.ents[i].ckeys[q]) |-> ColsOfName(c, d, i, d.ents[i].ckeys[q][j])]), TRUE, FALSE)] :
        <<i, q>> \in {x \in Members(d, r) \X (1 .. 4) : x[2] \in DOMAIN d.ents[x[1]].ckeys}}

(* declared non-unique indexes: index=True / index='name' on a plain attribute, composite_index *)
TableDeclaredIdx(c, d, r) ==
    LET t == TableOf(c, d, r) IN
    {[cols |-> <<ScalarCol(c, d.ents[i].attrs[k])>>, explicit |-> d.ents[i].attrs[k].index.k = "name",
      name |-> IF d.ents[i].attrs[k].index.k = "name" THEN d.ents[i].attrs[k].index.n
               ELSE DefaultIndexName(c, t, <<ScalarCol(c, d.ents[i].attrs[k])>>, FALSE, FALSE)] :
        <<i, k>> \in {x \in Members(d, r) \X (1 .. 8) : x[2] \in DOMAIN d.ents[x[1]].attrs
                                                         /\ ~d.ents[x[1]].attrs[x[2]].unique
                                                         /\ d.ents[x[1]].attrs[x[2]].index.k \in {"true", "name"}}}
    \cup {[cols |-> Flat([j \in 1 .. Len(d.ents[i].cidx[q]) |-> ColsOfName(c, d, i, d.ents[i].cidx[q][j])]), explicit |-> FALSE,
           name |-> DefaultIndexName(c, t, Flat([j \in 1 .. Len(d.ents[i].cidx[q]) |-> ColsOfName(c, d, i, d.ents[i].cidx[q][j])]), FALSE, FALSE)] :
        <<i, q>> \in {x \in Members(d, r) \X (1 .. 4) : x[2] \in DOMAIN d.ents[x[1]].cidx}}

FkIndexName(c, t, cols, opt, m2m) == IF opt.k = "name" THEN opt.n ELSE DefaultIndexName(c, t, cols, FALSE, m2m)

(* foreign keys held by attributes of the hierarchy of r *)
TableFks(c, d, r) ==
    LET t == TableOf(c, d, r) IN
    {[cols |-> FkCols(c, d, ks), ptable |-> TableOf(c, d, Other(d, ks).ent),
      pcols |-> PkCols(c, d, RootIx(d, Other(d, ks).ent)), ondelete |-> OnDelete(d, ks),
      indexed |-> End(d, ks).index.k # "false", explicit |-> End(d, ks).index.k = "name",
      iname |-> FkIndexName(c, t, FkCols(c, d, ks), End(d, ks).index, FALSE),
      name |-> DefaultFkName(c, t, FkCols(c, d, ks))] :
        ks \in {x \in Sides(d) : End(d, x).ent \in Members(d, r) /\ HoldsFk(d, x)}}

EntityTable(c, d, r) ==
    LET pk == PkCols(c, d, r)
        uniq == TableUniques(c, d, r)
        decl == TableDeclaredIdx(c, d, r)
        fks == TableFks(c, d, r)
        covering == {pk} \cup {u.cols : u \in uniq} \cup {x.cols : x \in decl}
    IN [name |-> TableOf(c, d, r), m2m |-> FALSE,
        cols |-> TableColumns(c, d, r), pk |-> pk, uniques |-> uniq, idx |-> decl, fks |-> fks,
        \* indexes Pony adds for foreign keys whose columns are not the prefix of an index that exists anyway
        fkidx |-> {[cols |-> f.cols, name |-> f.iname, explicit |-> f.explicit] :
                     f \in {x \in fks : x.indexed /\ ~\E cv \in covering : IsPrefix(x.cols, cv)}}]

(* link table of many-to-many relationship k *)
M2MTableRec(c, d, k) ==
    LET t == M2MTable(c, d, k)
        r == d.rels[k]
        f == FirstSide(d, k)
        \* g: the side whose entity the first column group refers to (m2m_columns_1 in generate_mapping)
        g == IF ~r.sym /\ r.a.ent = r.b.ent THEN 3 - f ELSE f
        cols1 == M2MColsRef(c, d, <<k, g>>)
        cols2 == IF r.sym THEN M2MSymRevCols(c, d, k) ELSE M2MColsRef(c, d, <<k, 3 - g>>)
        pk == cols1 \o cols2
        e1 == End(d, <<k, g>>).ent
        e2 == IF r.sym THEN e1 ELSE End(d, <<k, 3 - g>>).ent
        \* the index option of an end governs the index of the columns that refer to that end's own entity
        opt1 == End(d, <<k, g>>).index
        opt2 == IF r.sym THEN NoIdx ELSE End(d, <<k, 3 - g>>).index
        fks == {[cols |-> cols1, ptable |-> TableOf(c, d, e1), pcols |-> PkCols(c, d, RootIx(d, e1)), ondelete |-> "CASCADE",
                 indexed |-> opt1.k # "false", explicit |-> opt1.k = "name", iname |-> FkIndexName(c, t, cols1, opt1, TRUE),
                 name |-> DefaultFkName(c, t, cols1)],
                [cols |-> cols2, ptable |-> TableOf(c, d, e2), pcols |-> PkCols(c, d, RootIx(d, e2)), ondelete |-> "CASCADE",
                 indexed |-> opt2.k # "false", explicit |-> opt2.k = "name", iname |-> FkIndexName(c, t, cols2, opt2, TRUE),
                 name |-> DefaultFkName(c, t, cols2)]}
    IN [name |-> t, m2m |-> TRUE,
        cols |-> {[src |-> <<"m", j>>, name |-> pk[j], notnull |-> TRUE] : j \in 1 .. Len(pk)},
        pk |-> pk, uniques |-> {}, idx |-> {}, fks |-> fks,
        fkidx |-> {[cols |-> x.cols, name |-> x.iname, explicit |-> x.explicit] : x \in {y \in fks : y.indexed /\ ~IsPrefix(y.cols, pk)}}]

Tables(c, d) == {EntityTable(c, d, r) : r \in Roots(d)} \cup {M2MTableRec(c, d, k) : k \in M2Ms(d)}

---------------------------------------------------------------------------
(* The names of a schema are usable on the backend: a "names" value is
     [tables |-> set of [name, cols |-> set of names, objs |-> set of [kind, name]]]
   objs = the indexes, unique indexes and foreign key constraints of the table that carry a name.
   Pony keeps tables, indexes and constraints in one name space (DBSchema.names); that is also right for
   SQLite (tables and indexes) and safe for the others. *)
NamesOf(tabs) ==
    {[name |-> t.name, cols |-> {x.name : x \in t.cols},
      ncols |-> Cardinality(t.cols),
      objs |-> {[kind |-> "unique", on |-> u.cols, name |-> u.name] : u \in t.uniques}
               \cup {[kind |-> "index", on |-> x.cols, name |-> x.name] : x \in t.idx \cup t.fkidx}
               \cup {[kind |-> "fk", on |-> f.cols, name |-> f.name] : f \in t.fks}] : t \in tabs}

(* names the declaration itself fixes (the user's choice; `classtype` is fixed by Pony): exempt from the length rule *)
ExplicitNames(d) ==
    {ClassType}
    \cup {d.ents[i].table : i \in DOMAIN d.ents}
    \cup UNION {UNION {{d.ents[i].attrs[k].column, d.ents[i].attrs[k].index.n} : k \in DOMAIN d.ents[i].attrs} : i \in DOMAIN d.ents}
    \cup UNION {Range(End(d, ks).columns) \cup Range(End(d, ks).rcolumns) \cup {End(d, ks).table, End(d, ks).index.n} : ks \in Sides(d)}

(* Tables, indexes and constraints that differ by letter case only: DBSchema.create_tables looks every object
   up case-insensitively before it creates it and refuses with DBSchemaError.  That happens while the DDL is
   executed, so it can be observed only in a configuration that really creates the tables (c.exec); elsewhere
   these names are compared exactly.  MySQL table names are case-sensitive (lower_case_table_names = 0). *)
FoldTable(c, s) == IF c.exec /\ c.dialect = "SQLite" THEN Lower(s) ELSE s
FoldObj(c, s) == IF c.exec THEN Fold(c, s) ELSE s

NameProblems(c, ns, explicit) ==
    LET objs == UNION {{<<t.name, o.kind, o.on, o.name>> : o \in t.objs} : t \in ns}
        fits(nm) == Len(nm) > 0 /\ (nm \in explicit \/ Len(nm) <= c.maxlen)
    IN (IF \A t \in ns : fits(t.name) /\ \A col \in t.cols : fits(col) THEN {} ELSE {"length"})
       \cup (IF \A o \in objs : fits(o[4]) THEN {} ELSE {"length"})
       \* the columns of a table are distinct for the backend
       \cup (IF \A t \in ns : Cardinality({Fold(c, col) : col \in t.cols}) = t.ncols THEN {} ELSE {"columns"})
       \* tables are distinct; indexes and constraints are distinct; no index or constraint is called like a table
       \cup (IF Cardinality({FoldTable(c, t.name) : t \in ns}) = Cardinality(ns) THEN {} ELSE {"tables"})
       \cup (IF Cardinality({FoldObj(c, o[4]) : o \in objs}) = Cardinality(objs) THEN {} ELSE {"objects"})
       \cup (IF {FoldTable(c, t.name) : t \in ns} \cap {FoldTable(c, o[4]) : o \in objs} = {} THEN {} ELSE {"table-object"})

(* one table per name *)
TablesDistinct(tabs) == Cardinality({t.name : t \in tabs}) = Cardinality(tabs)

Expected(c, d) ==
    LET bad == IF PkCyclic(d) THEN {"primary-key-contains-itself"} ELSE StructuralRejects(c, d) IN
    IF bad # {} THEN [status |-> "rejected", reasons |-> bad]
    ELSE LET tabs == Tables(c, d)
             problems == (IF TablesDistinct(tabs) THEN {} ELSE {"tables"}) \cup NameProblems(c, NamesOf(tabs), ExplicitNames(d))
             \* the default name of a link table (or a suffixed form of it) is the table of an entity
             notes == IF \E k \in M2Ms(d) : M2MExplicitTable(d, k) = <<>> /\
                            \/ M2MBaseName(c, d, k) \in EntityTables(c, d)
                            \/ \E m \in 2 .. 9 : (M2MBaseName(c, d, k) \o US \o NumName(m)) \in EntityTables(c, d)
                      THEN {"m2m-default-name-is-an-entity-table"} ELSE {}
         IN [status |-> "mapped", tables |-> tabs, names_ok |-> problems = {}, problems |-> problems, notes |-> notes]
=============================================================================
