--------------------------- MODULE LiteralJudge ---------------------------
(* C06, E2: outputs of the real Pony code judged with the lexical rules of Literal.tla.
   In.lits   : <<d, style, kind, text, s>>   text = str(Value(style, s)) / provider.quote_name(s) as rendered by Pony;
               kind "str" | "id".  Must lex to exactly one token of that kind with value s.
   In.flats  : [d, style, shape, text, args, ref]   text/args = real SQLBuilder(...).sql / .adapter(values) for the shape;
               ref = index into In.refs, the text of the Benign shape under qmark for the same builder class.
   In.likes  : [d, op, kind, ast, p, full, style, args]   ast = the LIKE node the real translator produced, its VALUE
               leaves replaced by the literal text the real builder renders; judged against Python's
               startswith/endswith/in for every stored string (and every parameter value when kind = "param"). *)
EXTENDS Literal, Json, IOUtils

In == JsonDeserialize(IOEnv.IN)

Show(toks) == [k \in 1 .. Len(toks) |-> [t |-> toks[k].t, v |-> IF toks[k].t = "param" THEN <<"<bound>">> ELSE IF toks[k].t = "c" THEN <<toks[k].v>> ELSE toks[k].v]]

---------------------------------------------------------------------------
LitOk(c) == IF c[3] = "str" THEN DenotesString(c[1], c[2], c[4], c[5]) ELSE DenotesIdent(c[1], c[2], c[4], c[5])
LitBad == {k \in 1 .. Len(In.lits) : ~LitOk(In.lits[k])}
LitReport == [checked |-> Len(In.lits),
              bad |-> {[id |-> k, reads |-> Show(Statement(In.lits[k][1], In.lits[k][2], In.lits[k][4], <<>>))] : k \in LitBad}]

---------------------------------------------------------------------------
RefSkeleton(c) == Skeleton(Statement(c.d, "qmark", In.refs[c.ref].text, In.refs[c.ref].args))
FlatToks(c) == Statement(c.d, c.style, c.text, c.args)
FlatOk(c) == LET toks == FlatToks(c) IN
             /\ ~HasErr(toks)
             /\ SameToks(Carrying(toks), ExpectedCarrying(c.d, c.shape))
             /\ Skeleton(toks) = RefSkeleton(c)
FlatBad == {k \in 1 .. Len(In.flats) : ~FlatOk(In.flats[k])}
FlatReport == [checked |-> Len(In.flats),
               bad |-> {[id |-> k, reads |-> Show(Carrying(FlatToks(In.flats[k]))),
                         expected |-> Show(ExpectedCarrying(In.flats[k].d, In.flats[k].shape)),
                         skeleton_same |-> Skeleton(FlatToks(In.flats[k])) = RefSkeleton(In.flats[k])] : k \in FlatBad}]

---------------------------------------------------------------------------
NonEmptyIf(d, S) == IF d = "Oracle" THEN S \ {<<>>} ELSE S      \* '' is NULL on Oracle: outside this property
LikeSs(c) == NonEmptyIf(c.d, StringsUpTo(Alphabet, In.likes_len))
LikePs(c) == IF c.kind = "const" THEN {c.p} ELSE NonEmptyIf(c.d, StringsUpTo(Alphabet, In.likep))
Want(c, p, s) == IF PyOp(c.op, p, s) THEN "T" ELSE "F"
LikeBadPairs(c) == UNION { LET prep == LikePrep(c.ast, c.d, p) IN
                            {<<p, s>> : s \in {x \in LikeSs(c) : LikeRun(prep, c.d, x) # Want(c, p, x)}} : p \in LikePs(c) }
FullOk(c) == LET toks == Statement(c.d, c.style, c.full, c.args) IN
             ~HasErr(toks) /\ (c.kind = "const" \/ \E k \in 1 .. Len(toks) : toks[k].t = "param" /\ toks[k].v.t = "str" /\ toks[k].v.v = c.p)
LikeReport(k) == LET c == In.likes[k]
                     bad == LikeBadPairs(c) IN
                 [id |-> k, pairs |-> Cardinality(LikePs(c)) * Cardinality(LikeSs(c)), nbad |-> Cardinality(bad), full_ok |-> FullOk(c),
                  first |-> IF bad = {} THEN <<>> ELSE
                            LET b == CHOOSE x \in bad : \A y \in bad : Len(x[1]) + Len(x[2]) <= Len(y[1]) + Len(y[2]) IN
                            <<[p |-> b[1], s |-> b[2], sql |-> LikeEval(c.ast, c.d, b[1], b[2]), python |-> Want(c, b[1], b[2])]>>]

---------------------------------------------------------------------------
(* In.typed : [d, style, kind, text, v] *)
TypedBad == {k \in 1 .. Len(In.typed) : LET c == In.typed[k] IN ~TypedOk(c.d, c.style, c.kind, c.text, c.v)}
TypedReport == [checked |-> Len(In.typed), bad |-> TypedBad]

ASSUME JsonSerialize(IOEnv.OUT, [lits |-> LitReport, flats |-> FlatReport, likes |-> [k \in 1 .. Len(In.likes) |-> LikeReport(k)],
                                 typed |-> TypedReport])
=============================================================================
