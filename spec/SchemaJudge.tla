---------------------------- MODULE SchemaJudge ----------------------------
(* C26, E2: the names the real provider classes generated for a diagram (tables, columns, indexes,
   unique indexes, foreign key constraints - read from the DBSchema object the real generate_mapping built
   with the real PGProvider / MySQLProvider / OraProvider / SQLiteProvider name functions) are judged by
   Schema.NameProblems: every generated name within max_name_len, columns distinct within their table, tables /
   indexes / constraints distinct within the schema, under the backend's rule for comparing identifiers. *)
EXTENDS Schema, Json, IOUtils

In == JsonDeserialize(IOEnv.IN)

NsOf(x) == {[name |-> t.name, cols |-> Range(t.cols), ncols |-> Len(t.cols),
             objs |-> {[kind |-> o.kind, on |-> o.on, name |-> o.name] : o \in Range(t.objs)}] : t \in Range(x.tables)}

(* two tables / two objects with the same name collapse in the sets above: count them on the sequences *)
Counted(x) == /\ Cardinality({t.name : t \in Range(x.tables)}) = Len(x.tables)
              /\ \A j \in DOMAIN x.tables :
                    Cardinality({<<o.kind, o.on, o.name>> : o \in Range(x.tables[j].objs)}) = Len(x.tables[j].objs)

Judge(x) == [id |-> x.id,
             problems |-> (IF Counted(x) THEN {} ELSE {"duplicates"}) \cup NameProblems(x.cfg, NsOf(x), ExplicitNames(x.d))]

ASSUME JsonSerialize(IOEnv.OUT, [j \in 1 .. Len(In.cases) |-> Judge(In.cases[j])])
=============================================================================
