------------------------------ MODULE Validate ------------------------------
(***************************************************************************)
(* Attribute declarations, validation and value normalisation of Pony      *)
(* attributes (properties C08 and C07).                                    *)
(*                                                                         *)
(* PART I (C08) - what a declaration  kind(type, options)  means:          *)
(*   DefRejected(d)  the declaration is contradictory / unsupported and    *)
(*                   Pony must refuse it when the entity is defined or     *)
(*                   mapped (third outcome);                               *)
(*   Violated(d, v)  the set of declared constraints value v breaks;       *)
(*   Accepts(d, v)   == Violated(d, v) = {};                               *)
(*   Normalised(d, v) the value the attribute holds after v was accepted.  *)
(* This is the meaning of the options as Pony documents them (API          *)
(* reference, "Attribute options"), NOT a transcription of the converter   *)
(* code; code anchors: dbapiprovider.py IntConverter.init/validate,        *)
(* RealConverter.validate, DecimalConverter.validate, StrConverter.validate,*)
(* BoolConverter.validate, core.py Attribute.validate, Required.validate.  *)
(*                                                                         *)
(* PART II (C07) - value domains of every attribute type built from small  *)
(* integers and Norm(type, v), the documented normalisation applied when a *)
(* value is stored (see the header of Part II).                            *)
(*                                                                         *)
(* Values are tagged records (field t first), so that TLC never compares   *)
(* an integer with a string:                                               *)
(*   [t |-> "none"]                      Python None                       *)
(*   [t |-> "int", e |-> k, o |-> d]     the integer sgn(k)*2^|k| + d      *)
(*                                       (k = 0: just d), see SYMBOLIC     *)
(*   [t |-> "float", h |-> n]            the float n/2 (exact in binary)   *)
(*   [t |-> "dec", u |-> n, s |-> k]     the Decimal n * 10^-k (Part I)    *)
(*   [t |-> "str", s |-> <<"a","b">>]    a string, one char per element    *)
(*   [t |-> "bool", b |-> TRUE]                                            *)
(*                                                                         *)
(* SYMBOLIC INTEGERS.  TLC integers are 32 bit, the bounds of sized int    *)
(* attributes reach 2^64.  A number is kept as <<exponent, offset>> with   *)
(* |offset| <= 16 and |exponent| in {0} \cup 7..64.  Because sgn(k)*2^|k|  *)
(* is strictly increasing in k on that set and two different majors are at *)
(* least 128 apart, the numeric order is exactly the lexicographic order   *)
(* on <<exponent, offset>> (law NumOrderLaw below; additionally compared   *)
(* with CPython's integers by the harness on every run).                   *)
(***************************************************************************)
EXTENDS Integers, Sequences, FiniteSets, TLC

---------------------------------------------------------------------------
(* values *)
NoneV        == [t |-> "none"]
IntV(k, d)   == [t |-> "int", e |-> k, o |-> d]
SmallInt(n)  == IntV(0, n)
FloatH(n)    == [t |-> "float", h |-> n]
DecV(n, k)   == [t |-> "dec", u |-> n, s |-> k]
StrV(cs)     == [t |-> "str", s |-> cs]
BoolV(x)     == [t |-> "bool", b |-> x]

(* symbolic integer order: a, b are "int" values *)
NumLt(a, b) == a.e < b.e \/ (a.e = b.e /\ a.o < b.o)
NumLe(a, b) == a.e < b.e \/ (a.e = b.e /\ a.o <= b.o)

Pow10(k) == CASE k = 0 -> 1 [] k = 1 -> 10 [] k = 2 -> 100 [] k = 3 -> 1000 [] k = 4 -> 10000
              [] k = 5 -> 100000 [] k = 6 -> 1000000 [] k = 7 -> 10000000 [] k = 8 -> 100000000
              [] k = 9 -> 1000000000

---------------------------------------------------------------------------
(* PART I - declarations *)

Kinds  == {"Required", "Optional", "PrimaryKey"}
Types  == {"int", "float", "dec", "str", "bool"}     \* float: int-valued and half-valued floats only
Tri    == {"absent", "true", "false"}                 \* an option that may be left out
NoB    == [has |-> FALSE, v |-> 0]
Bd(n)  == [has |-> TRUE, v |-> n]
Bounds == {NoB, Bd(-2), Bd(0), Bd(2)}                 \* min= / max=
Sizes  == {0, 8, 16, 24, 32, 64}                      \* size=, 0: option absent
MaxLens == {0, 1, 3}                                  \* max_len=, 0: option absent

(* A declaration.  unsigned = FALSE and check = FALSE mean "option absent".
   py_check, when present, is the fixed predicate Check below (the harness passes the same predicate
   written in Python). *)
Decl(k, ty, nl, mn, mx, sz, us, ml, ck, st) ==
    [kind |-> k, type |-> ty, nullable |-> nl, min |-> mn, max |-> mx, size |-> sz, unsigned |-> us,
     maxlen |-> ml, check |-> ck, strip |-> st, supplied |-> "absent"]

(* options that make the database supply the value when the program gives none: sql_default=<literal>,
   volatile=True, auto=True.  They exempt a Required/PrimaryKey attribute from giving a value (None is then
   accepted at every entry point); they do NOT make the empty string a value. *)
Supplies == {"sql_default", "volatile", "auto"}
WithSupplied(d, sp) == [d EXCEPT !.supplied = sp]

(* options Pony defines per attribute type (nullable and py_check exist for every type) *)
Applicable(ty) == CASE ty = "int"             -> {"min", "max", "size", "unsigned"}
                    [] ty \in {"float", "dec"} -> {"min", "max"}
                    [] ty = "str"             -> {"max_len", "autostrip"}
                    [] ty = "bool"            -> {}

Opts(d) == (IF d.min.has THEN {"min"} ELSE {}) \cup (IF d.max.has THEN {"max"} ELSE {}) \cup
           (IF d.size # 0 THEN {"size"} ELSE {}) \cup (IF d.unsigned THEN {"unsigned"} ELSE {}) \cup
           (IF d.maxlen # 0 THEN {"max_len"} ELSE {}) \cup (IF d.strip # "absent" THEN {"autostrip"} ELSE {})

(* int attributes: an absent size means 32 bits *)
EffSize(d) == IF d.size = 0 THEN 32 ELSE d.size
Lowest(d)  == IF d.unsigned THEN SmallInt(0) ELSE IntV(-(EffSize(d) - 1), 0)
Highest(d) == IF d.unsigned THEN IntV(EffSize(d), -1) ELSE IntV(EffSize(d) - 1, -1)

(* the backend executed here (SQLite) has no unsigned 64-bit integers *)
Uint64Support == FALSE

DefRejected(d) ==
    \/ ~(Opts(d) \subseteq Applicable(d.type))                          \* option of another type
    \/ d.kind = "PrimaryKey" /\ d.type = "float"
    \/ d.kind = "PrimaryKey" /\ d.supplied = "volatile"                  \* a key cannot change behind the session's back
    \/ d.kind = "Optional" /\ d.type # "str" /\ d.nullable = "false"     \* no empty value to stand for "absent"
    \/ d.type = "int" /\ Opts(d) \subseteq Applicable("int") /\
          \/ d.min.has /\ NumLt(SmallInt(d.min.v), Lowest(d))            \* bound outside the range of size/unsigned
          \/ d.max.has /\ NumLt(Highest(d), SmallInt(d.max.v))
          \/ d.unsigned /\ EffSize(d) = 64 /\ ~Uint64Support

---------------------------------------------------------------------------
(* strings: whitespace of the candidate alphabet is the blank *)
RECURSIVE LStrip(_)
LStrip(cs) == IF cs # <<>> /\ Head(cs) = " " THEN LStrip(Tail(cs)) ELSE cs
RECURSIVE RStrip(_)
RStrip(cs) == IF cs # <<>> /\ cs[Len(cs)] = " " THEN RStrip(SubSeq(cs, 1, Len(cs) - 1)) ELSE cs
Strip(cs) == RStrip(LStrip(cs))

(* which Python values have the declared type.  Numeric widening int -> float, int -> Decimal is part of
   the documented normalisation; everything else is a type error. *)
TypeOK(ty, v) == CASE ty = "int"   -> v.t = "int"
                   [] ty = "float" -> v.t \in {"float", "int"}
                   [] ty = "dec"   -> v.t \in {"dec", "int"}
                   [] ty = "str"   -> v.t = "str"
                   [] ty = "bool"  -> v.t = "bool"

(* the value the attribute holds once v (of the right type) is accepted; v itself when the type is wrong *)
Normalised(d, v) ==
    IF v.t = "none" THEN v
    ELSE CASE d.type = "float" /\ v.t = "int" -> FloatH(2 * v.o)          \* only small ints are offered
           [] d.type = "dec" /\ v.t = "int"   -> DecV(v.o, 0)
           [] d.type = "str" /\ v.t = "str"   -> IF d.strip = "false" THEN v ELSE StrV(Strip(v.s))
           [] OTHER                           -> v

(* numeric comparison of a normalised value with an integer bound b *)
Below(n, b) == CASE n.t = "int"   -> NumLt(n, SmallInt(b))
                 [] n.t = "float" -> n.h < 2 * b
                 [] n.t = "dec"   -> n.u < b * Pow10(n.s)
Above(n, b) == CASE n.t = "int"   -> NumLt(SmallInt(b), n)
                 [] n.t = "float" -> n.h > 2 * b
                 [] n.t = "dec"   -> n.u > b * Pow10(n.s)

(* the fixed py_check predicate: numbers must differ from 1, strings from "b", booleans must be True *)
Check(n) == CASE n.t = "int"   -> n # SmallInt(1)
              [] n.t = "float" -> n.h # 2
              [] n.t = "dec"   -> n.u # Pow10(n.s)
              [] n.t = "str"   -> n.s # <<"b">>
              [] n.t = "bool"  -> n.b

(* None stands for "no value": allowed for optional attributes that are nullable.  Optional attributes of
   a non-string type are always nullable; optional strings use '' for "absent" unless nullable=True. *)
NullOK(d) == \/ d.kind = "Optional" /\ (d.type # "str" \/ d.nullable = "true")
             \/ d.kind # "Optional" /\ d.supplied # "absent"     \* the database supplies the value

Violated(d, v) ==
    IF v.t = "none" THEN (IF NullOK(d) THEN {} ELSE IF d.kind = "Optional" THEN {"nullable"} ELSE {"required"})
    ELSE IF ~TypeOK(d.type, v) THEN {"type"}
    ELSE LET n == Normalised(d, v) IN
         (IF d.min.has /\ n.t \in {"int", "float", "dec"} /\ Below(n, d.min.v) THEN {"min"} ELSE {}) \cup
         (IF d.max.has /\ n.t \in {"int", "float", "dec"} /\ Above(n, d.max.v) THEN {"max"} ELSE {}) \cup
         (IF d.type = "int" /\ (NumLt(n, Lowest(d)) \/ NumLt(Highest(d), n)) THEN {"size"} ELSE {}) \cup
         (IF d.type = "str" /\ d.maxlen # 0 /\ Len(n.s) > d.maxlen THEN {"max_len"} ELSE {}) \cup
         (IF d.kind # "Optional" /\ n = StrV(<<>>) THEN {"required"} ELSE {}) \cup    \* '' is "no value"
         (IF d.check /\ ~Check(n) THEN {"check"} ELSE {})

Accepts(d, v) == Violated(d, v) = {}

(* the same declaration without value constraints: used for the law Monotone and to tell which cases are
   decided by a declared option *)
Plain(d) == WithSupplied(Decl(d.kind, d.type, d.nullable, NoB, NoB, 64, FALSE, 0, FALSE, d.strip), d.supplied)
PlainAccepts(d, v) == IF d.type = "int" THEN Violated(Plain(d), v) \subseteq {"size"} ELSE Accepts(Plain(d), v)

---------------------------------------------------------------------------
(* the declaration space *)
IntDecls   == { Decl(k, "int", nl, mn, mx, sz, us, 0, ck, "absent") :
                  k \in Kinds, nl \in Tri, mn \in Bounds, mx \in Bounds, sz \in Sizes, us \in BOOLEAN, ck \in BOOLEAN }
FloatDecls == { Decl(k, "float", nl, mn, mx, 0, FALSE, 0, ck, "absent") :
                  k \in Kinds, nl \in Tri, mn \in Bounds, mx \in Bounds, ck \in BOOLEAN }
DecDecls   == { Decl(k, "dec", nl, mn, mx, 0, FALSE, 0, ck, "absent") :
                  k \in Kinds, nl \in Tri, mn \in Bounds, mx \in Bounds, ck \in BOOLEAN }
StrDecls   == { Decl(k, "str", nl, NoB, NoB, 0, FALSE, ml, ck, st) :
                  k \in Kinds, nl \in Tri, ml \in MaxLens, ck \in BOOLEAN, st \in Tri }
BoolDecls  == { Decl(k, "bool", nl, NoB, NoB, 0, FALSE, 0, ck, "absent") : k \in Kinds, nl \in Tri, ck \in BOOLEAN }
(* an option given to a type that does not define it *)
Misapplied == { Decl("Required", "str", "absent", Bd(0), NoB, 0, FALSE, 0, FALSE, "absent"),
                Decl("Required", "str", "absent", NoB, Bd(2), 0, FALSE, 3, FALSE, "absent"),
                Decl("Required", "str", "absent", NoB, NoB, 8, FALSE, 0, FALSE, "absent"),
                Decl("Optional", "str", "absent", NoB, NoB, 0, TRUE, 0, FALSE, "absent"),
                Decl("Required", "int", "absent", NoB, NoB, 0, FALSE, 3, FALSE, "absent"),
                Decl("Required", "int", "absent", NoB, NoB, 0, FALSE, 0, FALSE, "false"),
                Decl("Required", "float", "absent", NoB, NoB, 8, FALSE, 0, FALSE, "absent"),
                Decl("Optional", "float", "absent", NoB, NoB, 0, TRUE, 0, FALSE, "absent"),
                Decl("Required", "float", "absent", NoB, NoB, 0, FALSE, 3, FALSE, "absent"),
                Decl("Required", "dec", "absent", NoB, NoB, 16, FALSE, 0, FALSE, "absent"),
                Decl("Required", "dec", "absent", NoB, NoB, 0, FALSE, 0, FALSE, "true"),
                Decl("Required", "bool", "absent", Bd(0), NoB, 0, FALSE, 0, FALSE, "absent"),
                Decl("Optional", "bool", "absent", NoB, NoB, 0, FALSE, 1, FALSE, "absent"),
                Decl("Required", "bool", "absent", NoB, NoB, 0, TRUE, 0, FALSE, "absent") }

(* declarations whose value is supplied by the database: every string declaration, and for the other types
   every kind/nullable/py_check combination without value options *)
NoValueOpts(d) == ~d.min.has /\ ~d.max.has /\ d.size = 0 /\ ~d.unsigned
SuppliedDecls == { WithSupplied(d, sp) : d \in StrDecls \cup { x \in IntDecls \cup FloatDecls \cup DecDecls \cup BoolDecls : NoValueOpts(x) },
                                        sp \in Supplies }

AllDecls == IntDecls \cup FloatDecls \cup DecDecls \cup StrDecls \cup BoolDecls \cup Misapplied \cup SuppliedDecls

(* quick tier: every combination of the value options with the plain kind, and every kind/nullable/py_check
   combination with a reduced set of value options *)
PlainKind(d) == d.kind = "Required" /\ d.nullable = "absent" /\ ~d.check
QuickDecls ==
    { d \in IntDecls : PlainKind(d) \/ (d.size \in {0, 8} /\ d.min \in {NoB, Bd(0)} /\ d.max \in {NoB, Bd(2)}) } \cup
    { d \in FloatDecls \cup DecDecls : PlainKind(d) \/ (d.min \in {NoB, Bd(0)} /\ d.max \in {NoB, Bd(0)}) } \cup
    StrDecls \cup BoolDecls \cup Misapplied \cup
    { d \in SuppliedDecls : (d.type = "str" /\ d.maxlen = 0) \/ (d.nullable = "absent" /\ ~d.check) }

DeclsOf(tier) == IF tier = "quick" THEN QuickDecls ELSE AllDecls

---------------------------------------------------------------------------
(* candidate values: around and across every bound of the declaration, None, '', wrong types *)
SizeEdges(d) == LET lo == Lowest(d)  hi == Highest(d) IN
                { IntV(lo.e, lo.o + k) : k \in {-1, 0, 1} } \cup { IntV(hi.e, hi.o + k) : k \in {-1, 0, 1} }

Blank == " "
StrCands == { StrV(<<>>), StrV(<<Blank>>), StrV(<<"a">>), StrV(<<"b">>), StrV(<<Blank, "b", Blank>>),
              StrV(<<"a", "b">>), StrV(<<Blank, "a">>), StrV(<<"a", "b", "c">>), StrV(<<"a", "b", "c", "d">>),
              StrV(<<Blank, "a", "b", "c">>), StrV(<<"a", "b", "c", Blank>>), StrV(<<"a", Blank, "c", "d">>) }
WrongForNumber == { StrV(<<"x">>), StrV(<<>>) }

Cands(d) ==
    {NoneV} \cup
    CASE d.type = "int"   -> { SmallInt(k) : k \in -3 .. 3 } \cup SizeEdges(d) \cup WrongForNumber \cup {FloatH(3)}
      [] d.type = "float" -> { FloatH(h) : h \in -6 .. 6 } \cup { SmallInt(k) : k \in {-3, -2, 0, 1, 2, 3} } \cup WrongForNumber
      [] d.type = "dec"   -> { DecV(u, 2) : u \in {-201, -200, -199, -1, 0, 1, 99, 100, 101, 199, 200, 201} } \cup
                             { SmallInt(k) : k \in -3 .. 3 } \cup WrongForNumber
      [] d.type = "str"   -> StrCands \cup {SmallInt(5)}
      [] d.type = "bool"  -> { BoolV(TRUE), BoolV(FALSE) } \cup { StrV(<<"x">>), StrV(<<>>) }

(* thorough tier: int attributes are additionally offered the edges of every other size and signedness *)
AllEdges == UNION { SizeEdges(Decl("Required", "int", "absent", NoB, NoB, sz, us, 0, FALSE, "absent")) :
                      sz \in Sizes, us \in BOOLEAN }
WideCands(d) == Cands(d) \cup (IF d.type = "int" THEN AllEdges ELSE {})
CandsOf(tier, d) == IF tier = "quick" THEN Cands(d) ELSE WideCands(d)

---------------------------------------------------------------------------
(* laws of the specification itself (checked by TLC in ValidateTables on the exported space) *)

(* accepted values stay accepted after normalisation, and normalising twice changes nothing *)
NormalisedIsFixpoint(D, C(_)) ==
    \A d \in D : DefRejected(d) \/ \A v \in C(d) :
        Accepts(d, v) => LET n == Normalised(d, v) IN Accepts(d, n) /\ Normalised(d, n) = n

(* declaring a value option never makes a value acceptable that the option-free declaration refuses *)
Monotone(D, C(_)) ==
    \A d \in D : DefRejected(d) \/ \A v \in C(d) : Accepts(d, v) => PlainAccepts(d, v)

(* a declaration that is not rejected has consistent integer bounds: its declared min/max lie within size *)
BoundsWithinSize(D) ==
    \A d \in D : (d.type = "int" /\ ~DefRejected(d)) =>
        /\ d.min.has => NumLe(Lowest(d), SmallInt(d.min.v))
        /\ d.max.has => NumLe(SmallInt(d.max.v), Highest(d))

(* the symbolic order is a strict total order on the numbers that occur *)
NumOrderLaw(N) ==
    /\ \A a \in N, b \in N : (NumLt(a, b) \/ NumLt(b, a) \/ a = b) /\ ~(NumLt(a, b) /\ NumLt(b, a))
    /\ \A a \in N, b \in N, c \in N : (NumLt(a, b) /\ NumLt(b, c)) => NumLt(a, c)
    /\ \A a \in N, b \in N : NumLe(a, b) <=> (NumLt(a, b) \/ a = b)

---------------------------------------------------------------------------
(***************************************************************************)
(* PART II (C07) - codec: what a stored value must read back as.           *)
(*                                                                         *)
(* An attribute type is CT(ty, a, b):                                      *)
(*   "int"  a = size (0: absent = 32), b = 1 iff unsigned                  *)
(*   "bool" "date" "uuid" "bytes" "json" "intarray" "strarray"   a = b = 0 *)
(*   "time" "datetime" "timedelta"   a = declared precision 0..6           *)
(*   "dec"  a = precision, b = scale                                       *)
(*   "str"  a = 1 iff autostrip, b = 1 for LongStr                         *)
(* Further value shapes (all built from small integers):                   *)
(*   [t |-> "date", y, m, d]   [t |-> "time", h, mi, s, us]                *)
(*   [t |-> "datetime", y, m, d, h, mi, s, us]                             *)
(*   [t |-> "timedelta", d, s, us]  CPython's normal form: 0 <= s < 86400, *)
(*                                  0 <= us < 10^6, |d| <= 999999999       *)
(*   [t |-> "bigdec", neg, ds, s]   the Decimal (-1)^neg * ds * 10^-s, ds a *)
(*                                  sequence of decimal digits             *)
(*   [t |-> "uuid", w]              eight 16-bit limbs, most significant first *)
(*   [t |-> "bytes", b]             a sequence of 0..255                   *)
(*   Json: [t |-> "jnull"] [t |-> "jbool", b] [t |-> "jint", n] (n an "int") *)
(*         [t |-> "jstr", s] [t |-> "jlist", items] [t |-> "jdict", pairs] *)
(*         (pairs: sequence of <<key chars, value>> with distinct keys)    *)
(*   [t |-> "intarr", items] (sequence of "int" values)                    *)
(*   [t |-> "strarr", items] (sequence of char sequences)                  *)
(* Characters are one-element atoms; "E9" stands for U+00E9 (TLC's Json    *)
(* module is not Unicode-clean) and "DQ" for the double quote.             *)
(*                                                                         *)
(* Norm(T, v) is the documented normalisation applied when v is assigned:  *)
(* microseconds are truncated to the declared precision (time, datetime,   *)
(* timedelta - on CPython's normal form), strings are stripped when        *)
(* autostrip is on, Decimals are quantised to the declared scale with the  *)
(* default rounding of Python's decimal context (half even - an            *)
(* environment model, compared with CPython by the harness on every run).  *)
(* Everything else is stored as it is.  C07: the value seen by the writing *)
(* session after flush = Norm(T, v) = the value read by a fresh session =  *)
(* the value returned by a query projecting the attribute, and Norm(T, v)  *)
(* used as a query parameter matches the stored row.                       *)
(* Floats and float arrays are outside this domain (binary floating point).*)
(***************************************************************************)
CT(ty, a, b) == [ty |-> ty, a |-> a, b |-> b]

LoOf(sz, us) == IF us = 1 THEN SmallInt(0) ELSE IntV(-((IF sz = 0 THEN 32 ELSE sz) - 1), 0)
HiOf(sz, us) == IF us = 1 THEN IntV(IF sz = 0 THEN 32 ELSE sz, -1) ELSE IntV((IF sz = 0 THEN 32 ELSE sz) - 1, -1)

DateV(y, m, d) == [t |-> "date", y |-> y, m |-> m, d |-> d]
TimeV(h, mi, sec, us) == [t |-> "time", h |-> h, mi |-> mi, s |-> sec, us |-> us]
DateTimeV(dt, tm) == [t |-> "datetime", y |-> dt.y, m |-> dt.m, d |-> dt.d, h |-> tm.h, mi |-> tm.mi, s |-> tm.s, us |-> tm.us]
DeltaV(d, sec, us) == [t |-> "timedelta", d |-> d, s |-> sec, us |-> us]
BigDec(neg, ds, sc) == [t |-> "bigdec", neg |-> neg, ds |-> ds, s |-> sc]
UuidV(w) == [t |-> "uuid", w |-> w]
BytesV(b) == [t |-> "bytes", b |-> b]
JNull == [t |-> "jnull"]
JBool(x) == [t |-> "jbool", b |-> x]
JInt(n) == [t |-> "jint", n |-> n]
JStr(cs) == [t |-> "jstr", s |-> cs]
JList(xs) == [t |-> "jlist", items |-> xs]
JDict(ps) == [t |-> "jdict", pairs |-> ps]
IntArr(xs) == [t |-> "intarr", items |-> xs]
StrArr(xs) == [t |-> "strarr", items |-> xs]

(* calendar (environment model, compared with datetime.date by the harness) *)
Leap(y) == (y % 4 = 0 /\ y % 100 # 0) \/ y % 400 = 0
DaysIn(y, m) == IF m \in {4, 6, 9, 11} THEN 30 ELSE IF m = 2 THEN (IF Leap(y) THEN 29 ELSE 28) ELSE 31
ValidDate(v) == v.y \in 1 .. 9999 /\ v.m \in 1 .. 12 /\ v.d \in 1 .. DaysIn(v.y, v.m)
ValidTime(v) == v.h \in 0 .. 23 /\ v.mi \in 0 .. 59 /\ v.s \in 0 .. 59 /\ v.us \in 0 .. 999999
ValidDelta(v) == v.d \in -999999999 .. 999999999 /\ v.s \in 0 .. 86399 /\ v.us \in 0 .. 999999

Trunc(us, p) == LET q == Pow10(6 - p) IN (us \div q) * q

(* Decimal quantisation to scale S, rounding half to even, on digit sequences *)
Zeros(n) == [i \in 1 .. n |-> 0]
Nines(n) == [i \in 1 .. n |-> 9]
Ramp(n)  == [i \in 1 .. n |-> i % 10]
RECURSIVE IncrDigits(_)
IncrDigits(ds) == IF ds = <<>> THEN <<1>>
                  ELSE IF ds[Len(ds)] < 9 THEN [ds EXCEPT ![Len(ds)] = @ + 1]
                  ELSE IncrDigits(SubSeq(ds, 1, Len(ds) - 1)) \o <<0>>
Quantize(v, S) ==
    IF v.s <= S THEN BigDec(v.neg, v.ds \o Zeros(S - v.s), S)
    ELSE LET k    == v.s - S
             n    == Len(v.ds)
             pad  == IF n <= k THEN Zeros(k - n + 1) \o v.ds ELSE v.ds     \* at least one kept digit
             m    == Len(pad)
             kept == SubSeq(pad, 1, m - k)
             drop == SubSeq(pad, m - k + 1, m)
             rest == \E i \in 2 .. k : drop[i] # 0
             up   == drop[1] > 5 \/ (drop[1] = 5 /\ (rest \/ kept[Len(kept)] % 2 = 1))
         IN BigDec(v.neg, IF up THEN IncrDigits(kept) ELSE kept, S)

Norm(T, v) ==
    IF v.t = "none" THEN v
    ELSE CASE T.ty \in {"time", "datetime", "timedelta"} -> [v EXCEPT !.us = Trunc(v.us, T.a)]
           [] T.ty = "str" -> IF T.a = 1 THEN StrV(Strip(v.s)) ELSE v
           [] T.ty = "dec" -> Quantize(v, T.b)
           [] OTHER -> v

---------------------------------------------------------------------------
(* value domains; tier "quick" is a subset of tier "thorough" *)
Thorough(tier) == tier # "quick"
SeqsUpTo(A, n) == UNION { [1 .. k -> A] : k \in 0 .. n }

IntTypes == { CT("int", sz, 0) : sz \in Sizes } \cup { CT("int", sz, 1) : sz \in Sizes \ {64} }
IntVals(T) == LET lo == LoOf(T.a, T.b)  hi == HiOf(T.a, T.b) IN
              { lo, IntV(lo.e, lo.o + 1), SmallInt(0), SmallInt(1), IntV(hi.e, hi.o - 1), hi } \cup
              (IF T.b = 0 THEN {SmallInt(-1)} ELSE {})

Years(tier) == {1, 999, 1000, 1970, 2000, 9999} \cup
               (IF Thorough(tier) THEN {2, 99, 100, 1582, 1899, 1900, 2024, 2038, 2100} ELSE {})
MonthDays == {<<1, 1>>, <<2, 28>>, <<2, 29>>, <<3, 1>>, <<6, 15>>, <<12, 31>>}
Dates(tier) == { v \in { DateV(y, md[1], md[2]) : y \in Years(tier), md \in MonthDays } : ValidDate(v) }

Clock == {<<0, 0, 0>>, <<1, 2, 3>>, <<12, 0, 0>>, <<23, 59, 59>>}
Micros(tier) == {0, 1, 123456, 500000, 999999} \cup
                (IF Thorough(tier) THEN {9, 10, 99, 100, 999, 1000, 9999, 10000, 99999, 100000, 499999, 999000, 999990} ELSE {})
Precs(tier) == IF Thorough(tier) THEN 0 .. 6 ELSE {0, 3, 6}
Times(tier) == { TimeV(c[1], c[2], c[3], us) : c \in Clock, us \in Micros(tier) }

DTDates == { DateV(1, 1, 1), DateV(999, 12, 31), DateV(1970, 1, 1), DateV(2000, 2, 29), DateV(2038, 1, 19), DateV(9999, 12, 31) }
DateTimes(tier) == { DateTimeV(dt, tm) : dt \in DTDates, tm \in { x \in Times(tier) : Thorough(tier) \/ x.h \in {0, 23} } }

DeltaDays(tier) == {-999999999, -1, 0, 1, 100000, 999999, 999999999} \cup
                   (IF Thorough(tier) THEN {-100000, 104249, 104250, 10000000} ELSE {})
Deltas(tier) == { DeltaV(d, sec, us) : d \in DeltaDays(tier), sec \in {0, 1, 86399}, us \in Micros(tier) }

DecTypes(tier) == { CT("dec", 12, 2), CT("dec", 4, 1), CT("dec", 20, 2) } \cup
                  (IF Thorough(tier) THEN { CT("dec", 15, 6), CT("dec", 16, 6), CT("dec", 20, 19), CT("dec", 38, 10) } ELSE {})
IntParts(n, tier) == { <<0>> } \cup (IF n >= 1 THEN { Nines(n), Ramp(n) } ELSE {}) \cup
                     (IF n >= 1 /\ Thorough(tier) THEN { <<1>>, <<1>> \o Zeros(n - 1) } ELSE {})
Tails(tier) == { <<4>>, <<5>>, <<6>>, <<4, 9>>, <<5, 0>>, <<5, 1>> } \cup
               (IF Thorough(tier) THEN { <<5, 0, 0, 1>>, <<4, 9, 9, 9>>, <<0>>, <<9>> } ELSE {})
FracParts(S, tier) ==
    { Zeros(S), Nines(S), Zeros(S - 1) \o <<1>>, Ramp(S), <<>>, Zeros(S - 1) } \cup
    { base \o tail : base \in { Zeros(S - 1) \o <<2>>, Zeros(S - 1) \o <<3>>, Nines(S) }, tail \in Tails(tier) }
DecVals(T, tier) == { BigDec(neg, ip \o fp, Len(fp)) : neg \in BOOLEAN, ip \in IntParts(T.a - T.b, tier), fp \in FracParts(T.b, tier) }

Limb == {0, 1, 32768, 65535}
Uuids == { UuidV([i \in 1 .. 8 |-> x]) : x \in Limb } \cup
         { UuidV([i \in 1 .. 8 |-> IF i = k THEN 1 ELSE 0]) : k \in {1, 8} } \cup
         { UuidV([i \in 1 .. 8 |-> IF i % 2 = 0 THEN 65535 ELSE 0]), UuidV(<<4660, 22136, 39612, 57072, 17767, 9158, 39017, 18547>>) }

(* the C06 alphabet  ' \ % _ ! a e-acute  plus the blank (so that autostrip matters) *)
Alphabet == {"'", "\\", "%", "_", "!", "a", "E9", " "}
StrTypes == { CT("str", 1, 0), CT("str", 0, 0), CT("str", 1, 1) }
StrVals(T, tier) == { StrV(cs) : cs \in SeqsUpTo(Alphabet, IF ~Thorough(tier) THEN 2 ELSE IF T = CT("str", 1, 0) THEN 4 ELSE 3) }

ByteAlphabet(tier) == {0, 39, 92, 128, 255} \cup (IF Thorough(tier) THEN {1, 127} ELSE {})
BytesVals(tier) == { BytesV(b) : b \in SeqsUpTo(ByteAlphabet(tier), IF Thorough(tier) THEN 3 ELSE 2) }

JStrs == { <<>>, <<"a">>, <<"'">>, <<"E9">>, <<"\\">>, <<"DQ">>, <<"%">>, <<"E9", "'">>, <<"n", "u", "l", "l">>, <<"1">> }
JInts == { SmallInt(0), SmallInt(-1), SmallInt(1), IntV(31, 0), IntV(53, 1), IntV(63, -1), IntV(63, 0), IntV(-63, 0), IntV(-63, -1), IntV(64, 0) }
JAtoms == { JNull, JBool(TRUE), JBool(FALSE) } \cup { JInt(n) : n \in JInts } \cup { JStr(cs) : cs \in JStrs }
JInner(tier) == { JNull, JInt(IntV(63, 0)), JStr(<<"E9", "'">>) } \cup
                (IF Thorough(tier) THEN { JBool(TRUE), JInt(SmallInt(0)), JStr(<<"DQ">>) } ELSE {})
KeySeq == << <<>>, <<"a">>, <<"E9">>, <<"'">> >>
JLists(A) == { JList(xs) : xs \in SeqsUpTo(A, 2) }
JDicts(A) == { JDict(<<>>) } \cup { JDict(<< <<KeySeq[i], x>> >>) : i \in 1 .. 4, x \in A } \cup
             { JDict(<< <<KeySeq[ij[1]], x>>, <<KeySeq[ij[2]], y>> >>) : ij \in { p \in (1 .. 4) \X (1 .. 4) : p[1] < p[2] }, x \in A, y \in A }
JDepth1(tier) == JLists(JInner(tier)) \cup JDicts(JInner(tier))
JDepth2(tier) == { JList(<<c>>) : c \in JDepth1(tier) } \cup { JDict(<< <<KeySeq[2], c>> >>) : c \in JDepth1(tier) }
JsonVals(tier) == (JAtoms \ {JNull}) \cup JDepth1(tier) \cup JDepth2(tier)      \* a top-level None is "no value", not a Json value

ArrInts == { SmallInt(0), SmallInt(-1), IntV(-63, 0), IntV(63, -1), IntV(31, 0) }
ArrStrs == { <<>>, <<"a">>, <<"'">>, <<"E9">>, <<",">>, <<"DQ">>, <<" ", "a", " ">>, <<"\\">> }
IntArrVals(tier) == { IntArr(xs) : xs \in SeqsUpTo(ArrInts, IF Thorough(tier) THEN 3 ELSE 2) }
StrArrVals(tier) == { StrArr(xs) : xs \in SeqsUpTo(ArrStrs, IF Thorough(tier) THEN 3 ELSE 2) }

CTypes(tier) == IntTypes \cup { CT("bool", 0, 0), CT("date", 0, 0), CT("uuid", 0, 0), CT("bytes", 0, 0), CT("json", 0, 0),
                                CT("intarray", 0, 0), CT("strarray", 0, 0) } \cup
                { CT(ty, p, 0) : ty \in {"time", "datetime", "timedelta"}, p \in Precs(tier) } \cup DecTypes(tier) \cup StrTypes

(* optional attributes of these types are nullable: None is a storable value *)
NullableTy(ty) == ty \in {"int", "bool", "date", "time", "datetime", "timedelta", "dec", "uuid", "bytes"}

ValuesOf(T, tier) ==
    (IF NullableTy(T.ty) THEN {NoneV} ELSE {}) \cup
    CASE T.ty = "int"       -> IntVals(T)
      [] T.ty = "bool"      -> { BoolV(TRUE), BoolV(FALSE) }
      [] T.ty = "date"      -> Dates(tier)
      [] T.ty = "time"      -> Times(tier)
      [] T.ty = "datetime"  -> DateTimes(tier)
      [] T.ty = "timedelta" -> Deltas(tier)
      [] T.ty = "dec"       -> DecVals(T, tier)
      [] T.ty = "uuid"      -> Uuids
      [] T.ty = "str"       -> StrVals(T, tier)
      [] T.ty = "bytes"     -> BytesVals(tier)
      [] T.ty = "json"      -> JsonVals(tier)
      [] T.ty = "intarray"  -> IntArrVals(tier)
      [] T.ty = "strarray"  -> StrArrVals(tier)

(* v is a well-formed value of type T *)
ValidFor(T, v) ==
    v.t = "none" \/
    CASE T.ty = "int"       -> v.t = "int" /\ NumLe(LoOf(T.a, T.b), v) /\ NumLe(v, HiOf(T.a, T.b))
      [] T.ty = "date"      -> ValidDate(v)
      [] T.ty = "time"      -> ValidTime(v)
      [] T.ty = "datetime"  -> ValidDate(v) /\ ValidTime(v)
      [] T.ty = "timedelta" -> ValidDelta(v)
      [] T.ty = "dec"       -> v.t = "bigdec" /\ \A i \in 1 .. Len(v.ds) : v.ds[i] \in 0 .. 9
      [] T.ty = "uuid"      -> Len(v.w) = 8 /\ \A i \in 1 .. 8 : v.w[i] \in 0 .. 65535
      [] T.ty = "bytes"     -> \A i \in 1 .. Len(v.b) : v.b[i] \in 0 .. 255
      [] OTHER              -> TRUE

(* the "zero" of a type: the only value counted as trivial in the evidence *)
ZeroOf(T) == CASE T.ty = "int" -> SmallInt(0) [] T.ty = "bool" -> BoolV(FALSE) [] T.ty = "time" -> TimeV(0, 0, 0, 0)
               [] T.ty = "timedelta" -> DeltaV(0, 0, 0) [] T.ty = "str" -> StrV(<<>>) [] T.ty = "bytes" -> BytesV(<<>>)
               [] T.ty = "json" -> JDict(<<>>) [] T.ty = "intarray" -> IntArr(<<>>) [] T.ty = "strarray" -> StrArr(<<>>)
               [] T.ty = "uuid" -> UuidV(Zeros(8)) [] OTHER -> NoneV
NonTrivial(T, v) == v.t # "none" /\ (Norm(T, v) # v \/ v # ZeroOf(T))

(* laws of Part II, checked by TLC on the exported space (CodecTables) *)
NormIdempotent(tier) == \A T \in CTypes(tier) : \A v \in ValuesOf(T, tier) : Norm(T, Norm(T, v)) = Norm(T, v)
NormStaysValid(tier) == \A T \in CTypes(tier) : \A v \in ValuesOf(T, tier) : ValidFor(T, v) /\ ValidFor(T, Norm(T, v))
QuantizeHasScale(tier) == \A T \in DecTypes(tier) : \A v \in DecVals(T, tier) : Norm(T, v).s = T.b
(* truncation never increases a value and loses less than one unit of the declared precision *)
TruncBound(tier) == \A p \in 0 .. 6 : \A us \in Micros(tier) :
                       LET r == Trunc(us, p) IN r <= us /\ us - r < Pow10(6 - p) /\ r % Pow10(6 - p) = 0

=============================================================================
