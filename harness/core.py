"""Check context: verdicts, known findings, evidence."""
import json
import os
import sys
import time

ROOT = os.path.dirname(os.path.dirname(os.path.abspath(__file__)))
# VERIF_TRIAL_DIR: trial runs against seeded changes (tools/try_seed.py) must not overwrite the real evidence
_trial = os.environ.get('VERIF_TRIAL_DIR')
EVIDENCE_DIR = os.path.join(_trial, 'evidence') if _trial else os.path.join(ROOT, 'evidence')
OUT_DIR = os.path.join(_trial, 'out') if _trial else os.path.join(ROOT, 'out')
FINDINGS_FILE = os.path.join(ROOT, 'known_findings.json')

sys.dont_write_bytecode = True
REPO = os.environ.get('VERIF_REPO') or '/repo'    # VERIF_REPO: a scratch worktree when testing seeded changes
if REPO not in sys.path:
    sys.path.insert(0, REPO)

from .tlc import Scratch, MachineryError  # noqa: E402


def load_findings():
    with open(FINDINGS_FILE) as f:
        return json.load(f)['findings']


class Ctx:
    """One run of one property's check."""

    def __init__(self, prop, tier, seed, level):
        self.prop = prop
        self.tier = tier
        self.seed = seed
        self.level = level
        self.t0 = time.time()
        self.scratch = Scratch()
        self.known = {f['signature']: f for f in load_findings()
                      if f['property'] == prop and f.get('status') == 'known'}
        self.known_hit = {}
        self.violations = []
        self.coverage = {}
        self.assumptions = []
        self.samples = []
        self.max_violations = 5

    # -- verdicts -------------------------------------------------------------------------------
    def mismatch(self, signature, what, replay):
        """Report a disagreement between pony and the specification.

        signature: normal form naming the defect; if listed as known in known_findings.json the run
        prints KNOWN-FINDING (once per signature) and continues; otherwise it is a VIOLATION."""
        if signature in self.known:
            if signature not in self.known_hit:
                self.known_hit[signature] = 0
                print('KNOWN-FINDING: property=%s %s [%s]' % (self.prop, self.known[signature]['what'], signature))
            self.known_hit[signature] += 1
            return False
        n = len(self.violations)
        if n < self.max_violations:
            os.makedirs(OUT_DIR, exist_ok=True)
            path = os.path.join(OUT_DIR, '%s-violation-%d.json' % (self.prop, n))
            with open(path, 'w') as f:
                json.dump({'property': self.prop, 'signature': signature, 'what': what, 'replay': replay,
                           'tier': self.tier, 'seed': self.seed}, f, indent=1, default=repr)
            print('VIOLATION property=%s replay=%s' % (self.prop, path))
            print('  signature: %s' % signature)
            print('  what: %s' % (what if len(str(what)) < 1500 else str(what)[:1500] + '...'))
        self.violations.append(signature)
        return True

    def sample(self, s, limit=5):
        if len(self.samples) < limit:
            self.samples.append(s)

    # -- evidence -------------------------------------------------------------------------------
    def finish(self):
        cov = dict(self.coverage)
        cov.setdefault('samples', self.samples or ['(none recorded)'])
        if self.known_hit:
            cov['known_findings_hit'] = self.known_hit
        ev = {
            'property_id': self.prop, 'tier': self.tier, 'seed': self.seed, 'level': self.level,
            'coverage': cov, 'assumptions': self.assumptions,
            'wall_s': round(time.time() - self.t0, 2), 'violations': len(self.violations),
        }
        os.makedirs(EVIDENCE_DIR, exist_ok=True)
        with open(os.path.join(EVIDENCE_DIR, '%s.json' % self.prop), 'w') as f:
            json.dump(ev, f, indent=1, default=repr, sort_keys=True)
            f.write('\n')
        self.scratch.close()
        if self.violations:
            print('%s: %d violation(s) [%s]' % (self.prop, len(self.violations), self.tier))
            return 1
        print('%s: ok [%s] %s' % (self.prop, self.tier, _brief(cov)))
        return 0


def _brief(cov):
    keys = ['states', 'transitions', 'traces_validated_against_impl', 'evaluations', 'distinct_nontrivial',
            'programs', 'disagreements_checked']
    return ' '.join('%s=%s' % (k, cov[k]) for k in keys if k in cov)
