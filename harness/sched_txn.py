"""Deterministic thread scheduler for the PonyTxn trace runs: worker threads execute between scheduling points,
exactly one runs at a time, the controller chooses who runs next (policy), so the emission order of events is a
total order.  Blocking is never waited for: a worker that needs a held lock registers a wait predicate and is
not runnable until it holds; if nobody is runnable while workers are unfinished, the run is reported as stuck.
"""
import threading


class Stuck(Exception):
    pass


class _Worker:
    def __init__(self, wid, fn):
        self.wid = wid
        self.fn = fn
        self.go = threading.Semaphore(0)
        self.done = False
        self.wait = None
        self.error = None
        self.thread = None


class Sched:
    def __init__(self, policy=None, max_steps=100000):
        self.workers = {}
        self.back = threading.Semaphore(0)
        self.policy = policy or (lambda runnable, step, last: runnable[0])
        self.local = threading.local()
        self.steps = 0
        self.max_steps = max_steps
        self.choices = []          # the schedule that was actually executed (worker id per step)
        self.stuck = None
        self.hint = None           # set by the lock wrapper when the transaction lock has just been released

    def spawn(self, wid, fn):
        w = _Worker(wid, fn)
        self.workers[wid] = w

        def body():
            self.local.worker = w
            w.go.acquire()
            try:
                fn()
            except BaseException as e:      # noqa: reported by the driver
                w.error = e
            finally:
                w.done = True
                self.back.release()
        w.thread = threading.Thread(target=body, daemon=True)
        w.thread.start()
        return w

    # -- worker side ----------------------------------------------------------------------------------------
    def point(self, wait=None):
        w = getattr(self.local, 'worker', None)
        if w is None:
            return
        w.wait = wait
        self.back.release()
        w.go.acquire()
        w.wait = None

    # -- controller -----------------------------------------------------------------------------------------
    def run(self, timeout=20):
        last = None
        while True:
            live = [w for w in self.workers.values() if not w.done]
            if not live:
                return
            runnable = sorted(w.wid for w in live if w.wait is None or w.wait())
            if not runnable:
                self.stuck = sorted(w.wid for w in live)
                raise Stuck('workers %r wait for a lock nobody will release' % self.stuck)
            self.steps += 1
            if self.steps > self.max_steps:
                raise Stuck('step limit')
            wid = self.policy(runnable, self.steps, last)
            if wid not in runnable:
                wid = runnable[0]
            self.choices.append(wid)
            last = wid
            self.workers[wid].go.release()
            if not self.back.acquire(timeout=timeout):
                raise Stuck('worker %r did not reach a scheduling point within %ss' % (wid, timeout))


# -- policies ---------------------------------------------------------------------------------------------------
def sequential():
    return lambda runnable, step, last: runnable[0]


def stay_then_switch(switch_points):
    """Run the current worker; at the given global step numbers switch to the next runnable worker (bounded
    preemption): switch_points is a dict step -> worker id (or a set of steps: rotate)."""
    def pol(runnable, step, last):
        if isinstance(switch_points, dict) and step in switch_points:
            return switch_points[step] if switch_points[step] in runnable else runnable[0]
        if not isinstance(switch_points, dict) and step in switch_points and last in runnable and len(runnable) > 1:
            i = runnable.index(last)
            return runnable[(i + 1) % len(runnable)]
        if last in runnable:
            return last
        return runnable[0]
    return pol


def switch_on_release(sched_ref):
    """Run the current worker, but right after it released the transaction lock let another runnable worker go first
    (the window between release_lock() and the rest of the releasing thread's clean-up)."""
    def pol(runnable, step, last):
        s = sched_ref[0]
        if s is not None and s.hint == 'released':
            s.hint = None
            others = [w for w in runnable if w != last]
            if others:
                return others[0]
        if last in runnable:
            return last
        return runnable[0]
    return pol


def seeded(rng):
    return lambda runnable, step, last: runnable[rng.randrange(len(runnable))]
