"""Parser for TLC's textual value syntax (states in -simulate files, dot dumps, PrintT output).

Records  [a |-> 1, b |-> "x"]       -> dict
Functions (k :> v @@ k2 :> v2)      -> dict (keys kept as parsed values; tuples for sequences)
Sequences <<1, 2>>                  -> tuple
Sets      {1, 2}                    -> frozenset
Strings   "abc"                     -> str
Integers  -3                        -> int
TRUE/FALSE                          -> bool
Model values / identifiers          -> Sym(name)
"""
import re


class Sym(str):
    def __repr__(self):
        return 'Sym(%s)' % str.__repr__(self)


_tok = re.compile(r'''\s*(?:
    (?P<str>"(?:[^"\\]|\\.)*") |
    (?P<int>-?\d+) |
    (?P<op>\|->|:>|@@|<<|>>|\[|\]|\(|\)|\{|\}|,|\.\.) |
    (?P<id>[A-Za-z_][A-Za-z0-9_!]*)
)''', re.X)


def tokenize(s):
    pos = 0
    out = []
    n = len(s)
    while pos < n:
        m = _tok.match(s, pos)
        if not m:
            if s[pos:].strip() == '':
                break
            raise ValueError('cannot tokenize at %r' % s[pos:pos + 40])
        pos = m.end()
        kind = m.lastgroup
        out.append((kind, m.group(kind)))
    return out


def _unescape(s):
    return s[1:-1].replace('\\"', '"').replace('\\\\', '\\').replace('\\n', '\n').replace('\\t', '\t')


def _hashable(v):
    if isinstance(v, dict):
        return tuple(sorted((_hashable(k), _hashable(x)) for k, x in v.items()))
    if isinstance(v, (list, tuple)):
        return tuple(_hashable(x) for x in v)
    if isinstance(v, (set, frozenset)):
        return frozenset(_hashable(x) for x in v)
    return v


class _P:
    def __init__(self, toks):
        self.t = toks
        self.i = 0

    def peek(self):
        return self.t[self.i] if self.i < len(self.t) else (None, None)

    def eat(self, val=None):
        k, v = self.peek()
        if val is not None and v != val:
            raise ValueError('expected %r got %r at %d' % (val, v, self.i))
        self.i += 1
        return k, v

    def value(self):
        k, v = self.peek()
        if k == 'str':
            self.eat()
            return _unescape(v)
        if k == 'int':
            self.eat()
            n = int(v)
            if self.peek()[1] == '..':
                self.eat()
                hi = self.value()
                return frozenset(range(n, hi + 1))
            return n
        if k == 'id':
            self.eat()
            if v == 'TRUE':
                return True
            if v == 'FALSE':
                return False
            return Sym(v)
        if v == '<<':
            self.eat()
            items = []
            while self.peek()[1] != '>>':
                items.append(self.value())
                if self.peek()[1] == ',':
                    self.eat()
            self.eat('>>')
            return tuple(items)
        if v == '{':
            self.eat()
            items = []
            while self.peek()[1] != '}':
                items.append(self.value())
                if self.peek()[1] == ',':
                    self.eat()
            self.eat('}')
            return frozenset(_hashable(x) for x in items)
        if v == '[':
            self.eat()
            d = {}
            while self.peek()[1] != ']':
                _, name = self.eat()
                self.eat('|->')
                d[str(name)] = self.value()
                if self.peek()[1] == ',':
                    self.eat()
            self.eat(']')
            return d
        if v == '(':
            self.eat()
            d = {}
            while True:
                key = self.value()
                self.eat(':>')
                d[_hashable(key)] = self.value()
                if self.peek()[1] == '@@':
                    self.eat()
                    continue
                break
            self.eat(')')
            return d
        raise ValueError('unexpected token %r at %d' % (v, self.i))


def parse(s):
    p = _P(tokenize(s))
    v = p.value()
    if p.i != len(p.t):
        raise ValueError('trailing tokens after value: %r' % (p.t[p.i:p.i + 5],))
    return v


_memo = {}


def parse_cached(s):
    """parse() with memoisation on the text: states of one graph share most of their variable values."""
    v = _memo.get(s)
    if v is None:
        if len(_memo) > 500000:
            _memo.clear()
        v = _memo[s] = parse(s)
    return v


def parse_state(text):
    """Parse a conjunction '/\\ x = v\\n/\\ y = w' into {x: v, y: w}."""
    parts = re.split(r'(?:^|\n)\s*/\\ ', text.strip())
    out = {}
    for part in parts:
        part = part.strip()
        if not part:
            continue
        name, _, val = part.partition('=')
        out[name.strip()] = parse_cached(val.strip())
    return out


def to_plain(v):
    """Convert parsed values to JSON-friendly python (frozenset -> sorted list, tuple -> list)."""
    if isinstance(v, dict):
        return {(k if isinstance(k, str) else repr(to_plain(k)) if not isinstance(k, (int,)) else k): to_plain(x)
                for k, x in v.items()}
    if isinstance(v, (frozenset, set)):
        return sorted((to_plain(x) for x in v), key=repr)
    if isinstance(v, tuple):
        return [to_plain(x) for x in v]
    if isinstance(v, Sym):
        return str(v)
    return v
