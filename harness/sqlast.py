"""Pony SQL AST (nested python lists) -> JSON trees for spec/SqlSem.tla."""
from .tlc import MachineryError


def val(v):
    """Tagged value for SqlSem."""
    if v is None:
        return {'t': 'null'}
    if isinstance(v, bool):
        return {'t': 'bool', 'v': v}
    if isinstance(v, int):
        if abs(v) >= 2 ** 31:
            return {'t': 'big', 'v': str(v)}
        return {'t': 'int', 'v': v}
    if isinstance(v, str):
        return {'t': 'str', 'v': list(v)}
    raise MachineryError('value outside the SqlSem domain: %r' % (v,))


def unval(x):
    t = x['t']
    if t == 'null':
        return None
    if t == 'err':
        return 'ERROR'
    if t == 'str':
        return ''.join(x['v'])
    return x['v']


NONE = ['NONE']


def ser(ast, colname=lambda alias, name: name.lower()):
    """Serialise one expression node."""
    if ast is None:
        return NONE
    if not isinstance(ast, (list, tuple)):
        raise MachineryError('unexpected AST leaf %r' % (ast,))
    op = ast[0]
    if op == 'VALUE':
        return ['VALUE', val(ast[1])]
    if op == 'COLUMN':
        return ['COLUMN', colname(ast[1], ast[2])]
    if op == 'PARAM':
        key = ast[1]
        return ['PARAM', repr(key)]
    if op in ('MAX', 'MIN'):
        return [op, ['VALUE', val(bool(ast[1]))]] + [ser(x, colname) for x in ast[2:]]
    if op == 'CASE':
        subject, whens = ast[1], ast[2]
        default = ast[3] if len(ast) > 3 else None
        return ['CASE', ser(subject, colname), [[ser(c, colname), ser(t, colname)] for c, t in whens], ser(default, colname)]
    return [op] + [ser(x, colname) for x in ast[1:]]


def expand_string_slice(provider, ast):
    """Replace every ['STRING_SLICE', ...] node by the ['SUBSTR', ...] node the provider's real builder
    turns it into (obtained by running the real builder method and capturing its call to SUBSTR).
    SQLite's builder renders STRING_SLICE as the py_string_slice UDF: the node is left alone."""
    if not isinstance(ast, (list, tuple)) or not ast or not isinstance(ast[0], str):
        return ast
    children = [expand_string_slice(provider, x) if isinstance(x, (list, tuple)) else x for x in ast[1:]]
    node = [ast[0]] + children
    if ast[0] == 'CASE':
        node = ['CASE', children[0], [(expand_string_slice(provider, c), expand_string_slice(provider, t)) for c, t in ast[2]]] + \
               [expand_string_slice(provider, x) for x in ast[3:]]
    if ast[0] != 'STRING_SLICE' or provider.dialect == 'SQLite':
        return node
    builder_cls = provider.sqlbuilder_cls
    captured = []

    class Capture(builder_cls):
        def SUBSTR(builder, expr, start, len=None):
            captured.append(['SUBSTR', expr, start] + ([len] if len is not None else []))
            return builder_cls.SUBSTR(builder, expr, start, len)
    Capture(provider, node)
    if not captured:
        raise MachineryError('STRING_SLICE builder no longer goes through SUBSTR')
    return captured[0]
