"""Pony SQL AST (nested python lists) -> JSON trees for spec/SqlSem.tla."""
import datetime

from .tlc import MachineryError


def val(v):
    """Tagged value for SqlSem."""
    if v is None:
        return {'t': 'null'}
    if isinstance(v, bool):
        return {'t': 'bool', 'v': v}
    if isinstance(v, int):
        if abs(v) >= 2 ** 31:
            return {'t': 'big', 'v': str(v)}
        return {'t': 'int', 'v': v}
    if isinstance(v, str):
        return {'t': 'str', 'v': list(v)}
    if isinstance(v, datetime.timedelta):      # whole minutes only (C02's datetime arithmetic)
        if v % datetime.timedelta(minutes=1) == datetime.timedelta(0):
            return {'t': 'td', 'v': v // datetime.timedelta(minutes=1)}
    if isinstance(v, datetime.datetime):       # minutes since 2020-01-01 00:00
        d = v - datetime.datetime(2020, 1, 1)
        if d % datetime.timedelta(minutes=1) == datetime.timedelta(0):
            return {'t': 'dt', 'v': d // datetime.timedelta(minutes=1)}
    raise MachineryError('value outside the SqlSem domain: %r' % (v,))


def unval(x):
    t = x['t']
    if t == 'null':
        return None
    if t == 'err':
        return 'ERROR'
    if t == 'str':
        return ''.join(x['v'])
    if t == 'dt':
        return datetime.datetime(2020, 1, 1) + datetime.timedelta(minutes=x['v'])
    return x['v']


NONE = ['NONE']


def ser(ast, colname=lambda alias, name: name.lower(), params=None):
    """Serialise one expression node.

    colname(alias, name) gives the name a column is looked up by (a string: flat environment, or a pair
    [alias, name]: environment of row records per table alias, see ser_select).  params: None, or a mapping
    from Pony's variable keys to values - PARAM nodes are then replaced by the VALUE they stand for."""
    if ast is None:
        return NONE
    if not isinstance(ast, (list, tuple)):
        raise MachineryError('unexpected AST leaf %r' % (ast,))
    op = ast[0]
    if op == 'VALUE':
        return ['VALUE', val(ast[1])]
    if op == 'COLUMN':
        c = colname(ast[1], ast[2])
        return ['COLUMN'] + list(c) if isinstance(c, (list, tuple)) else ['COLUMN', c]
    if op == 'PARAM':
        key = ast[1]
        if params is not None:
            varkey, i, j = key
            if i is not None or j is not None or varkey not in params:
                raise Unsupported('composite parameter %r' % (key,))
            return ['VALUE', val(params[varkey])]
        return ['PARAM', repr(key)]
    if op in ('MAX', 'MIN', 'SUM', 'COUNT', 'AVG'):
        return [op, ['VALUE', val(bool(ast[1]))]] + [ser(x, colname, params) for x in ast[2:]]
    if op == 'CASE':
        subject, whens = ast[1], ast[2]
        default = ast[3] if len(ast) > 3 else None
        return ['CASE', ser(subject, colname, params), [[ser(c, colname, params), ser(t, colname, params)] for c, t in whens],
                ser(default, colname, params)]
    if op in ('IN', 'NOT_IN'):
        x = ast[2]
        if len(x) >= 1 and x[0] == 'SELECT':
            return [op, ser(ast[1], colname, params), ['SUBSELECT', ser_select(x, params)]]
        return [op, ser(ast[1], colname, params), ['LIST'] + [ser(i, colname, params) for i in x]]
    if op in ('EXISTS', 'NOT_EXISTS'):
        return [op, ser_select(['SELECT', ['ALL']] + list(ast[1:]), params)]
    if op in ('SELECT', 'STAR', 'ROW', 'JSON_QUERY', 'RAWSQL'):
        raise Unsupported('node %s' % op)
    return [op] + [ser(x, colname, params) for x in ast[1:]]


class Unsupported(Exception):
    """The AST uses a construct spec/SqlSem.tla does not model (counted, not judged)."""


def _qualified(alias, name):
    return [alias, name.lower()]


def ser_select(ast, params=None):
    """Whole SELECT statement -> the record spec/SqlSem.tla!EvalSelect evaluates.
    Table names are upper-cased and column names lower-cased (the providers differ only in letter case)."""
    if ast[0] != 'SELECT':
        raise Unsupported('statement %s' % ast[0])
    sel = ast[1]
    if sel[0] not in ('ALL', 'DISTINCT', 'AGGREGATES'):
        raise Unsupported('select list %s' % sel[0])
    st = {'distinct': sel[0] == 'DISTINCT', 'agg': sel[0] == 'AGGREGATES', 'cols': [], 'names': [], 'from': [],
          'where': [], 'group': [], 'having': [], 'order': [], 'limit': []}
    for k, c in enumerate(sel[1:]):
        name = 'col%d' % (k + 1)
        if c[0] == 'AS':
            name, c = c[2], c[1]
        elif c[0] == 'COLUMN':
            name = c[2].lower()
        st['cols'].append(ser(c, _qualified, params))
        st['names'].append(name)
    for section in ast[2:]:
        kind = section[0]
        if kind in ('FROM', 'LEFT_JOIN'):
            for k, source in enumerate(section[1:]):
                alias, what = source[0], source[1]
                src = {'alias': alias, 'table': '', 'sub': [], 'on': NONE, 'left': kind == 'LEFT_JOIN' and k > 0}
                if what == 'TABLE':
                    name = source[2]
                    if not isinstance(name, str):
                        name = name[-1]
                    src['table'] = name.upper()
                    if len(source) > 3:
                        src['on'] = ser(source[3], _qualified, params)
                elif what == 'SELECT':
                    src['sub'] = [ser_select(['SELECT'] + list(source[2]), params)]
                    if len(source) > 3:
                        src['on'] = ser(source[3], _qualified, params)
                else:
                    raise Unsupported('source %s' % what)
                st['from'].append(src)
        elif kind == 'WHERE':
            st['where'] = [ser(c, _qualified, params) for c in section[1:]]
        elif kind == 'GROUP_BY':
            st['group'] = [ser(c, _qualified, params) for c in section[1:]]
        elif kind == 'HAVING':
            st['having'] = [ser(c, _qualified, params) for c in section[1:]]
        elif kind == 'ORDER_BY':
            for c in section[1:]:
                if c[0] == 'DESC':
                    st['order'].append([ser(c[1], _qualified, params), 'desc'])
                else:
                    st['order'].append([ser(c, _qualified, params), 'asc'])
        elif kind == 'LIMIT':
            st['limit'] = [['VALUE', val(section[1])], ['VALUE', val(section[2] if len(section) > 2 else 0)]]
        else:
            raise Unsupported('section %s' % kind)
    return st


def expand_string_slice(provider, ast):
    """Replace every ['STRING_SLICE', ...] node by the ['SUBSTR', ...] node the provider's real builder
    turns it into (obtained by running the real builder method and capturing its call to SUBSTR).
    SQLite's builder renders STRING_SLICE as the py_string_slice UDF: the node is left alone."""
    if not isinstance(ast, (list, tuple)) or not ast or not isinstance(ast[0], str):
        return ast
    children = [expand_string_slice(provider, x) if isinstance(x, (list, tuple)) else x for x in ast[1:]]
    node = [ast[0]] + children
    if ast[0] == 'CASE':
        node = ['CASE', children[0], [(expand_string_slice(provider, c), expand_string_slice(provider, t)) for c, t in ast[2]]] + \
               [expand_string_slice(provider, x) for x in ast[3:]]
    if ast[0] != 'STRING_SLICE' or provider.dialect == 'SQLite':
        return node
    builder_cls = provider.sqlbuilder_cls
    captured = []

    class Capture(builder_cls):
        def SUBSTR(builder, expr, start, len=None):
            captured.append(['SUBSTR', expr, start] + ([len] if len is not None else []))
            return builder_cls.SUBSTR(builder, expr, start, len)
    Capture(provider, node)
    if not captured:
        raise MachineryError('STRING_SLICE builder no longer goes through SUBSTR')
    return captured[0]
