"""Replay of spec/PonyOrder.tla (C16): every sequence of creations, re-pointings and deletions whose references form a
forest, ended by the commit of the session, executed on the real ORM under SQLite's immediately enforced foreign keys.

TLC exports the bounded state graph; *every* path of it that ends with Commit is executed (depth-first, the database is
reset for each path): the commit must succeed and the database file must hold exactly the session's view. Objects are
loaded when the session starts and the calls use the loaded objects, so that nothing is flushed before the commit."""
import sqlite3

from . import tlc
from .tlc import MachineryError
from pony.orm import core
from pony.orm.core import Database, PrimaryKey, Required, Optional, Set, db_session, commit, rollback


def cfg(level, mode='refuse'):
    return ('INIT Init\nNEXT Next\nCONSTANTS\n PIds = {1, 2}\n CIds = {1, 2}\n MaxLevel = %d\n Mode = "%s"\nCONSTRAINT Bounded\n'
            'CHECK_DEADLOCK FALSE\nINVARIANT ViewWellFormed\nINVARIANT CommitAlwaysPossible\n' % (level, mode))


def fmap(x):
    if isinstance(x, dict):
        return {int(k): v for k, v in x.items()}
    return {i + 1: v for i, v in enumerate(x)}


def norm(s):
    return set(s['P']), {c: (p if p > 0 else None) for c, p in fmap(s['C']).items() if p}


class World:
    def __init__(self, path, mode='refuse'):
        self.path = path
        self.mode = mode
        db = self.db = Database()

        class P(db.Entity):
            _table_ = 'tp'
            id = PrimaryKey(int)
            cs = Set('C', cascade_delete=(mode == 'cascade'))

        class C(db.Entity):
            _table_ = 'tc'
            id = PrimaryKey(int)
            p = Optional(P, column='p_id') if mode == 'unlink' else Required(P, column='p_id')

        self.P, self.C = P, C
        db.bind('sqlite', path, create_db=True)
        db.generate_mapping(create_tables=True)

    def reset(self, state):
        ps, cs = state
        self.db.disconnect()
        con = sqlite3.connect(self.path, isolation_level=None)
        con.execute('PRAGMA foreign_keys=OFF')
        con.execute('DELETE FROM tc')
        con.execute('DELETE FROM tp')
        for p in sorted(ps):
            con.execute('INSERT INTO tp (id) VALUES (?)', (p,))
        for c, p in sorted(cs.items()):
            con.execute('INSERT INTO tc (id, p_id) VALUES (?, ?)', (c, p))
        con.close()

    def dump(self):
        con = sqlite3.connect(self.path)
        ps = set(k for k, in con.execute('SELECT id FROM tp'))
        cs = dict(con.execute('SELECT id, p_id FROM tc'))
        fk = con.execute('PRAGMA foreign_key_check').fetchall()
        con.close()
        return (ps, cs), fk


def known_pattern(seq):
    """The recorded finding: a child is re-pointed, then a parent is deleted, then that child itself is deleted."""
    moved, parent_deleted = set(), False
    for op, x, y in seq:
        if op == 'Move':
            moved.add(x)
        elif op == 'DeleteP' and moved:
            parent_deleted = True
        elif op == 'DeleteC' and x in moved and parent_deleted:
            return True
    return False


def run_path(w, init, seq):
    """Execute one sequence of calls and the commit; returns None or a description of the disagreement."""
    w.reset(init)
    try:
        with db_session:
            objs = {('P', o.id): o for o in w.P.select()[:]}
            par = {}
            for o in w.C.select()[:]:
                objs[('C', o.id)] = o
                par[o.id] = o.p.id if o.p is not None else None
            for op, x, y in seq:
                if op == 'CreateP':
                    objs[('P', x)] = w.P(id=x)
                elif op == 'DeleteP':
                    objs.pop(('P', x)).delete()
                    for c in [c for c, p in par.items() if p == x]:
                        if w.mode == 'cascade':
                            objs.pop(('C', c)); del par[c]          # deleted with its parent
                        else:
                            par[c] = None
                elif op == 'CreateC':
                    objs[('C', x)] = w.C(id=x, p=objs[('P', y)])
                    par[x] = y
                elif op == 'Move':
                    objs[('C', x)].p = objs[('P', y)] if y > 0 else None
                    par[x] = y if y > 0 else None
                elif op == 'DeleteC':
                    objs.pop(('C', x)).delete()
                    par.pop(x, None)
                else:
                    raise MachineryError('unknown action %r' % op)
            try:
                commit()
            except (core.OrmError, core.DBException) as exc:
                rollback()
                return 'commit raised %s: %s' % (type(exc).__name__, str(exc)[:120])
    except MachineryError:
        raise
    except (core.OrmError, core.DBException, AssertionError, KeyError, AttributeError) as exc:
        import traceback
        return 'unexpected %s inside pony: %s\n%s' % (type(exc).__name__, exc, traceback.format_exc()[-800:])
    return None


def run(ctx, level, mode='refuse'):
    nodes, edges, inits, res = tlc.dump_graph('PonyOrder', cfg(level, mode), ctx.scratch, workers=4, tag='PonyOrder-' + mode)
    succ = {}
    for s, d in edges:
        if d not in succ.setdefault(s, []):
            succ[s].append(d)
    w = World(ctx.scratch.path('db', 'order-%s.sqlite' % mode), mode)
    found = []
    stats = {'mode': mode, 'paths': 0, 'calls': 0, 'known_pattern_paths': 0, 'graph_states': len(nodes), 'graph_transitions': len(set(edges))}
    stack = [(i, i, []) for i in inits]
    while stack:
        u, root, calls = stack.pop()
        can_commit = False
        for v in succ.get(u, ()):
            e = nodes[v]['ev']
            if e['op'] == 'Commit':
                can_commit = True
            elif len(calls) < level - 1:         # the graph has cycles (a child moved back and forth): bound the paths, not only the states
                stack.append((v, root, calls + [(e['op'], e['x'], e['y'])]))
        if not calls or not can_commit:
            continue
        init = norm(nodes[root]['db'])
        stats['paths'] += 1
        stats['calls'] += len(calls)
        bad = run_path(w, init, calls)
        want = norm(nodes[u]['cur'])
        if bad is None:
            got, fk = w.dump()
            if fk or got != want:
                bad = 'database after the commit is %r (foreign_key_check %r), the specification says %r' % (got, fk, want)
        if bad is not None:
            known = known_pattern(calls) and 'FOREIGN KEY constraint failed' in bad
            if known:
                stats['known_pattern_paths'] += 1
            found.append((known, bad, {'mode': mode, 'init': [sorted(init[0]), {str(k): v for k, v in init[1].items()}], 'calls': calls}))
    w.db.disconnect()
    return res, stats, found


def replay(ctx, rep):
    tr = rep['order_path']
    w = World(ctx.scratch.path('db', 'order.sqlite'), tr.get('mode', 'refuse'))
    init = (set(tr['init'][0]), {int(k): v for k, v in tr['init'][1].items()})
    calls = [tuple(c) for c in tr['calls']]
    print('initial rows %r; calls %r' % (init, calls))
    print('->', run_path(w, init, calls) or 'commit succeeded')
    print('database now: %r' % (w.dump(),))
    w.db.disconnect()
