"""Replay of spec/PonyKeys.tla (C14, C16): composite keys, the identity map's key indexes and the save order of a flush.

The specification is deterministic (it tracks which rows the identity map holds and the save queue), so every call has
exactly one expected outcome and result; only the report of leaving a session whose flush has failed is left open.
TLC checks the invariants over the bounded model and exports the state graph; walks over the graph (preferring
transitions not yet taken) are executed on the real ORM on SQLite; after every commit / end of session the database
file is dumped through an independent connection and compared."""
import os
import random
import sqlite3
import sys

from . import tlc
from .tlc import MachineryError
from pony.orm import core
from pony.orm.core import Database, PrimaryKey, Optional, composite_key, db_session, flush, commit, rollback


class Boom(Exception):
    pass


def cfg(level, view=False, qnull=True):
    return ('INIT Init\nNEXT Next\nCONSTANTS\n KIds = {1, 2}\n PVals = {1, 2}\n QVals = {1}\n QNull = {%s}\n MaxLevel = %d\nCONSTRAINT Bounded\n'
            'CHECK_DEADLOCK FALSE\n%sINVARIANT TypeOK\nINVARIANT CommittedKeysDistinct\nINVARIANT IndexedKeysDistinct\n'
            'INVARIANT QueueExact\nACTION_CONSTRAINT StepProps\n' % ('0' if qnull else '', level, 'VIEW DesignView\n' if view else ''))


def fmap(x):
    if isinstance(x, dict):
        return {int(k): v for k, v in x.items()}
    return {i + 1: v for i, v in enumerate(x)}


def rows_of(state):
    return {k: (r['p'], r['q']) for k, r in fmap(state).items() if r['ex']}


class World:
    def __init__(self, path):
        self.path = path
        db = self.db = Database()

        class K(db.Entity):
            _table_ = 'tk'
            id = PrimaryKey(int)
            p = Optional(int)
            q = Optional(int)
            composite_key(p, q)

        self.K = K
        db.bind('sqlite', path, create_db=True)
        db.generate_mapping(create_tables=True)

    def reset(self, rows):
        self.db.disconnect()
        con = sqlite3.connect(self.path, isolation_level=None)
        con.execute('BEGIN')
        con.execute('DELETE FROM tk')
        for k, (p, q) in sorted(rows.items()):
            con.execute('INSERT INTO tk (id, p, q) VALUES (?, ?, ?)', (k, p or None, q or None))
        con.execute('COMMIT')
        con.close()

    def dump(self):
        con = sqlite3.connect(self.path)
        rows = con.execute('SELECT id, p, q FROM tk').fetchall()
        con.close()
        problems = []
        ids = [r[0] for r in rows]
        if len(ids) != len(set(ids)):
            problems.append('duplicate primary keys %r' % (ids,))
        keys = [(p, q) for _, p, q in rows if p is not None and q is not None]
        if len(keys) != len(set(keys)):
            problems.append('duplicate composite keys %r' % (keys,))
        return {k: (p or 0, q or 0) for k, p, q in rows}, problems


def execute(w, st, ev, rng):
    op, k, p, q = ev['op'], ev['k'], ev['p'], ev['q']
    K = w.K
    try:
        if op == 'Begin':
            st['s'] = db_session()
            st['s'].__enter__()
            return 'ok', set()
        if op == 'End':
            s = st.pop('s')
            try:
                s.__exit__(None, None, None)
            except AssertionError:
                return 'Internal', set()
            return 'ok', set()
        if op == 'EndExc':
            s = st.pop('s')
            try:
                raise Boom()
            except Boom:
                s.__exit__(*sys.exc_info())
            return 'ok', set()
        if op == 'Create':
            K(id=k, p=p or None, q=q or None)
            return 'ok', set()
        if op == 'SetPQ':
            # both attributes are always passed and nothing is read first: reading an attribute of a freshly inserted
            # object whose NULLs were dropped from memory would send a SELECT (modelled by Get only)
            K[k].set(p=p or None, q=q or None)
            return 'ok', set()
        if op == 'Delete':
            K[k].delete()
            return 'ok', set()
        if op == 'Get':
            o = K.get(id=k)
            return 'ok', ({(o.p or 0, o.q or 0)} if o is not None else set())
        if op == 'Find':
            o = K.get(p=p, q=q)
            return 'ok', ({o.id} if o is not None else set())
        if op == 'FlushObj':
            K[k].flush()
            return 'ok', set()
        if op == 'Flush':
            flush()
            return 'ok', set()
        if op == 'Commit':
            commit()
            return 'ok', set()
        if op == 'Rollback':
            rollback()
            return 'ok', set()
    except core.CacheIndexError:
        return 'CacheIndexError', set()
    except (core.TransactionIntegrityError, core.IntegrityError):
        return 'Integrity', set()
    raise MachineryError('unknown action %r' % op)


WRITES = ('Create', 'SetPQ', 'Delete')
FLUSHING = ('Flush', 'FlushObj', 'Get', 'Find', 'Commit')


def norm_ret(ret):
    return set(tuple(x) if isinstance(x, (list, tuple)) else x for x in ret)


def cleanup(st):
    s = st.pop('s', None)
    if s is not None:
        try:
            s.__exit__(Boom, Boom(), None)
        except Exception:
            pass
    while core.local.db_session is not None:
        try:
            core.local.db_session.__exit__(Boom, Boom(), None)
        except Exception:
            core.local.db_session = None


def run(ctx, nbeh, level, seed, check_level=None, qnull=True):
    res = tlc.model_check('PonyKeys', cfg(check_level or level + 2, view=True), ctx.scratch, workers=8)
    nodes, edges, inits, _ = tlc.dump_graph('PonyKeys', cfg(level, qnull=qnull), ctx.scratch, workers=8)
    succ = {}
    for s, d in edges:
        if d not in succ.setdefault(s, []):
            succ[s].append(d)
    w = World(ctx.scratch.path('db', 'keys.sqlite'))
    rng = random.Random(seed)
    visited = set()
    found = []
    stats = {'behaviours': 0, 'steps': 0, 'refused_at_once': 0, 'flush_conflicts': 0, 'commits_compared': 0,
             'graph_states': len(nodes), 'graph_transitions': len(set(edges))}
    for i in range(nbeh):
        u = rng.choice(inits)
        w.reset(rows_of(nodes[u]['db']))
        st = {}
        trace = [{'init': {str(k): list(v) for k, v in rows_of(nodes[u]['db']).items()}, 'open': nodes[u]['sess'] == 'open'}]
        stats['behaviours'] += 1
        try:
            if nodes[u]['sess'] == 'open':
                execute(w, st, {'op': 'Begin', 'k': 0, 'p': 0, 'q': 0}, rng)
            pattern = rng.random() < 0.5
            ended = False
            calls = 0          # calls made in the current session
            for step in range(level + 1):
                acts = {}
                for v in succ.get(u, ()):
                    e = nodes[v]['ev']
                    acts.setdefault((e['op'], e['k'], e['p'], e['q']), []).append(v)
                if not acts:
                    ended = True
                    break
                keys = sorted(acts)
                if pattern:
                    # half of the walks alternate a modification with a call that flushes (explicitly or by sending a
                    # statement): flushed work followed by a doomed change, a failing flush and the exit of the session
                    # would otherwise be a rare combination among the ~25 calls enabled in every state
                    wanted = WRITES if calls % 2 == 0 else FLUSHING
                    sub = [k for k in keys if k[0] in wanted]
                    keys = sub or keys
                fresh = [k for k in keys if any((u, v) not in visited for v in acts[k])]
                key = rng.choice(fresh if fresh and rng.random() < 0.85 else keys)
                ev0 = nodes[acts[key][0]]['ev']
                try:
                    out, ret = execute(w, st, ev0, rng)
                except MachineryError:
                    raise
                except Exception as exc:
                    import traceback
                    trace.append({'op': key[0], 'k': key[1], 'p': key[2], 'q': key[3], 'out': 'crash:' + type(exc).__name__, 'ret': []})
                    found.append(('crash', 'unexpected %s inside pony during %s%r: %s\n%s' % (
                        type(exc).__name__, key[0], key[1:], exc, traceback.format_exc()[-1000:]), trace))
                    break
                stats['steps'] += 1
                calls = 0 if key[0] in ('Begin', 'End', 'EndExc', 'Rollback') else calls + 1
                trace.append({'op': key[0], 'k': key[1], 'p': key[2], 'q': key[3], 'out': out, 'ret': sorted(ret)})
                if out == 'CacheIndexError':
                    stats['refused_at_once'] += 1
                if out == 'Integrity':
                    stats['flush_conflicts'] += 1
                match = [v for v in acts[key] if nodes[v]['ev']['out'] == out and norm_ret(nodes[v]['ev']['ret']) == set(ret)]
                if not match:
                    exp = [(nodes[v]['ev']['out'], sorted(norm_ret(nodes[v]['ev']['ret']))) for v in acts[key]]
                    cat = 'order' if key[0] in ('Flush', 'Commit', 'End') and 'ok' in [e[0] for e in exp] else 'keys'
                    found.append((cat, '%s%r: pony -> %s %r; the specification says %r' % (key[0], key[1:], out, sorted(ret), exp), trace))
                    break
                v = match[0]
                if key[0] in ('Commit', 'End', 'EndExc', 'Rollback'):
                    got, problems = w.dump()
                    stats['commits_compared'] += 1
                    want = rows_of(nodes[v]['db'])
                    if problems or got != want:
                        found.append(('keys', 'database after %s(%s) is %r %s, the specification says %r' % (
                            key[0], out, got, '; '.join(problems), want), trace))
                        break
                visited.add((u, v))
                u = v
            else:
                ended = True
            if ended:
                # the exported graph ends here; the exit of the session is still determined by the last state when a
                # flush of the session has failed (the program caught the error): whatever the exit reports, nothing of
                # the session may reach the database (C14)
                if nodes[u]['sess'] == 'aborted' and 's' in st:
                    try:
                        out, _ = execute(w, st, {'op': 'End', 'k': 0, 'p': 0, 'q': 0}, rng)
                    except MachineryError:
                        raise
                    except Exception as exc:
                        out = 'crash:' + type(exc).__name__
                    trace.append({'op': 'End', 'k': 0, 'p': 0, 'q': 0, 'out': out, 'ret': [], 'final': True})
                    got, problems = w.dump()
                    stats['commits_compared'] += 1
                    stats['exits_after_failed_flush'] = stats.get('exits_after_failed_flush', 0) + 1
                    want = rows_of(nodes[u]['db'])
                    if out not in ('ok', 'Integrity', 'Internal'):
                        found.append(('crash', 'End() after a failed flush: pony -> %s' % out, trace))
                    elif problems or got != want:
                        found.append(('keys', 'database after leaving a session whose flush had failed (End -> %s) is %r %s, the '
                                              'specification says it stays %r' % (out, got, '; '.join(problems), want), trace))
        finally:
            cleanup(st)
    w.db.disconnect()
    stats['graph_transitions_replayed'] = len(visited)
    return res, stats, found


def run_exhaustive(ctx, depth, seed=0):
    """Every sequence of at most `depth` calls from every seeded database with an open session, over the full alphabet
    (q nullable, single-object flushes): each one is executed from a fresh database and compared call by call."""
    nodes, edges, inits, _ = tlc.dump_graph('PonyKeys', cfg(depth + 1, qnull=True), ctx.scratch, workers=8, tag='PonyKeysAll')
    succ = {}
    for s, d in edges:
        if d not in succ.setdefault(s, []):
            succ[s].append(d)
    w = World(ctx.scratch.path('db', 'keys-all.sqlite'))
    rng = random.Random(seed)
    found = []
    stats = {'sequences': 0, 'depth': depth, 'steps': 0}

    def key_of(v):
        e = nodes[v]['ev']
        return (e['op'], e['k'], e['p'], e['q'])

    def tr(root, path, last=None):
        t = [{'init': {str(k): list(v) for k, v in rows_of(nodes[root]['db']).items()}, 'open': True}]
        for v in path:
            e = nodes[v]['ev']
            t.append({'op': e['op'], 'k': e['k'], 'p': e['p'], 'q': e['q'], 'out': e['out'], 'ret': sorted(norm_ret(e['ret']))})
        if last is not None:
            t[-1]['out'], t[-1]['ret'] = last
        return t
    stack = [(i, i, []) for i in inits if nodes[i]['sess'] == 'open']
    while stack:
        u, root, path = stack.pop()
        if len(path) < depth:
            for v in succ.get(u, ()):
                stack.append((v, root, path + [v]))
        if not path:
            continue
        stats['sequences'] += 1
        w.reset(rows_of(nodes[root]['db']))
        st = {}
        try:
            execute(w, st, {'op': 'Begin', 'k': 0, 'p': 0, 'q': 0}, rng)
            cur = root
            for i, v in enumerate(path):
                ev = nodes[v]['ev']
                try:
                    out, ret = execute(w, st, ev, rng)
                except MachineryError:
                    raise
                except Exception as exc:
                    import traceback
                    found.append(('crash', 'unexpected %s inside pony during %s%r: %s\n%s' % (
                        type(exc).__name__, ev['op'], key_of(v)[1:], exc, traceback.format_exc()[-800:]), tr(root, path[:i + 1], ('crash:' + type(exc).__name__, []))))
                    break
                stats['steps'] += 1
                if out != ev['out'] or norm_ret(ev['ret']) != set(ret):
                    # the specification may allow several outcomes of this call (leaving a session whose flush failed)
                    alts = [x for x in succ.get(cur, ()) if key_of(x) == key_of(v) and nodes[x]['ev']['out'] == out
                            and norm_ret(nodes[x]['ev']['ret']) == set(ret)]
                    if not alts:
                        exp = sorted(set((nodes[x]['ev']['out'], tuple(sorted(norm_ret(nodes[x]['ev']['ret'])))) for x in succ.get(cur, ())
                                         if key_of(x) == key_of(v)))
                        cat = 'order' if ev['op'] in ('Flush', 'Commit', 'End') and any(e[0] == 'ok' for e in exp) else 'keys'
                        found.append((cat, '%s%r: pony -> %s %r; the specification says %r' % (ev['op'], key_of(v)[1:], out, sorted(ret), exp),
                                      tr(root, path[:i + 1], (out, sorted(ret)))))
                    break          # (an allowed alternative leads elsewhere: that sequence is enumerated on its own)
                if ev['op'] in ('Commit', 'End', 'EndExc', 'Rollback'):
                    got, problems = w.dump()
                    want = rows_of(nodes[v]['db'])
                    if problems or got != want:
                        found.append(('keys', 'database after %s(%s) is %r %s, the specification says %r' % (
                            ev['op'], out, got, '; '.join(problems), want), tr(root, path[:i + 1])))
                        break
                cur = v
        finally:
            cleanup(st)
        if len(found) >= 20:
            break
    w.db.disconnect()
    return stats, found


def report(ctx, prop, res, stats, found):
    """C14 owns the key disagreements, C16 the flushes that should have succeeded (save order); crashes go to both."""
    mine = {'C14': ('keys', 'crash'), 'C16': ('order', 'crash')}[prop]
    for cat, what, trace in found:
        if cat in mine:
            last = trace[-1]
            ctx.mismatch('%s:compkey:%s:%s:%s' % (prop, cat, last.get('op'), last.get('out')), what, {'keys_trace': trace})
    ctx.coverage['states'] += res.distinct
    ctx.coverage['transitions'] += res.generated
    ctx.coverage['traces_validated_against_impl'] += stats['behaviours']
    ctx.coverage['composite_key_model'] = stats


def replay(ctx, rep):
    w = World(ctx.scratch.path('db', 'keys.sqlite'))
    tr = rep['keys_trace']
    w.reset({int(k): tuple(v) for k, v in tr[0]['init'].items()})
    st = {}
    rng = random.Random(0)
    try:
        if tr[0].get('open'):
            execute(w, st, {'op': 'Begin', 'k': 0, 'p': 0, 'q': 0}, rng)
        for t in tr[1:]:
            if t['out'].startswith('crash'):
                print('%s(%d,%d,%d): recorded %s' % (t['op'], t['k'], t['p'], t['q'], t['out']))
            out, ret = execute(w, st, t, rng)
            print('%s(%d,%d,%d) -> %s %r   [recorded: %s %r]' % (t['op'], t['k'], t['p'], t['q'], out, sorted(ret), t['out'], t['ret']))
    finally:
        cleanup(st)
    print('database now: %r' % (w.dump(),))
    w.db.disconnect()
