"""python -m harness.findings add <property> <signature> <status> <what> [commit]   (file-locked edit of known_findings.json)"""
import fcntl
import json
import sys

from .core import FINDINGS_FILE


def add(prop, signature, status, what, commit=None):
    with open(FINDINGS_FILE, 'r+') as f:
        fcntl.flock(f, fcntl.LOCK_EX)
        data = json.load(f)
        data['findings'] = [x for x in data['findings'] if not (x['property'] == prop and x['signature'] == signature)]
        e = {'property': prop, 'signature': signature, 'status': status, 'what': what}
        if commit:
            e['commit'] = commit
        data['findings'].append(e)
        data['findings'].sort(key=lambda x: (x['property'], x['signature']))
        f.seek(0)
        f.truncate()
        json.dump(data, f, indent=1)
        f.write('\n')


if __name__ == '__main__':
    if sys.argv[1] == 'add':
        add(*sys.argv[2:])
