"""./check <ID> --tier quick|thorough [--seed N] [--replay file]"""
import argparse
import importlib
import json
import os
import sys
import traceback

from . import core
from .tlc import MachineryError


def main(argv=None):
    ap = argparse.ArgumentParser()
    ap.add_argument('prop')
    ap.add_argument('--tier', default=os.environ.get('VERIF_TIER') or 'quick', choices=['quick', 'thorough'])
    ap.add_argument('--seed', type=int, default=int(os.environ.get('VERIF_SEED') or 0))
    ap.add_argument('--replay', default=None)
    a = ap.parse_args(argv)
    prop = a.prop.upper()
    try:
        mod = importlib.import_module('harness.props.%s' % prop.lower())
    except ImportError:
        traceback.print_exc()
        print('no check for %s' % prop)
        return 2
    ctx = core.Ctx(prop, a.tier, a.seed, mod.LEVEL)
    try:
        if a.replay:
            with open(a.replay) as f:
                rep = json.load(f)
            mod.replay(ctx, rep.get('replay', rep))
            ctx.scratch.close()
            return 1 if ctx.violations else 0
        mod.run(ctx)
        return ctx.finish()
    except MachineryError as e:
        print('MACHINERY-FAILURE property=%s: %s' % (prop, e))
        ctx.scratch.close()
        return 2
    except Exception:
        traceback.print_exc()
        print('MACHINERY-FAILURE property=%s: unexpected exception in the harness' % prop)
        ctx.scratch.close()
        return 2


if __name__ == '__main__':
    sys.exit(main())
