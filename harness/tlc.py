"""Running TLC and reading what it produced."""
import json
import os
import re
import shutil
import subprocess
import tempfile
import time

from . import tlaval

SPEC_DIR = os.path.join(os.path.dirname(os.path.dirname(os.path.abspath(__file__))), 'spec')
NCPU = min(16, os.cpu_count() or 4)


class MachineryError(Exception):
    """Something in the checking machinery (not in pony) failed: exit code 2."""


class TlcResult:
    def __init__(self, stdout, wall):
        self.stdout = stdout
        self.wall = wall
        m = None
        for m in re.finditer(r'(\d+) states generated, (\d+) distinct states found', stdout):
            pass
        self.generated = int(m.group(1)) if m else 0
        self.distinct = int(m.group(2)) if m else 0
        m = re.search(r'The depth of the complete state graph search is (\d+)', stdout)
        self.depth = int(m.group(1)) if m else 0
        self.errors = [l for l in stdout.splitlines() if l.startswith('Error:')]
        self.violated = re.findall(r'Invariant (\S+) is violated', stdout) + \
            re.findall(r'Action property (\S+) is violated', stdout) + \
            re.findall(r'Temporal properties were violated', stdout)
        self.ok = ('Model checking completed. No error has been found.' in stdout or
                   'Finished in' in stdout) and not self.errors

    def printed(self):
        """Values printed with PrintT (possibly spread over several lines), parsed."""
        out = []
        buf = None
        depth = 0
        for l in self.stdout.splitlines():
            st = l.strip()
            if buf is None:
                if not (st.startswith('<<') or st.startswith('[') or st.startswith('{')):
                    continue
                buf = []
                depth = 0
            buf.append(st)
            in_str = False
            i = 0
            while i < len(st):
                ch = st[i]
                if in_str:
                    if ch == '\\':
                        i += 1
                    elif ch == '"':
                        in_str = False
                elif ch == '"':
                    in_str = True
                elif st.startswith('<<', i) or st.startswith('>>', i):
                    depth += 1 if st[i] == '<' else -1
                    i += 1
                elif ch in '[{(':
                    depth += 1
                elif ch in ']})':
                    depth -= 1
                i += 1
            if depth <= 0:
                try:
                    out.append(tlaval.parse(' '.join(buf)))
                except ValueError:
                    pass
                buf = None
        return out

    def coverage(self):
        """action name -> (distinct, total) from -coverage output."""
        cov = {}
        for m in re.finditer(r'<(\w+) line \d+, col \d+ to line \d+, col \d+ of module \w+>: (\d+):(\d+)', self.stdout):
            cov[m.group(1)] = (int(m.group(2)), int(m.group(3)))
        return cov


class Scratch:
    """Per-run scratch directory (removed on close)."""

    def __init__(self):
        base = '/dev/shm' if os.path.isdir('/dev/shm') and os.access('/dev/shm', os.W_OK) else None
        self.dir = tempfile.mkdtemp(prefix='verif-', dir=base)

    def path(self, *names):
        p = os.path.join(self.dir, *names)
        os.makedirs(os.path.dirname(p), exist_ok=True)
        return p

    def close(self):
        shutil.rmtree(self.dir, ignore_errors=True)


def run(module, cfg, scratch, *, env=None, workers=None, args=(), timeout=3600, must_succeed=True,
        java_opts=None, tag=None):
    """Run TLC on /verif/spec/<module>.tla with the given cfg text. Returns TlcResult."""
    tag = tag or module
    meta = scratch.path('tlc-%s-%d' % (tag, int(time.time() * 1e6) % 10 ** 9), 'x')
    meta = os.path.dirname(meta)
    cfg_path = os.path.join(meta, module + '.cfg')
    with open(cfg_path, 'w') as f:
        f.write(cfg)
    cmd = ['java', '-XX:+UseParallelGC', '-Xmx6g', '-Djava.io.tmpdir=' + meta]     # TLC unpacks its standard modules there: nothing is left in /tmp
    if java_opts:
        cmd += list(java_opts)
    cmd += ['-cp', '/opt/veriftools/tla/tla2tools.jar:/opt/veriftools/tla/CommunityModules-deps.jar', 'tlc2.TLC',
            '-workers', str(workers or NCPU), '-metadir', os.path.join(meta, 'states'), '-noGenerateSpecTE',
            '-config', cfg_path]
    cmd += list(args)
    cmd.append(module + '.tla')
    e = dict(os.environ)
    e.pop('JAVA_TOOL_OPTIONS', None)
    if env:
        e.update({k: str(v) for k, v in env.items()})
    t0 = time.time()
    try:
        p = subprocess.run(cmd, cwd=SPEC_DIR, env=e, stdout=subprocess.PIPE, stderr=subprocess.STDOUT,
                           timeout=timeout, text=True, errors='replace')
    except subprocess.TimeoutExpired as ex:
        out = ex.stdout or ''
        if isinstance(out, bytes):
            out = out.decode(errors='replace')
        if must_succeed:
            raise MachineryError('TLC timed out after %ss on %s\n%s' % (timeout, module, out[-2000:]))
        return TlcResult(out, time.time() - t0)
    res = TlcResult(p.stdout, time.time() - t0)
    res.returncode = p.returncode
    if must_succeed and not res.ok:
        raise MachineryError('TLC failed on %s (rc=%s):\n%s' % (module, p.returncode, _tail(p.stdout)))
    return res


def _tail(s, n=60):
    lines = [l for l in s.splitlines() if not l.startswith('Linting of module') and
             not l.startswith('Semantic processing') and not l.startswith('Parsing file')]
    return '\n'.join(lines[-n:])


def evaluate(module, scratch, *, inputs=None, consts='', tag=None, timeout=3600, workers=1):
    """Constant-level evaluation: module has ASSUME JsonSerialize(IOEnv.OUT, ...) and may read
    JsonDeserialize(IOEnv.IN). Returns (decoded JSON output, TlcResult)."""
    tag = tag or module
    out = scratch.path('eval', '%s-%d.out.json' % (tag, int(time.time() * 1e6) % 10 ** 9))
    env = {'OUT': out}
    if inputs is not None:
        inp = out.replace('.out.json', '.in.json')
        with open(inp, 'w') as f:
            json.dump(inputs, f)
        env['IN'] = inp
    res = run(module, consts, scratch, env=env, workers=workers, timeout=timeout, tag=tag)
    if not os.path.exists(out):
        raise MachineryError('TLC produced no output for %s:\n%s' % (module, _tail(res.stdout)))
    with open(out) as f:
        data = json.load(f)
    return data, res


def model_check(module, cfg, scratch, *, workers=None, timeout=3600, coverage=False, args=(), tag=None, env=None):
    """Exhaustive run. Returns TlcResult; res.violated non-empty means the spec's own property failed
    (machinery error for our purposes: the design itself admits a bad state)."""
    a = list(args)
    if coverage:
        a += ['-coverage', '1']
    res = run(module, cfg, scratch, workers=workers, args=a, timeout=timeout, must_succeed=False, tag=tag, env=env)
    if res.violated or not res.ok:
        raise MachineryError('TLC reports a problem in the specification %s itself:\n%s' % (module, _tail(res.stdout, 80)))
    return res


_state_hdr = re.compile(r'^STATE_(\d+) ==\s*$')


def simulate(module, cfg, scratch, *, num, depth, seed=0, timeout=3600, tag=None, env=None, workers=1):
    """tlc -simulate: returns a list of behaviours, each a list of parsed states (dicts)."""
    tag = tag or module
    d = scratch.path('sim-%s-%d' % (tag, int(time.time() * 1e6) % 10 ** 9), 'x')
    d = os.path.dirname(d)
    prefix = os.path.join(d, 'tr')
    res = run(module, cfg, scratch, workers=workers, timeout=timeout, must_succeed=False, tag=tag, env=env,
              args=['-simulate', 'file=%s,num=%d' % (prefix, num), '-depth', str(depth), '-seed', str(seed)])
    if res.violated or res.errors:
        raise MachineryError('TLC simulation reports a problem in %s:\n%s' % (module, _tail(res.stdout, 80)))
    behaviours = []
    for name in sorted(os.listdir(d)):
        if not name.startswith('tr'):
            continue
        behaviours.append(parse_behaviour_file(os.path.join(d, name)))
    shutil.rmtree(d, ignore_errors=True)
    return behaviours, res


def parse_behaviour_file(path):
    states = []
    cur = None
    with open(path) as f:
        for line in f:
            if _state_hdr.match(line.strip()):
                if cur is not None:
                    states.append(tlaval.parse_state(''.join(cur)))
                cur = []
            elif line.startswith('\\*') or line.startswith('----') or line.startswith('===='):
                continue
            elif cur is not None:
                cur.append(line)
    if cur is not None and ''.join(cur).strip():
        states.append(tlaval.parse_state(''.join(cur)))
    return states


def dump_graph(module, cfg, scratch, *, timeout=3600, tag=None, workers=None, env=None):
    """Exhaustive run with -dump dot; returns (nodes: id -> state dict, edges: list of (src, dst), init ids, TlcResult)."""
    tag = tag or module
    d = scratch.path('dump-%s-%d' % (tag, int(time.time() * 1e6) % 10 ** 9), 'x')
    d = os.path.dirname(d)
    dot = os.path.join(d, 'g')
    res = run(module, cfg, scratch, workers=workers, timeout=timeout, must_succeed=False, tag=tag, env=env,
              args=['-dump', 'dot', dot])
    if res.violated or not res.ok:
        raise MachineryError('TLC reports a problem in the specification %s itself:\n%s' % (module, _tail(res.stdout, 80)))
    nodes, edges, inits = parse_dot(dot + '.dot')
    shutil.rmtree(d, ignore_errors=True)
    return nodes, edges, inits, res


_node_re = re.compile(r'^(-?\d+) \[label="')
_edge_re = re.compile(r'^(-?\d+) -> (-?\d+)')


def _read_dot_string(line, pos):
    """Read a dot string literal starting after the opening quote; returns (text, index after closing quote)."""
    out = []
    i = pos
    n = len(line)
    while i < n:
        ch = line[i]
        if ch == '\\' and i + 1 < n:
            nx = line[i + 1]
            out.append('\n' if nx == 'n' else nx)
            i += 2
            continue
        if ch == '"':
            return ''.join(out), i + 1
        out.append(ch)
        i += 1
    raise ValueError('unterminated dot string')


def parse_dot(path):
    nodes, edges, inits = {}, [], []
    with open(path) as f:
        for line in f:
            line = line.rstrip('\n')
            m = _edge_re.match(line)
            if m:
                edges.append((m.group(1), m.group(2)))
                continue
            m = _node_re.match(line)
            if m:
                label, end = _read_dot_string(line, m.end())
                nodes[m.group(1)] = tlaval.parse_state(label)
                if 'style = filled' in line[end:end + 20]:
                    inits.append(m.group(1))
    return nodes, edges, inits
