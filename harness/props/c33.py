"""C33 - lifecycle hooks run once per saved change and their edits are saved.

Binding V (trace validation): the behaviours of spec/PonySession.tla are replayed on entities whose
before_*/after_* hooks log their invocation, on a sqlite3 connection (factory=) that logs every INSERT/UPDATE/
DELETE with the primary key it addresses; after every API call a "quiesce" event is logged. The recorded traces
are validated in one TLC run against spec/PonyHooks.tla (per object: idle -> before_K -> statement K -> after_K,
nothing left half-way when a call returns). Hook behaviours: log only / before_* hooks modify another
attribute (w = v + 10, which must be in the database after commit) / before_insert creates another object (which
must be saved in the same flush) / after_insert modifies the object again (a second round inside the same flush).
Demonstration of the binding: a corrupted copy of each of the first traces (one hook event dropped) must be rejected.
"""
import os
import random
import re
import sqlite3

from .. import session, session_check, tlc
from ..tlc import MachineryError
from pony.orm import core
from pony.orm.core import Database, PrimaryKey, Required, Optional, Set

LEVEL = 'model_checking'
MODES = ['log', 'modify', 'create', 'after_modify', 'm2m']
SHAPES = ['o2m_opt', 'm2m', 'o2m_req_casc']


class Log:
    def __init__(self):
        self.events = []
        self.pending_log_rows = 0

    def add(self, t, o, k):
        self.events.append({'t': t, 'o': o, 'k': k})


def make_connection_class(log):
    ins = re.compile(r'INSERT INTO "(\w+)"')
    upd = re.compile(r'UPDATE "(\w+)"\s+SET (.*?)\s+WHERE', re.S)
    dele = re.compile(r'DELETE FROM "(\w+)"')

    def note(sql, args, failed=False):
        m = ins.match(sql)
        kind = None
        if m:
            kind, table = 'insert', m.group(1)
            pk = args[0] if args else None
        else:
            m = upd.match(sql)
            if m:
                kind, table = 'update', m.group(1)
                pk = args[m.group(2).count('?')]
            else:
                m = dele.match(sql)
                if m:
                    kind, table = 'delete', m.group(1)
                    pk = args[0]
        if kind is None:
            return
        if table in ('ta', 'tb'):
            log.add('fail' if failed else 'stmt', ('A' if table == 'ta' else 'B') + str(pk), kind)
        elif table == 'tlog':
            log.add('fail' if failed else 'stmt', 'L%s' % (args[0] if args else ''), kind)

    class Cursor(sqlite3.Cursor):
        def execute(self, sql, args=()):
            try:
                r = sqlite3.Cursor.execute(self, sql, args)
            except sqlite3.Error:
                note(sql, args, failed=True)
                raise
            note(sql, args)
            return r

        def executemany(self, sql, seq):
            seq = list(seq)
            r = sqlite3.Cursor.executemany(self, sql, seq)
            for args in seq:
                note(sql, args)
            return r

    class Connection(sqlite3.Connection):
        def cursor(self, factory=None):
            return sqlite3.Connection.cursor(self, Cursor)

    return Connection


class HookWorld(session.World):
    def __init__(self, shape, path, mode, log):
        self.shape = shape
        self.rel, self.breq, self.casc = session.SHAPES[shape]
        self.path = path
        self.strategy = 'default'
        self.mode = mode
        self.log = log
        if os.path.exists(path):
            os.remove(path)
        db = self.db = Database()
        rel, breq, casc = self.rel, self.breq, self.casc

        def name(o):
            return type(o).__name__ + str(o.id)

        class Hooked(object):
            def before_insert(self):
                log.add('before', name(self), 'insert')
                if mode == 'modify':
                    self.w = (self.v if type(self).__name__ == 'A' else self.u or 0) or 0
                    self.w += 10
                elif mode == 'create' and type(self).__name__ == 'A':
                    log.counter = getattr(log, 'counter', 0) % 8 + 1      # a name of its own for every log object in flight
                    db.Log(ref=log.counter)
                    log.pending_log_rows += 1
                elif mode == 'm2m' and type(self).__name__ == 'A':
                    self.tags.add(db.Tag[1])      # a many-to-many change made inside a before_* hook

            def before_update(self):
                log.add('before', name(self), 'update')
                if mode == 'm2m' and type(self).__name__ == 'A':
                    self.tags.add(db.Tag[1])
                if mode == 'modify':
                    self.w = ((self.v if type(self).__name__ == 'A' else self.u) or 0) + 10

            def before_delete(self):
                log.add('before', name(self), 'delete')

            def after_insert(self):
                log.add('after', name(self), 'insert')
                if mode == 'after_modify' and type(self).__name__ == 'A':
                    self.w = 99

            def after_update(self):
                log.add('after', name(self), 'update')

            def after_delete(self):
                log.add('after', name(self), 'delete')

        class A(Hooked, db.Entity):
            _table_ = 'ta'
            id = PrimaryKey(int)
            v = Optional(int)
            w = Optional(int)
            tags = Set('Tag', column='tag_id')
            if rel == 'o2m':
                bs = Set('B', cascade_delete=casc) if casc != breq else Set('B')
            else:
                bs = Set('B', table='tl', column='b_id')

        class B(Hooked, db.Entity):
            _table_ = 'tb'
            id = PrimaryKey(int)
            u = Optional(int, unique=True)
            w = Optional(int)
            if rel == 'o2m':
                a = Required(A, column='a_id') if breq else Optional(A, column='a_id')
            else:
                as_ = Set(A, column='a_id')

        class Log(db.Entity):
            _table_ = 'tlog'
            id = PrimaryKey(int, auto=True)
            ref = Required(int)

            # objects created inside another object's before_insert hook get their own hooks in the same flush
            def before_insert(self):
                log.add('before', 'L%d' % self.ref, 'insert')

            def after_insert(self):
                log.add('after', 'L%d' % self.ref, 'insert')

        class Tag(db.Entity):
            _table_ = 'ttag'
            id = PrimaryKey(int)
            owners = Set('A', table='ttagl', column='a_id')

        self.A, self.B = A, B
        self.links = rel in ('m2m', 'mix')
        db.bind('sqlite', path, create_db=True, factory=make_connection_class(log))
        db.generate_mapping(create_tables=True)
        self.session = None
        self.registry = {}

    def reset(self, state):
        session.World.reset(self, state)
        con = self.raw()
        con.execute('DELETE FROM tlog')
        con.execute('DELETE FROM ttagl')
        con.execute('DELETE FROM ttag')
        con.execute('INSERT INTO ttag (id) VALUES (1)')
        con.close()
        self.committed_log_rows = 0
        self.log.pending_log_rows = 0
        self.hooked_a = set()

    def extra_check(self):
        """Edits made inside hooks must be in the database after a commit."""
        con = self.raw()
        try:
            if self.mode == 'm2m':
                # every A row written (inserted or updated) by a committed flush had its before_* hook add Tag[1]
                missing = [a for a in self.hooked_a if con.execute('SELECT 1 FROM ta WHERE id = ?', (a,)).fetchone()
                           and not con.execute('SELECT 1 FROM ttagl WHERE a_id = ? AND tag_id = 1', (a,)).fetchone()]
                if missing:
                    return 'before_* hooks of A%r added Tag[1] to the object\'s tags, but the committed link table has no such rows' % (missing,)
            if self.mode == 'create':
                n = con.execute('SELECT COUNT(*) FROM tlog').fetchone()[0]
                if n != self.committed_log_rows:
                    return 'objects created inside before_insert: %d rows committed, %d hook invocations committed' % (n, self.committed_log_rows)
            return None
        finally:
            con.close()


def run_mode(ctx, shape, mode, graph, nbeh, seed):
    log = Log()
    w = HookWorld(shape, ctx.scratch.path('db', 'hooks-%s-%s.sqlite' % (shape, mode)), mode, log)
    d = session.Driver(ctx, shape, graph, seed=seed, world=w)
    traces = []
    written_by_session = set()
    problems = []

    def after_call(op, out):
        log.add('quiesce', 'A1', 'none')
        if op in ('Commit', 'End') and out == 'ok':
            w.committed_log_rows += log.pending_log_rows
            log.pending_log_rows = 0
            for e in log.events[getattr(log, 'mark2', 0):]:
                if e['t'] == 'before' and e['o'][0] == 'A' and e['k'] in ('insert', 'update'):
                    w.hooked_a.add(int(e['o'][1:]))
            log.mark2 = len(log.events)
            # rows written (insert/update) by committed flushes must carry the hooks' edits
            if mode in ('modify', 'after_modify'):
                bad = check_w(w, log, mode)
                if bad:
                    problems.append((bad, list(log.events)))
            bad = w.extra_check()
            if bad:
                problems.append((bad, list(log.events)))
        elif op in ('Rollback', 'EndExc') or out == 'Integrity':
            log.pending_log_rows = 0
            log.mark = len(log.events)      # statements of a transaction that was rolled back say nothing about the rows
            log.mark2 = len(log.events)

    def on_behaviour(what, trace):
        if what == 'begin':
            log.events = []
            log.mark = 0
            log.mark2 = 0
        else:
            log.add('quiesce', 'A1', 'none')
            traces.append({'api': [t for t in trace[1:]], 'init': trace[0], 'evs': log.events})

    d.after_call = after_call
    d.no_bulk = True
    d.on_behaviour = on_behaviour
    session.Adapter.after_project = staticmethod(lambda: log.add('quiesce', 'A1', 'none'))
    try:
        for i in range(nbeh):
            d.run_behaviour(7)
    finally:
        session.Adapter.after_project = None
        d.close()
    return traces, d.found, problems, d.stats


def check_w(w, log, mode):
    """After a successful commit: every row whose last statement since the previous check was an INSERT/UPDATE
    must hold the value the hook computed."""
    start = getattr(log, 'mark', 0)
    last = {}
    for e in log.events[start:]:
        if e['t'] == 'stmt':
            last[e['o']] = e['k']
    log.mark = len(log.events)
    con = w.raw()
    try:
        for o, k in last.items():
            if k == 'delete':
                continue
            table, col = ('ta', 'v') if o[0] == 'A' else ('tb', 'u')
            row = con.execute('SELECT %s, w FROM %s WHERE id = ?' % (col, table), (int(o[1:]),)).fetchone()
            if row is None:
                continue
            if mode == 'modify' and row[1] != (row[0] or 0) + 10:
                return 'before_%s hook of %s set w = %s + 10 but the committed row has w = %r' % (k, o, row[0], row[1])
            if mode == 'after_modify' and o[0] == 'A' and k == 'insert' and row[1] != 99:
                return 'after_insert hook of %s set w = 99 but the committed row has w = %r' % (o, row[1])
    finally:
        con.close()
    return None


def validate(ctx, traces):
    """One TLC run over all traces; returns the set of accepted trace ids and the furthest position per id."""
    inputs = [{'tid': i + 1, 'evs': t['evs']} for i, t in enumerate(traces)]
    res = tlc.run('PonyHooks', 'INIT Init\nNEXT Next\nINVARIANT TypeOK\nCONSTRAINT Track\nPOSTCONDITION Report\nCHECK_DEADLOCK FALSE\n',
                  ctx.scratch, env={'IN': _write(ctx, inputs)}, workers=1, must_succeed=True)
    accepted, progress = set(), {}
    for v in res.printed():
        if isinstance(v, tuple) and len(v) == 2 and v[0] == 'accepted':
            accepted = set(v[1])
        elif isinstance(v, tuple) and len(v) == 2 and v[0] == 'progress':
            for tid, pos in v[1]:
                progress[tid] = max(progress.get(tid, 0), pos)
    return accepted, progress, res


def _write(ctx, inputs):
    import json
    p = ctx.scratch.path('hooks', 'traces-%d.json' % random.randrange(10 ** 9))
    with open(p, 'w') as f:
        json.dump(inputs, f)
    return p


def run(ctx):
    quick = ctx.tier == 'quick'
    nbeh = 250 if quick else 1500
    all_traces = []
    states = transitions = 0
    for si, shape in enumerate(SHAPES if not quick else SHAPES[:2]):
        nodes, edges, inits, res = tlc.dump_graph('PonySession', session.cfg_props(shape, 4), ctx.scratch,
                                                  tag='PonySession-%s' % shape, workers=4)
        states += res.distinct
        transitions += res.generated
        for mi, mode in enumerate(MODES):
            g = session.Graph(nodes, edges, inits)
            traces, found, problems, stats = run_mode(ctx, shape, mode, g, nbeh, ctx.seed * 100 + si * 10 + mi)
            for t in traces:
                t['shape'], t['mode'] = shape, mode
            all_traces += traces
            for category, what, trace in found:
                if category == 'crash' and 'FOREIGN KEY constraint failed' in what and session_check.repointed_then_deleted(trace):
                    # the recorded C16 finding (see harness/session_check.py): named by its history
                    ctx.mismatch('C33:flush-order:repointed-dependent-deleted-after-its-old-parent', what, {'shape': shape, 'mode': mode, 'trace': trace})
                elif category == 'crash':
                    ctx.mismatch('C33:%s:%s:crash:%s' % (shape, mode, what.split('\n')[0][:60]), what, {'shape': shape, 'mode': mode, 'trace': trace})
            for bad, evs in problems:
                ctx.mismatch('C33:%s:%s:hook-edit-not-saved' % (shape, mode), bad, {'shape': shape, 'mode': mode, 'events': evs[-40:]})
    accepted, progress, res = validate(ctx, all_traces)
    nontrivial = 0
    for i, t in enumerate(all_traces):
        tid = i + 1
        hooks = sum(1 for e in t['evs'] if e['t'] in ('before', 'after'))
        if hooks:
            nontrivial += 1
        if tid not in accepted:
            pos = progress.get(tid, 1)
            evs = t['evs']
            first_bad = evs[pos - 1] if pos - 1 < len(evs) else None
            ctx.mismatch('C33:%s:%s:trace-rejected:%s-%s' % (t['shape'], t['mode'], first_bad and first_bad['t'], first_bad and first_bad['k']),
                         'hook/statement trace rejected by PonyHooks.tla at event %d %r (matched prefix: %r)' % (pos, first_bad, evs[max(0, pos - 6):pos - 1]),
                         {'shape': t['shape'], 'mode': t['mode'], 'api': t['api'], 'init': t['init'], 'events': evs, 'rejected_at': pos})
    # the binding is real: dropping one hook event from an accepted trace must make TLC reject it
    corrupted = []
    for t in all_traces:
        evl = t['evs']
        idx = [k for k, e in enumerate(evl) if e['t'] == 'before' and
               any(f['t'] == 'stmt' and f['o'] == e['o'] for f in evl[k + 1:k + 8])]
        if idx and len(corrupted) < 20:
            evs = list(t['evs'])
            del evs[idx[0]]
            corrupted.append({'evs': evs})
    if corrupted:
        acc2, _, _ = validate(ctx, corrupted)
        if acc2:
            raise MachineryError('PonyHooks.tla accepted %d traces with a hook event removed: the trace specification is vacuous' % len(acc2))
    for t in all_traces[:200]:
        if sum(1 for e in t['evs'] if e['t'] == 'stmt') >= 2:
            ctx.sample({'shape': t['shape'], 'mode': t['mode'], 'events': t['evs'][:30]})
    ctx.coverage.update({
        'states': states + res.distinct, 'transitions': transitions + res.generated,
        'traces_validated_against_impl': len(all_traces),
        'traces_with_hook_events': nontrivial,
        'hook_events': sum(1 for t in all_traces for e in t['evs'] if e['t'] in ('before', 'after')),
        'statements': sum(1 for t in all_traces for e in t['evs'] if e['t'] == 'stmt'),
        'corrupted_traces_rejected': len(corrupted),
        'hook_modes': MODES,
    })
    ctx.assumptions += ['statements are attributed to objects by table name and primary key parameter of the INSERT/UPDATE/DELETE '
                        'seen by the sqlite3 connection; SQLite only; behaviours from PonySession.tla at level 4']


def replay(ctx, rep):
    print('shape %s, hook mode %s' % (rep.get('shape'), rep.get('mode')))
    for e in rep.get('events', [])[:rep.get('rejected_at', 10 ** 9)]:
        print('   ', e)
    print('API calls of the behaviour: %r' % (rep.get('api'),))
    ctx.violations.append('replayed')
