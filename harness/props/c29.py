"""C29 - JSON and array operations in queries match Python semantics.

E1 (spec -> code): spec/JsonDocTables.tla enumerates stored documents (depth <= 2, keys needing quoting, null,
booleans, numbers, empty containers), arrays, path/condition/length/membership queries and, with the operators
of spec/JsonDoc.tla (Path, Compare, Truthy, Contains, Length, ArrayAnswer), the expected answer of every query
on every document.  The harness stores the documents in a real SQLite database and runs every query through
pony twice: with the JSON1 functions (`provider.json1_available` True) and with it forced False (py_json_*
fallbacks), with the keys/constants written in the query and passed as parameters (also two paths in one query sharing
a parameter and differing in a constant key), and compares row by row.
Where Python would raise (missing key, ordering of unlike types, ...) conditions are not compared and a
selected path must be None.  Queries pony refuses to translate are accepted.

Path texts: TLC checks on the transcriptions (BuildPath/ParsePath/PgBuild/PgLex) that the fallback parser
recovers the keys from the built path exactly when no key contains a double quote, and that the PostgreSQL
literal always carries the keys; the harness runs the real SQLBuilder.eval_json_path + sqlite._parse_path on the
same key sequences (E1) and lets TLC judge the texts of the real PGSQLBuilder.eval_json_path with the array
literal lexer (E2, spec/JsonDocJudge.tla).

Self-check: every exported answer is first compared with CPython on the decoded document.
"""
import json
import re
import sqlite3

from .. import mockdb, tlc
from ..tlc import MachineryError
from .c28 import py, same
from pony.orm import core
from pony.orm.core import db_session, select, Optional, PrimaryKey
from pony.orm.ormtypes import Json, IntArray, StrArray
from pony.orm.sqlbuilding import SQLBuilder
from pony.orm.dbproviders import sqlite as pony_sqlite

LEVEL = 'exploration'

REFUSALS = (core.TranslationError, NotImplementedError, TypeError)
DB_ERRORS = (core.OperationalError, core.DatabaseError, core.ProgrammingError, core.DataError, core.InternalError, sqlite3.Error)


# ---------------------------------------------------------------------------------------------------
# self-check of the oracle against CPython

def py_path(doc, keys):
    v = doc
    for k in keys:
        try:
            if isinstance(v, str):
                return ('missing', None)       # Python would index the string; not a JSON path step
            v = v[k]
        except (KeyError, IndexError, TypeError):
            return ('missing', None)
    return ('ok', v)


PYOPS = {'==': lambda a, b: a == b, '!=': lambda a, b: a != b, '<': lambda a, b: a < b, '<=': lambda a, b: a <= b,
         '>': lambda a, b: a > b, '>=': lambda a, b: a >= b}


def tri(f):
    try:
        return 'T' if f() else 'F'
    except TypeError:
        return 'U'


def neg(r):
    return {'T': 'F', 'F': 'T'}.get(r, r)


def selfcheck_json(t):
    docs = [py(d) for d in t['docs']]
    consts = [py(c) for c in t['consts']]
    n = 0
    for ki, keys in enumerate(t['keys']):
        pk = [py(k) for k in keys]
        for di, doc in enumerate(docs):
            a = t['json'][ki][di]
            st, v = py_path(doc, pk)
            exp_path = a['path']
            if (st == 'ok') != (exp_path['t'] != 'missing') or (st == 'ok' and not same(v, py(exp_path))):
                raise MachineryError('JsonDoc.Path disagrees with CPython: %r%s -> %r, model %r' % (doc, pk, (st, v), exp_path))
            if st != 'ok':
                flat = [a['len']['t'] == 'undef'] + [x == 'U' for x in a['truthy'] + a['isnone']] + \
                       [x == 'U' for row in a['cmp'] for x in row] + [x == 'U' for pair in a['isin'] for x in pair]
                if not all(flat):
                    raise MachineryError('answers on a missing path must be left open: %r%s' % (doc, pk))
                continue
            want = {'truthy': ['T' if v else 'F', 'F' if v else 'T'], 'isnone': ['T' if v is None else 'F', 'F' if v is None else 'T']}
            for name in want:
                if a[name] != want[name]:
                    raise MachineryError('JsonDoc %s disagrees with CPython on %r: %r vs %r' % (name, v, a[name], want[name]))
            try:
                ln = len(v)
            except TypeError:
                ln = None
            if (ln is None) != (a['len']['t'] == 'undef') or (ln is not None and py(a['len']) != ln):
                raise MachineryError('JsonDoc.Length disagrees with CPython on %r: %r' % (v, a['len']))
            for oi, op in enumerate(t['ops']):
                for ci, c in enumerate(consts):
                    w = tri(lambda: PYOPS[op](v, c))
                    if a['cmp'][oi][ci] != w:
                        raise MachineryError('JsonDoc.Compare disagrees with CPython: %r %s %r -> %s, model %s' % (v, op, c, w, a['cmp'][oi][ci]))
            for ii, key in enumerate(t['inkeys']):
                if isinstance(v, (dict, list)):
                    w = 'T' if key in v else 'F'
                    if a['isin'][ii] != [w, neg(w)]:
                        raise MachineryError('JsonDoc.Contains disagrees with CPython: %r in %r' % (key, v))
                elif a['isin'][ii] != ['U', 'U']:
                    raise MachineryError('JsonDoc.Contains must be open on %r' % (v,))
            n += 1
    return n


def pair_keys(q):
    v, c1, c2 = py(q['var']), py(q['c1']), py(q['c2'])
    return ([v, c1], [v, c2]) if q['pos'] == 1 else ([c1, v], [c2, v])


def selfcheck_pairs(t):
    docs = [py(d) for d in t['docs']]
    n = 0
    for qi, q in enumerate(t['pairq']):
        for di, doc in enumerate(docs):
            for keys, exp in zip(pair_keys(q), t['pairs'][qi][di]):
                st, v = py_path(doc, keys)
                if (st == 'ok') != (exp['t'] != 'missing') or (st == 'ok' and not same(v, py(exp))):
                    raise MachineryError('JsonDocTables.PairTable disagrees with CPython: %r%s -> %r, model %r' % (doc, keys, (st, v), exp))
                n += 1
    return n


def arr_query_py(q, arr):
    kind = q['q']
    if kind == 'index':
        try:
            return ('val', arr[py(q['i'])])
        except IndexError:
            return ('missing', None)
    if kind == 'slice':
        return ('val', arr[py(q['i']):py(q['j'])])
    if kind == 'len':
        return ('val', len(arr))
    if kind == 'in':
        r = py(q['c']) in arr
        return ('tri', 'T' if r != q['neg'] else 'F')
    if kind == 'truthy':
        return ('tri', 'T' if bool(arr) != q['neg'] else 'F')


def selfcheck_arrays(t):
    n = 0
    for arrs, qs, ans in ((t['intarrs'], t['intq'], t['intans']), (t['strarrs'], t['strq'], t['strans'])):
        for qi, q in enumerate(qs):
            for di, arr in enumerate(arrs):
                a = ans[qi][di]
                st, v = arr_query_py(q, [py(x) for x in arr])
                ok = (a == v) if st == 'tri' else (a.get('t') == 'missing') if st == 'missing' else \
                    (isinstance(a, dict) and a.get('t') != 'missing' and same(py(a), v))
                if not ok:
                    raise MachineryError('JsonDoc.ArrayAnswer disagrees with CPython: %r on %r -> %r, model %r' % (q, arr, (st, v), a))
                n += 1
    return n


# ---------------------------------------------------------------------------------------------------
# databases

def make_db(json1):
    db = core.Database()

    class J(db.Entity):
        id = PrimaryKey(int)
        data = Optional(Json)

    class A(db.Entity):
        id = PrimaryKey(int)
        ia = Optional(IntArray)

    class SA(db.Entity):
        id = PrimaryKey(int)
        sa = Optional(StrArray)
    db.bind('sqlite', ':memory:')
    db.generate_mapping(create_tables=True)
    if not db.provider.json1_available:
        raise MachineryError('this SQLite build has no JSON1 functions (provider.json1_available is False)')
    db.provider.json1_available = json1
    return db


class Refused(Exception):
    pass


class Failed(Exception):
    pass


class Runner(object):
    """Runs one query text over a table; when the database refuses the whole statement, over groups of rows and
    then over single rows, so that an error caused by some documents does not hide the answers for the others."""

    def __init__(self, entity_name, db, groups_of=None):
        self.db = db
        self.ns = {entity_name: getattr(db, entity_name)}
        self.var = entity_name
        self.executed = 0
        self.refused = 0
        self.assumed = 0

    def run(self, head, cond, params, ids, groups):
        """head: 'x.id' or '(x.id, expr)'; cond: condition text or None.  Returns {id: row or ('error', family)};
        rows absent from the result of a condition query are reported as absent by the caller.  None = refused."""
        def text(extra):
            conds = [c for c in (extra, '(%s)' % cond if cond else None) if c]
            return '%s for x in %s%s' % (head, self.var, (' if ' + ' and '.join(conds)) if conds else '')

        def attempt(extra, more):
            """Translation first (pony may refuse: Refused), then execution (any exception is an execution failure)."""
            self.executed += 1
            with db_session:
                try:
                    q = select(text(extra), dict(self.ns), dict(params, **more))
                    q.get_sql()
                except REFUSALS:
                    raise Refused()
                try:
                    return q[:]
                except Exception as e:
                    core.rollback()
                    raise Failed('%s: %s' % (type(e).__name__, str(e)[:80]))
        try:
            return {'rows': attempt(None, {}), 'errors': {}}
        except Refused:
            self.refused += 1
            return None
        except Failed:
            pass
        errors = {}
        rows = []
        for group in groups:
            try:
                rows += attempt('x.id in ids_', {'ids_': list(group)})
                continue
            except Refused:
                self.refused += 1
                return None
            except Failed:
                pass
            # single rows; a group holds documents on which the path behaves alike, so once the first two rows fail in
            # the same way and none succeeded, the rest of the group is taken to fail in that way too
            seen = []
            uniform = True
            for n, rid in enumerate(group):
                if uniform and len(seen) >= 2 and seen[0] == seen[1]:
                    errors[rid] = seen[0]
                    self.assumed += 1
                    continue
                try:
                    rows += attempt('x.id == rid_', {'rid_': rid})
                    uniform = False
                except Failed as e:
                    errors[rid] = str(e)
                    seen.append(str(e))
        return {'rows': rows, 'errors': errors}


def subs_const(keys):
    return ''.join('[%r]' % k for k in keys)


def subs_param(keys):
    return ''.join('[k%d]' % i for i in range(len(keys))), {'k%d' % i: k for i, k in enumerate(keys)}


def jtype(a):
    return a['path']['t']


CAST_OF = {'int': 'integer', 'bool': 'integer', 'float': 'real', 'str': 'text'}
FAITHFUL = {'integer': {'int', 'bool', 'null'}, 'real': {'int', 'float', 'bool', 'null'}, 'text': {'str', 'null'}}


class JsonChecker(object):
    def __init__(self, ctx, t, mode, counters):
        self.ctx, self.t, self.mode, self.c = ctx, t, mode, counters
        self.db = make_db(mode == 'json1')
        self.docs = [py(d) for d in t['docs']]
        with db_session:
            for i, d in enumerate(self.docs):
                self.db.J(id=i + 1, data=d)
        self.runner = Runner('J', self.db)
        self.ids = list(range(1, len(self.docs) + 1))

    def close(self):
        self.db.disconnect()

    def groups(self, ki):
        g = {}
        for di in range(len(self.docs)):
            p = self.t['json'][ki][di]['path']
            g.setdefault((p.get('why', 'defined'), type(self.docs[di])), []).append(di + 1)
        return list(g.values())

    def has_quote(self, keys):
        return any(isinstance(k, str) and '"' in k for k in keys)

    def mismatch(self, sig, what, kind, src, params, di):
        self.ctx.mismatch(sig, '[%s] %s' % (self.mode, what),
                          {'what': 'json', 'mode': self.mode, 'kind': kind, 'src': src, 'params': params, 'doc': self.t['docs'][di],
                           'reported': what})

    def error_signature(self, keys, a, di):
        why = a['path'].get('why')
        if self.mode == 'json1' and any(isinstance(k, int) and k < 0 for k in keys):
            return 'C29:json1:negative-index-in-path:query-fails'
        if why == 'key-on-list' or (self.mode == 'fallback' and isinstance(self.docs[di], list)):
            # sqlite._traverse applies a string key (of the path, or the '$.__non_existent_json_attr_name__' that JSON_QUERY
            # puts in front) to a list
            return 'C29:sqlite:string-key-applied-to-list:query-fails'
        return 'C29:%s:query-fails:%s' % (self.mode, why or jtype(a))

    def select_value(self, kind, ki, keys, head_expr, params, expected_of, sig_of):
        """Queries of the form (x.id, <expr>)."""
        src = '(x.id, %s)' % head_expr
        res = self.runner.run(src, None, params, self.ids, self.groups(ki))
        self.c['queries'] += 1
        if res is None:
            self.c['refused'] += 1
            return
        got = {r[0]: r[1] for r in res['rows']}
        for di in range(len(self.docs)):
            a = self.t['json'][ki][di]
            rid = di + 1
            exp = expected_of(a)
            if rid in res['errors']:
                self.c['cells'] += 1
                self.mismatch(self.error_signature(keys, a, di), '%s for x in J fails with %s on the document %r' % (
                    src, res['errors'][rid], self.docs[di]), kind, src, params, di)
                continue
            if exp is None:
                continue
            self.c['cells'] += 1
            if exp[0] == 'val':
                self.c['nontrivial'].add((kind, a['path']['t'], a['path'].get('why')))
            if exp[0] == 'val' and rid in got and same(got[rid], exp[1]) and di % 17 == ki % 17 and isinstance(exp[1], (list, dict, str)):
                self.ctx.sample({'mode': self.mode, 'query': src + ' for x in J', 'params': params, 'document': self.docs[di],
                                 'expected_by_tlc': exp[1], 'pony': got[rid]}, limit=4)
            if rid not in got or not same(got[rid], exp[1]):
                self.mismatch(sig_of(a, got.get(rid, '<no row>')), '%s for x in J gives %r for the document %r, Python gives %r' % (
                    src, got.get(rid, '<no row>'), self.docs[di], exp[1]) + (' (params %r)' % params if params else ''),
                    kind, src, params, di)

    def select_ids(self, kind, ki, keys, cond, params, answer_of, sig_of):
        """Queries of the form x.id for x in J if <cond>."""
        res = self.runner.run('x.id', cond, params, self.ids, self.groups(ki))
        self.c['queries'] += 1
        if res is None:
            self.c['refused'] += 1
            return
        got = set(res['rows'])
        src = 'x.id for x in J if ' + cond
        for di in range(len(self.docs)):
            a = self.t['json'][ki][di]
            rid = di + 1
            if rid in res['errors']:
                self.c['cells'] += 1
                self.mismatch(self.error_signature(keys, a, di), '%s fails with %s on the document %r' % (
                    src, res['errors'][rid], self.docs[di]), kind, src, params, di)
                continue
            exp = answer_of(a)
            if exp == 'U':
                continue
            self.c['cells'] += 1
            self.c['nontrivial'].add((kind, a['path']['t'], exp))
            if (rid in got) == (exp == 'T') and exp == 'T' and kind == 'cmp' and di % 13 == ki % 13:
                self.ctx.sample({'mode': self.mode, 'query': src, 'params': params, 'document': self.docs[di],
                                 'expected_by_tlc': 'selected', 'pony': 'selected'}, limit=7)
            if (rid in got) != (exp == 'T'):
                self.mismatch(sig_of(a, exp), '%s %s the document %r, in Python the condition is %s' % (
                    src, 'selects' if rid in got else 'does not select', self.docs[di], exp == 'T') +
                    (' (params %r)' % params if params else ''), kind, src, params, di)

    def run_pairs(self):
        """Two parametrised paths in one query: (x.id, x.data[v][c1], x.data[v][c2]) with v a statement parameter."""
        t = self.t
        for qi, q in enumerate(t['pairq']):
            k1, k2 = pair_keys(q)
            if q['pos'] == 1:
                e1, e2 = 'x.data[v][%r]' % k1[1], 'x.data[v][%r]' % k2[1]
            else:
                e1, e2 = 'x.data[%r][v]' % k1[0], 'x.data[%r][v]' % k2[0]
            src = '(x.id, %s, %s)' % (e1, e2)
            params = {'v': py(q['var'])}
            quote = self.has_quote(k1 + k2)
            groups = {}
            for di in range(len(self.docs)):
                a1, a2 = t['pairs'][qi][di]
                groups.setdefault((a1.get('why'), a2.get('why'), type(self.docs[di])), []).append(di + 1)
            res = self.runner.run(src, None, params, self.ids, list(groups.values()))
            self.c['queries'] += 1
            if res is None:
                self.c['refused'] += 1
                continue
            got = {r[0]: r[1:] for r in res['rows']}
            for di in range(len(self.docs)):
                rid = di + 1
                answers = t['pairs'][qi][di]
                if rid in res['errors']:
                    self.c['cells'] += 1
                    bad = [a for a in answers if a.get('why') == 'key-on-list'] or [answers[0]]
                    self.mismatch(self.error_signature(k1 + k2, {'path': bad[0]}, di), '%s for x in J (v=%r) fails with %s on the document %r' % (
                        src, params['v'], res['errors'][rid], self.docs[di]), 'pair', src, params, di)
                    continue
                for n, a in enumerate(answers):
                    if a.get('why') == 'index-on-str':
                        continue
                    exp = None if a['t'] == 'missing' else py(a)
                    self.c['cells'] += 1
                    if a['t'] != 'missing':
                        self.c['nontrivial'].add(('pair', n, a['t']))
                    if rid not in got or not same(got[rid][n], exp):
                        sig = 'C29:path:key-containing-double-quote' if quote else 'C29:paths-sharing-a-parameter:%s' % a['t']
                        self.mismatch(sig, '%s for x in J with v=%r gives %r for the document %r, Python gives %r for path %d' % (
                            src, params['v'], got.get(rid, '<no row>'), self.docs[di], exp, n + 1), 'pair', src, params, di)
            if len(self.ctx.violations) >= self.ctx.max_violations:
                return

    def run(self):
        t = self.t
        self.run_pairs()
        consts = [py(c) for c in t['consts']]
        for ki, tkeys in enumerate(t['keys']):
            keys = [py(k) for k in tkeys]
            quote = self.has_quote(keys)
            forms = [('const', 'x.data' + subs_const(keys), {})]
            if keys:
                sp, pp = subs_param(keys)
                forms.append(('param', 'x.data' + sp, pp))

            def path_sig(a, got, quote=quote):
                if quote:
                    return 'C29:path:key-containing-double-quote'
                return 'C29:path:%s:%s' % (a['path']['t'], a['path'].get('why', 'value'))

            def generic(kind):
                def f(a, exp, quote=quote, kind=kind):
                    if quote:
                        return 'C29:path:key-containing-double-quote'
                    return 'C29:%s:value-%s' % (kind, jtype(a))
                return f
            for form, expr, params in forms:
                # path selection: the value, or None where the path does not exist
                self.select_value('path', ki, keys, expr, params,
                                  lambda a: None if a['path'].get('why') == 'index-on-str' else
                                  ('none', None) if a['path']['t'] == 'missing' else ('val', py(a['path'])), path_sig)
                for ngi, cond in enumerate(['%s', 'not %s']):
                    self.select_ids('truthy', ki, keys, cond % expr, params, lambda a, ngi=ngi: a['truthy'][ngi],
                                    lambda a, exp, quote=quote: 'C29:path:key-containing-double-quote' if quote else
                                    'C29:truthy:float-zero' if a['path'] == {'t': 'float', 'f': 0} else 'C29:truthy:value-%s' % jtype(a))
                if form == 'const':
                    def len_sig(a, got, quote=quote):
                        if quote:
                            return 'C29:path:key-containing-double-quote'
                        return 'C29:len:%s-value' % jtype(a)
                    self.select_value('len', ki, keys, 'len(%s)' % expr, params,
                                      lambda a: None if a['len']['t'] == 'undef' else ('val', py(a['len'])), len_sig)
                for ii, key in enumerate(t['inkeys']):
                    for ngi, word in enumerate(['in', 'not in']):
                        if form == 'const':
                            cond, p2 = '%r %s %s' % (key, word, expr), params
                        else:
                            cond, p2 = 'kk %s %s' % (word, expr), dict(params, kk=key)
                        self.select_ids('in', ki, keys, cond, p2, lambda a, ii=ii, ngi=ngi: a['isin'][ii][ngi], generic('in'))
                if not keys:
                    continue            # pony refuses to compare the whole attribute
                for ngi, tail in enumerate(['is None', 'is not None']):
                    self.select_ids('isnone', ki, keys, '%s %s' % (expr, tail), params, lambda a, ngi=ngi: a['isnone'][ngi], generic('isnone'))
                if form == 'const':
                    for ngi, tail in enumerate(['== None', '!= None']):
                        self.select_ids('isnone', ki, keys, '%s %s' % (expr, tail), params, lambda a, ngi=ngi: a['isnone'][ngi],
                                        generic('isnone'))
                for oi, op in enumerate(t['ops']):
                    if form == 'param' and op not in ('==', '<'):
                        continue
                    for ci, c in enumerate(consts):
                        ctype = t['consts'][ci]['t']
                        if form == 'const':
                            cond, p2 = '%s %s %r' % (expr, op, c), params
                        else:
                            cond, p2 = '%s %s cc' % (expr, op), dict(params, cc=c)

                        def cmp_sig(a, exp, ctype=ctype, op=op, quote=quote):
                            if quote:
                                return 'C29:path:key-containing-double-quote'
                            vt = jtype(a)
                            cast = CAST_OF[ctype]
                            if vt == 'null':
                                return 'C29:cmp:json-null-value:%s' % ('ne' if op == '!=' else op)
                            if vt not in FAITHFUL[cast]:
                                return 'C29:cmp:cast-to-%s:value-of-another-json-type' % cast
                            return 'C29:cmp:%s:const-%s:value-%s' % (op, ctype, vt)
                        self.select_ids('cmp', ki, keys, cond, p2, lambda a, oi=oi, ci=ci: a['cmp'][oi][ci], cmp_sig)
                if len(self.ctx.violations) >= self.ctx.max_violations:
                    return


class ArrayChecker(object):
    def __init__(self, ctx, t, mode, counters, which):
        self.ctx, self.mode, self.c, self.which = ctx, mode, counters, which
        self.db = make_db(mode == 'json1')
        self.entity, self.attr = ('A', 'ia') if which == 'int' else ('SA', 'sa')
        self.arrs = [[py(x) for x in a] for a in t[which + 'arrs']]
        self.qs, self.ans = t[which + 'q'], t[which + 'ans']
        with db_session:
            for i, a in enumerate(self.arrs):
                getattr(self.db, self.entity)(**{'id': i + 1, self.attr: a})
        self.runner = Runner(self.entity, self.db)
        self.ids = list(range(1, len(self.arrs) + 1))

    def close(self):
        self.db.disconnect()

    def forms(self, q):
        col = 'x.' + self.attr
        kind = q['q']
        i, j, c = py(q['i']), py(q['j']), py(q['c'])
        if kind == 'index':
            return [('(x.id, %s[%d])' % (col, i), None, {}), ('(x.id, %s[n])' % col, None, {'n': i})]
        if kind == 'slice':
            out = [('(x.id, %s[%s:%s])' % (col, '' if i is None else i, '' if j is None else j), None, {})]
            if i is not None and j is not None:
                out.append(('(x.id, %s[a:b])' % col, None, {'a': i, 'b': j}))
            elif i is not None:
                out.append(('(x.id, %s[a:])' % col, None, {'a': i}))
            elif j is not None:
                out.append(('(x.id, %s[:b])' % col, None, {'b': j}))
            return out
        if kind == 'len':
            return [('(x.id, len(%s))' % col, None, {})]
        if kind == 'in':
            word = 'not in' if q['neg'] else 'in'
            return [('x.id', '%r %s %s' % (c, word, col), {}), ('x.id', 'v %s %s' % (word, col), {'v': c})]
        if kind == 'truthy':
            return [('x.id', ('not ' if q['neg'] else '') + col, {})]

    def run(self):
        for qi, q in enumerate(self.qs):
            for head, cond, params in self.forms(q):
                res = self.runner.run(head, cond, params, self.ids, [self.ids])
                self.c['queries'] += 1
                if res is None:
                    self.c['refused'] += 1
                    continue
                src = '%s for x in %s%s' % (head, self.entity, ' if ' + cond if cond else '')
                rows = res['rows']
                got = {r[0]: r[1] for r in rows} if cond is None else set(rows)
                for di, arr in enumerate(self.arrs):
                    a = self.ans[qi][di]
                    rid = di + 1
                    self.c['cells'] += 1
                    rep = {'what': 'array', 'which': self.which, 'mode': self.mode, 'head': head, 'cond': cond, 'params': params, 'arr': arr}
                    if rid in res['errors']:
                        self.ctx.mismatch('C29:array:%s:query-fails' % q['q'], '[%s] %s fails with %s on %r' % (
                            self.mode, src, res['errors'][rid], arr), rep)
                        continue
                    if cond is not None:
                        self.c['nontrivial'].add(('array-' + q['q'], len(arr), a))
                        if (rid in got) != (a == 'T'):
                            self.ctx.mismatch('C29:array:%s:%s' % (q['q'], 'not-in' if q['neg'] else 'in'),
                                              '[%s] %s %s %r (params %r), in Python the condition is %s' % (
                                                  self.mode, src, 'selects' if rid in got else 'does not select', arr, params, a == 'T'), rep)
                        continue
                    exp = None if a.get('t') == 'missing' else py(a)
                    self.c['nontrivial'].add(('array-' + q['q'], len(arr), a.get('t')))
                    if rid not in got or not same(got[rid], exp):
                        bounds = [b for b in (py(q['i']), py(q['j'])) if b is not None]
                        beyond = any(b < -len(arr) for b in bounds)
                        sig = 'C29:array:%s:negative-bound-beyond-length' % q['q'] if beyond else \
                            'C29:array:%s:%s' % (q['q'], 'out-of-range' if exp is None and q['q'] == 'index' else 'in-range')
                        self.ctx.mismatch(sig, '[%s] %s gives %r for %r (params %r), Python gives %s' % (
                            self.mode, src, got.get(rid, '<no row>'), arr, params,
                            'IndexError (None expected)' if a.get('t') == 'missing' else repr(exp)), rep)
            if len(self.ctx.violations) >= self.ctx.max_violations:
                return


# ---------------------------------------------------------------------------------------------------
# path texts

def key_of(e):
    return e['n'] if e['t'] == 'int' else ''.join(e['v'])


def check_paths(ctx, t, counters):
    """The round trip of the real path builder and the real fallback parser; PostgreSQL literals judged by TLC."""
    if not t['lawholds']:
        raise MachineryError('TLC: the transcribed path builder/parser do not satisfy the law stated in JsonDocTables')
    rows = list(t['law'])
    agree = 0
    cases = []
    pg_builder = mockdb.make('postgres', lambda db: None).provider.sqlbuilder_cls
    for r in rows:
        keys = [key_of(e) for e in r['keys']]
        text = SQLBuilder.eval_json_path(keys)
        pony_sqlite.path_cache.clear()
        parsed = pony_sqlite._parse_path(text)
        counters['path_roundtrips'] += 1
        if text == ''.join(r['build']) and (parsed == tuple(keys)) == r['rt']:
            agree += 1
        if parsed != tuple(keys):
            sig = 'C29:path:key-containing-double-quote' if r['quote'] else 'C29:fallback-path:round-trip'
            ctx.mismatch(sig, 'SQLBuilder.eval_json_path(%r) = %r, which sqlite._parse_path reads as %r' % (keys, text, parsed),
                         {'what': 'law', 'keys': keys})
        pg_text = pg_builder.eval_json_path(None, keys)
        cases.append({'keys': r['keys'], 'text': list(pg_text)})
    counters['transcription_agrees'] = agree
    # the literal as it appears in the SQL of a real PostgreSQL query (wiring of JSON_QUERY -> eval_json_path)
    wired = []

    def define(db):
        class J(db.Entity):
            data = Optional(Json)
    pgdb = mockdb.make('postgres', define)
    for r in rows:
        keys = [key_of(e) for e in r['keys']]
        if len(keys) > 2 or len(wired) >= 150:
            continue
        try:
            ast, sql, args = mockdb.translate(pgdb, lambda: select('x.data%s for x in J' % subs_const(keys), {'J': pgdb.J}))
        except REFUSALS:
            continue
        m = re.search(r"#> '((?:[^']|'')*)'", sql)
        if m:
            lit = m.group(1).replace("''", "'").replace('%%', '%')
        else:
            # the builder passes the literal as a statement parameter
            vals = list(args.values()) if isinstance(args, dict) else list(args or ())
            lits = [v for v in vals if isinstance(v, str) and v.startswith('{')]
            if '#>' not in sql or len(lits) != 1:
                raise MachineryError('cannot find the path literal of the PostgreSQL query %r %r' % (sql, args))
            lit = lits[0]
        wired.append({'keys': r['keys'], 'text': list(lit)})
    verdicts, res = tlc.evaluate('JsonDocJudge', ctx.scratch, inputs={'cases': cases + wired})
    for c, v in zip(cases + wired, verdicts):
        counters['pg_judged'] += 1
        if not v['ok']:
            keys = [key_of(e) for e in c['keys']]
            ctx.mismatch('C29:postgres-path:%s' % ('not-an-array-literal' if not v['lexed'] else 'carries-other-keys'),
                         'PGSQLBuilder.eval_json_path(%r) = %r; as a PostgreSQL array literal it reads as %r' % (
                             keys, ''.join(c['text']), [''.join(i) for i in v['items']] if v['lexed'] else 'malformed'),
                         {'what': 'pg', 'keys': keys})


# ---------------------------------------------------------------------------------------------------

def run(ctx):
    t, res = tlc.evaluate('JsonDocTables', ctx.scratch, inputs={'tier': ctx.tier})
    if t['keyorder'] != sorted(t['keyorder']) or t['strlens'] != [len(k) for k in t['keyorder']]:
        raise MachineryError('KeyOrder / StrLens of JsonDoc.tla do not match Python')
    checked = selfcheck_json(t) + selfcheck_arrays(t) + selfcheck_pairs(t)
    counters = {'queries': 0, 'refused': 0, 'cells': 0, 'nontrivial': set(), 'path_roundtrips': 0, 'pg_judged': 0, 'statements': 0, 'assumed': 0}
    for mode in ('json1', 'fallback'):
        jc = JsonChecker(ctx, t, mode, counters)
        try:
            jc.run()
        finally:
            jc.close()
            counters['statements'] += jc.runner.executed
            counters['assumed'] += jc.runner.assumed
        for which in ('int', 'str'):
            ac = ArrayChecker(ctx, t, mode, counters, which)
            try:
                ac.run()
            finally:
                ac.close()
                counters['statements'] += ac.runner.executed
    check_paths(ctx, t, counters)
    nontrivial = counters.pop('nontrivial')
    ctx.coverage.update({
        'evaluations': counters['cells'] + counters['path_roundtrips'] + counters['pg_judged'],
        'distinct_nontrivial': len(nontrivial),
        'rule': 'evaluation = one (query, stored document or array, JSON1/fallback) cell compared with the TLC-exported answer, one '
                'builder/parser round trip, or one PostgreSQL literal judged by TLC; non-trivial = distinct (operation, JSON type of '
                'the addressed value or array length, expected answer) combinations where Python defines the answer',
        'exhaustive': True,
        'queries_executed': counters['queries'], 'queries_refused_by_pony': counters['refused'],
        'statements_executed': counters['statements'], 'failing_rows_assumed_from_their_group': counters['assumed'],
        'documents': len(t['docs']), 'key_sequences': len(t['keys']), 'two_path_queries_sharing_a_parameter': len(t['pairq']), 'int_arrays': len(t['intarrs']), 'str_arrays': len(t['strarrs']),
        'oracle_cells_checked_against_cpython': checked,
        'path_key_sequences': counters['path_roundtrips'], 'pg_literals_judged': counters['pg_judged'],
        'transcription_agrees_with_code_on': counters.get('transcription_agrees'),
        'checker_cmd': 'tlc JsonDocTables (export + law of the transcriptions), tlc JsonDocJudge (PgLex)',
    })
    ctx.assumptions += [
        'SQLite only for execution (JSON1 functions of the linked SQLite and the py_json_* fallbacks); PostgreSQL path literals are '
        'judged by a TLA+ transcription of the array-literal syntax, no server',
        'stored values are containers (dict/list) of nesting depth <= 2; top-level scalar documents are not covered',
        'where Python raises on the decoded value the condition is not compared; a selected missing path must be None',
        'membership is tested with string keys/items only (pony refuses other constants)',
        'when a statement fails, it is re-run per group of documents on which the path behaves alike and then per row; after two '
        'rows of a group failed identically (and none succeeded) the other rows of the group are taken to fail the same way',
    ]


def replay(ctx, rep):
    if rep.get('reported'):
        print('reported: %s' % rep['reported'])
    if rep['what'] == 'law':
        text = SQLBuilder.eval_json_path(rep['keys'])
        print('eval_json_path(%r) = %r; _parse_path -> %r' % (rep['keys'], text, pony_sqlite._parse_path(text)))
    elif rep['what'] == 'pg':
        b = mockdb.make('postgres', lambda db: None).provider.sqlbuilder_cls
        print('PGSQLBuilder.eval_json_path(%r) = %r' % (rep['keys'], b.eval_json_path(None, rep['keys'])))
    elif rep['what'] == 'json':
        db = make_db(rep['mode'] == 'json1')
        doc = py(rep['doc'])
        with db_session:
            db.J(id=1, data=doc)
        src = rep['src'] if ' for x in ' in rep['src'] else rep['src'] + ' for x in J'
        try:
            with db_session:
                print('[%s] %s with %r on %r -> %r' % (rep['mode'], src, rep['params'], doc, select(src, {'J': db.J}, dict(rep['params']))[:]))
        except Exception as e:
            print('[%s] %s with %r on %r raises %r' % (rep['mode'], src, rep['params'], doc, e))
    else:
        db = make_db(rep['mode'] == 'json1')
        ent, attr = ('A', 'ia') if rep['which'] == 'int' else ('SA', 'sa')
        with db_session:
            getattr(db, ent)(**{'id': 1, attr: rep['arr']})
        src = '%s for x in %s%s' % (rep['head'], ent, ' if ' + rep['cond'] if rep['cond'] else '')
        with db_session:
            print('[%s] %s with %r on %r -> %r' % (rep['mode'], src, rep['params'], rep['arr'],
                                                   select(src, {ent: getattr(db, ent)}, dict(rep['params']))[:]))
    ctx.violations.append('replayed')
