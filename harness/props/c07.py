"""C07 - stored attribute values read back unchanged for every type.

E1 (case table): spec/CodecTables.tla exports, for every attribute type of spec/Validate.tla Part II (int of
each size/signedness, bool, date, time/datetime/timedelta of each precision, Decimal of several
precision/scale pairs, UUID, str/LongStr with and without autostrip, bytes, Json trees of depth <= 2,
IntArray, StrArray) and every value of its domain (extremes, precision and scale boundaries, the
adversarial alphabet), the normalised value Norm(T, v).  TLC checks the laws of the codec first.

SQLite (real execution, one in-memory database per attribute type), five observations per value:
    writer  the attribute of the creating object after flush()          must equal Norm(T, v)
    fresh   the attribute read by a new db_session                     must equal Norm(T, v)
    proj    select(x.a for x in T if x.id == i)                        must equal Norm(T, v)
    param   select(x.id for x in T if x.a == p), p = Norm(T, v)        must find the row
    get     T.get(a=p)                                                 must return the row
Values are compared with their Python type (a str is not a time, 1 is not True, 1.0 is not 1); Decimals
numerically.  TypeError / TranslationError / NotImplementedError raised by Pony for param/get are counted as
"refused" (Pony declines to compare whole Json values, empty lists, ...), not as disagreements.

PostgreSQL / MySQL (no servers): the converter objects of the real provider classes (harness/mockdb) are
exercised where both directions are Pony code: validate(v) = Norm(T, v), sql2py(py2sql(n)) = n,
dbval2val(val2dbval(n)) = n, and MySQL's timedelta -> time conversion.

Self-checks (MachineryError): the spec's calendar, timedelta normal form, Strip and Decimal quantisation
(round half even) are compared with CPython on the exported values.
"""
import datetime as dt
import decimal
import json
from decimal import Decimal
from uuid import UUID

from .. import mockdb, tlc
from ..tlc import MachineryError
from pony import orm
from pony.orm import core
from pony.orm.core import db_session
from pony.orm.asttranslation import TranslationError

LEVEL = 'exploration'

CHARS = {'E9': 'é', 'DQ': '"'}
REFUSALS = (TypeError, TranslationError, NotImplementedError)
OBSERVATIONS = ('writer', 'fresh', 'proj', 'param', 'get')


# ---------------------------------------------------------------------------------------------------
# spec values -> Python values
def chars(cs):
    return ''.join(CHARS.get(c, c) for c in cs)


def num(v):
    e, o = v['e'], v['o']
    return (0 if e == 0 else (1 if e > 0 else -1) * 2 ** abs(e)) + o


def to_py(v):
    t = v['t']
    if t == 'none':
        return None
    if t == 'int':
        return num(v)
    if t == 'bool':
        return bool(v['b'])
    if t == 'date':
        return dt.date(v['y'], v['m'], v['d'])
    if t == 'time':
        return dt.time(v['h'], v['mi'], v['s'], v['us'])
    if t == 'datetime':
        return dt.datetime(v['y'], v['m'], v['d'], v['h'], v['mi'], v['s'], v['us'])
    if t == 'timedelta':
        return dt.timedelta(days=v['d'], seconds=v['s'], microseconds=v['us'])
    if t == 'bigdec':
        return Decimal((1 if v['neg'] else 0, tuple(v['ds']), -v['s']))
    if t == 'uuid':
        n = 0
        for w in v['w']:
            n = (n << 16) | w
        return UUID(int=n)
    if t == 'str':
        return chars(v['s'])
    if t == 'bytes':
        return bytes(v['b'])
    if t == 'intarr':
        return [num(x) for x in v['items']]
    if t == 'strarr':
        return [chars(x) for x in v['items']]
    return json_py(v)


def json_py(v):
    t = v['t']
    if t == 'jnull':
        return None
    if t == 'jbool':
        return bool(v['b'])
    if t == 'jint':
        return num(v['n'])
    if t == 'jstr':
        return chars(v['s'])
    if t == 'jlist':
        return [json_py(x) for x in v['items']]
    if t == 'jdict':
        return {chars(k): json_py(x) for k, x in v['pairs']}
    raise MachineryError('unknown value tag %r' % (v,))


def plain(x):
    """tracked containers -> plain containers"""
    if isinstance(x, dict):
        return {k: plain(y) for k, y in x.items()}
    if isinstance(x, (list, tuple)):
        return [plain(y) for y in x]
    return x


def canon(x):
    """type-exact canonical text of a Json-like value (1, 1.0 and True differ)"""
    return json.dumps(plain(x), sort_keys=True, ensure_ascii=True)


EXACT = {'int': int, 'bool': bool, 'date': dt.date, 'time': dt.time, 'datetime': dt.datetime, 'timedelta': dt.timedelta,
         'uuid': UUID, 'str': str, 'bytes': bytes}


def same(ty, got, want):
    if want is None:
        return got is None
    if ty in EXACT:
        return type(got) is EXACT[ty] and got == want
    if ty == 'dec':
        return isinstance(got, Decimal) and got == want
    if ty in ('json', 'intarray', 'strarray'):
        try:
            return canon(got) == canon(want)
        except (TypeError, ValueError):
            return False
    raise MachineryError('unknown type %r' % ty)


def type_src(T):
    ty, a, b = T['ty'], T['a'], T['b']
    if ty == 'int':
        opts = (['size=%d' % a] if a else []) + (['unsigned=True'] if b else [])
        return 'Optional(int%s)' % ''.join(', ' + o for o in opts)
    if ty in ('time', 'datetime', 'timedelta'):
        return 'Optional(%s, %d)' % (ty, a)
    if ty == 'dec':
        return 'Optional(Decimal, %d, %d)' % (a, b)
    if ty == 'str':
        return 'Optional(%s%s)' % ('LongStr' if b else 'str', '' if a else ', autostrip=False')
    return 'Optional(%s)' % {'bool': 'bool', 'date': 'date', 'uuid': 'UUID', 'bytes': 'bytes', 'json': 'Json',
                             'intarray': 'IntArray', 'strarray': 'StrArray'}[ty]


def attr_args(T):
    ty, a, b = T['ty'], T['a'], T['b']
    if ty == 'int':
        kw = {}
        if a:
            kw['size'] = a
        if b:
            kw['unsigned'] = True
        return int, (), kw
    if ty in ('time', 'datetime', 'timedelta'):
        return {'time': dt.time, 'datetime': dt.datetime, 'timedelta': dt.timedelta}[ty], (a,), {}
    if ty == 'dec':
        return Decimal, (a, b), {}
    if ty == 'str':
        return (orm.LongStr if b else str), (), ({} if a else {'autostrip': False})
    return {'bool': bool, 'date': dt.date, 'uuid': UUID, 'bytes': bytes, 'json': orm.Json, 'intarray': orm.IntArray,
            'strarray': orm.StrArray}[ty], (), {}


def define(T):
    pytype, args, kw = attr_args(T)

    def _define(db):
        type(db.Entity)('T', (db.Entity,), {'id': orm.PrimaryKey(int), 'a': orm.Optional(pytype, *args, **kw)})
    return _define


# ---------------------------------------------------------------------------------------------------
# self-checks of the environment models inside the spec
def self_check(rows):
    for row in rows:
        T = row['ty']
        for c in row['cases']:
            v, n = c['v'], c['norm']
            try:
                pv, pn = to_py(v), to_py(n)
            except (ValueError, OverflowError) as e:
                raise MachineryError('Validate.tla produced a value CPython rejects: %r (%s)' % (v, e))
            if v['t'] == 'timedelta' and (pv.days, pv.seconds, pv.microseconds) != (v['d'], v['s'], v['us']):
                raise MachineryError('timedelta normal form of the spec differs from CPython on %r' % (v,))
            if v['t'] == 'str' and T['a'] == 1 and pv.strip() != pn:
                raise MachineryError('Validate.Strip disagrees with str.strip on %r' % (v,))
            if v['t'] == 'bigdec':
                with decimal.localcontext() as lc:
                    lc.prec = 100
                    q = pv.quantize(Decimal(1).scaleb(-T['b']), rounding=decimal.ROUND_HALF_EVEN)
                if q != pn or q.as_tuple().exponent != pn.as_tuple().exponent:
                    raise MachineryError('Validate.Quantize disagrees with Decimal.quantize (half even) on %r: %r vs %r' % (v, pn, q))


# ---------------------------------------------------------------------------------------------------
# SQLite execution
def exc_name(e):
    return type(e).__name__


def observe(db, E, ident, v, p):
    """Stores v in a new row and takes the five observations. Returns {name: ('val', x) | ('exc', cls, refused)}."""
    obs = {}
    try:
        try:
            with db_session:
                o = E(id=ident, a=v)
                core.flush()
                obs['writer'] = ('val', plain(o.a))
        except Exception as e:
            obs['writer'] = ('exc', exc_name(e), False)
            return obs

        def step(name, fn):
            try:
                with db_session:
                    obs[name] = ('val', fn())
            except Exception as e:
                obs[name] = ('exc', exc_name(e), isinstance(e, REFUSALS))
        step('fresh', lambda: plain(E[ident].a))
        step('proj', lambda: plain(orm.select('x.a for x in E if x.id == i', {'E': E}, {'i': ident})[:][0]))
        step('param', lambda: ident in orm.select('x.id for x in E if x.a == p', {'E': E}, {'p': p})[:])

        def get():
            r = E.get(a=p)
            return r is not None and r.id == ident
        step('get', get)
    finally:
        try:
            with db_session:
                db.execute('DELETE FROM "T"')
        except Exception as e:
            raise MachineryError('cannot clean the scratch table: %r' % (e,))
    return obs


# a double holds 53 bits: from this many days on, "days as a float" cannot resolve a single microsecond any more
FLOAT_DAYS_LIMIT = 2 ** 53 // (86400 * 10 ** 6 * 4)        # = 26062


def digits_of(d):
    return len(d.as_tuple().digits)


def signature(T, case, name, o, want):
    """Normal form of a disagreement: names the defect (type, observation, symptom), not the value."""
    ty = T['ty']
    v = case['v']
    base = 'C07:sqlite:%s:%s' % (ty, name)
    if o[0] == 'exc':
        if ty == 'timedelta' and o[1] == 'OverflowError' and abs(v['d']) == 999999999:
            return 'C07:sqlite:timedelta:largest-magnitude:overflow-on-reload'
        if ty == 'dec' and o[1] == 'InvalidOperation' and digits_of(want) > 28:
            return 'C07:sqlite:dec:more-than-28-digits:InvalidOperation'
        if name == 'get' and ty in ('json', 'intarray', 'strarray'):
            return 'C07:sqlite:get-kwargs:json-array-value-not-converted'
        return base + ':raises-' + o[1]
    got = o[1]
    if name in ('param', 'get'):
        if name == 'get' and ty in ('json', 'intarray', 'strarray'):
            return 'C07:sqlite:get-kwargs:json-array-value-not-converted'
        if ty == 'dec' and digits_of(want) > 15:
            return 'C07:sqlite:dec:more-than-15-significant-digits'
        if ty == 'timedelta' and abs(v['d']) >= FLOAT_DAYS_LIMIT:
            return 'C07:sqlite:timedelta:float-days-lose-microseconds'
        return base + ':row-not-found'
    if ty == 'dec' and isinstance(got, Decimal):
        if name == 'writer' and got == to_py(v) and got != want:
            return 'C07:dec:validate-keeps-unrounded-value'
        if digits_of(want) > 15:
            return 'C07:sqlite:dec:more-than-15-significant-digits'
    if ty == 'time' and name in ('fresh', 'proj') and type(got) is str:
        return 'C07:sqlite:time:reloads-as-str'
    if ty == 'date' and name in ('fresh', 'proj') and type(got) is str and v['y'] < 1000:
        return 'C07:sqlite:date:year-below-1000:reloads-as-str'
    if ty == 'timedelta' and type(got) is dt.timedelta and abs(v['d']) >= FLOAT_DAYS_LIMIT and abs(got - want) < dt.timedelta(seconds=1):
        return 'C07:sqlite:timedelta:float-days-lose-microseconds'
    if ty == 'json' and name in ('fresh', 'proj') and v['t'] == 'jint' and type(got) is float and abs(want) >= 2 ** 63:
        return 'C07:sqlite:json:top-level-int-beyond-int64:reloads-as-float'
    if type(got) is not type(want):
        return base + ':type-' + type(got).__name__
    return base + ':value'


def run_sqlite(ctx, rows, counters):
    for row in rows:
        T = row['ty']
        db = core.Database()
        define(T)(db)
        db.bind('sqlite', ':memory:')
        db.generate_mapping(create_tables=True)
        E = db.T
        ident = 0
        try:
            for case in row['cases']:
                ident += 1
                v, want = to_py(case['v']), to_py(case['norm'])
                obs = observe(db, E, ident, v, want)
                counters['cases'] += 1
                if case['nontrivial']:
                    counters['nontrivial'].add((type_src(T), json.dumps(case['v'], sort_keys=True)))
                for name in OBSERVATIONS:
                    o = obs.get(name)
                    if o is None:
                        continue
                    counters['evaluations'] += 1
                    counters['by_obs'][name] = counters['by_obs'].get(name, 0) + 1
                    if o[0] == 'exc' and o[2] and name in ('param', 'get'):
                        counters['refused'][T['ty'] + ':' + name] = counters['refused'].get(T['ty'] + ':' + name, 0) + 1
                        continue
                    if o[0] == 'val' and (o[1] is True if name in ('param', 'get') else same(T['ty'], o[1], want)):
                        continue
                    if o[0] == 'exc':
                        what = 'a = %s on SQLite, value %r: %s raises %s' % (type_src(T), v, DESCR[name], o[1])
                    elif name in ('param', 'get'):
                        what = 'a = %s on SQLite, value %r stored as %r: %s with p = %r does not find the row' % (
                            type_src(T), v, want, DESCR[name], want)
                    else:
                        what = 'a = %s on SQLite, value %r: %s is %r, expected %r' % (type_src(T), v, DESCR[name], o[1], want)
                    ctx.mismatch(signature(T, case, name, o, want), what,
                                 {'mode': 'sqlite', 'ty': T, 'case': case, 'observation': name})
                if case['nontrivial'] and T['ty'] not in counters['sampled'] and case['norm'] != case['v']:
                    counters['sampled'].add(T['ty'])
                    ctx.sample({'attribute': type_src(T), 'value': repr(v), 'expected_everywhere': repr(want),
                                'observations': {k: (repr(o[1]) if o[0] == 'val' else 'raises ' + o[1]) for k, o in obs.items()}})
        finally:
            db.disconnect()


DESCR = {'writer': 'the attribute in the writing session after flush()', 'fresh': 'the attribute read by a fresh db_session',
         'proj': 'select(x.a for x in T if x.id == i)', 'param': 'select(x.id for x in T if x.a == p)', 'get': 'T.get(a=p)'}


# ---------------------------------------------------------------------------------------------------
# converter level: PostgreSQL and MySQL provider classes, no server
def provider_supports(prov, T):
    if T['ty'] in ('intarray', 'strarray') and prov == 'mysql':
        return False                              # MySQL has no array types
    if T['ty'] in ('time', 'datetime', 'timedelta') and prov == 'mysql' and T['a'] != 0:
        return False                              # the unconnected MySQL provider only knows precision 0
    return True


def run_converters(ctx, rows, counters):
    for prov in ('postgres', 'mysql'):
        for row in rows:
            T = row['ty']
            if not provider_supports(prov, T):
                continue
            try:
                db = mockdb.make(prov, define(T))
            except Exception as e:
                if T['ty'] == 'int' and T['a'] == 64 and T['b'] == 1:
                    continue
                raise MachineryError('cannot map %s on the %s provider classes: %r' % (type_src(T), prov, e))
            conv = db.T.a.converters[0]
            for case in row['cases']:
                if case['v']['t'] == 'none':
                    continue
                v, want = to_py(case['v']), to_py(case['norm'])
                counters['converter_cases'] += 1

                def bad(step, got, why=None):
                    sig = 'C07:%s:%s:converter:%s' % (prov, T['ty'], step)
                    if T['ty'] == 'dec' and step == 'validate' and isinstance(got, Decimal) and got == v and got != want:
                        sig = 'C07:dec:validate-keeps-unrounded-value'
                    ctx.mismatch(sig, 'a = %s, %s converter %s, value %r: %s gives %r, expected %r' % (
                        type_src(T), prov, type(conv).__name__, v, step, got, want),
                        {'mode': 'converter', 'provider': prov, 'ty': T, 'case': case, 'step': step})
                try:
                    n = conv.validate(v, None)
                except Exception as e:
                    bad('validate', 'raises ' + exc_name(e))
                    continue
                counters['evaluations'] += 1
                if not same(T['ty'], n, want):
                    bad('validate', n)
                    n = want
                # both directions are Pony code (the driver is not involved) for these pairs
                try:
                    if T['ty'] in ('json', 'intarray', 'strarray'):
                        back = conv.dbval2val(conv.val2dbval(n, None), None)
                        counters['evaluations'] += 1
                        if not same(T['ty'], back, want):
                            bad('dbval2val(val2dbval)', back)
                    elif T['ty'] == 'uuid':
                        back = conv.sql2py(conv.py2sql(n))
                        counters['evaluations'] += 1
                        if not same(T['ty'], back, want):
                            bad('sql2py(py2sql)', back)
                    elif T['ty'] == 'time' and prov == 'mysql':
                        # MySQLdb hands TIME columns over as timedelta; the conversion back is Pony code
                        td = dt.timedelta(hours=want.hour, minutes=want.minute, seconds=want.second, microseconds=want.microsecond)
                        back = conv.sql2py(td)
                        counters['evaluations'] += 1
                        if not same(T['ty'], back, want):
                            bad('sql2py(timedelta from driver)', back)
                    elif T['ty'] in ('int', 'bool', 'dec', 'date', 'datetime', 'timedelta', 'bytes', 'time'):
                        back = conv.sql2py(n)                 # the drivers return the Python type itself
                        counters['evaluations'] += 1
                        if not same(T['ty'], back, want):
                            bad('sql2py', back)
                except Exception as e:
                    bad('conversion', 'raises ' + exc_name(e))


# ---------------------------------------------------------------------------------------------------
def run(ctx):
    tables, res = tlc.evaluate('CodecTables', ctx.scratch, inputs={'tier': ctx.tier})
    rows = sorted(tables['rows'], key=lambda r: json.dumps(r['ty'], sort_keys=True))
    for r in rows:
        r['cases'].sort(key=lambda c: json.dumps(c['v'], sort_keys=True))
    self_check(rows)
    counters = {'evaluations': 0, 'cases': 0, 'nontrivial': set(), 'by_obs': {}, 'refused': {}, 'sampled': set(),
                'converter_cases': 0}
    run_sqlite(ctx, rows, counters)
    run_converters(ctx, rows, counters)
    ctx.coverage.update({
        'evaluations': counters['evaluations'],
        'distinct_nontrivial': len(counters['nontrivial']),
        'exhaustive': True,
        'attribute_types': len(rows),
        'values_stored_on_sqlite': counters['cases'],
        'observations_by_kind': counters['by_obs'],
        'refused_by_pony_not_compared': counters['refused'],
        'converter_level_cases_postgres_mysql': counters['converter_cases'],
        'spec_laws_checked_by_tlc': tables['laws'],
        'rule': 'evaluation = one observation (writer / fresh session / projection / query parameter / get) of one stored value on '
                'SQLite, or one converter step on the PostgreSQL/MySQL converter classes. The space is CTypes(tier) x ValuesOf(T, tier) '
                'of Validate.tla Part II, enumerated completely by TLC. A (type, value) pair is non-trivial when the value is not None and '
                'either normalisation changes it or it is not the zero value of its type (computed in TLA+: Validate.NonTrivial).',
        'checker_cmd': 'tlc CodecTables (Validate.Norm, value domains, laws)',
    })
    ctx.assumptions += [
        'float and FloatArray attributes are out of scope (binary floating point is outside the integer-built value domain)',
        'real execution on SQLite only; for PostgreSQL/MySQL only converter methods that are Pony code on both sides are exercised '
        '(driver-side conversion of psycopg2/MySQLdb is not available); MySQL TIME columns are assumed to arrive as timedelta',
        'a top-level None is "no value" for Json and string attributes and is not part of their domains',
        'Decimal values are compared numerically (the sign of zero and trailing zeros are not compared)',
        'Decimal rounding mode is that of Python\'s default context (half even), validated against CPython in this run',
    ]


def replay(ctx, rep):
    T, case = rep['ty'], rep['case']
    v, want = to_py(case['v']), to_py(case['norm'])
    print('attribute: a = %s   value %r   specification: every observation shows %r' % (type_src(T), v, want))
    if rep['mode'] == 'converter':
        db = mockdb.make(rep['provider'], define(T))
        conv = db.T.a.converters[0]
        try:
            n = conv.validate(v, None)
            print('%s %s.validate -> %r' % (rep['provider'], type(conv).__name__, n))
            if not same(T['ty'], n, want):
                ctx.violations.append('replayed')
        except Exception as e:
            print('validate raises %r' % (e,))
            ctx.violations.append('replayed')
        return
    db = core.Database()
    define(T)(db)
    db.bind('sqlite', ':memory:')
    db.generate_mapping(create_tables=True)
    obs = observe(db, db.T, 1, v, want)
    for name in OBSERVATIONS:
        o = obs.get(name)
        if o is None:
            continue
        ok = (o[0] == 'val' and (o[1] is True if name in ('param', 'get') else same(T['ty'], o[1], want))) or \
             (o[0] == 'exc' and o[2] and name in ('param', 'get'))
        print('%-7s %-55s -> %s%s' % (name, DESCR[name], repr(o[1]) if o[0] == 'val' else 'raises ' + o[1],
                                      '' if ok else '   <== differs'))
        if name == rep['observation'] and not ok:
            ctx.violations.append('replayed')
    db.disconnect()
