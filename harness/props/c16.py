"""C16 - flush emits writes in an order the database accepts.

Part 1 (spec/PonySession.tla): in every replayed behaviour the commit of pending creations, updates and deletions
(objects created before the object they reference, references re-pointed after creation, deletes mixed with
creates) must succeed under SQLite's immediately enforced foreign keys whenever the specification's view is well
formed. Part 2 (spec/PonyCycle.tla): two entities referencing each other through two relationships; when the
references among newly created objects form a cycle the flush must raise and commit nothing (or break the cycle and
commit everything), when they do not, it must succeed in whatever order the program created and re-pointed them.
Part 3 (spec/PonyKeys.tla): the save order when nothing references anything. Part 4 (spec/PonyOrder.tla): every sequence
of creations, re-pointings and deletions over two parents and two children, ended by the commit.
"""
from .. import session_check, session_replay, cycle_c16, keys_c14, order_c16

LEVEL = 'model_checking'


def run(ctx):
    quick = ctx.tier == 'quick'
    session_check.run(ctx, 'C16')
    res, stats, found, nedges, nvisited = cycle_c16.run(ctx, 1500 if quick else 10000, 6 if quick else 7, (1, 2), ctx.seed)
    for what, trace in found:
        last = trace[-1] if trace else {}
        ctx.mismatch('C16:cycle:%s:pony=%s' % (last.get('op'), last.get('out')), what, {'cycle_trace': trace[1:], 'cycle_init': trace[0]})
    ctx.coverage['states'] += res.distinct
    ctx.coverage['transitions'] += res.generated
    ctx.coverage['traces_validated_against_impl'] += stats['behaviours']
    ctx.coverage['cycle_model'] = dict(stats, graph_transitions=nedges, graph_transitions_replayed=nvisited)
    # spec/PonyKeys.tla: the save order of a flush when nothing references anything (one statement per queued object, in
    # queue order): a flush the specification says succeeds must succeed
    res, stats, found = keys_c14.run(ctx, 800 if quick else 8000, 6 if quick else 8, ctx.seed + 5, check_level=7 if quick else 9, qnull=False)
    keys_c14.report(ctx, 'C16', res, stats, found)
    # spec/PonyOrder.tla: every sequence of creations, re-pointings and deletions over two parents and two children (the
    # references always form a forest), ended by the commit: it must succeed and store the session's view
    ctx.coverage['order_model'] = []
    for mode, level in (('refuse', 6 if quick else 8), ('cascade', 5 if quick else 7), ('unlink', 4 if quick else 6)):
        res, stats, found = order_c16.run(ctx, level, mode)
        for known, what, rep in found:
            if known and mode == 'refuse':
                ctx.mismatch('C16:flush-order:repointed-dependent-deleted-after-its-old-parent', what, {'order_path': rep})
            else:
                ctx.mismatch('C16:order:%s:%s:%s' % (mode, '-'.join(c[0] for c in rep['calls']), what.split(':')[0][:40]), what, {'order_path': rep})
        ctx.coverage['states'] += res.distinct
        ctx.coverage['transitions'] += res.generated
        ctx.coverage['traces_validated_against_impl'] += stats['paths']
        ctx.coverage['order_model'].append(stats)


def replay(ctx, rep):
    if 'order_path' in rep:
        order_c16.replay(ctx, rep)
        ctx.violations.append('replayed')
        return
    if 'keys_trace' in rep:
        keys_c14.replay(ctx, rep)
        ctx.violations.append('replayed')
        return
    if 'cycle_trace' in rep:
        import random
        w = cycle_c16.World(ctx.scratch.path('db', 'cycle.sqlite'))
        w.reset(rep.get('cycle_init'))
        st = {'objs': {}}
        for t in rep['cycle_trace']:
            if t['out'] == 'crash':
                break
            print(t, '->', cycle_c16.execute(w, st, t, random.Random(0)))
        print('database:', w.dump())
        ctx.violations.append('replayed')
        return
    session_replay.replay(ctx, rep)
