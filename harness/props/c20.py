"""C20 - optimistic concurrency control prevents lost updates.

Specification: spec/PonyOCC.tla (concurrent db_sessions on shared rows at statement granularity).  TLC checks
`NoLostUpdate` (an UPDATE is applied only if every optimistic attribute the program had read from that object
and not overwritten still has the value it saw), `FailedContributeNothing` and the other invariants of the
module exhaustively over all programs of the bounded alphabet and all interleavings.
Binding R: the interleavings of the bounded model (path cover of TLC's state graph; TLC -simulate behaviours
for the larger bounds) are replayed on real threads - one pony db_session per thread on one file-backed SQLite
database, stepped by a controller; provider.transaction_lock is replaced by a lock that reports blocked
acquirers (harness/sched_occ.py).  Compared at every step: blocked/ran, the value each read returned, the
error family (OptimisticCheckError / UnrepeatableReadError, also inside CommitException) and the committed rows
read through an independent sqlite3 connection.
PostgreSQL paths are not executed (no server).
"""
from .. import sched_occ as so

LEVEL = 'model_checking'

SCALAR = ('R', 'W', 'Q', 'F')


def plan(tier):
    if tier == 'quick':
        return [
            # 2 sessions, 1 row, programs <= 2 over {R, W, Q(requery), QR(query filtering on an attribute), F(flush)};
            # attribute b nullable and NULL at first (criteria IS NULL), excluded from optimistic checks (optimistic=False / float) or volatile; every
            # other replay declares b in a subclass and queries through the base entity
            dict(name='c20-2s-1o-2ops-kinds', how='graph', limit=560,
                 cfg=dict(NS=2, NO=1, MaxOps=2, KB=('null', 'nonopt', 'volatile'), OpSet=SCALAR + ('QR',))),
            # one db_session with two transactions: lock (by pk / by unique key), commit(), read, write, against a
            # concurrent writer - all programs of <= 4 such operations
            dict(name='c20-commit-in-the-middle', how='graph', limit=220,
                 cfg=dict(NS=2, NO=1, MaxOps=4, MaxOpsN=1, OpSet1=('GFU', 'CM', 'R', 'W'), OpSet=('W',),
                          LockModes=('wait', 'bykey'))),
            # two rows, 3 operations, deletes, locked objects, explicit commits: sampled behaviours
            dict(name='c20-2s-2o-3ops-sim', how='simulate', num=220, depth=14,
                 cfg=dict(NS=2, NO=2, MaxOps=3, KB=('opt', 'null', 'nonopt'), OpSet=SCALAR + ('D', 'GFU', 'CM', 'QR'))),
        ]
    return [
        # 3-operation programs over the full scalar alphabet, every attribute kind: exhaustive + several thousand replays
        dict(name='c20-2s-1o-3ops-kinds', how='graph', limit=4500,
             cfg=dict(NS=2, NO=1, MaxOps=3, KB=('opt', 'null', 'nonopt', 'volatile'), OpSet=SCALAR)),
        # queries that filter on an attribute (read bit through _set_rbits) and explicit commit(), exhaustive, replayed
        dict(name='c20-qr-commit', how='graph', limit=3000,
             cfg=dict(NS=2, NO=1, MaxOps=3, KB=('opt', 'nonopt'), OpSet=('R', 'W', 'QR', 'CM'))),
        dict(name='c20-commit-in-the-middle', how='graph', limit=2500,
             cfg=dict(NS=2, NO=1, MaxOps=4, OpSet1=('GFU', 'CM', 'R', 'W'), OpSet=('W',), LockModes=('wait', 'bykey'))),
        # every session mode, deletes, locked objects, rollback, commit(); -coverage: no action of the module is dead
        dict(name='c20-coverage', how='check', coverage=True,
             cfg=dict(NS=2, NO=1, MaxOps=2, Modes=('opt', 'imm', 'ser'), OpSet=SCALAR + ('D', 'GFU', 'X', 'CM'))),
        # 3 sessions (queue of blocked acquirers), exhaustive
        dict(name='c20-3s-1o-2ops', how='check',
             cfg=dict(NS=3, NO=1, MaxOps=2, OpSet=('R', 'W', 'F'))),
        dict(name='c20-2s-2o-2ops', how='graph', limit=2500,
             cfg=dict(NS=2, NO=2, MaxOps=2, OpSet=SCALAR + ('D',))),
        # 3 sessions, programs <= 4, two rows: the exhaustive search does not finish in the budget -> simulation
        dict(name='c20-3s-2o-4ops-sim', how='simulate', num=2500, depth=24,
             cfg=dict(NS=3, NO=2, MaxOps=4, Modes=('opt', 'imm'), OpSet=SCALAR + ('D', 'GFU', 'X', 'CM', 'QR'),
                      LockModes=('wait', 'bykey'))),
        dict(name='c20-3s-kinds-sim', how='simulate', num=800, depth=24,
             cfg=dict(NS=3, NO=2, MaxOps=4, KA=('nonopt', 'volatile'), OpSet=SCALAR + ('D', 'CM', 'QR'))),
    ]


def run(ctx):
    so.run_plan(ctx, plan(ctx.tier))
    ctx.assumptions += [
        'SQLite provider only: PostgreSQL/MySQL/Oracle paths are not executed (no server in the sandbox)',
        'non-optimistic (serializable / optimistic=False) sessions are outside NoLostUpdate, as in the property: after an explicit commit() they keep their cache and send unguarded UPDATEs',
        'DELETE statements carry no optimistic criteria in pony (_save_deleted_); NoLostUpdate speaks of UPDATEs as the property does',
        'quick tier replays a class-covering subset of the state graph edges; thorough replays every edge of the 3-operation model',
    ]


def replay(ctx, rep):
    so.replay_entry(ctx, rep)
