"""C05 - query, SQL and result caches are transparent.

Spec: spec/PonyCache.tla with one thread: a program is a *history* - executions of queries / raw statements with
parameter values and types from the spec's alphabets, interleaved with Modify, Flush, Commit, NewSession, Rollback.
A query may be a *chain* (spec/PonyCacheQueries.tla): a base query that bakes a parameter value in (string slice bound,
string index, getattr name) followed by .filter/.where/.order_by lambda steps - every prefix of the chain has its own
translator-cache entry, a chained translator is a copy of its parent's and inherits the baked-in value; the same code
objects are executed again with other values, alone and as prefixes of other chains.  The harness builds the chains
from the spec's table (one Python code object per generator / lambda).
TLC (i) proves Transparent (every answer equals Cold(q, p, data): the answer on empty caches) on the `fixed`
design, (ii) refutes it on the design as it is (known findings: Query._aggregate consults the result cache before
flushing; adapt_sql stores under the %-doubled text) and on seeded design errors (e.g. CompareEarlier=FALSE: a cached
chained translator is only compared on the values its own step baked in), (iii) enumerates every history of the bounded alphabet with,
per step, the required answer term `req` and the answer term `got` the as-is model predicts.

Binding R: each history is run twice against the real code - warm (caches as they evolve, emptied only at the start
of the history) and cold (before every execution all process-wide caches are emptied and the session's query_results
cleared; the session with its pending modifications is the same).  Answers must agree step by step, and the cold
answers must be a function of the spec's Answer term (same translation, same argument, same data => same answer, in
every history).  Histories of raw statements alone are replayed on every paramstyle (providers of harness/mockdb.py:
the adapted SQL text and arguments handed to the DB-API are the answer); everything else on a real SQLite database.
A disagreement is the known finding only where the as-is model predicts exactly that stale answer.
"""
import os
import sys
import time

from .. import mockdb
from ..tlc import MachineryError
from .. import cachemodel_c22 as cm
from ..sched_cache import clear_process_caches
from pony.orm import core
from pony.orm.core import db_session

LEVEL = 'model_checking'

_T0 = [time.time()]


def _phase(name):
    """Wall time per phase on stderr when VERIF_TIMING is set (tuning of the tiers' bounds)."""
    if os.environ.get('VERIF_TIMING'):
        now = time.time()
        sys.stderr.write('C05 phase %-28s %6.1f s\n' % (name, now - _T0[0]))
        _T0[0] = now

PROVIDER_OF_STYLE = {'qmark': 'sqlite', 'format': 'mysql', 'pyformat': 'postgres', 'named': 'oracle'}
RAW_QUERIES = ('raw_where', 'raw_pct', 'raw_pct2')


def is_mock(prog):
    return all(op['op'] == 'exec' and op['q'] in RAW_QUERIES for op in prog)


class RealEnv(object):
    def __init__(self, ctx):
        self.real = cm.RealDb(ctx.scratch, 'c05')
        self.db = self.real.db

    def close(self):
        self.real.close()

    def run(self, prog, cold):
        """One history on the real database; returns the outcome of every operation (None for session operations)."""
        db = self.db
        clear_process_caches(db)
        outs = []
        view, committed = [], []
        dirty = False
        sess = db_session()
        sess.__enter__()
        try:
            for op in prog:
                if op['op'] == 'exec':
                    if cold:
                        clear_process_caches(db)
                        c = core.local.db2cache.get(db)
                        if c is not None and c.query_results is not None:
                            c.query_results.clear()
                    outs.append(cm.outcome(lambda: cm.execute(db, op['q'], op['p'])))
                    continue
                k = op['q']
                if k in ('ModIns', 'ModUpd', 'ModM2M'):
                    view.append(k)
                    cm.modify(db, k, len(view))
                elif k == 'Flush':
                    core.flush()
                elif k == 'Commit':
                    core.commit()
                    committed = list(view)
                    dirty = dirty or bool(view)
                elif k == 'NewSession':
                    sess.__exit__(None, None, None)
                    sess = db_session()
                    sess.__enter__()
                    committed = list(view)
                    dirty = dirty or bool(view)
                elif k == 'Rollback':
                    core.rollback()
                    view = list(committed)
                else:
                    raise MachineryError('unknown session operation %r' % k)
                outs.append(None)
        finally:
            try:
                core.rollback()
            finally:
                sess.__exit__(None, None, None)
            if dirty:
                self.real.restore()
        return outs


class MockEnv(object):
    """adapt_sql level: providers without a database; the answer is what reaches the DB-API."""

    def __init__(self):
        self.dbs = {}

    def db_of(self, style):
        if style not in self.dbs:
            db = self.dbs[style] = mockdb.make(PROVIDER_OF_STYLE[style], cm.define)

            def record(sql, arguments=None, returning_id=False, start_transaction=False, db=db):
                db.handed_to_dbapi = (sql, arguments)       # what would reach cursor.execute
                return mockdb._Cursor()
            db._exec_sql = record
            if self.dbs[style].provider.paramstyle != style:
                raise MachineryError('provider %s has paramstyle %s, not %s' % (
                    PROVIDER_OF_STYLE[style], self.dbs[style].provider.paramstyle, style))
        return self.dbs[style]

    def run(self, prog, cold, style):
        db = self.db_of(style)
        clear_process_caches(db)
        outs = []
        for op in prog:
            if cold:
                clear_process_caches(db)

            def ex():
                with db_session:
                    db.handed_to_dbapi = None
                    db.execute(cm.RAW[op['q']], {}, {'p': cm.decode(op['p'])})
                    return ['val', repr(db.handed_to_dbapi)]
            out = cm.outcome(ex)
            if out[0] != 'ok':
                raise MachineryError('adapting %r for paramstyle %s failed in the harness: %r' % (cm.RAW[op['q']], style, out))
            outs.append(out)
        return outs


def show_op(op):
    return op['q'] if op['op'] == 'sess' else '%s(%s:%s)' % (op['q'], op['p']['t'], op['p']['v'])


def show(prog):
    return '; '.join(show_op(o) for o in prog)


def known_signature(q):
    if q in ('count', 'mcount', 'maxdate', 'sumdec'):
        return 'C05:_aggregate:result-cache-before-flush'
    if q in RAW_QUERIES:
        return 'C05:adapt_sql:percent-doubled-cache-key'
    return None


def check_baked(ctx, real, behs, runs):
    """Self-check of the spec's model of the translator (which steps bake the parameter value in, and that a chained
    translator inherits the value) against the real one: translator.fixed_param_values after every step of every chain
    that occurs, on empty caches.  Only meaningful where the real code answers alike warm and cold (a disagreement there
    is reported as a violation of the property, not as a fault of the model)."""
    for b, warm, cold in runs:
        if warm != cold and any(o['op'] == 'exec' and o['q'] in cm.CHAINS for o in b['prog'][0]):
            return 0
    sample = {}
    for b in behs:
        for op in b['prog'][0]:
            if op['op'] == 'exec' and op['q'] in cm.CHAINS:
                sample.setdefault(op['q'], op['p'])
    db = real.db
    for q, p in sorted(sample.items()):
        steps = cm.CHAINS[q]['steps']
        clear_process_caches(db)
        with db_session:
            v = cm.decode(p)
            query = cm.BASES[steps[0]['code']](db.T, v)
            for i, st in enumerate(steps):
                if i:
                    query = cm.STEPS[st['code']][1](query, v)
                spec_fixed = [v for s2 in steps[:i + 1] if s2['bakes']]
                real_fixed = list(query._translator.fixed_param_values.values())
                if spec_fixed != real_fixed:
                    raise MachineryError('the spec says the translator of %s for %r carries the baked-in values %r, the real one carries %r'
                                         % (st['query'], v, spec_fixed, real_fixed))
    clear_process_caches(db)
    return len(sample)


def rerun_other_value(prog):
    ex = [(o['q'], o['p']['t'], o['p']['v']) for o in prog if o['op'] == 'exec' and o['q'] in cm.CHAINS]
    return any(a[:2] == b[:2] and a[2] != b[2] for a in ex for b in ex)


def replay_histories(ctx, behs, stats):
    real = RealEnv(ctx)
    mock = MockEnv()
    runs = []
    try:
        for b in behs:
            prog = b['prog'][0]
            if is_mock(prog):
                warm = mock.run(prog, False, b['style'])
                cold = mock.run(prog, True, b['style'])
                stats['on_mock_providers'] += 1
            else:
                if b['style'] != 'qmark':
                    raise MachineryError('history with session/ORM operations exported for paramstyle %s' % b['style'])
                warm = real.run(prog, False)
                cold = real.run(prog, True)
                stats['on_sqlite'] += 1
            runs.append((b, warm, cold))
        stats['chains_whose_baked_values_match_the_real_translator'] = check_baked(ctx, real, behs, runs)
    finally:
        real.close()

    # the spec's Answer, interpreted by the cold runs: a function of (translation, argument, data) [and provider]
    answer = {}
    for b, warm, cold in runs:
        prog = b['prog'][0]
        for i, ob in enumerate(b['obs'][0]):
            if ob['op']['op'] != 'exec':
                continue
            k = cm.term_key([b['style'] if is_mock(prog) else 'db', ob['req']])
            if k not in answer:
                answer[k] = (cold[i], b)
            elif answer[k][0] != cold[i]:
                stats['executions'] += 0
                ctx.mismatch('C05:%s:answer-on-cold-caches-depends-on-history' % ob['op']['q'],
                             'on cold caches %s answers %r at step %d of [%s] but %r in [%s] (same query, argument and data)' % (
                                 show_op(ob['op']), cold[i], i + 1, show(prog), answer[k][0], show(answer[k][1]['prog'][0])),
                             {'prog': prog, 'style': b['style'], 'other': answer[k][1]['prog'][0]})
    stats['distinct_answer_terms'] = len(answer)
    # vacuity guard: a stale translator of a chain can only show if the answer depends on the baked-in value
    by_chain = {}
    for b, warm, cold in runs:
        for i, ob in enumerate(b['obs'][0]):
            q = ob['op']['q']
            if ob['op']['op'] == 'exec' and q in cm.CHAINS and cm.CHAINS[q]['baked']:
                by_chain.setdefault(q, {}).setdefault(cm.term_key([ob['op']['p']['t'], ob['req']['data']]), {})[ob['op']['p']['v']] = cm.term_key(cold[i])
    by_chain = {q: d for q, d in by_chain.items() if any(len(v) > 1 for v in d.values())}       # executed with several values
    blind = sorted(q for q, d in by_chain.items() if all(len(set(v.values())) < 2 for v in d.values()))
    if blind:
        raise MachineryError('the alphabet cannot expose a stale translator of %s: on the same data the answers for different '
                             'baked-in values of the same type are all alike' % ', '.join(blind))
    stats['chains_whose_answer_depends_on_the_baked_value'] = len(by_chain)
    fams = {}
    for b, warm, cold in runs:
        for o in warm:
            if o and o[0] == 'err':
                fams[o[1]] = fams.get(o[1], 0) + 1
    stats['executions_answered_by_an_error'] = fams

    for b, warm, cold in runs:
        prog = b['prog'][0]
        mockp = is_mock(prog)
        for i, ob in enumerate(b['obs'][0]):
            if ob['op']['op'] != 'exec':
                continue
            stats['executions'] += 1
            predicted_stale = ob['got'] != ob['req']
            if warm[i] == cold[i]:
                if predicted_stale:
                    stats['asis_deviation_predicted_but_same_value'] += 1
                continue
            stats['warm_cold_disagreements'] += 1
            q = ob['op']['q']
            sig = 'C05:%s:%s:warm-differs-from-cold' % (q, ob['op']['p']['t'])
            if predicted_stale and known_signature(q):
                # the as-is model predicts a stale answer here: the known finding iff the real answer is that stale answer
                stale = answer.get(cm.term_key([b['style'] if mockp else 'db', ob['got']]))
                if stale is None or stale[0] == warm[i]:
                    sig = known_signature(q)
            what = 'history [%s]%s: step %d %s answers %r with warm caches, %r with cold caches' % (
                show(prog), ' on paramstyle ' + b['style'] if mockp else '', i + 1, show_op(ob['op']), warm[i], cold[i])
            ctx.mismatch(sig, what, {'prog': prog, 'style': b['style']})
            break
        else:
            chain = any(o['op'] == 'exec' and o['q'] in cm.CHAINS for o in prog) and rerun_other_value(prog)
            if (len(ctx.samples) < 3 and stats['executions'] % 53 == 0) or (chain and stats.setdefault('_chain_samples', 0) < 2):
                if chain:
                    stats['_chain_samples'] += 1
                ctx.sample({'history': show(prog), 'paramstyle': b['style'], 'answers_warm_equal_cold': [w for w in warm if w]})
    stats.pop('_chain_samples', None)


def run(ctx):
    quick = ctx.tier == 'quick'
    sc = ctx.scratch
    _phase('start')
    cm.load_chains(sc)
    _phase('chain table')
    styles = '{"qmark", "format", "pyformat"}' if quick else '{"qmark", "format", "pyformat", "named"}'
    qfams = '{"QB", "QT", "QA", "QS", "QM", "QD", "QR"}'
    tfams = '{"Baked", "Types", "Aggr", "Str", "M2M", "Dyn", "Raw"}'
    cfams = '{"QC", "QK", "QW"}'        # query chains
    all_ops = cm.strset(['ModIns', 'ModUpd', 'Flush', 'Commit', 'NewSession', 'Rollback'])
    ops3 = cm.strset(['ModIns', 'Flush', 'Commit'])
    ops4 = cm.strset(['ModIns', 'Flush', 'Commit', 'NewSession'])

    # (i) Transparent holds on the repaired design (source-tree / extractor caches modelled as steps).  The chain
    # alphabets are proved in (iii): what differs between the design as it is and the repaired one concerns threads,
    # aggregates and raw statements, none of which a chain alphabet contains - the run that enumerates their histories
    # checks all invariants on them as well.
    chk = dict(NThreads=1, MemoSteps='TRUE', ParamStyles=styles, MaxExec=4, MaxMod=2)
    if quick:
        res = cm.check(sc, tag='c05-fixed', Fams=qfams, SessOps=all_ops, MinLen=3, MaxLen=3, **dict(chk, **cm.FIXED))
    else:
        res = cm.check(sc, tag='c05-fixed', Fams=tfams, SessOps=all_ops, MinLen=4, MaxLen=4, **dict(chk, **cm.FIXED))
    states, transitions = res.distinct, res.generated

    _phase('check fixed')
    # (ii) refuted on the design as it is; seeded design errors are refuted too
    refuted = {}
    if not quick:
        hist = dict(chk, SessOps=ops3, MinLen=3, MaxLen=3)
        _, cex = cm.refute(sc, 'Transparent', tag='c05-asis-aggr', Fams='{"QA"}', **hist)
        refuted['asis: _aggregate before flush'] = cex
        _, cex = cm.refute(sc, 'Transparent', tag='c05-asis-adapt', Fams='{"QR"}', **dict(hist, ParamStyles='{"format"}'))
        refuted['asis: adapt_sql key'] = cex
        for sw, fam in (('KeyHasTypes', 'QT'), ('CompareFixed', 'QB'), ('SqlKeyHasFixed', 'QB'), ('FlushClearsResults', 'QA')):
            inv = 'RightTranslator' if sw == 'CompareFixed' else 'Transparent'
            cm.refute(sc, inv, tag='c05-seed-' + sw, Fams='{"%s"}' % fam, **dict(hist, **dict(cm.FIXED, **{sw: 'FALSE'})))
            refuted['seeded: %s=FALSE' % sw] = inv + ' refuted'
        for inv in ('RightTranslator', 'Transparent'):      # only the values baked in by the chained step itself are compared
            _, cex = cm.refute(sc, inv, tag='c05-seed-earlier', Fams=cfams, inv=['TypeOK', inv],
                               **dict(hist, **dict(cm.FIXED, CompareEarlier='FALSE')))
            refuted['seeded: CompareEarlier=FALSE: %s' % inv] = cex[0]

    _phase('refutations')
    # (iii) every history of the bounded alphabet, with the as-is model's prediction
    exports = []
    if quick:
        exports.append(dict(Fams=qfams, SessOps=ops4, MinLen=4, MaxLen=4))
        exports.append(dict(Fams=cfams, SessOps=ops4, MinLen=3, MaxLen=3, MemoSteps='TRUE', inv=cm.INVARIANTS))
    else:
        exports.append(dict(Fams=cfams, SessOps=ops4, MinLen=4, MaxLen=4, MemoSteps='TRUE', inv=cm.INVARIANTS))
        exports.append(dict(Fams='{"Chain"}', SessOps=all_ops, MinLen=3, MaxLen=3, MemoSteps='TRUE', inv=cm.INVARIANTS))
        exports.append(dict(Fams=qfams, SessOps=ops3, MinLen=5, MaxLen=5))
        exports.append(dict(Fams=tfams, SessOps=all_ops, MinLen=4, MaxLen=4))
    behs, seen = [], set()
    exp_states = 0
    for i, e in enumerate(exports):
        bs, r = cm.export(sc, tag='c05-exp%d' % i, NThreads=1, ParamStyles=styles, MaxExec=5, MaxMod=2, **e)
        exp_states += r.distinct
        if e.get('inv'):
            states, transitions = states + r.distinct, transitions + r.generated
        _phase('export %d (%d histories)' % (i, len(bs)))
        for b in bs:
            k = cm.term_key([b['prog'], b['style']])
            if k not in seen:
                seen.add(k)
                behs.append(b)
    behs.sort(key=lambda b: cm.term_key([b['prog'], b['style']]))
    predicted = sum(1 for b in behs if any(o['got'] != o['req'] for o in b['obs'][0]))
    stale = [b for b in behs if any(o['got'] != o['req'] for o in b['obs'][0])]
    shortest = sorted('%s [paramstyle %s]' % (show(b['prog'][0]), b['style']) for b in stale)[:2]
    if not predicted:
        raise MachineryError('the as-is model predicts no stale answer in any exported history')

    stats = {'on_sqlite': 0, 'on_mock_providers': 0, 'executions': 0, 'warm_cold_disagreements': 0,
             'asis_deviation_predicted_but_same_value': 0}
    chain_hist = [b for b in behs if any(o['op'] == 'exec' and o['q'] in cm.CHAINS for o in b['prog'][0])]
    stats['histories_with_query_chains'] = len(chain_hist)
    stats['query_chains'] = sorted(set(o['q'] for b in chain_hist for o in b['prog'][0] if o['q'] in cm.CHAINS))
    # histories that execute the same chain (same code objects) twice with different values of the same type
    stats['histories_rerunning_a_chain_with_another_value'] = sum(1 for b in chain_hist if rerun_other_value(b['prog'][0]))
    if not stats['histories_rerunning_a_chain_with_another_value']:
        raise MachineryError('no exported history executes a query chain twice with different values')
    replay_histories(ctx, behs, stats)
    _phase('replay')

    ctx.coverage.update({
        'states': states, 'transitions': transitions,
        'traces_validated_against_impl': len(behs),
        'exhaustive': True,
        'histories_with_stale_answer_predicted_by_asis_model': predicted,
        'asis_counterexample_shortest': shortest,
        'export_states': exp_states,
        'refuted_by_tlc': refuted,
        'checker_cmd': 'tlc PonyCache (fixed: Transparent holds; asis/seeded: refuted; export of all histories)',
    })
    ctx.coverage.update(stats)
    ctx.assumptions += [
        'cold = decompiling.ast_cache, asttranslation.extractors_cache, core.string2ast_cache, database._translator_cache, '
        'database._constructed_sql_cache, core.adapted_sql_cache emptied and the session\'s query_results cleared before every '
        'execution; entity-level SQL caches (find/load/insert/update) are not part of the property',
        'raw DML through db.execute is not in the alphabet (bypasses the session by design)',
        'providers other than SQLite are exercised down to the SQL text and arguments handed to the DB-API (no servers)',
        'answers are compared as bags (as sequences where a step of a chain orders them); errors by family',
        'one parameter per execution: every step of a chain that takes a parameter takes that one; chains of at most 3 steps, '
        'steps are lambdas with arguments (order_by(1), keyword filters, argument-less lambdas are not in the alphabet)',
    ]


def replay(ctx, rep):
    cm.load_chains(ctx.scratch)
    prog, style = rep['prog'], rep.get('style', 'qmark')
    if is_mock(prog):
        env = MockEnv()
        warm, cold = env.run(prog, False, style), env.run(prog, True, style)
    else:
        env = RealEnv(ctx)
        try:
            warm, cold = env.run(prog, False), env.run(prog, True)
        finally:
            env.close()
    print('history: %s   (paramstyle %s)' % (show(prog), style))
    for i, op in enumerate(prog):
        if op['op'] == 'exec':
            print('step %d %s: warm %r   cold %r%s' % (i + 1, show_op(op), warm[i], cold[i], '' if warm[i] == cold[i] else '   <-- differs'))
            if warm[i] != cold[i]:
                ctx.violations.append('replayed')
