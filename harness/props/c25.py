"""C25 - string indexing and slicing translate to Python semantics on every dialect.

E2 (translation validation): for every dialect and every way of giving the bounds (omitted, constant,
parameter incl. None, column) the real translator (StringMixin.__getitem__) and the real builder
(SQLBuilder.STRING_SLICE / SQLiteBuilder.STRING_SLICE) produce a SQL AST; spec/StrSliceJudge.tla evaluates
it with spec/SqlSem.tla for every string length and every column value under the dialect's substr and
compares it with Python's slice (PySlice).
E1 on SQLite: the same queries are executed on a real in-memory database (py_string_slice UDF, substr)
and compared with the table TLC exported from PySlice/PyIndex.
Self-check: SqlSem's SQLite substr and PySlice are first compared with the real engine and CPython.
"""
import sqlite3

from .. import mockdb, sqlast, tlc
from ..tlc import MachineryError
from pony.orm import core
from pony.orm.core import db_session, select, Optional

LEVEL = 'translation_validation'

PROVIDERS = ['sqlite', 'postgres', 'mysql', 'oracle']
ALPHA = 'abcdefghij'


def define(db):
    class T(db.Entity):
        s = Optional(str)
        n = Optional(int)
        m = Optional(int)


def bound_kinds(cmin, cmax, col):
    kinds = [('omit', None)]
    kinds += [('const', c) for c in range(cmin, cmax + 1)]
    kinds += [('param', c) for c in range(cmin, cmax + 1)] + [('param', None)]
    kinds += [('col', col)]
    return kinds


def src_of(kind, pname):
    k, v = kind
    if k == 'omit':
        return ''
    if k == 'const':
        return str(v)
    if k == 'param':
        return pname
    return 'x.' + v


def ref_of(kind):
    """The bound as Python sees it, as a SqlSem tree."""
    k, v = kind
    if k == 'omit' or (k == 'param' and v is None):
        return sqlast.NONE
    if k in ('const', 'param'):
        return ['VALUE', sqlast.val(v)]
    return ['COLUMN', v]


def cls_of(kind):
    k, v = kind
    if k == 'omit':
        return 'omit'
    if k == 'col':
        return 'col'
    if v is None:
        return 'pNone'
    return ('c' if k == 'const' else 'p') + ('>=0' if v >= 0 else '<0')


def zero_minus_one(case):
    kind, ks, ke = case
    return kind == 'slice' and (ks[0] == 'omit' or (ks[0] in ('const', 'param') and ks[1] in (0, None))) and \
        ke[0] in ('const', 'param') and ke[1] == -1


def cases_for(tier):
    cmin, cmax = (-3, 3) if tier == 'quick' else (-7, 7)
    out = []
    for ks in bound_kinds(cmin, cmax, 'n'):
        for ke in bound_kinds(cmin, cmax, 'm'):
            out.append(('slice', ks, ke))
    for ki in bound_kinds(cmin, cmax, 'n'):
        if ki[0] != 'omit' and ki != ('param', None):
            out.append(('index', ki, ('omit', None)))
    return out


def query_src(case):
    kind, ks, ke = case
    if kind == 'slice':
        return 'x.s[%s:%s] for x in T' % (src_of(ks, 'a'), src_of(ke, 'b'))
    return 'x.s[%s] for x in T' % src_of(ks, 'a')


def make_query(db, case):
    T = db.T
    kind, ks, ke = case
    a = ks[1] if ks[0] == 'param' else None
    b = ke[1] if ke[0] == 'param' else None
    return select(query_src(case), {'T': T}, {'a': a, 'b': b})


def run(ctx):
    quick = ctx.tier == 'quick'
    lmax = 5 if quick else 8
    crange = [-4, 4] if quick else [-9, 9]

    # -- self-check of the environment models ------------------------------------------------------
    tables, _ = tlc.evaluate('SqlSemTables', ctx.scratch)
    con = sqlite3.connect(':memory:')
    for r in tables['substr']:
        s = ALPHA[:r['L']]
        c = r['cnt']
        if c['t'] == 'null':
            got = con.execute('select substr(?,?)', (s, r['pos'])).fetchone()[0]
        else:
            got = con.execute('select substr(?,?,?)', (s, r['pos'], c['v'])).fetchone()[0]
        if got != ''.join(r['out']):
            raise MachineryError('SqlSem.SubstrSQLite disagrees with the real SQLite on %r: %r' % (r, got))
    slice_table = {}
    for r in tables['slice']:
        s = ALPHA[:r['L']]
        i, j = sqlast.unval(r['i']), sqlast.unval(r['j'])
        if s[i:j] != ''.join(r['out']):
            raise MachineryError('SqlSem.PySlice disagrees with CPython on %r' % (r,))
        slice_table[(r['L'], i, j)] = ''.join(r['out'])
    con.close()

    cases = cases_for(ctx.tier)

    # -- E2: real translator + builder output judged by TLC ---------------------------------------
    judged = []
    untranslatable = 0
    for prov in PROVIDERS:
        db = mockdb.make(prov, define)
        dialect = mockdb.DIALECTS[prov]
        for case in cases:
            try:
                ast, sql, args = mockdb.translate(db, lambda: make_query(db, case))
            except (core.TranslationError, TypeError, NotImplementedError, IndexError):
                untranslatable += 1       # "raises instead of returning different rows"
                continue
            expr = ast[1][1]
            expr = sqlast.expand_string_slice(db.provider, expr)
            kind, ks, ke = case
            uses_n = ks[0] == 'col'
            uses_m = ke[0] == 'col'
            judged.append(dict(id=len(judged) + 1, d=dialect, kind=kind, ast=sqlast.ser(expr),
                               start=ref_of(ks), stop=ref_of(ke),
                               nrange=crange if uses_n else [0, 0], mrange=crange if uses_m else [0, 0],
                               zero_minus_one=zero_minus_one(case), src=query_src(case), a=ks[1] if ks[0] == 'param' else None,
                               b=ke[1] if ke[0] == 'param' else None,
                               sig='C25:%s:%s:start=%s:stop=%s' % (dialect, kind, cls_of(ks), cls_of(ke))))
    inputs = {'lmax': lmax, 'cases': [{k: c[k] for k in ('id', 'd', 'kind', 'ast', 'start', 'stop', 'nrange', 'mrange')}
                                      for c in judged]}
    reports, res = tlc.evaluate('StrSliceJudge', ctx.scratch, inputs=inputs)
    points = 0
    disagreements = 0
    for c, r in zip(judged, reports):
        assert c['id'] == r['id']
        points += r['points']
        if r['nbad']:
            disagreements += 1
            b = r['bad'][0]
            what = '%s on %s with a=%r b=%r: string of length %d, n=%d, m=%d -> SQL gives %r, Python gives %r (%d of %d points differ)' % (
                c['src'], c['d'], c['a'], c['b'], b['L'], b['n'], b['m'], sqlast.unval(b['got']), sqlast.unval(b['expected']),
                r['nbad'], r['points'])
            sig = c['sig']
            if c['zero_minus_one']:
                sig = 'C25:%s:slice:zero-start-stop-minus-one' % c['d']
            elif c['d'] in ('MySQL', 'Oracle') and r['allneg']:
                sig = 'C25:%s:slice:negative-start' % c['d']
            ctx.mismatch(sig, what, {'mode': 'judge', 'case': {k: c[k] for k in ('d', 'kind', 'src', 'a', 'b')}, 'point': b})
        else:
            ctx.sample({'query': c['src'], 'dialect': c['d'], 'a': c['a'], 'b': c['b'], 'points_evaluated': r['points']})

    # -- E1: real execution on SQLite against the table exported from PySlice ---------------------
    executed, rows_checked = run_sqlite(ctx, cases, slice_table, 5, crange)

    ctx.coverage.update({
        'programs': len(judged), 'disagreements_checked': points, 'exhaustive': True,
        'untranslatable_accepted': untranslatable,
        'sqlite_queries_executed': executed, 'sqlite_rows_compared': rows_checked,
        'judge_cases_with_disagreement': disagreements,
        'rule': 'program = one (dialect, slice-or-index, start kind/value, stop kind/value) query translated by the real '
                'translator and builder; each is evaluated by TLC at every string length 0..%d and every column value in %r' % (lmax, crange),
        'checker_cmd': 'tlc StrSliceJudge (SqlSem.Eval vs PySlice), tlc SqlSemTables',
    })
    ctx.assumptions += ['substr of PostgreSQL, MySQL and Oracle as documented (SqlSem.SubstrPG/MySQL/Oracle); SQLite substr and '
                        'Python slicing models validated against the real engine / CPython in this run',
                        'bounds given as column expressions are evaluated for non-NULL column values only']


def run_sqlite(ctx, cases, slice_table, lmax, crange):
    db = core.Database()
    define(db)
    db.bind('sqlite', ':memory:')
    db.generate_mapping(create_tables=True)
    T = db.T
    lo, hi = crange
    with db_session:
        for L in range(lmax + 1):
            for n in range(lo, hi + 1):
                for m in range(lo, hi + 1):
                    T(s=ALPHA[:L], n=n, m=m)
    executed = rows = 0
    nested = [(c, True) for c in cases if c[0] == 'slice' and 'param' in (c[1][0], c[2][0]) and 'col' not in (c[1][0], c[2][0])]
    for case, in_subquery in [(c, False) for c in cases] + nested:
        kind, ks, ke = case
        if in_subquery:
            # the slice inside an aggregate subquery: its parameter bounds are pinned in the translation, and the same
            # query text is executed again and again with other bounds
            src = '(x.s, x.n, x.m, max(y.s[%s:%s] for y in T if y.id == x.id)) for x in T' % (src_of(ks, 'a'), src_of(ke, 'b'))
        else:
            src = query_src(case).replace('x.s[', '(x.s, x.n, x.m, x.s[', 1).replace('] for x in T', ']) for x in T')
        a = ks[1] if ks[0] == 'param' else None
        b = ke[1] if ke[0] == 'param' else None
        try:
            with db_session:
                result = select(src, {'T': T}, {'a': a, 'b': b})[:]
        except (core.TranslationError, TypeError, NotImplementedError, IndexError):
            continue
        executed += 1
        sig = 'C25:SQLite-exec%s:%s:start=%s:stop=%s' % ('-subquery' if in_subquery else '', kind, cls_of(ks), cls_of(ke))
        if zero_minus_one(case):
            sig = 'C25:SQLite-exec:slice:zero-start-stop-minus-one'
        for s, n, m, got in result:
            i = n if ks[0] == 'col' else ks[1]
            j = m if ke[0] == 'col' else ke[1]
            L = len(s)
            if kind == 'slice':
                if abs(i or 0) > 7 or abs(j or 0) > 7:
                    continue
                exp = slice_table[(L, i, j)]
            else:
                if not (-L <= i < L):
                    continue
                exp = slice_table[(L, i, i + 1 if i != -1 else None)]
            rows += 1
            if (got or '') != exp:
                ctx.mismatch(sig, '%s executed on SQLite with a=%r b=%r: s=%r n=%r m=%r -> %r, Python gives %r' % (
                    query_src(case), a, b, s, n, m, got, exp), {'mode': 'sqlite', 'src': query_src(case), 'a': a, 'b': b,
                                                                 's': s, 'n': n, 'm': m})
                break
    db.disconnect()
    return executed, rows


def replay(ctx, rep):
    """Re-execute one reported case."""
    if rep['mode'] == 'sqlite':
        db = core.Database()
        define(db)
        db.bind('sqlite', ':memory:')
        db.generate_mapping(create_tables=True)
        with db_session:
            db.T(s=rep['s'], n=rep['n'], m=rep['m'])
        with db_session:
            got = select(rep['src'], {'T': db.T}, {'a': rep['a'], 'b': rep['b']})[:]
        print('query %r a=%r b=%r on s=%r n=%r m=%r -> %r' % (rep['src'], rep['a'], rep['b'], rep['s'], rep['n'], rep['m'], got))
        i = rep['n'] if 'x.n' in rep['src'] else rep['a']
        print('(compare with Python slicing of %r)' % rep['s'])
        ctx.violations.append('replayed')
        return
    c = rep['case']
    prov = [p for p, d in mockdb.DIALECTS.items() if d == c['d']][0]
    db = mockdb.make(prov, define)
    ast, sql, args = mockdb.translate(db, lambda: select(c['src'], {'T': db.T}, {'a': c['a'], 'b': c['b']}))
    print('dialect %s, query %r with a=%r b=%r translates to:\n%s' % (c['d'], c['src'], c['a'], c['b'], sql))
    p = rep['point']
    print('for a string of length %d, n=%d, m=%d this evaluates to %r; Python gives %r' % (
        p['L'], p['n'], p['m'], sqlast.unval(p['got']), sqlast.unval(p['expected'])))
    ctx.violations.append('replayed')
