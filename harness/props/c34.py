"""C34 - permission checks follow the declared access rules.

E1: spec/Perm.tla defines a three-entity model (A -bs/a- B -c/b- C), three users with groups, per-object roles and
labels, and the meaning of a set of access rules; spec/PermTables.tla has TLC enumerate the rule sets (no rule, every
single rule of the full product, every pair of a pool of rules) and export, for every user x permission x target
(entity, attribute incl. both sides of the relationships, object), the expected answer - "T", "F" or "O" where the
property statement leaves the behaviour open (never compared) - plus the objects to_json must not contain.

The harness declares the same rules through Pony's real API (Database.set_perms_for, perm(...).exclude(...),
user_groups_getter / user_roles_getter / obj_labels_getter) on a fresh Database per rule set and compares
has_perm, can_view, can_edit, can_create, can_delete and Database.to_json.  Every check is made twice in one
db_session and again in a new db_session: the three answers must be equal (repeated checks, perm cache).
"""
import json
import os
import sqlite3

from .. import tlc
from ..tlc import MachineryError
from pony.orm import core
from pony.orm.core import db_session, Optional, Required, Set

LEVEL = 'exploration'


class User(object):
    def __init__(self, name, groups):
        self.name = name
        self.groups = frozenset(groups)

    def __repr__(self):
        return 'User(%s)' % self.name


# what the getters answer; filled from the tables TLC exported (the getter registries of pony are process-wide lists,
# so the functions are registered once and read this table)
WORLD = {'roles': {}, 'labels': {}}
_registered = []


def obj_name(obj):
    return '%s%s' % (type(obj).__name__.lower(), obj.id)


def register_getters():
    if _registered:
        return
    _registered.append(True)

    @core.user_groups_getter(User)
    def groups_of(user):
        return user.groups

    @core.user_roles_getter(User)
    def roles_of(user, obj):
        return WORLD['roles'].get((user.name, obj_name(obj)), ())

    @core.obj_labels_getter()
    def labels_of(obj):
        return WORLD['labels'].get(obj_name(obj), ())


def define(db):
    class A(db.Entity):
        x = Optional(str)
        bs = Set('B')

    class B(db.Entity):
        y = Optional(str)
        a = Required('A')
        c = Optional('C')

    class C(db.Entity):
        z = Optional(str)
        b = Required('B')


def prepare_file(path):
    """The database every scenario binds to: tables and the four objects (b1.a = b2.a = a1, c1.b = b1)."""
    db = core.Database()
    define(db)
    db.bind('sqlite', path, create_db=True)
    db.generate_mapping(create_tables=True)
    with db_session:
        a1 = db.A(id=1, x='x')
        b1 = db.B(id=1, y='y', a=a1)
        db.B(id=2, y='y', a=a1)
        db.C(id=1, z='z', b=b1)
    db.disconnect()


def fresh_db(path):
    db = core.Database()
    define(db)
    db.bind('sqlite', path)
    db.generate_mapping(check_tables=False)
    return db


def resolve(db, name):
    """Target name of Perm.tla -> entity class / attribute (objects are fetched per session)."""
    if '.' in name:
        e, a = name.split('.')
        return getattr(db.entities[e], a)
    return db.entities[name]


def declare(db, rules):
    for r in rules:
        ents = [db.entities[e] for e in sorted(r['ents'])]
        kw = {}
        for k in ('groups', 'roles', 'labels'):
            if r[k]:
                kw[k] = sorted(r[k])
        with db.set_perms_for(*ents):
            rule = core.perm(*sorted(r['perms']), **kw)
            excl = [db.entities[e] for e in sorted(r['xents'])] + [resolve(db, a) for a in sorted(r['xattrs'])]
            if excl:
                rule.exclude(*excl)


def fetch_objects(db):
    return {'a1': db.A[1], 'b1': db.B[1], 'b2': db.B[2], 'c1': db.C[1]}


CAN = {'view': core.can_view, 'edit': core.can_edit, 'delete': core.can_delete, 'create': core.can_create}


def ask(db, users, meta):
    """All answers of one db_session: {(user, target): 'TFFT..' has_perm per perm (asked twice) + can_* per perm}."""
    out = {}
    unstable = []
    with db_session:
        objs = fetch_objects(db)
        for u in users:
            for t in meta['targets']:
                x = objs[t] if t in objs else resolve(db, t)
                first = [core.has_perm(u, p, x) for p in meta['perms']]
                second = [core.has_perm(u, p, x) for p in meta['perms']]
                if first != second:
                    unstable.append((u.name, t, first, second))
                cans = [CAN[p](u, x) for p in meta['perms']]
                for v in first + cans:
                    if v is not True and v is not False:
                        raise MachineryError('has_perm/can_* returned %r' % (v,))
                out[(u.name, t)] = (first, cans)
    return out, unstable


INCLUDE = {'A': ['A.bs'], 'B': ['B.a', 'B.c'], 'C': ['C.b']}


def json_objects(db, users, meta):
    """For each user and each object: the set of object names Database.to_json(obj, include=relationships) contains,
    or None if it refuses (PermissionError)."""
    out = {}
    for u in users:
        core.set_current_user(u)
        try:
            with db_session:
                objs = fetch_objects(db)
                for name in meta['objects']:
                    obj = objs[name]
                    include = [resolve(db, a) for a in INCLUDE[type(obj).__name__]]
                    try:
                        text = db.to_json(obj, include=include, with_schema=False)
                    except core.PermissionError:
                        out[(u.name, name)] = None
                        continue
                    data = json.loads(text)
                    got = set()
                    for cls, by_pk in data['objects'].items():
                        for pk in by_pk:
                            got.add('%s%s' % (cls.lower(), pk))
                    d = data['data']
                    if isinstance(d, dict) and 'class' in d:
                        got.add('%s%s' % (d['class'].lower(), d['pk']))
                    out[(u.name, name)] = got
        finally:
            core.set_current_user(None)
    return out


def rule_str(r):
    s = 'set_perms_for(%s): perm(%s' % (', '.join(sorted(r['ents'])), ', '.join(repr(p) for p in sorted(r['perms'])))
    for k in ('groups', 'roles', 'labels'):
        if r[k]:
            s += ', %s=%r' % (k, sorted(r[k]))
    s += ')'
    if r['xents'] or r['xattrs']:
        s += '.exclude(%s)' % ', '.join(sorted(r['xents']) + sorted(r['xattrs']))
    return s


def check_scenario(ctx, path, row, meta, users, order, stats):
    rules = list(row['rules'])
    if order and len(rules) == 2:
        rules.reverse()
    db = fresh_db(path)
    try:
        declare(db, rules)
        s1, unstable = ask(db, users, meta)
        s2, unstable2 = ask(db, users, meta)
        tojson = json_objects(db, users, meta)
    finally:
        db.disconnect()
    where = '; '.join(rule_str(r) for r in rules) or '(no rules)'
    rep = {'rules': rules}
    for (u, t, first, second) in unstable + unstable2:
        ctx.mismatch('C34:unstable:same-session', 'rules [%s]: has_perm(%s, .., %s) asked twice in one db_session: %r then %r' % (
            where, u, t, first, second), rep)
    nontrivial = False
    seen = set()
    np = len(meta['perms'])
    for ui, u in enumerate(meta['users']):
        packed = row['ans'][ui]
        for ti, t in enumerate(meta['targets']):
            exp = packed[ti * (np + 1):(ti + 1) * (np + 1)]
            first, cans = s1[(u, t)]
            if s2[(u, t)] != (first, cans):
                ctx.mismatch('C34:unstable:new-session', 'rules [%s]: answers for user %s on %s differ between two db_sessions: %r / %r' % (
                    where, u, t, (first, cans), s2[(u, t)]), rep)
            kind = 'entity' if t in meta['entities'] else 'attr' if t in meta['attrs'] else 'object'
            excluded_entity = kind == 'object' and any(t[0].upper() in r['xents'] for r in rules)
            for pi, p in enumerate(meta['perms']):
                e = exp[pi]
                if e == 'O':
                    stats['open'] += 1
                    continue
                stats['compared'] += 1
                seen.add(e)
                got = 'T' if first[pi] else 'F'
                if got != e:
                    if kind == 'attr' and t in meta['relationship_attrs'] and e == 'F':
                        sig = 'C34:has_perm:attr:relationship:F->T'
                    elif excluded_entity and e == 'F':
                        sig = 'C34:has_perm:object:excluded-entity:F->T'
                    else:
                        sig = 'C34:has_perm:%s:%s->%s' % (kind, e, got)
                    ctx.mismatch(sig, 'rules [%s]: has_perm(%s, %r, %s) is %s, the rules say %s' % (where, u, p, t, first[pi], e == 'T'),
                                 dict(rep, user=u, perm=p, target=t))
            # can_edit / can_delete / can_create are the permission itself; can_view has its own expectation
            for pi, p in enumerate(meta['perms']):
                e = exp[np] if p == 'view' else exp[pi]
                if e == 'O':
                    continue
                stats['compared'] += 1
                got = 'T' if cans[pi] else 'F'
                if got != e:
                    if kind == 'attr' and t in meta['relationship_attrs'] and e == 'F':
                        sig = 'C34:has_perm:attr:relationship:F->T'
                    elif excluded_entity and e == 'F':
                        sig = 'C34:has_perm:object:excluded-entity:F->T'
                    else:
                        sig = 'C34:can_%s:%s:%s->%s' % (p, kind, e, got)
                    ctx.mismatch(sig, 'rules [%s]: can_%s(%s, %s) is %s, the rules say %s' % (where, p, u, t, cans[pi], e == 'T'),
                                 dict(rep, user=u, perm='can_' + p, target=t))
        hidden = set(row['hidden'][ui])
        for name in meta['objects']:
            got = tojson[(u, name)]
            stats['to_json'] += 1
            if got is None:
                stats['to_json_refused'] += 1
                continue
            leaked = got & hidden
            if leaked:
                if all(any(x[0].upper() in r['xents'] for r in rules) for x in leaked):
                    sig = 'C34:to_json:hidden-object:excluded-entity'
                else:
                    sig = 'C34:to_json:hidden-object'
                ctx.mismatch(sig, 'rules [%s]: to_json(%s, include=relationships) for user %s contains %s, which the user may not view' % (
                    where, name, u, sorted(leaked)), dict(rep, user=u, target=name))
    if len(seen) == 2:
        nontrivial = True
    return nontrivial


def load_tables(ctx, big, alllaws):
    tables, res = tlc.evaluate('PermTables', ctx.scratch, inputs={'big': big, 'alllaws': alllaws})
    meta = {k: tables[k] for k in ('entities', 'attrs', 'objects', 'users', 'perms', 'targets')}
    meta['relationship_attrs'] = ['A.bs', 'B.a', 'B.c', 'C.b']
    users = [User(name, tables['groups'][i]) for i, name in enumerate(meta['users'])]
    WORLD['roles'] = {(r['u'], r['o']): frozenset(r['roles']) for r in tables['roles']}
    WORLD['labels'] = {name: frozenset(tables['labels'][i]) for i, name in enumerate(meta['objects'])}
    return tables, meta, users


def run(ctx):
    quick = ctx.tier == 'quick'
    register_getters()
    tables, meta, users = load_tables(ctx, not quick, not quick)
    path = os.path.join(ctx.scratch.dir, 'perm.sqlite')
    prepare_file(path)
    rows = sorted(tables['rows'], key=lambda r: json.dumps(r['rules'], sort_keys=True))
    stats = {'compared': 0, 'open': 0, 'to_json': 0, 'to_json_refused': 0}
    nontrivial = 0
    for i, row in enumerate(rows):
        if check_scenario(ctx, path, row, meta, users, (i + ctx.seed) % 2 == 1, stats):
            nontrivial += 1
        if len(row['rules']) == 2 and len(ctx.samples) < 3 and i % 97 == 0:
            ctx.sample({'rules': [rule_str(r) for r in row['rules']], 'expected_u1': row['ans'][0], 'targets': meta['targets'],
                        'per_target': 'has_perm view,edit,delete,create then can_view; T/F/O(pen, not compared)'})
    ctx.coverage.update({
        'evaluations': stats['compared'] + stats['to_json'], 'distinct_nontrivial': nontrivial, 'exhaustive': True,
        'rule_sets': len(rows), 'answers_compared': stats['compared'], 'answers_open_not_compared': stats['open'],
        'to_json_calls': stats['to_json'], 'to_json_refused': stats['to_json_refused'],
        'rule': 'one case = one rule set of Perm.Scenarios declared on a fresh Database through set_perms_for/perm/exclude; '
                'non-trivial = the expected answers compared for it contain both grants and denials; every answer is asked '
                'twice in one db_session and once more in a new one',
        'checker_cmd': 'tlc PermTables (Perm.Allowed / CanView / NotViewable; laws Monotone, OrderFree, EmptyDenies)',
    })
    ctx.assumptions += [
        'Pony ships no documentation of the permission API in the repository: the oracle encodes the property statement only '
        '(groups, roles on the object, labels of the object, minus excluded entities/attributes; some rule grants) and is three-valued; '
        'open cases (rules with roles/labels asked about an entity or attribute, relationship attributes granted on one side only, '
        'can_view when only edit is granted) are not compared',
        'the perm cache is observed only through answers (asked twice per session and in a second session); storing results under '
        'a key that is never looked up is not observable and not part of the property',
    ]


def replay(ctx, rep):
    register_getters()
    tables, meta, users = load_tables(ctx, False, False)
    path = os.path.join(ctx.scratch.dir, 'perm.sqlite')
    prepare_file(path)
    rules = rep['rules']
    db = fresh_db(path)
    declare(db, rules)
    print('rules: ' + ('; '.join(rule_str(r) for r in rules) or '(none)'))
    s1, _ = ask(db, users, meta)
    for (u, t), (first, cans) in sorted(s1.items()):
        if rep.get('user') in (None, u) and rep.get('target') in (None, t):
            print('  %s on %-4s has_perm %s  can_* %s   (order: %s)' % (u, t, first, cans, meta['perms']))
    for (u, name), got in sorted(json_objects(db, users, meta).items()):
        if rep.get('user') in (None, u) and rep.get('target') in (None, name):
            print('  to_json(%s, include=relationships) as %s: %s' % (name, u, 'PermissionError' if got is None else sorted(got)))
    db.disconnect()
    ctx.violations.append('replayed')
