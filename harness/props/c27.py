"""C27 - objects keep their class and polymorphic queries are exact.

spec/PonyInh.tla: a diamond hierarchy Base <- S1, S2 <- S12 with a custom integer discriminator and an entity R
whose reference is typed with the root class. TLC checks that no object ever changes class and that the members of
a polymorphic query over class c are exactly the objects of c and its subclasses. Behaviours of the exported state
graph are replayed on the real ORM across sessions: objects are met first as unloaded Base references, through
lookups by any class, or in query results, in every order; the class of every Python object obtained must be exactly
the class it was created as, and select()/isinstance() results must equal the specification's member sets.
"""
import random
import sqlite3

from .. import tlc
from ..tlc import MachineryError
from pony.orm import core
from pony.orm.core import Database, PrimaryKey, Optional, Set, Discriminator, db_session, select

LEVEL = 'model_checking'


def cfg(level, ids):
    return ('INIT Init\nNEXT Next\nCONSTANTS MaxLevel = %d\n Ids = {%s}\nCONSTRAINT Bounded\nCHECK_DEADLOCK FALSE\n'
            'INVARIANT PolymorphicExact\nINVARIANT DiamondIsBoth\nACTION_CONSTRAINT ClassPreserved\n' % (level, ','.join(map(str, ids))))


class Boom(Exception):
    pass


class World:
    def __init__(self, path):
        self.path = path
        db = self.db = Database()

        class Base(db.Entity):
            _table_ = 'tbase'
            _discriminator_ = 1
            id = PrimaryKey(int)
            kind = Discriminator(int)
            v = Optional(int)
            rs = Set('R')

        class S1(Base):
            _discriminator_ = 2
            p = Optional(int)

        class S2(Base):
            _discriminator_ = 3
            q = Optional(int)

        class S12(S1, S2):
            _discriminator_ = 4

        class S3(Base):
            _discriminator_ = 5
            z = Optional(int)

        class R(db.Entity):
            _table_ = 'tr'
            id = PrimaryKey(int)
            b = Optional(Base, column='b_id')
            qs = Set('Q')

        class Q(db.Entity):         # reaches R as an unloaded reference: R[k].b is then read from a holder that is not loaded
            _table_ = 'tq'
            id = PrimaryKey(int)
            r = Optional(R, column='r_id')

        self.cls = {'Base': Base, 'S1': S1, 'S2': S2, 'S12': S12, 'S3': S3}
        self.R = R
        self.Q = Q
        db.bind('sqlite', path, create_db=True)
        db.generate_mapping(create_tables=True)

    def reset(self):
        self.db.disconnect()
        con = sqlite3.connect(self.path, isolation_level=None)
        con.execute('DELETE FROM tq')
        con.execute('DELETE FROM tr')
        con.execute('DELETE FROM tbase')
        con.close()

    def dump(self):
        con = sqlite3.connect(self.path)
        rows = dict(con.execute('SELECT id, kind FROM tbase'))
        con.close()
        names = {1: 'Base', 2: 'S1', 3: 'S2', 4: 'S12', 5: 'S3'}
        return {k: names.get(v, '?%r' % v) for k, v in rows.items()}


def check_obj(w, st, o, k=None):
    """identity + class bookkeeping: returns the class name of o"""
    prev = st['objs'].get(o.id)
    if prev is not None and prev is not o:
        raise AssertionError('two Python objects for id %d in one session' % o.id)
    st['objs'][o.id] = o
    return type(o).__name__


def execute(w, st, ev, rng):
    op, c, k = ev['op'], ev['c'], ev['k']
    if op == 'Begin':
        st['s'] = db_session()
        st['s'].__enter__()
        st['objs'] = {}
        return 'ok', set(), '-'
    if op == 'End':
        st.pop('s').__exit__(None, None, None)
        st['objs'] = {}
        return 'ok', set(), '-'
    if op == 'Create':
        o = w.cls[c](id=k)
        w.Q(id=k, r=w.R(id=k, b=o))
        return 'ok', set(), check_obj(w, st, o)
    if op in ('SelAll', 'IsInst'):
        C = w.cls[c]
        Base = w.cls['Base']
        if op == 'SelAll':
            form = rng.randrange(3)
            items = C.select()[:] if form == 0 else select(x for x in C)[:] if form == 1 else list(C.select(lambda x: True))
        else:
            D = w.cls[['Base', 'S1', 'S2', 'S12', 'S3'][k - 1]]
            items = select(x for x in C if isinstance(x, D))[:]
        ids = set()
        for o in items:
            name = check_obj(w, st, o)
            ids.add(o.id)
            st['classes'][o.id] = name
        return 'ok', ids, '-'
    if op == 'Find':
        C = w.cls[c]
        try:
            form = rng.randrange(3)
            if form == 0:
                o = C.get(id=k)
            elif form == 1:
                try:
                    o = C[k]
                except core.ObjectNotFound:
                    o = None
            else:
                o = select(x for x in C if x.id == k).first()
        except (core.TransactionError, TypeError) as e:
            return 'ClassError', set(), '-'
        if o is None:
            return 'ok', {0}, '-'
        return 'ok', {1}, check_obj(w, st, o)
    if op == 'RefClass':
        # the holder of the reference is itself loaded (R[k]) or only known as a reference (Q[k].r)
        r = w.R[k] if rng.randrange(2) else w.Q[k].r
        o = r.b
        if o is None:
            return 'ok', {0}, '-'
        first = type(o).__name__          # the class must be right at once, before anything else touches the object
        form = rng.randrange(3)
        if form == 0:
            o.v            # touching an attribute loads the seed
        elif form == 1:
            o.load()
        name = check_obj(w, st, o)
        return 'ok', {1}, (name if first == name else '%s-then-%s' % (first, name))
    raise MachineryError('unknown action ' + op)


def run_walk(w, nodes, succ, init, rng, max_steps, visited):
    w.reset()
    st = {'objs': {}, 'classes': {}}
    u = init
    trace = []
    try:
        for _ in range(max_steps):
            acts = {}
            for v in succ.get(u, ()):
                e = nodes[v]['ev']
                acts.setdefault((e['op'], e['c'], e['k']), []).append(v)
            if not acts:
                break
            keys = sorted(acts)
            # first the kind of call (uniformly: the many parameter combinations of IsInst / Find would otherwise crowd out
            # End, Begin and RefClass, and behaviours that end a session and meet its objects again as references would
            # be rare), then among the calls of that kind one not yet taken from this state
            kind = rng.choice(sorted(set(k[0] for k in keys)))
            keys = [k for k in keys if k[0] == kind]
            fresh = [k for k in keys if any((u, v) not in visited for v in acts[k])]
            key = rng.choice(fresh if fresh and rng.random() < 0.8 else keys)
            ev0 = nodes[acts[key][0]]['ev']
            st['classes'] = {}
            try:
                out, ret, rc = execute(w, st, ev0, rng)
            except AssertionError as e:
                trace.append({'op': key[0], 'c': key[1], 'k': key[2], 'out': 'identity'})
                return trace, str(e)
            except MachineryError:
                raise
            except Exception as e:
                import traceback
                trace.append({'op': key[0], 'c': key[1], 'k': key[2], 'out': 'crash:' + type(e).__name__})
                return trace, 'unexpected %s inside pony: %s\n%s' % (type(e).__name__, e, traceback.format_exc()[-1200:])
            trace.append({'op': key[0], 'c': key[1], 'k': key[2], 'out': out, 'ret': sorted(ret), 'rc': rc})
            match = [v for v in acts[key] if nodes[v]['ev']['out'] == out and set(nodes[v]['ev']['ret']) == set(ret)
                     and nodes[v]['ev']['rc'] == rc]
            if not match:
                exp = [(nodes[v]['ev']['out'], sorted(nodes[v]['ev']['ret']), nodes[v]['ev']['rc']) for v in acts[key]]
                return trace, '%s(%s, %s): pony -> %s %r class %s; specification allows %r' % (key[0], key[1], key[2], out, sorted(ret), rc, exp)
            v = match[0]
            visited.add((u, v))
            # classes of objects returned by queries
            for oid, name in st['classes'].items():
                want = nodes[v]['cur'][oid - 1] if isinstance(nodes[v]['cur'], tuple) else nodes[v]['cur'][oid]
                if name != want:
                    return trace, '%s(%s): object %d returned as %s, it was created as %s' % (key[0], key[1], oid, name, want)
            if key[0] == 'End':
                got = w.dump()
                cur = nodes[v]['cls']
                cur = {i + 1: c for i, c in enumerate(cur)} if isinstance(cur, tuple) else cur
                want = {k: c for k, c in cur.items() if c != 'none'}
                if got != want:
                    return trace, 'database after commit has classes %r, specification %r' % (got, want)
            u = v
        return trace, None
    finally:
        s = st.pop('s', None)
        if s is not None:
            try:
                s.__exit__(Boom, Boom(), None)
            except Exception:
                pass
        while core.local.db_session is not None:
            try:
                core.local.db_session.__exit__(Boom, Boom(), None)
            except Exception:
                core.local.db_session = None


def run(ctx):
    quick = ctx.tier == 'quick'
    level, ids = (6, (1, 2)) if quick else (7, (1, 2, 3))
    nodes, edges, inits, res = tlc.dump_graph('PonyInh', cfg(level, ids), ctx.scratch, workers=4)
    succ = {}
    for s, d in edges:
        if d not in succ.setdefault(s, []):
            succ[s].append(d)
    w = World(ctx.scratch.path('db', 'inh.sqlite'))
    rng = random.Random(ctx.seed)
    visited = set()
    nbeh = 3000 if quick else 20000
    multi = 0
    for i in range(nbeh):
        trace, bad = run_walk(w, nodes, succ, inits[0], rng, level + 1, visited)
        if sum(1 for t in trace if t['op'] == 'Begin') >= 2:
            multi += 1
        if i < 3:
            ctx.sample(trace)
        if bad:
            last = trace[-1]
            sig = 'C27:%s:%s:%s' % (last['op'], last.get('c'), last.get('out'))
            ctx.mismatch(sig, bad + ' after ' + repr([(t['op'], t['c'], t['k']) for t in trace[:-1]]), {'trace': trace})
            if len(ctx.violations) >= 5:
                break
    w.db.disconnect()
    ctx.coverage.update({
        'states': res.distinct, 'transitions': res.generated, 'traces_validated_against_impl': nbeh,
        'graph_transitions': len(set(edges)), 'graph_transitions_replayed': len(visited),
        'behaviours_spanning_several_sessions': multi, 'max_level': level, 'ids': list(ids),
    })
    ctx.assumptions += ['one diamond hierarchy with an integer discriminator, single-table inheritance on SQLite']


def replay(ctx, rep):
    w = World(ctx.scratch.path('db', 'inh.sqlite'))
    w.reset()
    st = {'objs': {}, 'classes': {}}
    rng = random.Random(0)
    for t in rep['trace']:
        if t.get('out') == 'identity':
            print('%s(%s,%s): identity violation' % (t['op'], t['c'], t['k']))
            break
        out, ret, rc = execute(w, st, t, rng)
        print('%s(%s,%s) -> %s %r class %s   [recorded %s %r %s]' % (t['op'], t['c'], t['k'], out, sorted(ret), rc, t['out'], t.get('ret'), t.get('rc')))
    ctx.violations.append('replayed')
