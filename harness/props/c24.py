"""C24 - query methods agree with list semantics of the full ordered result.

Oracle: spec/QueryMethods.tla (meaning of a chain of query methods as Python operations on the result list R;
TLC checks inside the module that the transcribed combine_limit_and_offset / __getitem__ equal composition of
Python slices for all bounds 0..5 / None).

E2: the real sqltranslation.combine_limit_and_offset is called on every (limit, offset, limit2, offset2) over
    0..5 / None, the real Query.__getitem__ / limit / fetch / page on every bound pair (with a recording
    `_fetch`); spec/QueryMethodsJudge.tla judges the returned (limit, offset) by the slice laws on lists of
    every length 0..17.
E1: spec/QueryMethodsTables.tla exports, for every chain of query-to-query methods (<= 2 after the base query,
    plus the terminal method; nested limited subqueries for all bounds) over five base queries on a table with
    duplicates and None, the expected outcome of every terminal method.  The harness builds the same chain with
    the real Query methods on an in-memory SQLite database and compares (lists where the query determines the
    order, bags / sub-bags otherwise, avg as exact fractions).
Self-check: PySl against CPython slicing, the order of NULL against the real SQLite.
"""
import collections
import concurrent.futures
import datetime
import decimal
import itertools
from fractions import Fraction

from .. import tlc
from ..tlc import MachineryError
from pony.orm import core, sqltranslation
from pony.orm.core import db_session, select, desc, Optional, PrimaryKey

LEVEL = 'exploration'

GROUPS = [['ent', 'nest2'], ['v', 's', 'subchain'], ['vs', 'idv', 'nest1', 'p', 'day']]      # one TLC run each, in parallel
GROUPS_THOROUGH = [['deep-ent'], ['deep-v', 'deep-vs']]                          # three methods before the terminal

SIGNATURES = {
    'nodist': 'C24:order_by:drops-inferred-distinct',
    'merged': 'C24:sublimit:outer-clauses-applied-before-inner-limit',
    'countsql': 'C24:count:non-entity-query-counts-first-column-sql-style',
    'aggexpl': 'C24:aggregate:explicit-distinct-ignored',
    'delnolimit': 'C24:sublimit:bulk-delete-ignores-limit',
}
SIG_ASSERT = 'C24:sublimit:aggregate-assertion-error'
SIG_KWSUB = 'C24:subquery:kwargs-filtered-source-KeyError'
REFUSALS = (core.TranslationError, NotImplementedError)       # explicit "cannot translate this" answers
UNSUPPORTED = (TypeError, core.TranslationError, NotImplementedError)
AGGREGATES = ('count', 'sum', 'avg', 'min', 'max', 'gconcat')


# ---------------------------------------------------------------------------------------------------
# values
def opt(x):
    """spec bound -> Python (None == -1)"""
    return None if x == -1 else x


def enc_opt(x):
    return {'n': 1, 'v': 0} if x is None else {'n': 0, 'v': x}


class Data:
    def __init__(self, table, letters):
        self.letters = letters
        self.rows = [(r['id'], self.val(r['v']), self.val(r['s']), self.val(r['p']), self.val(r['day'])) for r in table]

    def val(self, x):
        if x == -1:
            return None
        if x >= 200000:
            return datetime.date(2020, 1, 1) + datetime.timedelta(days=x - 200000)
        if x >= 100000:
            return decimal.Decimal(x - 100000) / 100
        if x > 1000:
            return self.letters[x - 1001]
        return x

    def item(self, it):
        return tuple(self.val(x) for x in it)

    def items(self, its):
        return [self.item(it) for it in its]


def make_db(data):
    db = core.Database()

    class A(db.Entity):
        id = PrimaryKey(int)
        v = Optional(int)
        s = Optional(str, nullable=True)
        p = Optional(decimal.Decimal, 10, 2)
        day = Optional(datetime.date)
    db.bind('sqlite', ':memory:')
    db.generate_mapping(create_tables=True)
    with db_session:
        for i, v, s, p, day in data.rows:
            A(id=i, v=v, s=s, p=p, day=day)
    return db


# ---------------------------------------------------------------------------------------------------
# abstract chain -> the real Query methods
def base_query(A, proj):
    if proj == 'ent':
        return select(a for a in A)
    if proj == 'v':
        return select(a.v for a in A)
    if proj == 's':
        return select(a.s for a in A)
    if proj == 'p':
        return select(a.p for a in A)
    if proj == 'day':
        return select(a.day for a in A)
    if proj == 'vs':
        return select((a.v, a.s) for a in A)
    if proj == 'idv':
        return select((a.id, a.v) for a in A)
    raise MachineryError('unknown base query %r' % proj)


def sub1(q, l, o):
    return select(x for x in q.limit(l, o))


def sub2(q, l, o):
    return select(y for y in q.limit(l, o))


FILTER_GT1 = {'ent': lambda a: a.v > 1, 'v': lambda v: v > 1, 'vs': lambda v, s: v > 1, 'idv': lambda i, v: v > 1}
WHERE = {
    ('sa', 0): lambda a: a.s == 'a', ('sa', 1): lambda x: x.s == 'a', ('sa', 2): lambda y: y.s == 'a',
    ('v9', 0): lambda a: a.v == 9, ('v9', 1): lambda x: x.v == 9, ('v9', 2): lambda y: y.v == 9,
    ('v100', 0): lambda a: a.v == 100, ('v100', 1): lambda x: x.v == 100, ('v100', 2): lambda y: y.v == 100,
}
WHERESTR = {0: 'a.v < 9', 1: 'x.v < 9', 2: 'y.v < 9'}
KW = {'v7': {'v': 7}, 'vnone': {'v': None}}


def apply_step(A, proj, q, depth, st):
    op, p = st['op'], st['p']
    if op == 'filter':
        return q.filter(FILTER_GT1[proj])
    if op == 'where':
        return q.where(WHERE[p, depth])
    if op == 'wherestr':
        return q.where(WHERESTR[depth])
    if op == 'kw':
        return q.filter(**KW[p]) if proj == 'ent' else q.where(**KW[p])
    if op == 'order':
        if p == 'n1': return q.order_by(1)
        if p == 'n-1': return q.order_by(-1)
        if p == 'n12': return q.order_by(1, 2)
        if p == 'n-2-1': return q.order_by(-2, -1)
        if p == 'a_v_id': return q.order_by(A.v, A.id)
        if p == 'a_dv_id': return q.order_by(desc(A.v), A.id)
        if p == 'a_did': return q.order_by(desc(A.id))
        if p == 'l_v': return q.order_by(lambda a: a.v)
        if p == 'l_s_did': return q.order_by(lambda a: (a.s, desc(a.id)))
    if op == 'noorder':
        return q.order_by(None)
    if op == 'distinct':
        return q.distinct()
    if op == 'nodistinct':
        return q.without_distinct()
    if op == 'sub':
        return (sub1, sub2)[depth](q, opt(st['l']), opt(st['o']))
    raise MachineryError('unknown step %r' % (st,))


def build(A, proj, steps):
    q = base_query(A, proj)
    depth = 0
    for st in steps:
        q = apply_step(A, proj, q, depth, st)
        if st['op'] == 'sub':
            depth += 1
    return q


def norm_item(proj, x):
    if proj == 'ent':
        return (x.id,) if x is not None else None
    if proj in ('v', 's', 'p', 'day'):
        return (x,)
    return tuple(x)


def norm_items(proj, xs):
    return [norm_item(proj, x) for x in xs]


DIST = {'none': None, 'yes': True, 'no': False}


def run_terminal(db, A, proj, q, t):
    """-> a tagged actual outcome"""
    op, a, b, d = t['op'], t['a'], t['b'], DIST[t['d']]
    if op == 'fetch': return ('items', norm_items(proj, q[:]))
    if op == 'iter': return ('items', norm_items(proj, list(q)))
    if op == 'len': return ('value', len(q))
    if op == 'slice': return ('items', norm_items(proj, q[opt(a):opt(b)]))
    if op == 'limit': return ('items', norm_items(proj, list(q.limit(opt(a), opt(b)))))
    if op == 'page': return ('items', norm_items(proj, list(q.page(a, b))))
    if op == 'exists': return ('value', q.exists())
    if op == 'get':
        r = q.get()
        return ('none',) if r is None else ('item', norm_item(proj, r))
    if op == 'first':
        r = q.first()
        return ('none',) if r is None else ('item', norm_item(proj, r))
    if op == 'random': return ('items', norm_items(proj, q.random(a)))
    if op == 'count': return ('value', q.count(distinct=d))
    if op == 'sum': return ('value', q.sum(distinct=d))
    if op == 'avg': return ('value', q.avg(distinct=d))
    if op == 'min': return ('value', q.min())
    if op == 'max': return ('value', q.max())
    if op == 'gconcat': return ('value', q.group_concat('|' if a else None, distinct=d))
    if op == 'insub':
        return ('items', norm_items('ent', select(z for z in A if z in q.limit(opt(a), opt(b)))[:]))
    if op == 'delete':
        try:
            n = q.delete(bulk=True if a else None)
            core.flush()
            rest = [(i,) for (i,) in db.get_connection().execute('select id from A order by id').fetchall()]
            return ('delete', n, rest)
        finally:
            core.rollback()
    raise MachineryError('unknown terminal %r' % (t,))


# ---------------------------------------------------------------------------------------------------
# comparison of an actual outcome with an expected one (up to the freedom the expected outcome states)
def typed(x):
    """a value together with its type (Decimal('36.5') == 36.5 and '2020-01-15' are not what a date/Decimal query returns)"""
    if isinstance(x, (tuple, list)):
        return tuple(typed(y) for y in x)
    return (type(x).__name__, x)


def bag(xs):
    return collections.Counter(typed(x) for x in xs)


def matches(data, exp, act):
    k = exp['k']
    if act[0] == 'exc':
        if k == 'err':
            return type(act[1]).__name__ == exp['e']
        if k == 'unsupported':
            return isinstance(act[1], UNSUPPORTED)
        return False
    if k == 'unsupported':
        return True          # Pony gave an answer where only a refusal is documented: not judged
    if k == 'err':
        return False
    if k in ('list', 'bag', 'subbag'):
        if act[0] != 'items':
            return False
        want = data.items(exp['v'])
        if k == 'list':
            return typed(act[1]) == typed(want)
        if k == 'bag':
            return bag(act[1]) == bag(want)
        return len(act[1]) == exp['n'] and not (bag(act[1]) - bag(want))
    if k == 'none':
        # a query of values cannot tell "no row" from the value None; the spec's `none` is Python's None
        return act == ('none',) or (act[0] == 'item' and act[1] == (None,)) or (act[0] == 'value' and act[1] is None)
    if k == 'item':
        want = data.item(exp['v'][0])
        if act[0] == 'value':
            return typed((act[1],)) == typed(want) and act[1] is not None
        if act[0] == 'none':
            return want == (None,)
        return act[0] == 'item' and typed(act[1]) == typed(want)
    if k == 'oneof':
        if act[0] == 'none':
            return (None,) in data.items(exp['v'])
        return act[0] == 'item' and typed(act[1]) in [typed(x) for x in data.items(exp['v'])]
    if k == 'int':
        return act[0] == 'value' and type(act[1]) is int and act[1] == exp['n']
    if k == 'bool':
        return act[0] == 'value' and act[1] is bool(exp['n'])
    if k == 'frac':
        return act[0] == 'value' and isinstance(act[1], float) and act[1] == float(Fraction(exp['n'], exp['m']))
    if k == 'pieces':
        if act[0] != 'value' or not isinstance(act[1], str):
            return False
        sep = '|' if exp['n'] else ','
        want = [x[0] for x in data.items(exp['v'])]
        got = act[1].split(sep)
        if want and isinstance(want[0], decimal.Decimal):       # the database's text of a Decimal need not be str(Decimal)
            try:
                got = [decimal.Decimal(g) for g in got]
            except decimal.InvalidOperation:
                return False
            return bag(got) == bag(want)
        return bag(got) == bag(str(x) for x in want)
    if k == 'delete':
        return act[0] == 'delete' and act[1] == exp['n'] and [tuple(x) for x in act[2]] == data.items(exp['v'])
    raise MachineryError('unknown outcome kind %r' % k)


def show_exp(data, exp):
    k = exp['k']
    if k in ('list', 'bag', 'oneof', 'item'):
        return '%s %r' % (k, data.items(exp['v']))
    if k == 'subbag':
        return 'any %d of %r' % (exp['n'], data.items(exp['v']))
    if k == 'pieces':
        return 'join of %r' % [x[0] for x in data.items(exp['v'])]
    if k == 'frac':
        return '%d/%d' % (exp['n'], exp['m'])
    if k == 'delete':
        return 'deletes %d rows, leaves ids %r' % (exp['n'], [x[0] for x in data.items(exp['v'])])
    if k in ('int', 'bool'):
        return '%s %d' % (k, exp['n'])
    if k == 'err':
        return 'raises ' + exp['e']
    return k


def show_act(act):
    if act[0] == 'exc':
        return 'raised %s: %s' % (type(act[1]).__name__, str(act[1])[:120])
    return repr(act[1:] if len(act) > 2 else (act[1] if len(act) == 2 else None))


def show_steps(proj, steps, t):
    names = []
    for st in steps:
        if st['op'] == 'sub':
            names.append('sub(limit=%r, offset=%r)' % (opt(st['l']), opt(st['o'])))
        else:
            names.append('%s(%s)' % (st['op'], st['p']) if st['p'] else st['op'])
    term = t['op']
    if t['op'] in ('slice', 'limit', 'page', 'insub'):
        term += '(%r, %r)' % (opt(t['a']), opt(t['b']))
    elif t['op'] in ('random', 'delete', 'gconcat'):
        term += '(%r)' % t['a']
    if t['d'] != 'none':
        term += '[distinct=%s]' % t['d']
    return '%s.%s' % ('.'.join([proj] + names), term)


# ---------------------------------------------------------------------------------------------------
def self_check(ctx, env, data):
    """The environment models of the spec against CPython and the real SQLite."""
    for r in env['slices']:
        lst = list(range(1, r['n'] + 1))
        if lst[opt(r['i']):opt(r['j'])] != r['out']:
            raise MachineryError('QueryMethods.PySl disagrees with CPython on %r' % (r,))
    db = make_db(data)
    with db_session:
        con = db.get_connection()
        for r in env['order']:
            sql = 'select id from A order by %s%s, id' % (r['col'], ' desc' if r['desc'] else '')
            got = [i for (i,) in con.execute(sql).fetchall()]
            if got != r['ids']:
                raise MachineryError('QueryMethods order of NULL disagrees with SQLite: %s -> %r, spec %r' % (sql, got, r['ids']))
    db.disconnect()


class Recorder(object):
    """Stands in for a Query where only the (limit, offset) handed to _fetch matter."""
    def _fetch(self, limit=None, offset=None, lazy=False):
        return (limit, offset)


def e2_cases():
    bnd = [None, 0, 1, 2, 3, 4, 5]
    combine, fetch = [], []
    for l, o, l2, o2 in itertools.product(bnd, repeat=4):
        c = dict(l=enc_opt(l), o=enc_opt(o), l2=enc_opt(l2), o2=enc_opt(o2), ok=1, rl=enc_opt(None), ro=enc_opt(None), src=(l, o, l2, o2))
        try:
            rl, ro = sqltranslation.combine_limit_and_offset(l, o, l2, o2)
            c['rl'], c['ro'] = enc_opt(rl), enc_opt(ro)
        except Exception:
            c['ok'] = 0
        combine.append(c)
    rec = Recorder()
    calls = [('slice', lambda a, b: core.Query.__getitem__(rec, slice(a, b)), bnd, bnd),
             ('limit', lambda a, b: core.Query.limit(rec, a, b), bnd, bnd),
             ('fetch', lambda a, b: core.Query.fetch(rec, a, b), bnd, bnd),
             ('page', lambda a, b: core.Query.page(rec, a, b), [1, 2, 3, 4], [0, 1, 2, 3, 5])]
    for kind, f, A1, B1 in calls:
        for a, b in itertools.product(A1, B1):
            c = dict(kind=kind, a=enc_opt(a), b=enc_opt(b), ok=1, rl=enc_opt(None), ro=enc_opt(None), src=(kind, a, b))
            try:
                rl, ro = f(a, b)
                if not all(x is None or type(x) is int for x in (rl, ro)):
                    raise TypeError
                c['rl'], c['ro'] = enc_opt(rl), enc_opt(ro)
            except Exception:
                c['ok'] = 0
            fetch.append(c)
    return combine, fetch


def strip(cases):
    return [{k: v for k, v in c.items() if k != 'src'} for c in cases]


def run(ctx):
    # the case tables are exported by TLC in the background while E2 runs
    def export(groups):
        return tlc.evaluate('QueryMethodsTables', ctx.scratch, inputs={'tier': ctx.tier, 'groups': groups}, tag='QMT-' + groups[0])[0]
    pool = concurrent.futures.ThreadPoolExecutor(max_workers=3)
    groups = GROUPS + (GROUPS_THOROUGH if ctx.tier == 'thorough' else [])
    futures = [pool.submit(export, g) for g in groups]

    # -- E2 + environment tables in one TLC call ----------------------------------------------------
    combine, fetch = e2_cases()
    env, _ = tlc.evaluate('QueryMethodsJudge', ctx.scratch, inputs={'combine': strip(combine), 'fetch': strip(fetch)})
    data = Data(env['table'], env['letters'])
    self_check(ctx, env, data)
    for k in env['combine']:
        l, o, l2, o2 = combine[k - 1]['src']
        c = combine[k - 1]
        got = 'raised' if not c['ok'] else (opt_dec(c['rl']), opt_dec(c['ro']))
        ctx.mismatch('C24:combine_limit_and_offset:not-slice-composition',
                     'combine_limit_and_offset(%r, %r, %r, %r) -> %r does not mean R[o:][:l][o2:][:l2] for some list length <= 17' % (l, o, l2, o2, got),
                     {'mode': 'combine', 'args': [l, o, l2, o2]})
    for k in env['fetch']:
        kind, a, b = fetch[k - 1]['src']
        c = fetch[k - 1]
        got = 'raised' if not c['ok'] else (opt_dec(c['rl']), opt_dec(c['ro']))
        ctx.mismatch('C24:%s:wrong-limit-offset' % kind,
                     'Query %s(%r, %r) asks _fetch for (limit, offset) = %r, which is not that part of the list' % (kind, a, b, got),
                     {'mode': 'fetch', 'kind': kind, 'a': a, 'b': b})
    judged = env['checked']

    # -- E1: case tables from TLC, replayed into the real Query methods -----------------------------
    try:
        tables = [f.result() for f in futures]
    finally:
        pool.shutdown()

    db = make_db(data)
    stats = collections.Counter()
    nontrivial = set()
    per_op = collections.Counter()
    for group, tab in zip(groups, tables):
        if tab['table'] != env['table']:
            raise MachineryError('table differs between TLC runs')
        queries = sorted(tab['queries'], key=lambda qd: repr(qd['steps']))
        for qd in queries:
            run_query(ctx, db, data, qd, stats, nontrivial, per_op)
    db.disconnect()
    if stats['refused'] * 10 > stats['cases']:
        raise MachineryError('Pony refused %d of %d cases - the harness no longer expresses the chains' % (stats['refused'], stats['cases']))

    ctx.coverage.update({
        'evaluations': stats['cases'] + len(combine) + len(fetch),
        'distinct_nontrivial': len(nontrivial),
        'exhaustive': True,
        'rule': 'a case = (base query, chain of <= 2 (thorough: <= 3) query-to-query methods or nested limited subqueries, terminal method '
                'with its arguments), enumerated completely by TLC from QueryMethodsTables for the tier; it is non-trivial '
                'when the chain has at least one step and the full result R has at least 2 items. E2 cases: every '
                '(limit, offset, limit2, offset2) and (start, stop) over 0..5/None, each judged on lists of length 0..17',
        'queries_built': stats['queries'], 'e1_cases_compared': stats['compared'], 'e1_calls_repeated_in_session': stats['repeated'],
        'e1_cases_refused_by_pony': stats['refused'], 'e1_unsupported_accepted': stats['unsupported'],
        'e1_cases_deviating_as_recorded': stats['deviating'],
        'e2_limit_cases': len(combine), 'e2_fetch_cases': len(fetch), 'e2_points_judged': judged,
        'per_terminal': dict(per_op),
        'checker_cmd': 'tlc QueryMethodsJudge (slice laws, ASSUMEs of QueryMethods), tlc QueryMethodsTables per group',
    })
    ctx.assumptions += [
        'documented Pony rules are part of the meaning: automatic DISTINCT for queries of attribute values, not applied by '
        'sum/avg/group_concat; aggregates skip None; comparisons with None are not true',
        'SQLite sorts NULL first (validated against the real engine in this run); Python slicing model validated against CPython',
        'results whose order the query does not determine are compared as bags / sub-bags of the right size',
    ]


def opt_dec(x):
    return None if x['n'] else x['v']


def run_query(ctx, db, data, qd, stats, nontrivial, per_op):
    A = db.A
    proj, steps = qd['proj'], qd['steps']
    has_sub = any(st['op'] == 'sub' for st in steps)
    stats['queries'] += 1
    cases = sorted(qd['cases'], key=lambda c: (c['t']['op'], c['t']['a'], c['t']['b'], c['t']['d']))
    with db_session:
        try:
            q = build(A, proj, steps)
            build_exc = None
        except Exception as e:
            q, build_exc = None, e
        for c in cases:
            t, exp = c['t'], c['exp']
            stats['cases'] += 1
            per_op[t['op']] += 1
            if build_exc is not None:
                act = ('exc', build_exc)
            else:
                try:
                    act = run_terminal(db, A, proj, q, t)
                except Exception as e:
                    act = ('exc', e)
                    core.rollback()
            if steps and qd['rlen'] >= 2:
                nontrivial.add((proj, repr(steps), repr(t)))
            # every call of a method gives the answer, not only the first one in a session (per-session result cache)
            if build_exc is None and act[0] != 'exc' and t['op'] not in ('delete', 'random'):
                try:
                    again = run_terminal(db, A, proj, q, t)
                except Exception as e:
                    again = ('exc', e)
                    core.rollback()
                stats['repeated'] += 1
                if typed(again[1:]) != typed(act[1:]) or again[0] != act[0]:
                    ctx.mismatch('C24:%s:repeated-call-differs' % t['op'],
                                 '%s: the first call in the session gives %s, the same call again %s' % (show_steps(proj, steps, t), show_act(act), show_act(again)),
                                 {'mode': 'chain', 'proj': proj, 'steps': steps, 't': t, 'exp': exp, 'twice': True})
            if act[0] == 'exc' and isinstance(act[1], MachineryError):
                raise act[1]
            rep = {'mode': 'chain', 'proj': proj, 'steps': steps, 't': t, 'exp': exp}
            if exp['k'] == 'unsupported':
                stats['unsupported'] += 1
            if matches(data, exp, act):
                stats['compared'] += 1
                if len(steps) >= 2 and qd['rlen'] >= 3 and stats['sampled-' + t['op']] == 0 and exp['k'] != 'unsupported' \
                        and {st['op'] for st in steps} & {'order', 'sub'} and {st['op'] for st in steps} & {'filter', 'where', 'kw', 'sub'}:
                    stats['sampled-' + t['op']] = 1
                    ctx.sample({'chain': show_steps(proj, steps, t), 'expected': show_exp(data, exp), 'pony': show_act(act)}, limit=20)
                continue
            what = '%s: Pony %s; list semantics: %s' % (show_steps(proj, steps, t), show_act(act), show_exp(data, exp))
            if act[0] == 'exc' and isinstance(act[1], REFUSALS):
                stats['refused'] += 1          # "cannot translate" instead of an answer: accepted
                continue
            stats['compared'] += 1
            if act[0] == 'exc' and isinstance(act[1], AssertionError) and has_sub and t['op'] in AGGREGATES:
                stats['deviating'] += 1
                ctx.mismatch(SIG_ASSERT, what, rep)
                continue
            kw_then_sub = t['op'] == 'insub' and any(st['op'] == 'kw' for st in steps) or \
                any(st['op'] == 'kw' and any(s2['op'] == 'sub' for s2 in steps[k + 1:]) for k, st in enumerate(steps))
            if act[0] == 'exc' and isinstance(act[1], KeyError) and kw_then_sub:
                stats['deviating'] += 1
                ctx.mismatch(SIG_KWSUB, what, rep)
                continue
            hit = None
            for v in sorted(c['vars'], key=lambda v: (len(v['devs']), sorted(v['devs']))):
                if matches(data, v['out'], act):
                    hit = v
                    break
            if hit is not None:
                stats['deviating'] += 1
                for dev in sorted(hit['devs']):
                    ctx.mismatch(SIGNATURES[dev], what, rep)
            else:
                ctx.mismatch('C24:%s:%s:unexplained' % (t['op'], proj), what, rep)


def replay(ctx, rep):
    if rep['mode'] == 'combine':
        print('combine_limit_and_offset(*%r) -> %r' % (rep['args'], sqltranslation.combine_limit_and_offset(*rep['args'])))
        ctx.violations.append('replayed')
        return
    if rep['mode'] == 'fetch':
        rec = Recorder()
        f = {'slice': lambda a, b: core.Query.__getitem__(rec, slice(a, b)), 'limit': lambda a, b: core.Query.limit(rec, a, b),
             'fetch': lambda a, b: core.Query.fetch(rec, a, b), 'page': lambda a, b: core.Query.page(rec, a, b)}[rep['kind']]
        print('%s(%r, %r) -> (limit, offset) = %r' % (rep['kind'], rep['a'], rep['b'], f(rep['a'], rep['b'])))
        ctx.violations.append('replayed')
        return
    env, _ = tlc.evaluate('QueryMethodsJudge', ctx.scratch, inputs={'combine': [], 'fetch': []})
    data = Data(env['table'], env['letters'])
    db = make_db(data)
    core.sql_debug(True)
    with db_session:
        try:
            q = build(db.A, rep['proj'], rep['steps'])
            act = run_terminal(db, db.A, rep['proj'], q, rep['t'])
            again = run_terminal(db, db.A, rep['proj'], q, rep['t']) if rep.get('twice') else act
        except Exception as e:
            act = again = ('exc', e)
    core.sql_debug(False)
    print('table A(id, v, s, p, day): %r' % (data.rows,))
    if rep.get('twice'):
        print('the same call again in the same session: %s' % show_act(again))
        if act[0] != 'exc' and (again[0] != act[0] or typed(again[1:]) != typed(act[1:])):
            ctx.violations.append('replayed')
    print('%s\n  Pony: %s\n  list semantics: %s' % (show_steps(rep['proj'], rep['steps'], rep['t']), show_act(act), show_exp(data, rep['exp'])))
    if not matches(data, rep['exp'], act):
        ctx.violations.append('replayed')
