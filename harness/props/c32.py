"""C32 - objects from a finished session are read-only snapshots.

spec/PonyDetached.tla follows one object through a db_session (obtained as an unloaded reference, by lookup or by
creation; read, assigned, collection iterated; session ended by commit, rollback or exception; strict or not) and
beyond its end. TLC checks exhaustively that nothing changes the database after the end and that every write-like
operation is refused. The behaviours of the exported state graph are replayed on the real ORM (file-backed
SQLite): every detached read must return the specification's snapshot value or raise DatabaseSessionIsOver exactly
where the specification says so, and after every detached operation the database file is compared with the
specification's committed rows through an independent connection.
"""
import random
import sqlite3
import sys

from .. import tlc
from ..tlc import MachineryError
from pony.orm import core
from pony.orm.core import Database, PrimaryKey, Optional, Set, db_session, rollback

LEVEL = 'model_checking'


def cfg(level):
    return ('INIT Init\nNEXT Next\nCONSTANT MaxLevel = %d\nCONSTRAINT Bounded\nCHECK_DEADLOCK FALSE\n'
            'INVARIANT WritesAlwaysRefused\nINVARIANT StrictHidesEverything\nACTION_CONSTRAINT StepProps\n' % level)


class Boom(Exception):
    pass


class World:
    def __init__(self, path):
        self.path = path
        db = self.db = Database()

        class A(db.Entity):
            _table_ = 'ta'
            id = PrimaryKey(int)
            v = Optional(int)
            bs = Set('B')

        class B(db.Entity):
            _table_ = 'tb'
            id = PrimaryKey(int)
            a = Optional(A, column='a_id')

        self.A, self.B = A, B
        db.bind('sqlite', path, create_db=True)
        db.generate_mapping(create_tables=True)

    def reset(self):
        self.db.disconnect()
        con = sqlite3.connect(self.path, isolation_level=None)
        con.execute('PRAGMA foreign_keys=ON')
        con.execute('BEGIN')
        con.execute('DELETE FROM tb')
        con.execute('DELETE FROM ta')
        con.execute('INSERT INTO ta (id, v) VALUES (1, 1)')
        con.execute('INSERT INTO tb (id, a_id) VALUES (1, 1)')
        con.execute('INSERT INTO tb (id, a_id) VALUES (2, 1)')
        con.execute('COMMIT')
        con.close()

    def dump(self):
        con = sqlite3.connect(self.path)
        rows = dict(con.execute('SELECT id, v FROM ta'))
        kids = sorted(con.execute('SELECT id, a_id FROM tb WHERE id < 3'))
        con.close()
        return (rows.get(1) or 0, (rows[2] or 0) if 2 in rows else -1), kids


def outcome(fn):
    try:
        return 'ok', fn()
    except core.DatabaseSessionIsOver:
        return 'Over', None
    except (core.OrmError, core.DBException, TypeError, ValueError, AttributeError, AssertionError) as e:
        return 'Other:' + type(e).__name__, None


def execute(w, st, ev):
    """Execute one action; return (outcome, returned set)."""
    op, x = ev['op'], ev['x']
    val = x or None
    if op == 'Begin':
        if x & 2:
            # the session is a @db_session generator function; every call below runs inside it, between two yields
            @db_session(strict=bool(x & 1))
            def session_gen():
                result = None
                while True:
                    cmd = yield result
                    if cmd is None:
                        return
                    result = cmd()
            st['gen'] = session_gen()
            next(st['gen'])
        else:
            st['s'] = db_session(strict=bool(x & 1))
            st['s'].__enter__()
        return 'ok', set()

    def inside(f):
        return st['gen'].send(f) if 'gen' in st else f()
    if op == 'ObtainSeed':
        def f():
            st['b'] = w.B[1]
            st['o'] = st['b'].a
        inside(f)
        return 'ok', set()
    if op == 'ObtainLoaded':
        def f():
            st['o'] = w.A[1]
            st['b'] = w.B[2]
        inside(f)
        return 'ok', set()
    if op == 'ObtainCreated':
        st['o'] = w.A(id=2, v=val)
        st['b'] = w.B(id=3)        # no database access: a session may end without ever having had a connection
        return 'ok', set()
    if op == 'ReadV':
        return 'ok', {inside(lambda: st['o'].v) or 0}
    if op == 'SetV':
        st['o'].v = val
        return 'ok', set()
    if op == 'ReadColl':
        return 'ok', inside(lambda: {b.id for b in st['o'].bs})
    if op == 'End' and 'gen' in st:
        g = st.pop('gen')
        if x == 0:
            try:
                g.send(None)
            except StopIteration:
                pass
        else:
            g.close()
        return 'ok', set()
    if op == 'End':
        s = st.pop('s')
        if x == 0:
            s.__exit__(None, None, None)
        elif x == 1:
            rollback()
            s.__exit__(None, None, None)
        elif x == 3:
            # the database refuses the COMMIT: a deferred foreign key check fails on an orphan row written in this session
            w.db.execute('PRAGMA defer_foreign_keys = ON')
            w.db.execute('INSERT INTO tb (id, a_id) VALUES (9, 99)')
            try:
                s.__exit__(None, None, None)
            except (core.DBException, core.OrmError):
                pass
            else:
                raise MachineryError('the COMMIT that was meant to fail succeeded')
        else:
            try:
                raise Boom()
            except Boom:
                s.__exit__(*sys.exc_info())
        return 'ok', set()
    o, b = st['o'], st['b']
    if op == 'D_ReadV':
        out, r = outcome(lambda: o.v)
        return out, ({r or 0} if out == 'ok' else set())
    if op == 'D_ReadPk':
        out, r = outcome(lambda: o.id)
        return out, ({r} if out == 'ok' else set())
    if op == 'D_ReadColl':
        form = st['rng'].randrange(3)
        if form == 0:
            out, r = outcome(lambda: {i.id for i in o.bs})
        elif form == 1:
            out, r = outcome(lambda: {i.id for i in o.bs.copy()})
        else:
            out, r = outcome(lambda: {i.id for i in list(o.bs)} if len(o.bs) >= 0 else None)
        return out, (r if out == 'ok' else set())
    if op == 'D_SetV':
        return outcome(lambda: setattr(o, 'v', val))[0], set()
    if op == 'D_SetKw':
        return outcome(lambda: o.set(v=val))[0], set()
    if op == 'D_Delete':
        return outcome(lambda: o.delete())[0], set()
    if op == 'D_CollAdd':
        return outcome(lambda: o.bs.add(b))[0], set()
    if op == 'D_CollRemove':
        return outcome(lambda: o.bs.remove(b))[0], set()
    if op == 'D_CollClear':
        return outcome(lambda: o.bs.clear())[0], set()
    if op == 'D_Load':
        return outcome(lambda: o.load())[0], set()
    if op == 'D_Flush':
        return outcome(lambda: o.flush())[0], set()
    raise MachineryError('unknown action %r' % op)


def run_walk(w, nodes, succ, init, rng, max_steps):
    """One behaviour; returns (trace, mismatch or None, number of detached operations checked)."""
    w.reset()
    st = {'rng': rng}
    u = init
    trace = []
    checked = 0
    try:
        for _ in range(max_steps):
            vs = succ.get(u, [])
            if not vs:
                break
            fresh = [v for v in vs if (u, v) not in run_walk.visited]
            v = rng.choice(fresh if fresh and rng.random() < 0.8 else vs)
            ev = nodes[v]['ev']
            try:
                out, ret = execute(w, st, ev)
            except MachineryError:
                raise
            except Exception as e:
                import traceback
                trace.append({'op': ev['op'], 'x': ev['x'], 'out': 'crash:' + type(e).__name__, 'ret': []})
                return trace, 'unexpected %s inside pony during %s: %s\n%s' % (type(e).__name__, ev['op'], e, traceback.format_exc()[-1200:]), checked
            trace.append({'op': ev['op'], 'x': ev['x'], 'out': out, 'ret': sorted(ret)})
            run_walk.visited.add((u, v))
            if out != ev['out'] or (out == 'ok' and set(ret) != set(ev['ret'])):
                # the specification may allow several outcomes of the same call: look for a sibling that matches
                sib = [s2 for s2 in vs if nodes[s2]['ev']['op'] == ev['op'] and nodes[s2]['ev']['x'] == ev['x']
                       and nodes[s2]['ev']['out'] == out and (out != 'ok' or set(nodes[s2]['ev']['ret']) == set(ret))]
                if sib:
                    v = sib[0]
                    ev = nodes[v]['ev']
            if out != ev['out'] or (out == 'ok' and set(ret) != set(ev['ret'])):
                return trace, '%s(%r) after %s: pony -> %s %r, specification -> %s %r' % (
                    ev['op'], ev['x'], [t['op'] for t in trace[:-1]], out, sorted(ret), ev['out'], sorted(ev['ret'])), checked
            if nodes[v]['phase'] == 'over':
                rows, kids = w.dump()
                want = tuple(nodes[v]['dbv'])
                checked += 1
                if rows != want or kids != [(1, 1), (2, 1)]:
                    return trace, 'database after %s is A=%r B=%r, specification says A=%r' % (ev['op'], rows, kids, want), checked
            u = v
        return trace, None, checked
    finally:
        s = st.pop('s', None)
        if s is not None:
            try:
                s.__exit__(Boom, Boom(), None)
            except Exception:
                pass
        g = st.pop('gen', None)
        if g is not None:
            try:
                g.close()
            except Exception:
                pass
        while core.local.db_session is not None:
            try:
                core.local.db_session.__exit__(Boom, Boom(), None)
            except Exception:
                core.local.db_session = None


run_walk.visited = set()


def run(ctx):
    quick = ctx.tier == 'quick'
    level = 7 if quick else 9
    nodes, edges, inits, res = tlc.dump_graph('PonyDetached', cfg(level), ctx.scratch, workers=4)
    succ = {}
    for s, d in edges:
        if d not in succ.setdefault(s, []):
            succ[s].append(d)
    w = World(ctx.scratch.path('db', 'detached.sqlite'))
    rng = random.Random(ctx.seed)
    run_walk.visited = set()
    nbeh = 3000 if quick else 20000
    detached_ops = 0
    nontrivial = set()
    for i in range(nbeh):
        trace, bad, checked = run_walk(w, nodes, succ, inits[0], rng, level + 1)
        detached_ops += checked
        if checked:
            nontrivial.add(tuple((t['op'], t['x']) for t in trace))
        if i < 3:
            ctx.sample(trace)
        if bad:
            ops = [t['op'] for t in trace]
            last = trace[-1]
            sig = 'C32:%s:pony=%s:begin=%s:end=%s' % (last['op'], last['out'], trace[0]['x'],
                                                      next((t['x'] for t in trace if t['op'] == 'End'), '-'))
            if ctx.mismatch(sig, bad, {'trace': trace}):
                if len(ctx.violations) >= 5:
                    break
    w.db.disconnect()
    ctx.coverage.update({
        'states': res.distinct, 'transitions': res.generated,
        'traces_validated_against_impl': nbeh,
        'graph_transitions': len(set(edges)), 'graph_transitions_replayed': len(run_walk.visited),
        'detached_operations_checked': detached_ops,
        'distinct_behaviours_with_detached_operations': len(nontrivial),
        'max_level': level,
    })
    ctx.assumptions += ['one object followed per behaviour; SQLite; snapshot semantics as stated in the property: loaded values '
                        'stay readable unless strict, everything needing the database raises DatabaseSessionIsOver']


def replay(ctx, rep):
    w = World(ctx.scratch.path('db', 'detached.sqlite'))
    w.reset()
    st = {'rng': random.Random(0)}
    for t in rep['trace']:
        out, ret = execute(w, st, t)
        print('%s(%r) -> %s %r   [recorded: %s %r]' % (t['op'], t['x'], out, sorted(ret), t['out'], t['ret']))
    ctx.violations.append('replayed')
