"""C35 - locked rows and serializable sessions cannot be overwritten concurrently.

Specification: spec/PonyOCC.tla, invariants `LockedNotOverwritten` (no UPDATE/DELETE of another session is
executed on a row while a running session holds it through get_for_update()/for_update() or has read it in a
serializable session) and `LockersHoldLock` (whoever locks owns SQLite's write transaction until it ends:
for_update => cache.immediate => acquire_lock + BEGIN IMMEDIATE), together with `NoLostUpdate` /
`FailedContributeNothing` for "no committed write of either session is lost".  Session 1 is the locking or
serializable session, the others are optimistic, immediate and non-optimistic writers; nowait / skip_locked
variants of the lookups are part of the alphabet.
Binding R on real threads (harness/sched_occ.py): blocked/ran per step (the writers must *wait*: the lock
wrapper reports the blocked acquirer), error families and committed rows are compared.
PostgreSQL/MySQL/Oracle cannot be executed here: for them only the SQL text pony generates is checked to
contain FOR UPDATE [NOWAIT | SKIP LOCKED] exactly when requested (real builders via harness/mockdb.py).
"""
from .. import mockdb
from .. import sched_occ as so
from ..tlc import MachineryError
from pony.orm import db_session, select, rollback, PrimaryKey, Required

LEVEL = 'model_checking'

LOCKER = ('GFU', 'QFU', 'R', 'W')
WRITER = ('R', 'W', 'D')
LM = ('wait', 'nowait', 'skip_locked', 'bykey')     # bykey: get_for_update(u=...) by a unique non-pk attribute


def plan(tier):
    if tier == 'quick':
        return [
            dict(name='c35-locker-vs-writer', how='graph', limit=480,
                 cfg=dict(NS=2, NO=1, MaxOps=2, Modes1=('opt', 'ser'), OpSet1=LOCKER, Modes=('opt', 'imm'),
                          OpSet=('W', 'D'), LockModes=LM)),
            # locks end with the transaction: lock, commit(), go on in the same db_session against a writer
            dict(name='c35-commit-in-the-middle', how='graph', limit=280,
                 cfg=dict(NS=2, NO=1, MaxOps=4, MaxOpsN=1, Modes1=('opt',), OpSet1=('GFU', 'CM', 'R', 'W'), Modes=('opt',),
                          OpSet=('W', 'D'), LockModes=('wait', 'bykey'))),
            dict(name='c35-3s-sim', how='simulate', num=220, depth=16,
                 cfg=dict(NS=3, NO=2, MaxOps=3, Modes1=('opt', 'ser'), OpSet1=LOCKER + ('X', 'CM'),
                          Modes=('opt', 'imm', 'ser'), OpSet=WRITER + ('GFU', 'F'), LockModes=LM)),
        ]
    return [
        dict(name='c35-locker-vs-writer', how='graph', limit=3500,
             cfg=dict(NS=2, NO=1, MaxOps=2, Modes1=('opt', 'ser'), OpSet1=LOCKER, Modes=('opt', 'imm', 'ser'),
                      OpSet=WRITER, LockModes=LM)),
        dict(name='c35-coverage', how='check', coverage=True,
             cfg=dict(NS=2, NO=1, MaxOps=2, Modes=('opt', 'imm', 'ser'), OpSet=LOCKER + ('D', 'Q', 'F', 'X'),
                      LockModes=('wait', 'nowait'))),
        # programs of 3 operations, exhaustive
        dict(name='c35-3ops', how='check',
             cfg=dict(NS=2, NO=1, MaxOps=3, Modes1=('opt', 'ser'), OpSet1=LOCKER, Modes=('opt', 'imm', 'ser'),
                      OpSet=WRITER, LockModes=('wait', 'nowait'))),
        # two rows: locking one row must not protect (or block) more than the model says
        dict(name='c35-2rows', how='check',
             cfg=dict(NS=2, NO=2, MaxOps=2, Modes1=('opt', 'ser'), OpSet1=LOCKER, Modes=('opt', 'imm'),
                      OpSet=WRITER, LockModes=('wait', 'skip_locked'))),
        dict(name='c35-2rows-replay', how='graph', limit=2500,
             cfg=dict(NS=2, NO=2, MaxOps=2, Modes1=('opt',), OpSet1=('GFU', 'W'), Modes=('opt',),
                      OpSet=('W', 'D'), LockModes=('wait',))),
        dict(name='c35-commit-in-the-middle', how='graph', limit=2000,
             cfg=dict(NS=2, NO=1, MaxOps=4, MaxOpsN=1, Modes1=('opt', 'ser'), OpSet1=('GFU', 'CM', 'R', 'W'),
                      Modes=('opt', 'imm'), OpSet=('W', 'D'), LockModes=('wait', 'bykey'))),
        # 3 sessions: one locker, two writers queueing for the lock
        dict(name='c35-3s', how='graph', limit=2500,
             cfg=dict(NS=3, NO=1, MaxOps=1, Modes1=('opt', 'ser'), OpSet1=('GFU', 'QFU', 'R'), Modes=('opt', 'imm', 'ser'),
                      OpSet=('W', 'D', 'GFU'), LockModes=('wait',))),
        dict(name='c35-3s-4ops-sim', how='simulate', num=2000, depth=26,
             cfg=dict(NS=3, NO=2, MaxOps=4, Modes1=('opt', 'ser'), OpSet1=LOCKER + ('Q', 'X', 'CM'),
                      Modes=('opt', 'imm', 'ser'), OpSet=WRITER + ('GFU', 'QFU', 'F', 'X', 'CM'), LockModes=LM)),
    ]


def _define(db):
    class T(db.Entity):
        id = PrimaryKey(int)
        a = Required(int)
        b = Required(int)


def sql_text_check(ctx):
    """FOR UPDATE [NOWAIT | SKIP LOCKED] is emitted exactly when requested (no server: text only)."""
    cases = 0
    for prov in ('postgres', 'oracle', 'mysql', 'sqlite'):
        db = mockdb.make(prov, _define)
        T = db.T
        captured = []

        def _exec_sql(sql, arguments=None, returning_id=False, start_transaction=False, captured=captured):
            captured.append(sql)
            return mockdb._Cursor()
        db._exec_sql = _exec_sql
        for lm in ('wait', 'nowait', 'skip_locked'):
            kw = so.LOCK_KW[lm]
            with db_session:
                del captured[:]
                T.get_for_update(id=1, **kw)
                texts = [('get_for_update(id=1)', captured[-1] if captured else '')]
                texts.append(('select().for_update()', select(t for t in T if t.a > 0).for_update(**kw).get_sql()))
                texts.append(('select() without for_update', select(t for t in T if t.a > 1).get_sql()))
                rollback()
            for what, sql in texts:
                cases += 1
                flat = ' '.join(sql.upper().split())
                wanted = 'without' not in what and prov != 'sqlite'
                has = {'FOR UPDATE': 'FOR UPDATE' in flat, 'NOWAIT': 'NOWAIT' in flat, 'SKIP LOCKED': 'SKIP LOCKED' in flat}
                exp = {'FOR UPDATE': wanted, 'NOWAIT': wanted and lm == 'nowait', 'SKIP LOCKED': wanted and lm == 'skip_locked'}
                if not flat:
                    raise MachineryError('no SQL captured for %s on %s' % (what, prov))
                if has != exp:
                    ctx.mismatch('C35:%s:%s:%s:for-update-text' % (prov, what.split('(')[0], lm),
                                 '%s %s [%s]: expected %r in the SQL text, got %r' % (prov, what, lm, exp, sql),
                                 {'sql_text': True, 'provider': prov, 'lock': lm})
    return cases


def run(ctx):
    so.run_plan(ctx, plan(ctx.tier))
    ctx.coverage['for_update_sql_text_cases'] = sql_text_check(ctx)
    ctx.assumptions += [
        'executed on SQLite only, where a row lock is an immediate transaction under the process-wide transaction_lock; '
        'nowait/skip_locked therefore wait like the plain form',
        'PostgreSQL/Oracle/MySQL: only the presence of FOR UPDATE [NOWAIT|SKIP LOCKED] in the generated SQL is checked; '
        'the locking behaviour of those servers is trusted',
        'writers in other processes are outside the model (SQLite would make them wait on the file lock)',
        'a lock lasts until the transaction ends: an explicit commit() releases it (cache.for_update is cleared) although the db_session goes on',
    ]


def replay(ctx, rep):
    if rep.get('sql_text'):
        sql_text_check(ctx)
        return
    so.replay_entry(ctx, rep)
