"""C12 - decided by spec/PonySession.tla: TLC checks the specification's invariants and action properties
exhaustively in the bounded model; behaviours of the exported state graph are replayed into the real ORM on
SQLite (harness/session.py) and this property's comparator decides (see harness/session_check.py)."""
from .. import session_check, session_replay

LEVEL = 'model_checking'


def run(ctx):
    session_check.run(ctx, 'C12')


def replay(ctx, rep):
    session_replay.replay(ctx, rep)
