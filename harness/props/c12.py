"""C12 - decided by spec/PonySession.tla: TLC checks the specification's invariants and action properties
exhaustively in the bounded model; behaviours of the exported state graph are replayed into the real ORM on
SQLite (harness/session.py) and this property's comparator decides (see harness/session_check.py).
spec/PonyRefresh.tla adds the refresh of cached objects by rows another transaction changed (EndsAgree)."""
from .. import session_check, session_replay, refresh_c11

LEVEL = 'model_checking'


def run(ctx):
    session_check.run(ctx, 'C12')
    quick = ctx.tier == 'quick'
    res, stats, found = refresh_c11.run(ctx, 1200 if quick else 12000, 2 if quick else 4)
    refresh_c11.report(ctx, 'C12', res, stats, found)


def replay(ctx, rep):
    if 'refresh_trace' in rep:
        refresh_c11.replay(ctx, rep)
        ctx.violations.append('replayed')
        return
    session_replay.replay(ctx, rep)
