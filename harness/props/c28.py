"""C28 - in-place changes to Json and array values are persisted; reads never mark the object.

spec/JsonDoc.tla (part 2) is a state machine (doc, committed, dirty, alias) whose steps are the mutating
methods/operators and the reads of dict and list applied to the attribute value or to a nested container,
through the attribute or through an alias taken earlier, storing a nested container moved from a second Json
attribute / a second object (Move), plus Flush, Commit and Reopen.

1. TLC model-checks the machine (invariants TypeOK, CleanIsSaved, AliasValid; action properties
   MutationMarks, ReadsArePure, CommitSaves, FailureIsNoop, ChangeIsMarked).
2. TLC generates behaviours: `-simulate` on SimSpec (bursts of 1..MaxBurst calls, each followed by a
   commit or a reopen) and an exhaustive `-dump dot` of short episodes from a few documents, covered by paths.
   Every state carries the observation record `ev` of the step that led to it.
3. Each behaviour is first executed on plain dict/list (self-check of the model of CPython's containers:
   disagreement is a machinery failure) and then replayed against a real entity on SQLite (binding R):
   after every step the Python value of the attribute and the returned value are compared with the model;
   at Commit/Reopen the row is read through an independent sqlite3 connection and must equal `doc`, UPDATE
   statements (counted by a sqlite3 Connection `factory=`) may only have been issued if a mutating call
   happened since the last commit, and a db_session in another thread / the new db_session must read `doc`.
"""
import copy
import json
import os
import queue
import sqlite3
import threading
from concurrent.futures import ThreadPoolExecutor

from .. import tlc
from ..tlc import MachineryError
from ..tlaval import to_plain
from pony.orm import core
from pony.orm.core import db_session, Optional, commit, rollback, flush
from pony.orm.ormtypes import Json, IntArray, StrArray, TrackedValue

LEVEL = 'model_checking'

KEY_ORDER = ["", " ", "1", "a", "a b", "a\"b", "a.b", "a[1]", "b", "c", "k", "x"]

ATTR = {'json': 'data', 'intarray': 'ia', 'strarray': 'sa'}

CFG = '''SPECIFICATION %(spec)s
CONSTANTS
 Scalars <- %(scalars)s
 ArgConts <- %(conts)s
 Keys <- %(keys)s
 SliceB <- %(sliceb)s
 MaxLen = %(maxlen)d
 MaxSeq = %(maxseq)d
 InitDocs <- %(docs)s
 MaxBurst = %(burst)d
 MaxCommits = %(commits)d
 Ops <- %(ops)s
 SrcDocs <- %(srcdocs)s
 MoveFrom <- %(moves)s
CHECK_DEADLOCK FALSE
'''
MC_TAIL = '''VIEW View
INVARIANTS TypeOK CleanIsSaved AliasValid
PROPERTIES MutationMarks ReadsArePure CommitSaves FailureIsNoop ChangeIsMarked SourceKept
'''


def cfg(spec='Spec', scalars='ScalarsJson', conts='ContsJson', keys='KeysAB', sliceb='SliceBMid', maxlen=3, maxseq=2,
        docs='DocsSim', burst=0, commits=0, ops='AllOps', srcdocs='SrcNone', moves='NoMoves', mc=False):
    return CFG % locals() + (MC_TAIL if mc else '')


# ---------------------------------------------------------------------------------------------------
# model values -> Python

def py(v):
    t = v['t']
    if t == 'null':
        return None
    if t == 'int':
        return v['n']
    if t == 'str':
        return v['s']
    if t == 'bool':
        return v['b']
    if t == 'float':
        return v['f'] / 10.0
    if t == 'list':
        return [py(x) for x in v['v']]
    if t == 'dict':
        return {p['k']: py(p['x']) for p in v['v']}
    raise MachineryError('unknown model value %r' % (v,))


def untracked(v):
    if isinstance(v, TrackedValue):
        return v.get_untracked()
    if isinstance(v, dict):
        return {k: untracked(x) for k, x in v.items()}
    if isinstance(v, (list, tuple)):
        return [untracked(x) for x in v]
    return v


def has_plain_container(v, top=True):
    """Is there a dict/list inside v (or v itself) that is not one of pony's tracked containers?"""
    if isinstance(v, (dict, list)):
        if not isinstance(v, TrackedValue):
            return True
        return any(has_plain_container(x, False) for x in (v.values() if isinstance(v, dict) else v))
    return False


def same(a, b):
    """Equality that keeps bool/int and list/dict apart."""
    if isinstance(a, dict) or isinstance(b, dict):
        return isinstance(a, dict) and isinstance(b, dict) and a.keys() == b.keys() and all(same(a[k], b[k]) for k in a)
    if isinstance(a, (list, tuple)) or isinstance(b, (list, tuple)):
        return isinstance(a, (list, tuple)) and isinstance(b, (list, tuple)) and len(a) == len(b) and \
            all(same(x, y) for x, y in zip(a, b))
    return type(a) is type(b) and a == b


def subs(path):
    return ''.join('[%r]' % py(e) for e in path)


def bound(b):
    return '' if b['t'] == 'null' else repr(b['n'])


LIST_SRC = {
    'setitem': '{T}[{i}] = {x}', 'setslice': '{T}[{i}:{j}] = {x}', 'delitem': 'del {T}[{i}]', 'delslice': 'del {T}[{i}:{j}]',
    'append': '{T}.append({x})', 'extend': '{T}.extend({x})', 'insert': '{T}.insert({i}, {x})', 'pop': 'r = {T}.pop()',
    'popi': 'r = {T}.pop({i})', 'remove': '{T}.remove({x})', 'sort': '{T}.sort()', 'sortrev': '{T}.sort(reverse=True)',
    'reverse': '{T}.reverse()', 'clear': '{T}.clear()', 'iadd': '{T} += {x}', 'imul': '{T} *= {i}',
    'getitem': 'r = {T}[{i}]', 'getslice': 'r = {T}[{i}:{j}]', 'len': 'r = len({T})', 'iter': 'r = [e for e in {T}]',
    'copy': 'r = {T}.copy()', 'contains': 'r = {x} in {T}', 'count': 'r = {T}.count({x})',
}
DICT_SRC = {
    'setitem': '{T}[{k}] = {x}', 'delitem': 'del {T}[{k}]', 'update': '{T}.update({x})', 'updatekw': '{T}.update({kw})',
    'updatepairs': '{T}.update({pairs})', 'setdefault': 'r = {T}.setdefault({k}, {x})', 'setdefault1': 'r = {T}.setdefault({k})',
    'pop': 'r = {T}.pop({k})', 'popd': 'r = {T}.pop({k}, {x})', 'popitem': 'r = list({T}.popitem())', 'clear': '{T}.clear()',
    'ior': '{T} |= {x}', 'getitem': 'r = {T}[{k}]', 'get': 'r = {T}.get({k})', 'getd': 'r = {T}.get({k}, {x})',
    'len': 'r = len({T})', 'iter': 'r = sorted(k for k in {T})', 'items': 'r = sorted(([k, v] for k, v in {T}.items()), key=lambda kv: kv[0])',
    'copy': 'r = {T}.copy()', 'contains': 'r = {k} in {T}',
}
RETURNS = {'pop', 'popi', 'getitem', 'getslice', 'len', 'iter', 'copy', 'contains', 'count', 'setdefault', 'setdefault1',
           'popd', 'popitem', 'get', 'getd', 'items', 'alias'}
PYNAME = {'setitem': '__setitem__', 'setslice': '__setitem__', 'delitem': '__delitem__', 'delslice': '__delitem__',
          'iadd': '__iadd__', 'imul': '__imul__', 'ior': '__ior__', 'popi': 'pop', 'popd': 'pop', 'sortrev': 'sort',
          'updatekw': 'update', 'updatepairs': 'update', 'setdefault1': 'setdefault'}
ARRAY_OVERRIDES = {'extend', 'append', 'insert', 'setitem', 'setslice'}


def target_expr(ev, attr):
    return ('x' + subs(ev['rel'])) if ev['via'] == 'alias' else ('o.%s' % attr + subs(ev['p']))


def source(ev, attr, plain=False):
    """Python statement performing the step described by ev on `o.<attr>` / on the alias `x`."""
    target = target_expr(ev, attr)
    op = ev['op']
    if op == 'alias':
        return 'x = %s; r = x' % target
    x = py(ev['x'])
    f = dict(T=target, i=bound(ev['i']), j=bound(ev['j']), k=repr(ev['k']), x=repr(x))
    if op == 'flush':
        return 'flush()'
    mv = ev.get('mv')
    if mv and mv['on']:
        # the argument is a nested container of the source attribute (of the same or of a second object)
        f['x'] = ('o.data2' if mv['from'] == 'attr2' else 'o2.data') + subs(mv['q'])
        if plain:
            f['x'] = 'deepcopy(%s)' % f['x']        # pony stores a tracked copy; the source keeps its container
    if op == 'updatekw':
        f['kw'] = ', '.join('%s=%r' % kv for kv in x.items())
    if op == 'updatepairs':
        f['pairs'] = repr(list(x.items()))
    return (LIST_SRC if ev['on'] == 'list' else DICT_SRC)[op].format(**f)


def method_name(ev, kind):
    owner = 'TrackedDict' if ev['on'] == 'dict' else \
        'TrackedArray' if kind != 'json' and ev['op'] in ARRAY_OVERRIDES else 'TrackedList'
    return '%s.%s' % (owner, PYNAME.get(ev['op'], ev['op']))


def describe(steps, attr):
    return [('%s()' % s['op']) if s['op'] in ('commit', 'reopen') else source(s, attr) for s in steps]


# ---------------------------------------------------------------------------------------------------
# execution of one step

class Holder(object):
    pass


def execute(ns, src):
    """Run one statement; returns (outcome family, returned value)."""
    ns.pop('r', None)
    try:
        exec(src, ns)
    except (IndexError, KeyError, ValueError, TypeError) as e:
        return type(e).__name__, None
    return 'ok', ns.get('r')


def check_plain(kind, behaviour):
    """The model of dict/list against CPython: the same statements on plain containers."""
    attr = ATTR[kind]
    o = Holder()
    setattr(o, attr, py(behaviour[0]['doc']))
    o2 = Holder()
    o.data2 = py(behaviour[0]['src'])
    o2.data = py(behaviour[0]['src'])
    ns = {'o': o, 'o2': o2, 'deepcopy': copy.deepcopy}
    for st in behaviour[1:]:
        ev = st['ev']
        if ev['op'] in ('commit', 'reopen', 'flush'):
            continue
        src = source(ev, attr, plain=True)
        out, ret = execute(ns, src)
        if out != ev['out'] or not same(getattr(o, attr), py(st['doc'])) or \
                (out == 'ok' and ev['op'] in RETURNS and not same(ret, py(ev['ret']))):
            raise MachineryError('JsonDoc.tla disagrees with CPython on %r: model %r -> %r returning %r, CPython %r -> %r returning %r'
                                 % (src, ev['out'], py(st['doc']), py(ev['ret']), out, getattr(o, attr), ret))
        if ev['via'] == 'attr' and ev['op'] in ('iadd', 'imul', 'ior') and 'x' in ns and not st['alias']['on']:
            ns.pop('x')       # the model forgot the alias: pony stores a copy there


# ---------------------------------------------------------------------------------------------------
# the database under test

class Env(object):
    """One SQLite file, one entity with a Json, an IntArray and a StrArray attribute, a statement log, an
    independent sqlite3 connection, and a second thread that reads through its own db_session."""

    def __init__(self, ctx, name='c28.sqlite'):
        self.path = ctx.scratch.path('db', name)
        if os.path.exists(self.path):
            os.remove(self.path)
        log = self.log = []

        class Cursor(sqlite3.Cursor):
            def execute(self, sql, *a):
                log.append(sql)
                return sqlite3.Cursor.execute(self, sql, *a)

            def executemany(self, sql, *a):
                log.append(sql)
                return sqlite3.Cursor.executemany(self, sql, *a)

        class Connection(sqlite3.Connection):
            def cursor(self, *a, **k):
                return sqlite3.Connection.cursor(self, Cursor)

            def execute(self, sql, *a):
                log.append(sql)
                return sqlite3.Connection.execute(self, sql, *a)

        db = self.db = core.Database()

        class Doc(db.Entity):
            data = Optional(Json)
            data2 = Optional(Json)      # the source attribute containers are moved from (json behaviours with moves)
            ia = Optional(IntArray)
            sa = Optional(StrArray)
        self.Doc = Doc
        db.bind('sqlite', self.path, create_db=True, factory=Connection)
        db.generate_mapping(create_tables=True)
        self.raw = sqlite3.connect(self.path, isolation_level=None)
        self.requests = queue.Queue()
        self.answers = queue.Queue()
        self.thread = threading.Thread(target=self._reader, daemon=True)
        self.thread.start()

    def _reader(self):
        while True:
            req = self.requests.get()
            if req is None:
                return
            ident, attr = req
            try:
                with db_session:
                    self.answers.put(('ok', untracked(getattr(self.Doc[ident], attr))))
            except Exception as e:       # reported by the caller
                self.answers.put(('error', repr(e)))

    def read_in_other_session(self, ident, attr):
        self.requests.put((ident, attr))
        kind, val = self.answers.get(timeout=60)
        if kind != 'ok':
            raise MachineryError('reader thread failed: %s' % val)
        return val

    def row(self, ident, attr):
        val = self.raw.execute('select "%s" from "Doc" where id = ?' % attr, (ident,)).fetchone()[0]
        return json.loads(val)

    def updates(self):
        n = sum(1 for s in self.log if s.lstrip().upper().startswith('UPDATE'))
        del self.log[:]
        return n

    def close(self):
        self.requests.put(None)
        self.thread.join(10)
        self.raw.close()
        self.db.disconnect()


class Stop(Exception):
    pass


class Replayer(object):
    def __init__(self, ctx, env, kind, verbose=False):
        self.ctx, self.env, self.kind, self.verbose = ctx, env, kind, verbose
        self.attr = ATTR[kind]
        self.stats = dict(steps=0, mutations=0, reads=0, syncs=0, refused=0, alias_calls=0,
                          direct=set(), mismatches=0)

    def say(self, *a):
        if self.verbose:
            print(*a)

    def report(self, sig, what, behaviour, upto):
        self.stats['mismatches'] += 1
        # a reopen loads the object afresh from the row: nothing before the last one matters
        start = 0
        for n in range(1, upto):
            if behaviour[n]['ev']['op'] == 'reopen':
                start = n
        init = behaviour[start]['ev']['ret'] if start else behaviour[0]['doc']
        steps = behaviour[start + 1:upto + 1]
        rep = {'kind': self.kind, 'init': init, 'src': behaviour[0].get('src'), 'steps': [s['ev'] for s in steps],
               'states': [{'doc': s['doc'], 'alias': s['alias']} for s in steps]}
        self.ctx.mismatch(sig, what + ' | in a new db_session on a stored value of %r: ' % (py(init),) +
                          '; '.join(describe(rep['steps'], self.attr)), rep)
        raise Stop()

    def run(self, behaviour):
        """behaviour: list of states (dicts with doc, alias, ev); state 0 is the initial one."""
        env, attr, Doc = self.env, self.attr, self.env.Doc
        init = py(behaviour[0]['doc'])
        self.src = py(behaviour[0]['src']) if self.kind == 'json' and behaviour[0].get('src') else None
        self.moved = None
        with db_session:
            if self.src is None:
                new = Doc(**{attr: init})
                core.flush()
            else:
                new = Doc(data=init, data2=self.src)
                second = Doc(data=self.src)
                core.flush()
                self.ident2 = second.id
            ident = new.id
        env.updates()
        if not same(env.row(ident, attr), init):
            raise MachineryError('setup: row of a new object is %r, expected %r' % (env.row(ident, attr), init))
        k = 1
        expected_on_load = behaviour[0]['doc']
        burst = []             # steps since the last commit
        try:
            while True:
                reopened = False
                with db_session:
                    o = Doc[ident]
                    val = untracked(getattr(o, attr))
                    if not same(val, py(expected_on_load)):
                        self.report('C28:%s:new-session-reads-other-value' % self.kind,
                                    'a new db_session reads %r, the committed value is %r' % (val, py(expected_on_load)),
                                    behaviour, k - 1)
                    ns = {'o': o, 'flush': flush}
                    if self.src is not None:
                        ns['o2'] = Doc[self.ident2]
                    self.plain_since = 'load' if has_plain_container(getattr(o, attr)) else None      # (attribution only)
                    self.target_tracked = {}
                    while k < len(behaviour) and not reopened:
                        st = behaviour[k]
                        ev = st['ev']
                        self.stats['steps'] += 1
                        if ev['op'] == 'commit':
                            commit()
                            self.after_sync(behaviour, k, burst, ident)
                            burst = []
                        elif ev['op'] == 'reopen':
                            reopened = True
                            expected_on_load = ev['ret']
                            continue          # leave the db_session first
                        else:
                            self.call(ns, o, behaviour, k, burst)
                            burst.append(k)
                        k += 1
                    if not reopened:
                        rollback()
                if not reopened:
                    return
                self.after_sync(behaviour, k, burst, ident)      # the db_session committed on exit
                burst = []
                k += 1
                if k >= len(behaviour):
                    # the behaviour ends with the reopen: still load the object once more
                    with db_session:
                        val = untracked(getattr(Doc[ident], attr))
                    if not same(val, py(expected_on_load)):
                        self.report('C28:%s:new-session-reads-other-value' % self.kind,
                                    'a new db_session reads %r, the committed value is %r' % (val, py(expected_on_load)),
                                    behaviour, k - 1)
                    return
        except Stop:
            return

    def call(self, ns, o, behaviour, k, burst):
        st = behaviour[k]
        ev = st['ev']
        attr = self.attr
        src = source(ev, attr)
        before = untracked(getattr(o, attr))
        self.target_tracked[k] = isinstance(eval(target_expr(ev, attr), ns), TrackedValue)
        out, ret = execute(ns, src)
        self.say('   %-50s -> %s %r' % (src, out, untracked(ret)))
        if ev['via'] == 'alias':
            self.stats['alias_calls'] += 1
        self.stats['mutations' if ev['mut'] else 'reads'] += 1
        name = method_name(ev, self.kind)
        if out == 'TypeError' and ev['out'] == 'ok' and self.kind != 'json' and ev['op'] == 'setslice':
            # TrackedArray validates the assigned value as one item and refuses slices: nothing changed, nothing to persist
            if not same(untracked(getattr(o, attr)), before):
                self.report('C28:%s:refused-but-changed' % name, '%s raised TypeError but changed the value' % src, behaviour, k)
            self.stats['refused'] += 1
            rollback()
            raise Stop()
        if out != ev['out']:
            self.report('C28:%s:outcome' % name, '%s ended with %s, the same call on a Python %s ends with %s'
                        % (src, out, ev['on'], ev['out']), behaviour, k)
        val = untracked(getattr(o, attr))
        if not same(val, py(st['doc'])):
            self.report('C28:%s:value-in-memory' % name, 'after %s the attribute value is %r, Python containers give %r'
                        % (src, val, py(st['doc'])), behaviour, k)
        if out == 'ok' and ev['op'] in RETURNS and not same(untracked(ret), py(ev['ret'])):
            self.report('C28:%s:returned-value' % name, '%s returned %r, Python containers give %r'
                        % (src, untracked(ret), py(ev['ret'])), behaviour, k)
        if ev['via'] == 'attr' and ev['op'] in ('iadd', 'imul', 'ior') and not st['alias']['on']:
            ns.pop('x', None)
        if ev.get('mv') and ev['mv']['on']:
            self.moved = k
        if self.src is not None:
            for label, cur in (('o.data2', untracked(o.data2)), ('o2.data', untracked(ns['o2'].data))):
                if not same(cur, self.src):
                    self.report('C28:%s:changes-the-attribute-its-container-was-moved-from' % name,
                                'after %s the value of %s is %r: a container stored into o.data from there earlier (%s) is still '
                                'shared with it, it must stay %r' % (src, label, cur, source(behaviour[self.moved]['ev'], attr)
                                                                   if self.moved else 'no move', self.src), behaviour, k)
        if self.plain_since is None:
            self.plain_since = k if has_plain_container(getattr(o, attr)) else None

    def after_sync(self, behaviour, k, burst, ident):
        """Observations after commit() / after the db_session was left: row, UPDATE statements, a reader."""
        ev = behaviour[k]['ev']
        attr = self.attr
        self.stats['syncs'] += 1
        n_upd = self.env.updates()
        row = self.env.row(ident, attr)
        expected = py(ev['ret'])
        self.say('   %-50s -> row %r, %d UPDATE' % (ev['op'] + '()', row, n_upd))
        steps = [behaviour[i]['ev'] for i in burst]
        if self.src is not None:
            for label, got in (('o.data2', self.env.row(ident, 'data2')), ('o2.data', self.env.row(self.ident2, 'data'))):
                if not same(got, self.src):
                    changing = [s for s in steps if s['chg']] or steps
                    self.report('C28:%s:written-to-the-attribute-its-container-was-moved-from' % method_name(changing[-1], self.kind),
                                'after %s the row of %s holds %r, nothing ever changed that attribute (%r)' % (ev['op'], label, got, self.src),
                                behaviour, k)
        if not same(row, expected):
            changing = [s for s in steps if s['chg']]
            last_k = max([i for i in burst if behaviour[i]['ev']['chg']] or [0])
            if changing and self.plain_since is not None and not self.target_tracked.get(last_k, True):
                # (attribution only) an earlier call left a plain dict/list inside the tracked value and the lost change
                # was made to that plain container
                last = changing[-1]
                if self.plain_since == 'load':
                    self.report('C28:%s:value-loaded-from-database-holds-untracked-container' % self.kind,
                                'the value loaded in a new db_session holds a plain (untracked) container; the change made by %s is not '
                                'in the database after %s: row holds %r, the attribute value is %r' % (source(last, attr), ev['op'], row, expected),
                                behaviour, k)
                culprit = behaviour[self.plain_since]['ev']
                sig = 'C28:%s:inserts-untracked-container' % method_name(culprit, self.kind)
                what = '%s stored a plain (untracked) container inside the attribute value; the later change made by %s is not in ' \
                       'the database after %s: row holds %r, the attribute value is %r' % (
                           source(culprit, attr), source(last, attr), ev['op'], row, expected)
            elif changing:
                last = changing[-1]
                sig = 'C28:%s:via-%s:not-written' % (method_name(last, self.kind), last['via'])
                what = 'the change made by %s is not in the database after %s: row holds %r, the attribute value is %r' % (
                    source(last, attr), ev['op'], row, expected)
            else:
                sig = 'C28:%s:row-differs-without-change' % self.kind
                what = 'row holds %r after %s, the attribute value is %r' % (row, ev['op'], expected)
            self.report(sig, what, behaviour, k)
        if n_upd and not ev['may']:
            ops = sorted(set(method_name(s, self.kind) if s['op'] != 'alias' else 'alias' for s in steps))
            self.report('C28:read-marks-modified:%s' % ','.join(ops),
                        '%d UPDATE statement(s) at %s although only reads happened since the last commit' % (n_upd, ev['op']),
                        behaviour, k)
        if len(burst) == 1 and steps[0]['op'] != 'alias':
            # the database was observed right after this single call
            s = steps[0]
            self.stats['direct'].add((self.kind, s['on'], s['op'], s['via'], 'nested' if s['p'] else 'top'))
        other = self.env.read_in_other_session(ident, attr)
        if not same(other, expected):
            self.report('C28:%s:new-session-reads-other-value' % self.kind,
                        'another db_session reads %r after %s, the attribute value is %r' % (other, ev['op'], expected), behaviour, k)


# ---------------------------------------------------------------------------------------------------
# behaviours from a dumped state graph

def path_cover(nodes, edges, inits):
    """Paths from initial nodes such that every edge lies on one of them (the graphs here are forests of short
    episodes, but nothing below relies on that)."""
    out = {}
    for a, b in edges:
        out.setdefault(a, []).append(b)
    pred = {}
    order = list(inits)
    seen = set(order)
    i = 0
    while i < len(order):
        a = order[i]
        i += 1
        for b in out.get(a, ()):
            if b not in seen:
                seen.add(b)
                pred[b] = a
                order.append(b)
    covered = set()
    paths = []
    for a in order:
        for b in out.get(a, ()):
            if (a, b) in covered:
                continue
            head = [a]
            while head[-1] in pred:
                head.append(pred[head[-1]])
            head.reverse()
            path = head + [b]
            covered.add((a, b))
            seen_here = set(path)
            while True:        # extend along uncovered edges
                nxt = [c for c in out.get(path[-1], ()) if (path[-1], c) not in covered and c not in seen_here]
                if not nxt:
                    break
                covered.add((path[-1], nxt[0]))
                path.append(nxt[0])
                seen_here.add(nxt[0])
            paths.append(path)
    # drop paths that are prefixes of another path's edges: every edge stays covered by construction
    return [[nodes[n] for n in p] for p in paths], len(covered)


def plain_state(st):
    return {'doc': to_plain(st['doc']), 'alias': to_plain(st['alias']), 'ev': to_plain(st['ev']), 'src': to_plain(st['src'])}


# ---------------------------------------------------------------------------------------------------

def plans(tier):
    quick = tier == 'quick'
    if quick:
        mc = [dict(scalars='ScalarsOne', conts='ContsEmpty', keys='KeysA', sliceb='SliceBSmall', maxlen=1, maxseq=1, docs='DocsMC0', srcdocs='SrcOne', moves='MovesBoth', mc=True),
              dict(scalars='ScalarsTwo', conts='ContsNone', keys='KeysA', sliceb='SliceBSmall', maxlen=2, maxseq=1, docs='DocsIntArr2', mc=True)]
    else:
        mc = [dict(scalars='ScalarsOne', conts='ContsEmpty', keys='KeysA', sliceb='SliceBSmall', maxlen=2, maxseq=1, docs='DocsMC1', srcdocs='SrcOne', moves='MovesBoth', mc=True),
              dict(scalars='ScalarsTwo', conts='ContsNone', keys='KeysA', sliceb='SliceBMid', maxlen=2, maxseq=2, docs='DocsIntArr2', mc=True)]
    sim = [
        ('json', dict(spec='SimSpec', scalars='ScalarsJson', conts='ContsJson', keys='KeysAB', sliceb='SliceBMid', maxlen=3,
                      maxseq=2, docs='DocsSim', burst=3, srcdocs='SrcJson', moves='MovesBoth'), 100 if quick else 1500, 30),
        ('intarray', dict(spec='SimSpec', scalars='ScalarsInt', conts='ContsNone', keys='KeysA', sliceb='SliceBMid', maxlen=3,
                          maxseq=2, docs='DocsIntArr', burst=3, ops='OpsNoSetSlice'), 35 if quick else 400, 30),
        ('strarray', dict(spec='SimSpec', scalars='ScalarsStr', conts='ContsNone', keys='KeysA', sliceb='SliceBMid', maxlen=3,
                          maxseq=2, docs='DocsStrArr', burst=3, ops='OpsNoSetSlice'), 35 if quick else 400, 30),
    ]
    if quick:
        graph = [
            ('json', dict(scalars='ScalarsTwo', conts='ContsEmpty', keys='KeysA', sliceb='SliceBSmall', maxlen=3, maxseq=1,
                          docs='DocsEpisode', burst=1, commits=1)),
            ('intarray', dict(scalars='ScalarsTwo', conts='ContsNone', keys='KeysA', sliceb='SliceBSmall', maxlen=3, maxseq=1,
                              docs='DocsEpisodeInt', burst=1, commits=1)),
            ('strarray', dict(scalars='ScalarsStr', conts='ContsNone', keys='KeysA', sliceb='SliceBSmall', maxlen=3, maxseq=1,
                              docs='DocsEpisodeStr', burst=1, commits=1)),
        ]
    else:
        graph = [
            ('json', dict(scalars='ScalarsTwo', conts='ContsEmpty', keys='KeysA', sliceb='SliceBMid', maxlen=3, maxseq=1,
                          docs='DocsEpisode', burst=1, commits=1)),
            ('json', dict(scalars='ScalarsOne', conts='ContsEmpty', keys='KeysA', sliceb='SliceBSmall', maxlen=2, maxseq=1,
                          docs='DocsEpisode2', burst=2, commits=1)),
            ('intarray', dict(scalars='ScalarsTwo', conts='ContsNone', keys='KeysA', sliceb='SliceBSmall', maxlen=3, maxseq=1,
                              docs='DocsEpisodeInt', burst=2, commits=1)),
            ('strarray', dict(scalars='ScalarsStr', conts='ContsNone', keys='KeysA', sliceb='SliceBMid', maxlen=3, maxseq=1,
                              docs='DocsEpisodeStr', burst=1, commits=1)),
        ]
    # moving a nested container from another Json attribute / another object, flush, change it at the new place
    graph.append(('json', dict(scalars='ScalarsOne', conts='ContsNone', keys='KeysA', sliceb='SliceBSmall', maxlen=2, maxseq=1,
                               docs='DocsMove' if quick else 'DocsMove2', burst=3, commits=1, ops='OpsMove', srcdocs='SrcOne',
                               moves='MovesBoth')))
    return mc, sim, graph


def run(ctx):
    if KEY_ORDER != sorted(KEY_ORDER):
        raise MachineryError('KeyOrder of JsonDoc.tla is not Python\'s string order')
    mc, sim, graph = plans(ctx.tier)
    workers = 4
    import time
    t0 = time.time()
    phases = {}

    # 1. the machine's own properties are model-checked side by side with the generation below
    states = transitions = 0
    env = Env(ctx)
    stats_all = {}
    behaviours_done = 0
    steps_done = 0
    plain_checked = 0
    direct = set()
    try:
        # 2. generated behaviours (TLC runs side by side, one worker each)
        def generate(job):
            how, kind, c, num, depth = job
            if how == 'mc':
                res = tlc.model_check('JsonDoc', cfg(**c), ctx.scratch, workers=1 if ctx.tier == 'quick' else 2, tag='mc%d' % num)
                return kind, how, [], res.distinct, res.generated
            if how == 'simulate':
                behaviours, res = tlc.simulate('JsonDoc', cfg(**c), ctx.scratch, num=num, depth=depth, seed=ctx.seed + 1,
                                               tag='sim-' + kind)
                return kind, how, [[plain_state(s) for s in b] for b in behaviours], 0, 0
            nodes, edges, inits, res = tlc.dump_graph('JsonDoc', cfg(**c), ctx.scratch, workers=1, tag='graph%d-%s' % (num, kind))
            paths, covered = path_cover(nodes, edges, inits)
            if covered != len(set(edges)):
                raise MachineryError('path cover misses edges: %d of %d' % (covered, len(set(edges))))
            return kind, how, [[plain_state(s) for s in p] for p in paths], res.distinct, res.generated
        todo = [('mc', 'json', m, n, 0) for n, m in enumerate(mc)] + \
            [('simulate', kind, c, num, depth) for kind, c, num, depth in sim] + \
            [('graph', kind, c, n, 0) for n, (kind, c) in enumerate(graph)]
        with ThreadPoolExecutor(max_workers=workers) as pool:
            jobs = []
            for kind, how, behaviours, d, g in pool.map(generate, todo):
                if how != 'mc':
                    jobs.append((kind, how, behaviours))
                states += d
                transitions += g
        phases['tlc'] = round(time.time() - t0, 1)
        # 3. replay
        for kind, how, behaviours in jobs:
            rp = Replayer(ctx, env, kind)
            for b in behaviours:
                if len(b) < 2:
                    continue
                check_plain(kind, b)
                plain_checked += 1
                rp.run(b)
                behaviours_done += 1
                if len(ctx.violations) >= ctx.max_violations:
                    break
            st = rp.stats
            direct |= st.pop('direct')
            stats_all['%s/%s/%d' % (kind, how, len(stats_all))] = dict(st, behaviours=len(behaviours))
            steps_done += st['steps']
            if behaviours and len(ctx.samples) < 4:
                b = behaviours[len(behaviours) // 2]
                ctx.sample({'kind': kind, 'from': how, 'start': py(b[0]['doc']), 'steps': describe([s['ev'] for s in b[1:8]], ATTR[kind])})
    finally:
        env.close()

    # every mutating operation of the alphabet must have been observed on its own (one call, then the database)
    ops_direct = {}
    for kind, on, op, via, level in direct:
        ops_direct.setdefault((kind, on, op), set()).add((via, level))
    need = [('json', 'list', o) for o in LIST_SRC if o not in ('getitem', 'getslice', 'len', 'iter', 'copy', 'contains', 'count')]
    need += [('json', 'dict', o) for o in DICT_SRC if o not in ('getitem', 'get', 'getd', 'len', 'iter', 'items', 'copy', 'contains')]
    need += [(k, 'list', o) for k in ('intarray', 'strarray') for o in ('append', 'extend', 'insert', 'pop', 'remove', 'sort',
                                                                          'reverse', 'clear', 'iadd', 'imul', 'setitem', 'delitem')]
    missing = [n for n in need if n not in ops_direct]
    if missing and not ctx.violations:      # (a run cut short by violations has not replayed everything)
        raise MachineryError('generated behaviours never observe the database directly after: %r' % (missing,))

    ctx.coverage.update({
        'states': states, 'transitions': transitions,
        'traces_validated_against_impl': behaviours_done,
        'steps_replayed': steps_done,
        'behaviours_checked_against_cpython': plain_checked,
        'operations_observed_in_isolation': len(direct),
        'per_source': stats_all,
        'phase_seconds': dict(phases, total=round(time.time() - t0, 1)),
        'checker_cmd': 'tlc JsonDoc (Spec: invariants + action properties; SimSpec -simulate; -dump dot episodes)',
    })
    ctx.assumptions += [
        'documents of nesting depth <= 2, lists of length <= 3, keys a/b, scalars 1, 2, "a", null (ints / strings for arrays)',
        'an alias is forgotten by the model when its container or the parent is re-assigned (pony stores tracked copies on assignment)',
        'whether the object is marked is observed through UPDATE statements at commit and through the row, not through pony internals',
        'slice assignment on IntArray/StrArray is refused by pony with TypeError (value unchanged): accepted, not a persistence defect',
    ]


def replay(ctx, rep):
    behaviour = [{'doc': rep['init'], 'alias': {'on': False, 'p': []}, 'ev': None, 'src': rep.get('src')}]
    for ev, st in zip(rep['steps'], rep['states']):
        behaviour.append({'doc': st['doc'], 'alias': st['alias'], 'ev': ev})
    env = Env(ctx, 'replay.sqlite')
    try:
        print('%s attribute starting as %r' % (rep['kind'], py(rep['init'])))
        Replayer(ctx, env, rep['kind'], verbose=True).run(behaviour)
    finally:
        env.close()
