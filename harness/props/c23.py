"""C23 - the loading strategy never changes the data a program observes.
The expected values of spec/PonySession.tla do not depend on how objects are loaded; the behaviours of the exported
state graph (multi-session: objects first met as unloaded references in a later session) are replayed under five
loading strategies - default, every attribute and collection lazy, prefetch() of every relation on every query,
nplus1_threshold 0 (always batch) and None (never batch) - and every observation must equal the specification's,
hence each other's."""
from .. import session, session_check, session_replay

LEVEL = 'model_checking'
SHAPES = ['o2m_req_casc', 'o2m_opt', 'o2o_opt', 'm2m']


def run(ctx):
    session_check.run(ctx, 'C23', strategies=session.STRATEGIES)


def replay(ctx, rep):
    session_replay.replay(ctx, rep)
