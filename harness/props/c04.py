"""C04 - outer-scope expressions inside a query are evaluated exactly as Python would.

E1 (case tables) on spec/PyExpr.tla: TLC exports Eval(e, env) for every tree e with at most two operator nodes over the
`wide` alphabet - i.e. every ordered pair of operator kinds nested in every operand position, which is the space in which
precedence errors live: boolean operators, not, comparisons and chains, | ^ & << >> + - * // % unary - + ~ **, conditional
expressions, lambdas-called, attribute chains, subscripts and slices, calls with keyword arguments, f-strings with
conversions, format specs and literal braces - under every assignment of its free names from a mixed value set
(None, ints, a string, a tuple, an object with attributes).

Part 1 (source regeneration): tree -> `ast` object -> the real pony.orm.asttranslation.ast2src -> compile -> eval under every
environment; the value (or exception class) must equal the table.
Part 2 (end to end): the same expression as an *external* sub-expression of a real query on an in-memory SQLite database -
`select("x.id for x in T if x.i == <expr>")` in a caller frame whose locals are the environment (string2ast, PreTranslator,
create_extractors, extractors_cache, extract_vars, get_globals_and_locals), as a generator object and as
`T.select(lambda x: x.i == <expr>)` closing over the names (decompile, closure cells) - the parameter values actually bound are captured by a sqlite3 connection `factory=` and
compared with Eval.

Self-check: Eval is compared with CPython's eval of the fully parenthesised source on every tree and environment first."""
import collections
import random
import sqlite3

from .. import pyexpr_c03 as px
from ..tlc import MachineryError
from pony.orm import asttranslation, core
from pony.orm.asttranslation import ast2src
from pony.orm.core import db_session, select, Optional

LEVEL = 'translation_validation'

VALS = 'mixed'

PLAN = {
    'quick': {'spaces': [('wide', 2)], 'parts': 4, 'random': None, 'envs_per_tree': 2, 'genform_every': 3},
    'thorough': {'spaces': [('wide', 2), ('prec', 3)], 'parts': 8, 'random': ('wide', 3000, (3, 6)), 'envs_per_tree': 4, 'genform_every': 1},
}

G = px.base_globals()
_env_cache = {}
ERR_EXAMPLES = {}

COMPOUND = ('Un', 'Bin', 'Bool', 'Cmp', 'IfExp', 'Lambda')


def envs_for(names, k):
    key = (tuple(names), k)
    if key not in _env_cache:
        plain = px.envs(list(names), k, VALS)
        _env_cache[key] = (plain, [dict(G, **env) for env in plain])
    return _env_cache[key]


# -- source features naming the known defects of ast2src -----------------------------------------------------------------------
def _is_negative_const(e):
    return e[0] == 'Const' and e[1]['t'] == 'int' and e[1]['v'] < 0


def _fstr_depth(e):
    """Nesting depth of f-strings inside replacement fields of f-strings."""
    from .c03 import _children
    inner = max([_fstr_depth(c) for c in _children(e)] or [0])
    return inner + 1 if e[0] == 'FStr' else inner


def features(e, out=None):
    """Features of the tree that name the known defects, in a fixed order of precedence."""
    from .c03 import _children
    found = set()

    def visit(x):
        k = x[0]
        kids = _children(x)
        if k == 'Sub' and x[2][0] == 'Tuple' and len(x[2][1]) == 1:
            found.add('single-element-tuple-subscript-loses-comma')
        if k == 'Call':
            f = x[1]
            while f[0] == 'Attr':
                f = f[1]
            if f[0] == 'Name' and f[1] != 'len':
                found.add('lambda-form:call-through-closure-variable-raises-NameError')
        if k in ('Attr', 'Sub', 'Slice', 'Call'):
            prim = x[1]
            if prim[0] == 'IfExp':
                found.add('conditional-expression-operand-not-parenthesised')
            elif prim[0] == 'Lambda':
                found.add('lambda-operand-not-parenthesised')
            elif prim[0] in COMPOUND or _is_negative_const(prim):
                found.add('primary-of-attribute-subscript-call-not-parenthesised')
            elif prim[0] == 'Const' and prim[1]['t'] == 'int' and k == 'Attr':
                found.add('attribute-of-int-literal')
            rest = kids[1:]
        else:
            rest = kids
        if k in ('Un', 'Bin', 'Bool', 'Cmp', 'IfExp'):
            operands = rest if k != 'IfExp' else [x[1], x[2]]       # the else-branch of a conditional expression needs no parentheses
            for c in operands:
                if c[0] == 'IfExp':
                    found.add('conditional-expression-operand-not-parenthesised')
                if c[0] == 'Lambda':
                    found.add('lambda-operand-not-parenthesised')
        if k == 'Bin' and x[1] == 'Pow' and _is_negative_const(x[2]):
            found.add('generator-form:negative-constant-base-of-power-not-parenthesised')
        if k == 'Un' and x[1] == 'Invert':
            found.add('invert-operator-crashes')
        if k == 'FStr' and len(x[1]) == 1 and x[1][0][0] == 'Fld' and not x[1][0][2] and not x[1][0][3]:
            found.add('generator-form:bare-formatted-value-loses-str-conversion')
        if k == 'FStr' and _fstr_depth(x) >= 3:
            found.add('fstring-nested-three-deep-does-not-compile')
        if k == 'FStr':
            def parts(ps):
                for p in ps:
                    if p[0] == 'Lit' and any(ch in '{}' for ch in p[1]):
                        found.add('fstring-literal-brace-not-escaped')
                    if p[0] == 'Fld':
                        if p[3]:
                            found.add('fstring-format-spec-dropped')
                            parts(p[3])
            parts(x[1])
        for c in kids:
            visit(c)
    visit(e)
    order = ['invert-operator-crashes', 'fstring-nested-three-deep-does-not-compile', 'fstring-format-spec-dropped', 'fstring-literal-brace-not-escaped',
             'conditional-expression-operand-not-parenthesised', 'lambda-operand-not-parenthesised',
             'primary-of-attribute-subscript-call-not-parenthesised', 'attribute-of-int-literal',
             'single-element-tuple-subscript-loses-comma', 'generator-form:bare-formatted-value-loses-str-conversion',
             'generator-form:negative-constant-base-of-power-not-parenthesised',
             'lambda-form:call-through-closure-variable-raises-NameError']
    return [f for f in order if f in found]


def signature(part, feats, form=None):
    feats = [f for f in feats if not (f.startswith('generator-form:') and form not in ('generator', 'lambda'))
             and not (f.startswith('lambda-form:') and form != 'lambda')]
    return 'C04:%s' % (feats[0] if feats else part + ':no-known-feature')


first_diff = px.first_diff


def table_of_code(code, envs):
    out = []
    for env in envs:
        try:
            out.append(px.norm(eval(code, env)))
        except RecursionError:
            raise
        except Exception as e:
            out.append(['e', type(e).__name__])
    return out


# -- part 1 ---------------------------------------------------------------------------------------------------------------------------
def check_regeneration(ctx, c, pts, r, names, space):
    e, k, exp = r['e'], r['k'], r['tab']
    src = px.check_renderers(e)
    plain, envs = envs_for(names, k)
    if len(envs) != len(exp):
        raise MachineryError('table of %s has %d points, expected %d' % (src, len(exp), len(envs)))
    got = table_of_code(px.compile_src(src), envs)
    i = first_diff(got, exp)
    if i is not None:
        raise MachineryError('PyExpr.Eval disagrees with CPython on %s with %s: spec %r, CPython %r' % (src, plain[i], exp[i], got[i]))
    pts['selfcheck'] += len(exp)
    c['trees'] += 1
    node = px.to_ast(e)
    rep = {'part': 'regen', 'tree': e, 'names': list(names), 'space': space}
    try:
        regenerated = ast2src(node)
    except NotImplementedError:
        c['regen_not_implemented'] += 1
        return None
    except RecursionError:
        raise
    except Exception as ex:
        c['regen_mismatch'] += 1
        ctx.mismatch(signature('ast2src', features(e)), 'ast2src fails on the tree of %s: %s: %s' % (src, type(ex).__name__, ex), rep)
        return None
    try:
        code = px.compile_src(regenerated, '<c04 regenerated>')
    except SyntaxError as ex:
        c['regen_mismatch'] += 1
        ctx.mismatch(signature('ast2src', features(e)), 'ast2src turns the tree of %s into %r, which does not compile (%s)' % (src, regenerated, ex.msg), rep)
        return None
    got = table_of_code(code, envs)
    pts['regen'] += sum(1 for x in exp if x != 'U')
    i = first_diff(got, exp)
    if i is None:
        c['regen_ok'] += 1
        if len(ctx.samples) < 3 and len(src) > 24:
            ctx.sample({'tree_source': src, 'ast2src': regenerated, 'environments_compared': len(exp)})
        return regenerated
    c['regen_mismatch'] += 1
    ctx.mismatch(signature('ast2src', features(e)), 'ast2src turns the tree of %s into %r; with %s the tree evaluates to %s, the regenerated source to %s' % (
        src, regenerated, plain[i], px.show(exp[i]), px.show(got[i])), rep)
    return regenerated


# -- part 2 ---------------------------------------------------------------------------------------------------------------------------
class Recorder(object):
    log = []


class RecCursor(sqlite3.Cursor):
    def execute(self, sql, args=()):
        Recorder.log.append((sql, tuple(args)))
        return sqlite3.Cursor.execute(self, sql, args)


class RecConnection(sqlite3.Connection):
    def cursor(self, factory=None):
        return sqlite3.Connection.cursor(self, RecCursor)


def make_db():
    db = core.Database()

    class T(db.Entity):
        i = Optional(int)
        s = Optional(str)

    db.bind('sqlite', ':memory:', factory=RecConnection)
    db.generate_mapping(create_tables=True)
    with db_session:
        for n in range(-1, 5):
            T(i=n, s='ab'[:n % 3])
    return db


def string_query(T, mk, a, b, c, _query_text):
    """The caller frame of a string query: its locals are the names the query may use."""
    return select(_query_text)[:]


_GENFORM_SRC = '''
def _make(T, mk):
    def gen(a, b, c):
        return (%s)
    return gen
'''

_LAMBDAFORM_SRC = '''
def _make(T, mk):
    def lam(a, b, c):
        return lambda x: %s
    return lam
'''


def generator_query(c, maker, env, exp_value, plain_env, T=None):
    """Run the query given as a generator object closing over a, b, c.  Returns False when the point must be skipped because the
    decompiler did not preserve the outer expression's meaning (C03's business, not C04's)."""
    from pony.orm.decompiling import decompile
    import ast
    import copy
    g = maker(env['a'], env['b'], env['c'])
    tree = decompile(g)[0]           # exceptions propagate: the query raises the same one
    try:
        if T is None:
            cond = tree.generators[0].ifs[0]
            assert len(tree.generators[0].ifs) == 1
        else:
            cond = tree          # lambda x: x.i == <expr>
        rhs = cond.comparators[-1]
        assert isinstance(cond, ast.Compare) and len(cond.comparators) == 1
        code = px.compile_expr(copy.deepcopy(rhs))
    except RecursionError:
        raise
    except Exception:
        c['e2e_generator_form_skipped_filter_not_recovered_by_decompiler'] += 1
        if T is None:
            g.close()
        return False
    try:
        got = px.norm(eval(code, dict(G, **plain_env)))
    except RecursionError:
        raise
    except Exception as ex:
        got = ['e', type(ex).__name__]
    if not px.same(got, exp_value):
        c['e2e_generator_form_skipped_decompiler_changed_meaning'] += 1
        if T is None:
            g.close()
        return False
    if T is None:
        select(g)[:]
    else:
        T.select(g)[:]
    return True


def expected_params(v):
    """(query shape, parameters that must be bound) for an expected value in compact form; None if the value is not usable
    as a query parameter (functions, objects, nested tuples)."""
    if v == 'N':
        return 'eq', ()
    if isinstance(v, (bool, int)):
        return 'eq', (v,)
    if isinstance(v, list) and v[0] == 's':
        return 'eq', (''.join(v[1:]),)
    if isinstance(v, list) and v[0] == 't' and len(v) > 1:
        items = []
        for x in v[1:]:
            if isinstance(x, (bool, int)):
                items.append(x)
            elif isinstance(x, list) and x[0] == 's':
                items.append(''.join(x[1:]))
            else:
                return None
        return 'in', tuple(items)
    return None


def bound_params(shape):
    sql, args = Recorder.log[-1]
    return args, sql


def same_params(got, want):
    return len(got) == len(want) and all(type(g) is type(w) and g == w for g, w in zip(got, want))


def pick_points(exp, count):
    """Deterministic choice of environments for one tree: points with different expected outcomes first."""
    values, errors, seen = [], [], set()
    for i, v in enumerate(exp):
        key = repr(v)
        if v == 'U' or key in seen:
            continue
        seen.add(key)
        if isinstance(v, list) and v[0] == 'e':
            errors.append(i)
        elif expected_params(v) is not None:
            values.append(i)
    chosen = values[:count]
    if errors:
        if len(chosen) == count and count > 1:
            chosen[-1] = errors[0]
        elif len(chosen) < count:
            chosen += errors[:count - len(chosen)]
    return chosen


def check_end_to_end(ctx, c, pts, db, r, names, space, plan, index):
    e, k, exp = r['e'], r['k'], r['tab']
    from .c03 import _walk
    if any(x[0] == 'Name' and x[1] == 'len' for x in _walk(e)):
        c['e2e_skipped_len_is_translated_by_pony'] += 1
        return
    src = px.to_src(e)
    plain, _ = envs_for(names, k)
    has_lambda = any(x[0] == 'Lambda' for x in _walk(e))
    T = db.T
    forms = ['string']
    every = plan['genform_every']
    if index % every == 0:
        forms.append('generator')
    if every == 1 or index % every == 1:
        forms.append('lambda')
    runners = {}
    for i in pick_points(exp, plan['envs_per_tree']):
        want = expected_params(exp[i]) if not (isinstance(exp[i], list) and exp[i][0] == 'e') else ('eq', None)
        if want is None:
            c['e2e_value_not_a_parameter'] += 1
            continue
        shape, params = want
        env = dict(a=None, b=None, c=None)
        env.update(plain[i])
        for form in forms:
            cond = 'x.i == %s' % src if shape == 'eq' else 'x.i in %s' % src
            text = 'x.id for x in T if ' + cond
            c['e2e_queries'] += 1
            del Recorder.log[:]
            try:
                with db_session:
                    if form == 'string':
                        string_query(T, px.mk, env['a'], env['b'], env['c'], text)
                    else:
                        if (form, shape) not in runners:
                            ns = {}
                            exec(_GENFORM_SRC % text if form == 'generator' else _LAMBDAFORM_SRC % cond, ns)
                            runners[(form, shape)] = ns['_make'](T, px.mk)
                        if not generator_query(c, runners[(form, shape)], env, exp[i], plain[i], T if form == 'lambda' else None):
                            c['e2e_queries'] -= 1
                            continue
                got, sql = bound_params(shape)
                outcome = 'value'
            except RecursionError:
                raise
            except Exception as ex:
                outcome, got, sql = 'error', type(ex).__name__, None
            pts['e2e'] += 1
            rep = {'part': 'e2e', 'form': form, 'tree': e, 'names': list(names), 'env_index': i, 'space': space}
            if params is None:          # Python raises here
                if outcome == 'error':
                    c['e2e_ok_error'] += 1
                else:
                    c['e2e_mismatch'] += 1
                    ctx.mismatch(signature('query', features(e), form), '%s query "%s" with %s: Python raises %s for the outer expression, pony bound %r' % (
                        form, text, plain[i], exp[i][1], got), rep)
                continue
            if outcome == 'error' and got in ('ExprEvalError', 'NameError', 'SyntaxError') and has_lambda:
                # pony does not treat an expression that contains a lambda as one outer-scope expression: it evaluates the outer-scope
                # pieces around the lambda one by one, eagerly (no short-circuit), so a piece may raise where Python would not
                # evaluate it at all - an error, not a different value
                c['e2e_error_instead_of_value_%s_in_piece_of_split_expression' % got] += 1
                continue
            if outcome == 'error' and got in ('ExprEvalError', 'NameError', 'SyntaxError'):
                # pony's own evaluation of the outer expression fails where Python yields a value: not "as Python would"
                c['e2e_mismatch'] += 1
                ctx.mismatch(signature('query', features(e), form), '%s query "%s" with %s: Python evaluates the outer expression to %s, pony\'s evaluation of it '
                             'raises %s' % (form, text, plain[i], px.show(exp[i]), got), rep)
                continue
            if outcome == 'error':
                c['e2e_error_instead_of_value_%s' % got] += 1       # accepted: the query is refused (decompiler, translator), no different value is used
                if got not in ERR_EXAMPLES:
                    ERR_EXAMPLES[got] = '%s query "%s" with %s' % (form, text, plain[i])
                continue
            if shape == 'eq' and params == ():
                ok = got == () and 'IS NULL' in sql
            else:
                ok = same_params(got, params)
            if ok:
                c['e2e_ok'] += 1
                if len(ctx.samples) < 5 and len(src) > 24:
                    ctx.sample({'query': text, 'form': form, 'caller_scope': {n: repr(v) for n, v in plain[i].items()}, 'bound_parameters': repr(got)})
            else:
                c['e2e_mismatch'] += 1
                ctx.mismatch(signature('query', features(e), form), '%s query "%s" with %s: Python evaluates the outer expression to %s, pony bound the parameters %r' % (
                    form, text, plain[i], px.show(exp[i]), got), rep)


# -- driver ------------------------------------------------------------------------------------------------------------------------------
def run(ctx):
    plan = PLAN[ctx.tier]
    c = collections.Counter()
    pts = collections.Counter()
    tlcstats = {}
    db = make_db()
    spaces = []
    index = 0
    pairs = set()

    def handle(rows, names, space):
        nonlocal index
        for r in rows:
            check_regeneration(ctx, c, pts, r, names, space)
            check_end_to_end(ctx, c, pts, db, r, names, space, plan, index)
            index += 1
            pairs.update(nesting_pairs(r['e']))

    for alpha, n in plan['spaces']:
        A = px.alphabet(ctx.scratch, alpha, tlcstats)
        before = c['trees']
        for rows in px.run_jobs(ctx.scratch, px.exprs_jobs(alpha, n, VALS, plan['parts']), tlcstats, workers=plan['parts']):
            handle(rows, A['names'], '%s/%d' % (alpha, n))
        spaces.append('Exprs(%s, %d): %d trees' % (alpha, n, c['trees'] - before))
    if plan['random']:
        alpha, count, (lo, hi) = plan['random']
        rng = random.Random(ctx.seed)
        A = px.alphabet(ctx.scratch, alpha, tlcstats)
        derivs = [px.random_deriv(rng, A, rng.randint(lo, hi)) for _ in range(count)]
        before = c['trees']
        for rows in px.run_jobs(ctx.scratch, px.derivs_jobs(alpha, derivs, VALS), tlcstats, workers=plan['parts']):
            handle(rows, A['names'], 'random %s' % alpha)
        spaces.append('seeded random trees over %s with %d..%d operator nodes: %d' % (alpha, lo, hi, c['trees'] - before))
    db.disconnect()

    ctx.coverage.update({
        'programs': c['trees'] + c['e2e_queries'],
        'disagreements_checked': pts['regen'] + pts['e2e'],
        'exhaustive': ctx.tier == 'quick',
        'trees': c['trees'],
        'regeneration_points_compared': pts['regen'],
        'regenerated_equal_everywhere': c['regen_ok'],
        'regeneration_not_implemented': c['regen_not_implemented'],
        'regeneration_mismatching_trees_all_known': c['regen_mismatch'],
        'ordered_nesting_pairs_of_node_kinds': len(pairs),
        'queries_executed': c['e2e_queries'],
        'queries_bound_expected_value': c['e2e_ok'],
        'queries_raised_where_python_raises': c['e2e_ok_error'],
        'queries_mismatching_all_known': c['e2e_mismatch'],
        'queries_error_instead_of_value': {k[len('e2e_error_instead_of_value_'):]: v for k, v in c.items() if k.startswith('e2e_error_instead_of_value_')},
        'queries_error_examples': dict(ERR_EXAMPLES),
        'queries_skipped': {k[4:]: v for k, v in c.items() if k.startswith('e2e_skipped') or k.startswith('e2e_generator_form_skipped') or k == 'e2e_value_not_a_parameter'},
        'selfcheck_points_spec_vs_cpython': pts['selfcheck'],
        'extractors_cache_entries_at_end': len(asttranslation.extractors_cache),
        'spaces': spaces,
        'tlc': tlcstats,
        'rule': 'program = one tree of the listed spaces regenerated by ast2src (compared at every assignment of its free names from '
                'the mixed value set) or one query containing it as an outer-scope expression executed on SQLite (bound parameters compared)',
        'checker_cmd': 'tlc PyExprTables (PyExpr.Eval over ExprSeq(wide, 2))',
    })
    ctx.assumptions += [
        'PyExpr.Eval is a model of CPython 3.12 validated against eval() on every tree and environment in this run',
        'points the model leaves undefined (floats, huge ints, identity of strings) are skipped',
        'NotImplementedError from ast2src, and any exception raised by a query where Python yields a value, are accepted outcomes '
        '(an error instead of a different value); counted in the evidence',
        'queries whose outer expression calls len() are not executed end to end (pony translates len itself)',
    ]


def nesting_pairs(e):
    """(parent node kind/op, operand position, child node kind/op) pairs present in a tree."""
    from .c03 import _children

    def label(x):
        if x[0] in ('Un', 'Bin', 'Bool'):
            return x[1]
        if x[0] == 'Cmp':
            return 'Cmp' + ''.join(x[2])
        return x[0]
    out = set()
    stack = [e]
    while stack:
        x = stack.pop()
        for pos, ch in enumerate(_children(x)):
            if ch[0] not in ('Name', 'Const', 'Omit'):
                out.add((label(x), pos, label(ch)))
            stack.append(ch)
    return out


def replay(ctx, rep):
    tree, names = rep['tree'], rep['names']
    rows = px.trees_rows(ctx.scratch, [tree], names, VALS, {})
    c, pts = collections.Counter(), collections.Counter()
    ctx.known = {}
    before = len(ctx.violations)
    print('expression: %s' % px.to_src(tree))
    if rep['part'] == 'regen':
        print('ast2src gives: %r' % check_regeneration(ctx, c, pts, rows[0], names, 'replay'))
    else:
        db = make_db()
        plan = dict(PLAN['thorough'], envs_per_tree=len(rows[0]['tab']))
        check_end_to_end(ctx, c, pts, db, rows[0], names, 'replay', plan, 0)
        db.disconnect()
    if len(ctx.violations) == before:
        print('no disagreement with the specification now: %s' % dict(c))
