"""C19 - connections and the SQLite transaction lock are always released.

Spec: spec/PonyTxn.tla (LockReleased, LockConsistent, ConnAccounted, NeverBlockedByDead; liveness LockEventuallyFree
and Terminates under weak fairness) checked exhaustively by TLC with -coverage.
Binding V: session shapes x a fault at every DB-API call x 1-3 threads under the stepped scheduler are executed
against the real pony code (sqlite3 connection factory + lock wrappers); every recorded trace, including the
harness's Idle observations (lock.locked(), pool.con, con.in_transaction, closed connections) and a follow-up
session in another thread, must be a behaviour of PonyTxn on which all invariants hold (spec/PonyTxnTrace.tla,
one TLC run per batch)."""
import copy
import random

from .. import tlc, txnlib, sched_txn
from ..tlc import MachineryError

LEVEL = 'model_checking'
SKIP_MC = bool(__import__('os').environ.get('VERIF_TXN_SKIP_MC'))

WINDOW_SIG = 'C19:failed-commit-or-rollback:lock-released-before-transaction-ended'
SETUP_SIG = 'C19:sqlite-connect-setup-failure:pool-keeps-unconfigured-connection'
EXPECTED_DEAD = {'LockReleaseDrop': 'SQLiteProvider.drop releases the lock only when the cache is in a transaction; that '
                                    'happens only on the reconnect path, and SQLite never reconnects (D3)',
                 'Fork': 'MaxForks = 0 in this configuration', 'Recover': 'AllowCrash = FALSE in this configuration'}


def S(form='cm', kind='opt', ops=(('create',),), end='return', **kw):
    d = dict(form=form, kind=kind, attempts=[dict(ops=[list(o) for o in ops], end=end)])
    d.update(kw)
    return d


def shapes():
    return {
        'read-only': S(ops=[('read',)]),
        'optimistic write': S(ops=[('read',), ('create',), ('link', 'a', 2)]),
        'immediate': S(kind='imm', ops=[('read',), ('create',)]),
        'serializable': S(kind='ser', ops=[('update', 3)]),
        'ddl': S(kind='ddl', ops=[('create',), ('raw',)]),
        'generator': dict(form='gen', kind='opt',
                          attempts=[dict(segments=[[['read']], [['create'], ['commit']], [['raw']]], end='return')]),
        'nested': S(ops=[('create',), ('nest', [['raw']])]),
        # additional shapes
        'decorator retry': dict(form='dec', kind='opt', retry=1, dbr=True,
                                attempts=[dict(ops=[['delete', 5]], end='return'), dict(ops=[['delete', 6]], end='return')]),
        'raising': S(kind='imm', ops=[('raw', 'insert')], end='other'),
        'explicit rollback': S(ops=[('create',), ('flush',), ('rollback',), ('read',)]),
    }


SECOND = S(ops=[('create',)])        # a later session in the same thread


def policy_of(p):
    if p[0] == 'seq':
        return sched_txn.sequential()
    if p[0] == 'switch':
        return sched_txn.stay_then_switch(set(p[1]))
    if p[0] == 'onrelease':
        return 'onrelease'
    if p[0] == 'rand':
        return sched_txn.seeded(random.Random(p[1]))
    raise AssertionError(p)


def execute(ctx, sc):
    return txnlib.run_scenario(ctx.scratch, copy.deepcopy(sc['threads']), fault=tuple(sc['fault']) if sc.get('fault') else None,
                               policy=policy_of(sc.get('policy', ['seq'])), timeout=0.3)


def scenarios(ctx, space):
    """Yield scenario descriptions (JSON-able)."""
    quick = ctx.tier == 'quick'
    rng = random.Random(ctx.seed)
    sh = shapes()
    for name in space['shapes']:
        if name not in sh:
            raise MachineryError('the spec names session shape %r, the harness has no program for it' % name)
    # -- one thread: every shape, then a later session in the same thread, a fault at every DB-API call -------
    for name, s in sh.items():
        yield dict(name=name, threads=[[s, SECOND]], fault=None, policy=['seq'], sweep=True)
    # -- two threads --------------------------------------------------------------------------------------------
    two = ['immediate', 'optimistic write', 'ddl'] if quick else ['immediate', 'optimistic write', 'ddl', 'read-only', 'generator', 'raising']
    for n1 in two:
        for n2 in two:
            base = dict(name='%s || %s' % (n1, n2), threads=[[sh[n1]], [sh[n2]]], fault=None)
            yield dict(base, policy=['seq'], sweep=not quick, preempt=True, sweep_preempt=quick and n1 == 'immediate')
    # -- the window right after release_lock(): the waiting thread goes first ------------------------------------------
    for n1, n2 in [('immediate', 'immediate'), ('optimistic write', 'raising')] + ([] if quick else [('ddl', 'immediate'), ('generator', 'nested')]):
        yield dict(name='%s || %s (switch on release)' % (n1, n2), threads=[[sh[n1]], [sh[n2]]], fault=None,
                   policy=['onrelease'], sweep=True)
    # -- three threads: seeded schedules ---------------------------------------------------------------------------
    names = list(sh)
    for i in range(6 if quick else 40):
        trio = [names[rng.randrange(len(names))] for _ in range(3)]
        yield dict(name=' || '.join(trio), threads=[[sh[t]] for t in trio], fault=None, policy=['rand', ctx.seed * 1000 + i],
                   sweep=not quick or i < 2, rand_fault=True)


def run(ctx):
    quick = ctx.tier == 'quick'
    # ---- 1. TLC on the specification itself -----------------------------------------------------------------------
    inv = txnlib.ALL_INV
    two = dict(NActors=2, NThreads=2, Forms='{"cm"}', ExcKinds='{"other"}', MaxNest=1, MaxWrites=1)
    if quick:
        runs = [('one-thread', txnlib.mc_cfg(inv, txnlib.ALL_PROP), True),
                ('two-threads-unreduced', txnlib.mc_cfg(inv, txnlib.ALL_PROP, Kinds='{"imm"}', Reduce='FALSE',
                                                        **dict(two, MaxOps=1, MaxRetry=0)), False),
                ('liveness', txnlib.mc_cfg(['TypeOK'], ['LockEventuallyFree1', 'Terminates'], spec='FairSpec1',
                                           Kinds='{"imm"}', **dict(two, MaxOps=1, ExcKinds='{}', MaxRetry=0)), False)]
    else:
        runs = [('one-thread', txnlib.mc_cfg(inv, txnlib.ALL_PROP, MaxSess=2), True),
                ('two-threads', txnlib.mc_cfg(inv, txnlib.ALL_PROP, NActors=2, NThreads=2, Forms='{"cm","gen"}',
                                              Kinds='{"opt","imm","ddl"}', ExcKinds='{"other"}', MaxNest=1), False),
                ('three-threads', txnlib.mc_cfg(inv, txnlib.ALL_PROP, NActors=3, NThreads=3, Forms='{"cm"}', Kinds='{"imm"}',
                                                ExcKinds='{"other"}', MaxNest=1, MaxWrites=1, MaxOps=1), False),
                ('two-threads-unreduced', txnlib.mc_cfg(inv, txnlib.ALL_PROP, Kinds='{"opt","imm"}', Reduce='FALSE',
                                                        **dict(two, MaxOps=1, MaxRetry=0)), False),
                ('generic-provider', txnlib.mc_cfg(inv, txnlib.ALL_PROP, Provider='"generic"'), False),
                ('liveness', txnlib.mc_cfg(['TypeOK'], ['LockEventuallyFree', 'Terminates'], spec='FairSpec',
                                           Kinds='{"opt","imm"}', **dict(two, MaxOps=1)), False),
                ('liveness-3', txnlib.mc_cfg(['TypeOK'], ['LockEventuallyFree1', 'Terminates'], spec='FairSpec1',
                                             NActors=3, NThreads=3, Forms='{"cm"}', Kinds='{"imm"}', ExcKinds='{}',
                                             MaxNest=1, MaxWrites=1, MaxOps=1, MaxRetry=0), False)]
    if SKIP_MC:
        runs = []      # development aid (mutant runs): the TLC runs on the spec do not depend on pony
    states = transitions = 0
    mc = {}
    for name, cfg, cov in runs:
        res = tlc.model_check('PonyTxn', cfg, ctx.scratch, workers=4, coverage=cov, tag='c19-' + name,
                              args=['-lncheck', 'final'] if name.startswith('liveness') else ())
        mc[name] = dict(states=res.distinct, transitions=res.generated, depth=res.depth, wall_s=round(res.wall, 1))
        states += res.distinct
        transitions += res.generated
        if cov:
            check_coverage(res)
    if not SKIP_MC:
        res = tlc.run('PonyTxn', txnlib.mc_cfg(['LockCoversTx'], Kinds='{"imm"}', **dict(two, MaxOps=1)), ctx.scratch, workers=4,
                      must_succeed=False, tag='c19-lockcovers')
        if 'LockCoversTx' not in res.violated:
            raise MachineryError('LockCoversTx is expected to be violated by PonyTxn (release before rollback after a failed '
                                 'commit); TLC did not find it:\n' + tlc._tail(res.stdout, 30))
        mc['LockCoversTx (violation expected and found)'] = dict(states=res.distinct, transitions=res.generated)
    # ---- 2. scenario space from the spec -----------------------------------------------------------------------------
    space, _ = tlc.evaluate('PonyTxnScenarios', ctx.scratch)
    # ---- 3. real executions ------------------------------------------------------------------------------------------
    items = []      # (scenario, outcome)
    kinds_hit = set()
    for sc in scenarios(ctx, space):
        if sum(1 for _, o in items if o['stuck'] and 'within' in o['stuck']) >= 3:
            break                 # workers block outside scheduling points: reported below, do not wait for every scenario
        base = execute(ctx, sc)
        items.append((sc, base))
        n = base['calls']
        ks = []
        if sc.get('sweep'):
            ks = list(range(1, n + 1))
        elif sc.get('rand_fault'):
            ks = [random.Random(sc['policy'][1]).randrange(1, n + 1)]
        for k in ks:
            f = dict(sc, fault=[k, 'fail'])
            items.append((f, execute(ctx, f)))
        if sc.get('preempt'):
            steps = len(base['schedule'])
            first = base['schedule'].count(1)
            stride = max(1, first // (3 if quick else 6))
            for s in range(2, first + 1, stride):
                p = dict(sc, policy=['switch', [s]])
                o = execute(ctx, p)
                items.append((p, o))
                if sc.get('sweep_preempt') or not quick:
                    kk = range(1, o['calls'] + 1, 3 if quick else 2)
                    for k in kk:
                        f = dict(p, fault=[k, 'fail'])
                        items.append((f, execute(ctx, f)))
    for sc, o in items:
        for a, op, sql in o['call_log']:
            kinds_hit.add(op)
    # ---- 4. binding demonstration: corrupted traces must be rejected ---------------------------------------------------
    corrupt = make_corruptions(items)
    # ---- 5. TLC validates all traces ------------------------------------------------------------------------------------
    traces = [o['trace'] for sc, o in items] + [t for what, t in corrupt]
    results = []
    tstates = 0
    B = 1500
    for i in range(0, len(traces), B):
        r, res = txnlib.validate(ctx.scratch, traces[i:i + B], tag='c19-v%d' % i)
        results += r
        tstates += res.distinct
    nreal = len(items)
    for (what, t), r in zip(corrupt, results[nreal:]):
        if r['accepted']:
            raise MachineryError('binding self-check failed: a trace with %s was accepted by PonyTxnTrace' % what)
    accepted = 0
    nontrivial = 0
    for (sc, o), r in zip(items, results[:nreal]):
        if r['soft']:
            ctx.mismatch(WINDOW_SIG, 'scenario %r fault=%r policy=%r: after event %d (%r) the transaction lock is free while connection '
                         'still has an open SQLite transaction; DB-API failures without injected fault in this run: %r' % (
                             sc['name'], o['fault_hit'], sc.get('policy'), r['soft'][0] - 1,
                             txnlib.brief(o['trace']['evs'][r['soft'][0] - 2]), o['unexpected'][:2]), replay=sc)
        if r['accepted'] and not o['stuck'] and not any(e.startswith('AssertionError') for e in o['errors'].values()):
            accepted += 1
            if sc.get('fault') or len(sc['threads']) > 1:
                nontrivial += 1
            if sc.get('fault'):
                ctx.sample({'scenario': sc['name'], 'fault': o['fault_hit'], 'events': r['len'], 'verdict': 'accepted'})
            continue
        report(ctx, sc, o, r)
    missing = {'connect', 'cursor', 'read', 'write', 'begin', 'pragma', 'commit', 'rollback', 'close'} - kinds_hit
    if missing:
        raise MachineryError('DB-API calls never reached by the scenarios: %r' % sorted(missing))
    ctx.coverage.update({
        'states': states, 'transitions': transitions, 'tlc_runs': mc,
        'traces_validated_against_impl': accepted, 'traces_executed': nreal, 'traces_with_fault_or_threads': nontrivial,
        'trace_spec_states': tstates, 'corrupted_traces_rejected': len(corrupt),
        'dbapi_call_kinds_faulted': sorted(kinds_hit),
        'actions_never_enabled_by_design': EXPECTED_DEAD,
        'checker_cmd': 'tlc PonyTxn (invariants + liveness, -coverage); tlc PonyTxnTrace (batch trace validation)',
    })
    ctx.assumptions += [
        'fault model: one DB-API call per scenario raises sqlite3.OperationalError before having any effect',
        'thread schedules: one running thread at a time, switching only at observable actions (DB-API calls, lock operations, '
        'body operations); quick tier samples two/three-thread schedules (bounded preemption, seeded)',
        'SQLite provider on file-backed databases; the generic DBAPIProvider/Pool protocol is model-checked (Provider = generic) '
        'and driven with a fake DB-API module in C36',
        'PonyTxn deviation D4: SQLitePool._connect is specified as required (close and do not pool a connection whose set-up '
        'failed); the code as written is reported as a finding']


def check_coverage(res):
    cov = txnlib.coverage_by_definition(res)
    if 'DbNext' in cov:
        cov['DbExec'] = cov.pop('DbNext')
    dead = [a for a in txnlib.OBSERVABLE_ACTIONS if not cov.get(a) and a not in EXPECTED_DEAD]
    arms, counts = txnlib.silent_label_coverage(res)
    dead += ['S_' + l for l in arms.values() if not counts.get(l)]
    if dead:
        raise MachineryError('actions of PonyTxn that never fire in the coverage run: %r' % dead)


def make_corruptions(items):
    out = []
    for sc, o in items:
        t = o['trace']
        evs = t['evs']
        if sc.get('fault') or len(sc['threads']) != 1:
            continue
        idx = [i for i, e in enumerate(evs) if e['ev'] == 'Lock' and e['op'] == 'releasing']
        idle = [i for i, e in enumerate(evs) if e['ev'] == 'Idle']
        com = [i for i, e in enumerate(evs) if e['ev'] == 'Db' and e['op'] == 'commit']
        if not (idx and idle and com):
            continue
        c1 = dict(t, evs=evs[:idx[0]] + evs[idx[0] + 1:])
        out.append(('a dropped LockReleasing event', c1))
        c2 = copy.deepcopy(t)
        c2['evs'][idle[0]]['locked'] = True
        out.append(('Idle.locked flipped to true', c2))
        c3 = copy.deepcopy(t)
        c3['evs'][com[0]]['conn'] += 1
        out.append(('a commit attributed to another connection', c3))
        c4 = copy.deepcopy(t)
        c4['evs'][idle[-1]]['pooled'] = 0
        out.append(('Idle.pooled set to none', c4))
        break
    if not out:
        raise MachineryError('no trace suitable for the corruption self-check')
    return out


def is_setup_fault(o):
    hit = o['fault_hit']
    if not hit or hit[1:] != ('exec', 'pragma'):
        return False
    k = [e for e in o['trace']['evs'] if e['a'] == hit[0] and e['ev'] == 'Db']
    for i, e in enumerate(k):
        if e['out'] == 'fail':
            prev = k[i - 1]
            prev2 = k[i - 2] if i >= 2 else prev
            return prev['op'] == 'connect' or (prev['kind'] == 'pragma' and prev2['op'] == 'connect')
    return False


def report(ctx, sc, o, r):
    evs = o['trace']['evs']
    if is_setup_fault(o) and not o['stuck']:
        ctx.mismatch(SETUP_SIG, describe(sc, o, r), replay=sc)
        return
    if o['stuck']:
        sig = 'C19:%s:fault@%s:blocked' % (sc['name'], fault_name(o))
    elif o['unexpected']:       # a DB-API call failed without injected fault and the specification does not explain it
        sig = 'C19:%s:fault@%s:spontaneous-%s-failure' % (sc['name'], fault_name(o), o['unexpected'][0][2] if o['unexpected'][0][1] == 'exec' else o['unexpected'][0][1])
    elif r['inv']:
        sig = 'C19:%s:fault@%s:%s' % (sc['name'], fault_name(o), r['inv'][1])
    else:
        fu = r['first_unmatched'] or {}
        sig = 'C19:%s:fault@%s:unmatched-%s-%s' % (sc['name'], fault_name(o), fu.get('ev'), fu.get('op') or fu.get('result'))
    ctx.mismatch(sig, describe(sc, o, r), replay=sc)


def fault_name(o):
    h = o['fault_hit']
    if not h:
        return 'none'
    return h[1] if h[1] != 'exec' else h[2]


def describe(sc, o, r):
    evs = o['trace']['evs']
    lo = max(0, r['reached'] - 6)
    window = [txnlib.brief(e) for e in evs[lo:r['reached'] + 1]]
    return ('scenario %r fault=%r policy=%r unexpected DB-API failures=%r: trace of %d events matched up to %d; invariant=%r; first unmatched event=%r; '
            'stuck=%r worker errors=%r; events before: %r' % (
                sc['name'], o['fault_hit'], sc.get('policy'), o['unexpected'][:2], r['len'], r['reached'] - 1, r['inv'],
                r['first_unmatched'] and txnlib.brief(r['first_unmatched']), o['stuck'], o['errors'], window))


def replay(ctx, rep):
    o = execute(ctx, rep)
    r, _ = txnlib.validate(ctx.scratch, [o['trace']], tag='c19-replay')
    for i, e in enumerate(o['trace']['evs'], 1):
        print('%3d %s' % (i, txnlib.brief(e)))
    print('verdict:', r[0], 'stuck:', o['stuck'], 'errors:', o['errors'])
    if not r[0]['accepted'] or o['stuck']:
        ctx.violations.append('replayed')
